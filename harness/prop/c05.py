"""C05 - LLCP connections deliver in order, exactly once, within the window.

Obligations: Props/C05.v (sliding-window invariant for both directions in every reachable state,
for all op lists / windows / MIUs; in order + exactly once; window respected across the modulo-16
wrap-around; no overflow / FRMR; EMSGSIZE; progress: a finite link/recv continuation delivers
everything) + bridge lemmas over the window computations
regenerated from tco.py.

Correspondence: two REAL nfc.llcp.tco.DataLinkConnection objects (set up by the real CONNECT/CC
handshake, every PDU through pdu.encode/decode) driven single-threaded by the same op list as the
extracted model (harness/sim/dlc_pair.py); after EVERY op the result (value / errno / PDU that
crossed, enqueue outcome) and the state (ESTABLISHED, V(S), V(SA), V(R), V(RA), recv_confs,
acks_recvd, busy modes, queue and wire lengths) are compared.  Random walks (several profiles),
histories with injected faulty PDUs (FRMR / discard / shutdown branches of the model), and
bounded-exhaustive short histories from cold and warmed-up (window full, numbers about to wrap)
states.

Monitor: an independent reference sliding-window reading of the property text on the
implementation's observable behaviour only (send / recv results and the PDUs on the wires); also
applied to a variant in which two real LogicalLinkControllers move the PDUs with
collect() / dispatch(); without aggregation that variant is also compared with the model (op
`collect` = Model.Dlc.collect1), with aggregation it is judged by the monitor only.

Blocking calls: a small threaded part runs two or three application threads doing blocking
send()/recv() on one established pair against a link thread under the deterministic scheduler
harness/sim/sched.py (default schedule, all single pre-emptions, seeded random schedules) with the
same monitor plus "no thread left blocked".  This is exploration, not proof; the wait/notify
discipline itself is C09's subject.
"""
import itertools
import logging
import sys

from common import Check

import nfc.llcp
import nfc.llcp.llc
import nfc.llcp.pdu
import nfc.llcp.tco
from nfc.llcp.err import Error as LlcpError

from sim.dlc_pair import Pair, LlcPair, other

logging.disable(logging.CRITICAL)

EMSGSIZE, EWOULDBLOCK = 90, 11
MIUS = [128, 129, 130, 200, 248, 1000, 2175]


# ---------------------------------------------------------------------------- monitor
class Monitor(object):
    """Reference sliding window, written from the property text / LLCP 1.3 section 5.6,
    fed only with what is visible outside the sockets.  Direction d = the sender's side."""

    def __init__(self, ck, cfg, case, faulty=False):
        self.ck = ck
        self.case = case                      # replay data (cfg + op list so far is added by the caller)
        rwa, miua, rwb, miub = cfg
        self.rw = {'A': rwb, 'B': rwa}        # window announced by the peer of the sender
        self.miu = {'A': miub, 'B': miua}     # MIU announced by the peer of the sender
        self.sent = {'A': [], 'B': []}        # accepted by send on side d
        self.got = {'A': [], 'B': []}         # returned by recv on the peer of d
        self.i_emitted = {'A': 0, 'B': 0}     # I PDUs put on the wire by d
        self.i_taken = {'A': 0, 'B': 0}       # I PDUs of d handed to the peer's enqueue
        self.acked = {'A': 0, 'B': 0}         # un-wrapped N(R) that has reached d (acknowledges d's I PDUs)
        self.nr_out = {'A': 0, 'B': 0}        # un-wrapped N(R) last emitted by the peer of d
        self.bad = []
        self.ops = []

    def v(self, key, what, **data):
        d = dict(self.case)
        d.update(data)
        d['ops'] = list(self.ops)
        self.bad.append(key)
        self.ck.violation(key, what, d)

    # --- application events
    def send_result(self, sd, m, out):
        if len(m) > self.miu[sd]:
            if out != 'send err LlcpError:%d' % EMSGSIZE:
                self.v('emsgsize-not-refused', 'send() of a message larger than the connection MIU was not refused with EMSGSIZE',
                       side=sd, length=len(m), miu=self.miu[sd], result=out)
        elif out == 'send err LlcpError:%d' % EMSGSIZE:
            self.v('emsgsize-spurious', 'send() refused a message within the connection MIU with EMSGSIZE',
                   side=sd, length=len(m), miu=self.miu[sd])
        elif out not in ('send ok true', 'send err LlcpError:%d' % EWOULDBLOCK):
            self.v('send-failed', 'send() on an established connection failed: ' + out, side=sd)

    def accepted(self, sd, m):
        self.sent[sd].append(bytes(m))
        if len(self.sent[sd]) - self.acked[sd] > self.rw[sd]:
            self.v('window-exceeded-send', 'send() accepted more unacknowledged messages than the receive window announced by the peer',
                   side=sd, outstanding=len(self.sent[sd]) - self.acked[sd], rw=self.rw[sd])

    def returned(self, sd, m):
        d = other(sd)
        k = len(self.got[d])
        if k >= len(self.sent[d]):
            self.v('recv-phantom', 'recv() returned a message that was never sent (duplicate or invented)', side=sd, msg=m.hex())
        elif self.sent[d][k] != m:
            self.v('recv-order', 'recv() returned a message out of sending order / altered', side=sd, index=k,
                   expected=self.sent[d][k].hex(), got=m.hex())
        self.got[d].append(m)

    def runtime_error(self, sd, cmd):
        self.v('runtime-error', '%s() raised RuntimeError on an established connection' % cmd, side=sd)

    # --- link events
    def emitted(self, sd, s):
        f = s.split(':')
        if f[0] == 'I':
            ns, nr, data = int(f[1]), int(f[2]), bytes.fromhex('' if f[3] == '-' else f[3])
            k = self.i_emitted[sd]
            if ns != k % 16:
                self.v('ns-wrong', 'I PDU leaves with N(S) that is not its position in the sending order mod 16', side=sd, ns=ns, index=k)
            if k >= len(self.sent[sd]) or self.sent[sd][k] != data:
                self.v('i-pdu-data', 'I PDU does not carry the next accepted message (loss, duplication or reordering)', side=sd, index=k)
            self.i_emitted[sd] = k + 1
            if self.i_emitted[sd] - self.acked[sd] > self.rw[sd]:
                self.v('window-exceeded-wire', 'more unacknowledged I PDUs outstanding than the receive window announced by the peer',
                       side=sd, outstanding=self.i_emitted[sd] - self.acked[sd], rw=self.rw[sd])
            self._nr_emitted(sd, nr)
        elif f[0] in ('RR', 'RNR'):
            self._nr_emitted(sd, int(f[1]))
        elif f[0] == 'FRMR':
            self.v('frmr', 'a frame reject was sent on a connection between two conforming endpoints', side=sd, pdu=s)
        else:
            self.v('foreign-pdu', 'unexpected PDU on an established connection', side=sd, pdu=s)

    def _nr_emitted(self, sd, nr):
        d = other(sd)                     # sd acknowledges the direction d -> sd
        n = self.nr_out[d] + (nr - self.nr_out[d]) % 16
        if n > self.i_taken[d]:
            self.v('nr-ahead', 'N(R) acknowledges I PDUs that have not been received (sequence numbers inconsistent)',
                   side=sd, nr=nr, unwrapped=n, received=self.i_taken[d])
        self.nr_out[d] = n

    def delivered(self, sd, s, res):
        f = s.split(':')
        d = other(sd)
        if f[0] == 'I':
            if int(f[1]) != self.i_taken[d] % 16:
                self.v('ns-out-of-sequence', 'I PDU arrives with N(S) != number of I PDUs received before mod 16', side=sd, pdu=s[:40])
            if res != 'accepted':
                self.v('i-pdu-' + res, 'an I PDU sent within the window was %s by the receiving socket' % res, side=sd, pdu=s[:40])
            self.i_taken[d] += 1
        if f[0] in ('I', 'RR', 'RNR'):
            nr = int(f[2] if f[0] == 'I' else f[1])
            n = self.acked[sd] + (nr - self.acked[sd]) % 16
            if n > self.i_emitted[sd]:
                self.v('ack-ahead', 'acknowledgement for I PDUs that were never sent', side=sd, nr=nr, unwrapped=n, sent=self.i_emitted[sd])
            self.acked[sd] = n

    def final(self):
        for d in 'AB':
            if self.got[d] != self.sent[d]:
                self.v('undelivered', 'after the link has drained, messages accepted by send() were not returned by the peer recv()',
                       side=d, sent=len(self.sent[d]), returned=len(self.got[d]))


# ---------------------------------------------------------------------------- op generation
PROFILES = {
    # weights: send, recv, busy, pollacks, deq, ack, deliver
    'balanced': (30, 20, 4, 4, 16, 6, 20),
    'saturate': (50, 8, 1, 2, 18, 2, 19),       # windows full most of the time
    'lazy-ack': (30, 25, 2, 2, 18, 0, 23),      # only piggy-backed / necessary acknowledgements
    'eager-ack': (22, 22, 2, 6, 10, 18, 20),
    'busy': (25, 18, 16, 3, 16, 4, 18),
    'one-way': (30, 20, 3, 3, 18, 6, 20),       # only A sends
}


def gen_msg(rng, cfg, sd):
    miu = cfg[3] if sd == 'A' else cfg[1]
    r = rng.random()
    if r < 0.70:
        n = rng.randint(0, 6)
    elif r < 0.85:
        n = rng.choice([miu - 1, miu, miu + 1, miu + 2, 128, 127])
    elif r < 0.95:
        n = rng.randint(7, min(miu, 300))
    else:
        n = rng.choice([miu, miu + 1, 2175, 2176]) if r > 0.98 else rng.choice([miu, miu + 1])
    return rng.getrandbits(8 * n).to_bytes(n, 'little') if n else b''


def gen_op(rng, cfg, prof):
    w = PROFILES[prof]
    k = rng.choices(range(7), weights=w)[0]
    sd = rng.choice('AB')
    if k == 0:
        if prof == 'one-way':
            sd = 'A'
        return 'send %s %s' % (sd, gen_msg(rng, cfg, sd).hex() or '-')
    if k == 1:
        return 'recv ' + sd
    if k == 2:
        return 'busy %s %d' % (sd, rng.randint(0, 1))
    if k == 3:
        return 'pollacks ' + sd
    if k == 4:
        miu = rng.choice([2175, 2175, 2175, 248, 128, 127, 3, 0])
        return 'deq %s %d %d' % (sd, miu, rng.choice([0, 0, 0, 8]))
    if k == 5:
        return 'ack ' + sd
    return 'deliver ' + sd


def gen_fault(rng, cfg):
    sd = rng.choice('AB')
    k = rng.random()
    if k < 0.5:
        n = rng.choice([0, 1, 3, cfg[1] + 1, cfg[3] + 1])
        p = 'I:%d:%d:%s' % (rng.randrange(16), rng.randrange(16), bytes(rng.randrange(256) for _ in range(n)).hex() or '-')
    elif k < 0.7:
        p = 'RR:%d' % rng.randrange(16)
    elif k < 0.85:
        p = 'RNR:%d' % rng.randrange(16)
    else:
        p = 'FRMR:%d:12:%d:%d:%d:%d:%d:%d' % tuple([rng.choice([1, 4, 8])] + [rng.randrange(16) for _ in range(6)])
    return 'inject %s %s' % (sd, p)


DRAIN = ['deq A 2175 0', 'deq B 2175 0', 'deliver A', 'deliver B', 'recv A', 'recv B', 'ack A', 'ack B']


def impl_exception(ck, run, case, ops, crashed):
    """an exception of the implementation that is not a documented outcome of the call: a concrete
    violation with the history as replay; the history is abandoned"""
    cls, opname, text = crashed
    d = dict(case)
    d['ops'] = list(ops)
    d['exception'] = '%s: %s' % (cls, text)
    ck.violation('impl-exception:%s:%s' % (cls, opname),
                 '%s raised %s on an established data link connection (history in replay)' % (opname, cls), d)
    run.dead = True
    if run.mon:
        run.mon.bad.append('impl-exception')


class Run(object):
    """one history on the real pair; collects model input lines and the implementation's observations"""

    def __init__(self, ck, cfg, kind, monitor=True):
        self.ck = ck
        self.cfg = cfg
        self.kind = kind
        self.dead = False
        self.case = {'kind': kind, 'cfg': list(cfg)}
        self.mon = Monitor(ck, cfg, self.case) if monitor else None
        self.lines = ['init %d %d %d %d' % cfg]
        self.obs = []
        try:
            self.pair = Pair(*cfg, observer=self.mon)
            self.obs = ['init | ' + self.pair.state()]
        except Exception as e:
            self.pair = None
            impl_exception(ck, self, self.case, [], (type(e).__name__, 'setup', str(e)[:200]))

    def op(self, line):
        if self.dead:
            return None
        if self.mon:
            self.mon.ops.append(line)
        out, st = self.pair.op(line)
        if self.pair.crashed:
            # the crashed step is not compared with the model; everything before it still is
            impl_exception(self.ck, self, self.case, self.lines[1:] + [line], self.pair.crashed)
            return out
        self.lines.append(line)
        self.obs.append(out + ' | ' + st)
        if self.mon and line.startswith('send'):
            w = line.split()
            self.mon.send_result(w[1], bytes.fromhex('' if w[2] == '-' else w[2]), out)
        return out

    def drain(self):
        """stop sending; let the link run until nothing moves any more"""
        for _ in range(200):
            if self.dead:
                return
            before = self.pair.state() + repr([len(self.mon.got[d]) for d in 'AB'] if self.mon else '')
            for line in DRAIN:
                self.op(line)
            if self.dead or self.pair.state() + repr([len(self.mon.got[d]) for d in 'AB'] if self.mon else '') == before:
                break
        if self.mon and not self.dead:
            self.mon.final()


# ---------------------------------------------------------------------------- LLC variant
class LlcRun(object):
    """a history on two real LogicalLinkControllers (harness/sim/dlc_pair.LlcPair): PDUs are moved by
    llc.collect() / llc.dispatch().  Always judged by the monitor; compared with the model (op
    `collect`, Model.Dlc.collect1) when aggregation is off on both sides."""

    def __init__(self, ck, cfg, link, agf):
        self.kind = 'llc-walk' if agf == (False, False) else 'llc-agf-walk'
        self.compare = agf == (False, False)
        self.ck = ck
        self.dead = False
        self.case = case = {'kind': self.kind, 'cfg': list(cfg), 'agf': list(agf), 'link_miu': list(link)}
        self.cfg = tuple(cfg)
        self.lines = ['init %d %d %d %d' % self.cfg]
        self.obs = []
        self.moved = 0
        try:
            self.pair = LlcPair(cfg[0], cfg[1], cfg[2], cfg[3], link[0], link[1], agf)
        except Exception as e:
            self.pair = None
            self.mon = Monitor(ck, self.cfg, case)
            impl_exception(ck, self, case, [], (type(e).__name__, 'setup', str(e)[:200]))
            return
        self.cfg = self.pair.cfg
        self.mon = Monitor(ck, self.cfg, case)
        self.pair.observer = self.mon
        self.lines = ['init %d %d %d %d' % self.cfg]
        self.obs = ['init | ' + self.pair.state()]

    def op(self, line):
        if self.dead:
            return
        self.mon.ops.append(line)
        w = line.split()
        if w[0] == 'xchg':          # one half of a symmetry turn: collect on w[1], dispatch at the peer
            sd = w[1]
            self._one('collect %s %d' % (sd, self.pair.link_miu[sd]))
            while self.pair.wire[sd] and not self.dead:
                self._one('deliver ' + other(sd))
        else:
            out = self._one(line)
            if w[0] == 'send' and not self.dead:
                self.mon.send_result(w[1], bytes.fromhex('' if w[2] == '-' else w[2]), out)
        for sd in 'AB':
            if self.dead:
                break
            if not self.pair.ep[sd].state.ESTABLISHED and 'left-established' not in self.mon.bad:
                self.mon.v('left-established', 'a connection left the ESTABLISHED state without close()', side=sd)

    def _one(self, line):
        out, st = self.pair.op(line)
        if self.pair.crashed:
            impl_exception(self.ck, self, self.case, self.mon.ops, self.pair.crashed)
            return out
        if out not in ('pdu none', 'deliver none', 'recv ok none', 'unit') and not out.startswith('send err') and not out.startswith('poll'):
            self.moved += 1
        self.lines.append(line)
        self.obs.append(out + ' | ' + st)
        return out

    def drain(self):
        for _ in range(1000):
            self.moved = 0
            for line in ('xchg A', 'xchg B', 'recv A', 'recv B'):
                self.op(line)
            if not self.moved or self.dead:
                break
        if not self.dead:
            self.mon.final()


def llc_walk(ck, rng, cfg, steps, agf, link=None, ops=None):
    link = link or (rng.choice([m for m in MIUS if m >= cfg[1]]), rng.choice([m for m in MIUS if m >= cfg[3]]))
    r = LlcRun(ck, cfg, link, agf)
    if ops is not None:
        for line in ops:
            r.op(line)
        return r
    for _ in range(steps):
        k = rng.random()
        sd = rng.choice('AB')
        if k < 0.35:
            r.op('send %s %s' % (sd, gen_msg(rng, r.cfg, sd).hex() or '-'))
        elif k < 0.55:
            r.op('recv ' + sd)
        elif k < 0.60:
            r.op('busy %s %d' % (sd, rng.randint(0, 1)))
        elif k < 0.63:
            r.op('pollacks ' + sd)
        else:
            r.op('xchg ' + sd)
        if r.mon.bad:
            return r
    r.drain()
    return r


# ---------------------------------------------------------------------------- blocking calls under thread schedules
class TMonitor(Monitor):
    """the same reference sliding window for blocking send()/recv() called by several application threads:
    a message is bytes([thread id, index]); the sending order is the order on the wire, which has to respect
    the program order of every sending thread and is what the peer's recv() has to return"""

    def __init__(self, ck, cfg, case):
        Monitor.__init__(self, ck, cfg, case)
        self.started = {'A': set(), 'B': set()}     # send() has been called with it
        self.done = {'A': set(), 'B': set()}        # send() returned True for it
        self.wire = {'A': [], 'B': []}              # data of the I PDUs in wire order
        self.next_idx = {}

    def emitted(self, sd, s):
        f = s.split(':')
        if f[0] != 'I':
            return Monitor.emitted(self, sd, s)
        ns, nr, data = int(f[1]), int(f[2]), bytes.fromhex('' if f[3] == '-' else f[3])
        k = self.i_emitted[sd]
        if ns != k % 16:
            self.v('ns-wrong', 'I PDU leaves with N(S) that is not its position in the sending order mod 16 '
                               '(consecutive I PDUs must carry distinct consecutive numbers)', side=sd, ns=ns, index=k)
        if data not in self.started[sd]:
            self.v('i-pdu-data', 'I PDU carries something no thread has sent', side=sd, data=data.hex())
        elif data in self.wire[sd]:
            self.v('i-pdu-duplicate', 'a message leaves in two I PDUs', side=sd, data=data.hex())
        elif len(data) == 2:
            if data[1] != self.next_idx.get((sd, data[0]), 0):
                self.v('i-pdu-order', 'messages of one sending thread leave out of program order', side=sd, data=data.hex())
            self.next_idx[(sd, data[0])] = data[1] + 1
        self.wire[sd].append(data)
        self.i_emitted[sd] = k + 1
        if self.i_emitted[sd] - self.acked[sd] > self.rw[sd]:
            self.v('window-exceeded-wire', 'more unacknowledged I PDUs outstanding than the receive window announced by the peer',
                   side=sd, outstanding=self.i_emitted[sd] - self.acked[sd], rw=self.rw[sd])
        self._nr_emitted(sd, nr)

    def returned(self, sd, m):
        d = other(sd)
        k = len(self.got[d])
        if k >= len(self.wire[d]):
            self.v('recv-phantom', 'recv() returned a message that was never transmitted (duplicate or invented)', side=sd, msg=m.hex())
        elif self.wire[d][k] != m:
            self.v('recv-order', 'recv() returned a message out of sending order / altered', side=sd, index=k,
                   expected=self.wire[d][k].hex(), got=m.hex())
        self.got[d].append(m)

    def final(self):
        for d in 'AB':
            missing = [m.hex() for m in sorted(self.done[d]) if m not in self.got[d]]
            if missing or len(self.got[d]) != len(set(self.got[d])):
                self.v('undelivered', 'messages for which a blocking send() returned True were not returned exactly once by the peer recv()',
                       side=d, missing=missing, returned=[m.hex() for m in self.got[d]])


def threaded_case(ck, cfg, plan, chooser=None, how='default'):
    """plan = {'A': [n1, n2, ..], 'B': [..]}: one sending thread per entry (ni blocking sends), one receiving
    thread per side that has something to receive, and a link thread doing what the two llc run loops do
    (dequeue or sendack on one side, enqueue on the other).  Returns the run record."""
    import nfc.llcp.tco as tco
    import nfc.llcp.pdu as pdu
    from sim import sched as S
    from sim.dlc_pair import pdu_str
    sch = S.Sched(chooser, max_steps=6000)
    case = {'kind': 'threads', 'cfg': list(cfg), 'plan': plan, 'how': how}
    mon = TMonitor(ck, cfg, case)
    mon.ops = None
    rec = {'mon': mon, 'case': case}
    base_enqueue = tco.TransmissionControlObject.enqueue
    queued = []

    def spy_enqueue(self, rcvd_pdu):
        r = base_enqueue(self, rcvd_pdu)
        queued.append(r)
        return r

    def violate(key, what, **data):
        d = dict(case)
        d.update(data)
        d['schedule'] = list(sch.schedule)
        mon.bad.append(key)
        if len(mon.bad) <= 2:          # the first failures of a run; what follows is their consequence
            ck.violation(key, what, d)

    mon.v = violate
    with S.install(sch, [tco]):
        tco.TransmissionControlObject.enqueue = spy_enqueue
        try:
            try:
                pair = Pair(*cfg)
            except Exception as e:  # noqa
                violate('impl-exception:%s:setup' % type(e).__name__, 'connection set-up raised ' + type(e).__name__)
                return rec
            ep = pair.ep
            live = {'apps': 0}

            def sender(sd, tid, n):
                try:
                    for i in range(n):
                        m = bytes([tid, i])
                        mon.started[sd].add(m)
                        r = ep[sd].send(m, 0)
                        if r is True:
                            mon.done[sd].add(m)
                        else:
                            violate('send-failed', 'blocking send() on an established connection returned %r' % (r,), side=sd)
                except LlcpError as e:
                    violate('send-failed', 'blocking send() on an established connection raised errno %d' % e.errno, side=sd)
                except S.Abort:
                    raise
                except Exception as e:  # noqa
                    violate('impl-exception:%s:send' % type(e).__name__, 'blocking send() raised ' + type(e).__name__, side=sd)
                finally:
                    live['apps'] -= 1

            def receiver(sd, n):
                try:
                    for _ in range(n):
                        m = ep[sd].recv()
                        if m is None:
                            violate('recv-none', 'blocking recv() on an established connection returned None', side=sd)
                            break
                        mon.returned(sd, bytes(m))
                except LlcpError as e:
                    violate('recv-failed', 'blocking recv() on an established connection raised errno %d' % e.errno, side=sd)
                except S.Abort:
                    raise
                except Exception as e:  # noqa
                    violate('impl-exception:%s:recv' % type(e).__name__, 'blocking recv() raised ' + type(e).__name__, side=sd)
                finally:
                    live['apps'] -= 1

            idle = sch.threading.Condition()

            def link():
                quiet = 0
                try:
                    for _ in range(400):
                        moved = False
                        for sd in 'AB':
                            x, y = ep[sd], ep[other(sd)]
                            p = x.dequeue(2175, 0)
                            if p is None:
                                p = x.sendack()
                            if p is None:
                                continue
                            moved = True
                            raw = pdu.encode(p)
                            s = pdu_str(pdu.decode(raw))
                            mon.emitted(sd, s)
                            del queued[:]
                            y.enqueue(pdu.decode(raw))
                            res = 'ack'
                            if s.startswith('I:'):
                                res = 'rejected' if not queued else ('accepted' if queued[0] else 'discarded')
                            mon.delivered(other(sd), s, res)
                        quiet = 0 if moved else quiet + 1
                        if live['apps'] == 0 and quiet >= 2:
                            return
                        if quiet >= 6:           # nothing moves although application threads are unfinished
                            return
                        with idle:               # the link turn-around: lets every runnable application thread run
                            idle.wait(0.001)
                except S.Abort:
                    raise
                except Exception as e:  # noqa
                    violate('impl-exception:%s:link' % type(e).__name__, 'dequeue/sendack/enqueue raised %s: %s' % (type(e).__name__, str(e)[:80]))

            tid = 0
            for sd in 'AB':
                for n in plan.get(sd, []):
                    live['apps'] += 1
                    sch.spawn(sender, 'send-%s%d' % (sd, tid), (sd, tid, n))
                    tid += 1
            for sd in 'AB':
                n = sum(plan.get(other(sd), []))
                if n:
                    live['apps'] += 1
                    sch.spawn(receiver, 'recv-' + sd, (sd, n))
            sch.spawn(link, 'link')
            blocked = sch.run()
            rec['schedule'] = list(sch.schedule)
            rec['enabled'] = [list(e) for e in sch.enabled_log]
            if sch.livelock:
                violate('livelock', 'the schedule did not terminate within the step bound')
            elif blocked and not mon.bad:
                violate('thread-blocked', 'application thread(s) still blocked after the link went quiet',
                        blocked=[sch.describe(b) for b in blocked])
            for r in sch.recs:
                if r.exc is not None and not mon.bad:
                    violate('impl-exception:%s:thread' % type(r.exc).__name__, 'thread %s died with %s' % (r.name, type(r.exc).__name__))
            if not mon.bad:
                mon.final()
                for sd in 'AB':
                    if not ep[sd].state.ESTABLISHED:
                        violate('left-established', 'a connection left the ESTABLISHED state without close()', side=sd)
            sch.shutdown()
        finally:
            tco.TransmissionControlObject.enqueue = base_enqueue
    return rec


def threaded_explore(ck, cfg, plan, budget, nrandom):
    """default schedule, every single pre-emption (evenly sampled down to the budget), seeded random schedules"""
    import random
    from sim import sched as S
    runs = 0
    base = threaded_case(ck, cfg, plan)
    runs += 1
    nmsg = sum(plan.get('A', [])) + sum(plan.get('B', []))
    ck.case(('threads', tuple(cfg), repr(plan), 'default'), True,
            {'kind': 'threads', 'cfg': list(cfg), 'plan': plan, 'steps': len(base.get('schedule', []))})
    if base['mon'].bad or 'schedule' not in base:
        return runs
    singles = [(i, a) for i in range(len(base['schedule'])) for a in base['enabled'][i] if a != base['schedule'][i]]
    if len(singles) > budget:
        stride = len(singles) / float(budget)
        singles = [singles[int(k * stride)] for k in range(budget)]
    for i, a in singles:
        r = threaded_case(ck, cfg, plan, S.Deviations({i: a}), how='preempt %d->T%d' % (i, a))
        runs += 1
        ck.case(('threads', tuple(cfg), repr(plan), i, a), True)
        if r['mon'].bad:
            return runs
    for _ in range(nrandom):
        seed = ck.rng.randrange(1 << 30)
        r = threaded_case(ck, cfg, plan, S.RandomChooser(random.Random(seed), ck.rng.choice([0.1, 0.25, 0.5])), how='random %d' % seed)
        runs += 1
        ck.case(('threads', tuple(cfg), repr(plan), 'random', seed), True)
        if r['mon'].bad:
            return runs
    ck.count('thread-messages', nmsg * runs)
    return runs


# ---------------------------------------------------------------------------- successive / concurrent connections through the LLC
def sessions_case(ck, scen, chooser=None, how='default'):
    """Several data link connections to ONE listening service, through two real LogicalLinkControllers
    (llc.connect / accept / send / recv / close, PDUs moved by collect() / dispatch()), under the
    deterministic scheduler.  scen = {'rw': .., 'agf': bool, 'server_close': 'late'|'never'|'prompt',
    'clients': [[(n_msgs, n_replies), ...], ...]}: one client thread per entry of 'clients', which opens
    its connections one after the other (connect, blocking sends, blocking recv of the replies,
    close; the next socket is bound afterwards and gets the released address); a server thread
    accepts, one handler thread per accepted connection receives, replies, sees recv() -> None when
    the peer disconnects and closes its socket late / never / at once.
    Monitor (this part is monitor-only: Model/Dlc.v has no SAP socket list): per connection and
    direction, returned by recv() == accepted by send(), in order; every blocking call returns."""
    import nfc.llcp.llc as L
    import nfc.llcp.tco as tco
    import nfc.llcp.pdu as pdu
    from sim import sched as S
    sch = S.Sched(chooser, max_steps=20000)
    case = {'kind': 'llc-sessions', 'scen': scen, 'how': how}
    bad = []
    rec = {'bad': bad, 'case': case}

    def violate(key, what, **data):
        d = dict(case)
        d.update(data)
        d['schedule'] = list(sch.schedule)
        bad.append(key)
        if len(bad) <= 2:
            ck.violation(key, what, d)

    nconn = sum(len(c) for c in scen['clients'])
    sent = {}        # (conn id, 'c'|'s') -> messages accepted by send()
    got = {}         # (conn id, 'c'|'s') -> messages returned by recv() at the other end
    live = {'apps': 0, 'parked': 0}

    def guard(name, fn):
        def run():
            try:
                fn()
            except S.Abort:
                raise
            except LlcpError as e:
                violate('session-call-failed', '%s: a socket call on a healthy link raised errno %d' % (name, e.errno), thread=name)
            except Exception as e:  # noqa
                violate('impl-exception:%s:%s' % (type(e).__name__, name.split('-')[0]), '%s raised %s: %s' % (name, type(e).__name__, str(e)[:80]))
            finally:
                live['apps'] -= 1
        return run

    with S.install(sch, [tco, L]):
        la = L.LogicalLinkController(miu=248, agf=scen['agf'], sec=False)
        lb = L.LogicalLinkController(miu=248, agf=scen['agf'], sec=False)
        for x in (la, lb):
            x.cfg['send-miu'] = 248
            x.cfg['send-agf'] = scen['agf']
        srv = lb.socket(L.DATA_LINK_CONNECTION)
        lb.setsockopt(srv, nfc.llcp.SO_RCVBUF, scen['rw'])
        lb.bind(srv, b'urn:nfc:sn:verif')
        lb.listen(srv, 4)
        release = sch.threading.Event()
        addrs = []

        def client(k, conns):
            def body():
                for j, (n, nrep) in enumerate(conns):
                    cid = 16 * k + j
                    c = la.socket(L.DATA_LINK_CONNECTION)
                    la.setsockopt(c, nfc.llcp.SO_RCVBUF, scen['rw'])
                    la.connect(c, srv.addr)
                    addrs.append((cid, c.addr))
                    for i in range(n):
                        m = bytes([cid, i, n, nrep])
                        if la.send(c, m, 0) is True:
                            sent.setdefault((cid, 'c'), []).append(m)
                        else:
                            violate('send-failed', 'blocking send() on an established connection did not return True', conn=cid)
                    for i in range(nrep):
                        m = la.recv(c)
                        if m is None:
                            violate('recv-none', 'recv() returned None although the peer has not disconnected', conn=cid)
                            break
                        got.setdefault((cid, 's'), []).append(bytes(m))
                    la.close(c)
            return body

        def handler(s):
            def body():
                first = lb.recv(s)
                if first is None:
                    violate('recv-none', 'server recv() returned None before any message', peer=s.peer)
                    return
                cid, _i, n, nrep = bytes(first)
                got.setdefault((cid, 'c'), []).append(bytes(first))
                for _ in range(n - 1):
                    m = lb.recv(s)
                    if m is None:
                        violate('recv-none', 'server recv() returned None although the peer has not disconnected', conn=cid)
                        return
                    got[(cid, 'c')].append(bytes(m))
                for i in range(nrep):
                    m = bytes([cid | 0x80, i])
                    if lb.send(s, m, 0) is True:
                        sent.setdefault((cid, 's'), []).append(m)
                    else:
                        violate('send-failed', 'blocking send() on an established connection did not return True', conn=cid)
                m = lb.recv(s)               # the peer disconnects
                if m is not None:
                    violate('recv-phantom', 'recv() returned a message that was never sent', conn=cid, msg=bytes(m).hex())
                if scen['server_close'] == 'prompt':
                    lb.close(s)
                elif scen['server_close'] == 'late':
                    live['parked'] += 1
                    release.wait()
                    live['parked'] -= 1
                    lb.close(s)
            return body

        def server():
            for _ in range(nconn):
                s = lb.accept(srv)
                live['apps'] += 1
                sch.spawn(guard('handler-%d' % s.peer, handler(s)), 'handler-%d' % s.peer)

        idle = sch.threading.Condition()

        def link():
            quiet = 0
            try:
                for _ in range(3000):
                    moved = False
                    for src, dst in ((la, lb), (lb, la)):
                        p = src.collect()
                        if p is not None:
                            moved = True
                            dst.dispatch(pdu.decode(pdu.encode(p)))
                    quiet = 0 if moved else quiet + 1
                    if live['parked'] and live['apps'] == live['parked'] and quiet >= 2 and not release.is_set():
                        release.set()            # everything else is done: the late closers may go now
                        quiet = 0
                    if live['apps'] == 0 and quiet >= 2:
                        return
                    if quiet >= 8:
                        return
                    with idle:
                        idle.wait(0.001)
            except S.Abort:
                raise
            except Exception as e:  # noqa
                violate('impl-exception:%s:link' % type(e).__name__, 'collect()/dispatch() raised %s: %s' % (type(e).__name__, str(e)[:80]))

        try:
            for k, conns in enumerate(scen['clients']):
                live['apps'] += 1
                sch.spawn(guard('client-%d' % k, client(k, conns)), 'client-%d' % k)
            live['apps'] += 1
            sch.spawn(guard('server', server), 'server')
            sch.spawn(link, 'link')
            blocked = sch.run()
            rec['schedule'] = list(sch.schedule)
            rec['enabled'] = [list(e) for e in sch.enabled_log]
            rec['addrs'] = list(addrs)
            for key in sorted(set(sent) | set(got)):
                if got.get(key, []) != sent.get(key, []) and not bad:
                    violate('session-undelivered', 'messages accepted by send() on a connection are not what the peer recv() returned',
                            conn=key[0], direction=key[1], accepted=[m.hex() for m in sent.get(key, [])],
                            returned=[m.hex() for m in got.get(key, [])], client_addrs=addrs)
            if sch.livelock and not bad:
                violate('livelock', 'the schedule did not terminate within the step bound')
            elif blocked and not bad:
                violate('session-blocked', 'blocking socket call(s) never returned although the link kept exchanging',
                        blocked=[sch.describe(b) for b in blocked], client_addrs=addrs)
            for r in sch.recs:
                if r.exc is not None and not bad:
                    violate('impl-exception:%s:thread' % type(r.exc).__name__, 'thread %s died with %s' % (r.name, type(r.exc).__name__))
            rec['messages'] = sum(len(v) for v in got.values())
        finally:
            sch.shutdown()
    return rec


SESSION_SCENARIOS = [
    # successive connections from the same local address (released by close, taken again by the next socket)
    {'rw': 2, 'agf': False, 'server_close': 'late', 'clients': [[(2, 0), (3, 2)]]},
    {'rw': 1, 'agf': True, 'server_close': 'never', 'clients': [[(2, 1), (2, 1), (1, 1)]]},
    {'rw': 3, 'agf': False, 'server_close': 'prompt', 'clients': [[(3, 1), (3, 1)]]},
    # two concurrent connections from different remote addresses to the same service
    {'rw': 2, 'agf': False, 'server_close': 'late', 'clients': [[(3, 2)], [(3, 2)]]},
    {'rw': 1, 'agf': True, 'server_close': 'never', 'clients': [[(2, 1), (2, 1)], [(3, 0)]]},
]


def sessions_explore(ck, scen, budget, nrandom):
    import random
    from sim import sched as S
    runs = 1
    base = sessions_case(ck, scen)
    ck.case(('llc-sessions', repr(scen), 'default'), True,
            {'kind': 'llc-sessions', 'scen': scen, 'steps': len(base.get('schedule', [])), 'client_addrs': base.get('addrs')})
    ck.count('session-messages', base.get('messages', 0))
    if base['bad'] or 'schedule' not in base:
        return runs
    singles = [(i, a) for i in range(len(base['schedule'])) for a in base['enabled'][i] if a != base['schedule'][i]]
    if len(singles) > budget:
        stride = len(singles) / float(budget)
        singles = [singles[int(k * stride)] for k in range(budget)]
    for i, a in singles:
        r = sessions_case(ck, scen, S.Deviations({i: a}), how='preempt %d->T%d' % (i, a))
        runs += 1
        ck.case(('llc-sessions', repr(scen), i, a), True)
        if r['bad']:
            return runs
    for _ in range(nrandom):
        seed = ck.rng.randrange(1 << 30)
        r = sessions_case(ck, scen, S.RandomChooser(random.Random(seed), ck.rng.choice([0.1, 0.25, 0.5])), how='random %d' % seed)
        runs += 1
        ck.case(('llc-sessions', repr(scen), 'random', seed), True)
        if r['bad']:
            return runs
    return runs


# ---------------------------------------------------------------------------- main
EXH_ALPHABET = ['send A 61', 'send B 62', 'recv A', 'recv B', 'deq A 128 0', 'deq B 128 0', 'ack A', 'ack B',
                'deliver A', 'deliver B', 'busy B 1']


def warmup(cfg, rounds):
    """full round trips: afterwards V(S) etc. are `rounds` mod 16 on both sides"""
    ops = []
    for i in range(rounds):
        ops += ['send A %02x' % (i % 256), 'send B %02x' % ((i + 128) % 256), 'deq A 128 0', 'deq B 128 0', 'deliver B', 'deliver A',
                'recv A', 'recv B', 'ack A', 'ack B', 'deliver A', 'deliver B']
    return ops


def main():
    ck = Check('C05')
    ck.trusted = ['Coq 8.16.1 kernel (vm_compute only in the non-vacuity example); no native_compute',
                  'translate/py2coq.py (kernel translator: send_window_slots / recv_window_slots from llcp/tco.py)',
                  'extraction: ExtrOcamlBasic only; extract/c05_run.ml driver; OCaml',
                  'correspondence harness harness/prop/c05.py + harness/sim/dlc_pair.py (FIFO wires, single-threaded driving)']
    ck.assumptions = ['atomic segments: every socket call (send with MSG_DONTWAIT, poll+recv, setsockopt, dequeue, sendack, '
                      'enqueue) runs to completion before the next; CPython pre-emption inside a call and the blocking '
                      'variants (wait/notify) are not modelled here (C09 covers the wait/notify discipline)',
                      'connection already ESTABLISHED with the parameters exchanged by CONNECT/CC (x.send_win = y.recv_win, '
                      'x.send_miu = y.recv_miu, recv_buf = recv_win); set-up, DISC/DM tear-down and close() are outside the model',
                      'the application alphabet is the one of the property text (send, recv, poll, setsockopt busy); '
                      'setsockopt(SO_RCVBUF) on an established socket (changes recv_buf but not recv_win) is not part of it',
                      'wires are reliable FIFOs (what llc.collect/dispatch over a working link provide); loss is C04/C12']
    ck.coq(gen=['DlcK'], targets=['Proofs/DlcBase.vo', 'Proofs/Dlc.vo', 'Proofs/DlcCor.vo', 'Proofs/DlcLive.vo', 'Proofs/DlcChannel.vo', 'Bridge/Dlc.vo'], props=['C05', 'C05Bridge', 'C05Channel'])
    mr = ck.model()
    if mr is None:
        ck.finish()
    rng = ck.rng
    quick = ck.tier == 'quick'
    runs = []

    stats = {'runs': 0, 'mis': 0, 'lines': 0}
    seen_mis = {}

    def mismatch(name, data):
        seen_mis[name] = seen_mis.get(name, 0) + 1
        if seen_mis[name] <= 3:
            ck.correspondence_mismatch(name, data)

    def flush():
        """run the extracted model on the accumulated histories and compare after every op"""
        if not runs:
            return
        lines = [l for r in runs for l in r.lines]
        out = mr.run(lines)
        if len(out) != len(lines):
            mismatch('model-output-length', {'lines': len(lines), 'out': len(out)})
        k = 0
        for r in runs:
            for j, (line, obs) in enumerate(zip(r.lines, r.obs)):
                got = ' | '.join(out[k + j].split(' | ')[:4]) if k + j < len(out) else '<missing>'
                if got != obs:
                    stats['mis'] += 1
                    if True:
                        mismatch(r.kind, {'cfg': list(r.cfg), 'ops': r.lines[1:j + 1][-60:], 'step': j,
                                                            'impl': obs[:300], 'model': got[:300]})
                    break
            for obs in r.obs:
                h = obs.split(' | ', 1)[0].split()
                if h[0] == 'deliver' and len(h) == 3:
                    ck.count('enqueue-' + h[2])
                elif h[0] == 'pdu' and len(h) == 2 and h[1] != 'none':
                    ck.count('pdu-' + h[1].split(':')[0])
                elif len(h) >= 3 and h[1] == 'err':
                    ck.count(h[0] + '-' + h[2])
            last = out[k + len(r.lines) - 1].split(' | ') if k + len(r.lines) - 1 < len(out) else []
            # the model's ghost flags: on histories without injected faults nothing may be flagged
            if r.kind != 'fault-walk' and len(last) == 6 and (last[4].split()[-1] != '000' or last[5].split()[-1] != '000'):
                mismatch('ghost-flag', {'cfg': list(r.cfg), 'ops': r.lines[1:][-60:], 'model': ' | '.join(last)})
            # ghost counters of the model = reference counters of the monitor (computed independently on the implementation)
            if r.mon and len(last) == 6 and not r.mon.bad:
                for d, gtxt in (('A', last[4]), ('B', last[5])):
                    g = gtxt.split()
                    ref = [len(r.mon.sent[d]), len(r.mon.got[d]), r.mon.acked[d], r.mon.i_taken[d], r.mon.nr_out[d]]
                    if [int(x) for x in g[:5]] != ref:
                        mismatch('ghost-counters', {'cfg': list(r.cfg), 'dir': d, 'model': g, 'monitor': ref})
            k += len(r.lines)
        stats['runs'] += len(runs)
        stats['lines'] += len(lines)
        del runs[:]

    def finish_run(r, nontrivial, sample=None):
        r.pair = None
        if not r.obs:          # set-up raised: recorded as a violation, nothing to compare
            return
        runs.append(r)
        ck.case((r.kind, r.cfg, len(r.lines), hash(tuple(r.lines[1:40]))), nontrivial, sample)
        ck.count(r.kind)
        ck.count('steps', len(r.lines) - 1)
        if sum(len(x.lines) for x in runs) > 150000:
            flush()

    # ---- replay of a stored case
    if ck.replay:
        import json
        case = json.load(open(ck.replay))['case']
        if case.get('kind') == 'threads':
            from sim import sched as S
            threaded_case(ck, tuple(case['cfg']), case['plan'], S.Replay(case.get('schedule', [])), how='replay')
            ck.case(('threads-replay',), True)
        elif case.get('kind') == 'llc-sessions':
            from sim import sched as S
            sessions_case(ck, case['scen'], S.Replay(case.get('schedule', [])), how='replay')
            ck.case(('sessions-replay',), True)
        elif str(case.get('kind', '')).startswith('llc'):
            r = llc_walk(ck, rng, tuple(case['cfg']), 0, tuple(case['agf']), tuple(case['link_miu']), case.get('ops', []))
            if r.compare:
                finish_run(r, True)
        else:
            fault = case.get('kind') == 'fault-walk'
            r = Run(ck, tuple(case['cfg']), 'fault-walk' if fault else 'replay', monitor=not fault)
            for line in case.get('ops', []):
                if line.split()[0] in ('send', 'recv', 'busy', 'pollacks', 'deq', 'ack', 'deliver', 'inject', 'collect'):
                    r.op(line)
            finish_run(r, True)
        flush()
        ck.cov['traces_validated_against_impl'] = stats['runs'] - stats['mis']
        ck.cov['steps_compared'] = stats['lines']
        ck.finish(level='proof', rule='replay of one stored history', explanation='replay')

    # ---- corpus: minimal histories that exercise each mechanism (run first)
    corpus = [
        ((1, 128, 1, 128), ['send A 01', 'send A 02', 'deq A 128 0', 'deliver B', 'recv B', 'deq B 128 0', 'deliver A', 'send A 02']),
        ((2, 128, 2, 128), ['send A 01', 'send A 02', 'send A 03', 'deq A 128 0', 'deq A 128 0', 'deliver B', 'deliver B',
                            'recv B', 'recv B', 'send B 09', 'deq B 128 0', 'deliver A', 'recv A', 'send A 03']),
        ((1, 128, 1, 128), ['busy B 1', 'deq B 128 0', 'deliver A', 'busy B 0', 'deq B 128 0', 'deliver A']),
        ((3, 128, 3, 128), ['send A ' + '00' * 129, 'send A ' + '00' * 128, 'deq A 127 0', 'deq A 120 8', 'deq A 128 0']),
        ((15, 2175, 15, 2175), warmup((15, 2175, 15, 2175), 17)),
        ((1, 128, 15, 128), warmup((1, 128, 15, 128), 33)),
    ]
    for cfg, ops in corpus:
        r = Run(ck, cfg, 'corpus')
        for line in ops:
            r.op(line)
        r.drain()
        finish_run(r, True, {'kind': 'corpus', 'cfg': list(cfg), 'ops': ops[:8]})

    # ---- random walks
    nwalks, nsteps = (220, 500) if quick else (600, 5000)
    profs = sorted(PROFILES)
    for i in range(nwalks):
        cfg = (rng.randint(1, 15), rng.choice(MIUS), rng.randint(1, 15), rng.choice(MIUS))
        if i % 7 == 0:
            cfg = (rng.choice([1, 2, 15]), cfg[1], rng.choice([1, 2, 15]), cfg[3])
        prof = profs[i % len(profs)]
        r = Run(ck, cfg, 'walk-' + prof)
        for _ in range(nsteps):
            r.op(gen_op(rng, cfg, prof))
            if r.mon.bad:
                break
        if not r.mon.bad:
            r.drain()
        wraps = min(len(r.mon.sent['A']), len(r.mon.sent['B']) if prof != 'one-way' else 10 ** 9) // 16
        ck.count('messages', len(r.mon.sent['A']) + len(r.mon.sent['B']))
        ck.count('walks-with-wrap-around', 1 if wraps >= 1 else 0)
        finish_run(r, len(r.mon.sent['A']) + len(r.mon.sent['B']) > 0,
                   {'kind': r.kind, 'cfg': list(cfg), 'steps': len(r.lines) - 1,
                    'sent': [len(r.mon.sent['A']), len(r.mon.sent['B'])]})

    # ---- histories with a misbehaving peer (correspondence only: FRMR / discard / shutdown / RuntimeError branches)
    def flood(r, cfg):
        """the peer of `rs` ignores the window: in-sequence I PDUs beyond RW, then delivery"""
        if r.dead:
            return
        sd = rng.choice('AB')
        rs = other(sd)
        y = r.pair.ep[rs]
        base = y.recv_cnt + sum(1 for raw in r.pair.wire[sd] if nfc.llcp.pdu.decode(raw).name == 'I')
        n = y.recv_win + rng.randint(0, 3)
        for j in range(n):
            r.op('inject %s I:%d:%d:%02x' % (sd, (base + j) % 16, y.send_ack, j))
        for j in range(len(r.pair.wire[sd])):
            if r.dead:
                return
            r.op('deliver ' + rs)
            if rng.random() < 0.3:
                r.op('recv ' + rs)

    fault_corpus = [
        ((2, 128, 2, 128), ['inject A I:0:0:01', 'inject A I:1:0:02', 'inject A I:2:0:03', 'deliver B', 'deliver B', 'deliver B',
                            'recv B', 'recv B', 'inject A I:3:0:04', 'deliver B', 'recv B', 'recv B', 'deq B 128 0', 'ack B']),
        ((2, 128, 2, 128), ['inject A I:1:0:01', 'deliver B', 'send B 05', 'deq B 128 0', 'deq B 128 0', 'deliver A', 'send A 01', 'recv A',
                            'deq A 128 0', 'deliver B', 'pollacks A', 'pollacks B']),
        ((2, 128, 2, 129), ['inject A I:0:0:' + '00' * 129, 'deliver B', 'busy B 1', 'deq B 128 0', 'deq B 3 0', 'deq B 4 0', 'deliver A', 'deliver A']),
    ]
    for cfg, ops in fault_corpus:
        r = Run(ck, cfg, 'fault-walk', monitor=False)
        for line in ops:
            r.op(line)
        finish_run(r, True)
    for i in range(150 if quick else 1500):
        cfg = (rng.randint(1, 15), rng.choice(MIUS[:4]), rng.randint(1, 15), rng.choice(MIUS[:4]))
        r = Run(ck, cfg, 'fault-walk', monitor=False)
        for _ in range(rng.randint(5, 120)):
            r.op(gen_op(rng, cfg, 'balanced'))
        for _ in range(rng.randint(1, 3)):
            if rng.random() < 0.35:
                flood(r, cfg)
            else:
                r.op(gen_fault(rng, cfg))
            for _ in range(rng.randint(5, 60)):
                r.op(gen_op(rng, cfg, 'balanced'))
        finish_run(r, True)

    # ---- bounded-exhaustive short histories, from a cold and from warmed-up states
    cold = ((1, 128, 2, 128), [])
    warm1 = ((2, 128, 1, 128), warmup((2, 128, 1, 128), 15) + ['send A aa', 'send B bb', 'deq A 128 0'])
    warm2 = ((3, 128, 3, 128), warmup((3, 128, 3, 128), 14) + ['send A aa', 'send A ab', 'send B bb', 'deq A 128 0', 'deliver B', 'recv B'])
    starts = [(cold, 4), (warm1, 3)] if quick else [(cold, 5), (warm1, 4), (warm2, 4)]
    for (cfg, prefix), depth in starts:
        n = 0
        for hist in itertools.product(EXH_ALPHABET, repeat=depth):
            r = Run(ck, cfg, 'exhaustive')
            for line in prefix:
                r.op(line)
            for line in hist:
                r.op(line)
            r.pair = None
            r.mon.ops = None
            if r.obs:
                runs.append(r)
            n += 1
            ck.cov['evaluations'] += 1
            ck._distinct.add(hash((cfg, len(prefix), hist)))
            if n % 2000 == 0:
                flush()
        ck.count('exhaustive-histories', n)
        ck.count('steps', n * (len(prefix) + depth))
    depth = starts[0][1]
    flush()
    ck.cov['traces_validated_against_impl'] = stats['runs'] - stats['mis']
    ck.cov['steps_compared'] = stats['lines']

    # ---- variant: two real LogicalLinkControllers move the PDUs with collect() / dispatch()
    for i in range(80 if quick else 500):
        cfg = (rng.randint(1, 15), rng.choice(MIUS), rng.randint(1, 15), rng.choice(MIUS))
        agf = (False, False) if i % 2 == 0 else (bool(i & 2), not bool(i & 2) or bool(i & 4))
        r = llc_walk(ck, rng, cfg, 400 if quick else 2500, agf)
        n = len(r.mon.sent['A']) + len(r.mon.sent['B'])
        ck.count('llc-messages', n)
        if r.compare:
            finish_run(r, n > 0, {'kind': r.kind, 'cfg': list(r.cfg), 'steps': len(r.lines) - 1, 'sent': n})
        else:
            ck.case((r.kind, r.cfg, agf, hash(tuple(r.lines[1:40]))), n > 0, {'kind': r.kind, 'cfg': list(r.cfg), 'agf': list(agf), 'sent': n})
            ck.count(r.kind)
            ck.count('steps', len(r.lines) - 1)
    flush()
    ck.cov['traces_validated_against_impl'] = stats['runs'] - stats['mis']
    ck.cov['steps_compared'] = stats['lines']

    # ---- blocking send()/recv() of several application threads against a link thread, under the
    #      deterministic scheduler: default schedule, single pre-emptions, seeded random schedules
    tplans = [((1, 128, 1, 128), {'A': [2, 2]}, 100, 15),
              ((2, 128, 2, 128), {'A': [3, 3], 'B': [2]}, 100, 15),
              ((1, 128, 3, 128), {'A': [2, 2, 2]}, 100, 15),
              ((2, 128, 2, 128), {'A': [9, 9]}, 40, 10)]
    if not quick:
        tplans = [(c, p_, 5000, 300) for c, p_, _b, _r in tplans] + \
                 [((3, 128, 2, 128), {'A': [3, 2], 'B': [2, 2]}, 5000, 300), ((1, 128, 1, 128), {'A': [10, 8], 'B': [3]}, 1500, 300)]
    for tcfg, tplan, budget, nrandom in tplans:
        ck.count('thread-schedules', threaded_explore(ck, tcfg, tplan, budget, nrandom))

    # ---- successive connections re-using an address / concurrent connections to one service, through the LLC
    for scen in SESSION_SCENARIOS:
        ck.count('session-schedules', sessions_explore(ck, scen, 30 if quick else 1500, 8 if quick else 150))

    ck.finish(level='proof',
              rule='histories of {send, recv(poll), setsockopt busy, poll acks, dequeue(miu, icv), sendack, deliver} on both '
                   'sides of a real DataLinkConnection pair: random walks in 6 profiles (RW 1..15 each side, MIU 128..2175, '
                   'message lengths around the MIU) ending with a drain; histories with injected faulty PDUs; all histories of '
                   'length %d over an 11-op alphabet from cold and warmed-up (about to wrap, window full) states; plus '
                   'walks where two real LogicalLinkControllers move the PDUs by collect()/dispatch() with aggregation '
                   'on/off. non-trivial = at least one message accepted; distinct by hash of config and ops' % depth,
              explanation='theorems for all op lists / windows / MIUs over the model + bridge lemmas over the regenerated '
                          'window kernels + differential run (state and result compared after every op) of two real '
                          'DataLinkConnection objects against the extracted model + independent sliding-window monitor')


if __name__ == '__main__':
    main()
