"""C15 - the frontend never lets two threads drive the device at once.

Obligations: Skel/LockCheck.v (checker `chk`, soundness for one thread and for any number of
threads under a non-re-entrant mutex), Bridge/C15Skel.v (`chk` evaluated by vm_compute on the
skeleton regenerated from src/nfc/clf/__init__.py on this run), Props/C15.v.

Correspondence: the real ContactlessFrontend is driven through every public entry point on
scripted environments (harness/sim/frontend_rec.py: recording driver, recording lock, recorded
outside code); every observed event trace must be a trace of the extracted skeleton, so a wrong
extractor cannot hide behind a right proof.
Monitor: at every driver method entry "the calling thread holds the frontend lock, the device is
the frontend's current device, no other driver call is in progress"; writes of self.device and
device.connect only under the lock.  A multi-thread stress run is supporting evidence only.
"""
import json
import logging
import os
import sys
import threading
import time as real_time

from common import Check, COQ, REPO

import skel_c15
import nfc.clf
import nfc.tag
from sim.frontend_rec import (World, Script, TagProxy, RecEmulation, SkeletonTraces, excl_check, MISSING,
                              SelfDeadlock, RecFrontend, RecDevice, RealScript, GuardedTransport, ThreadWatch)
from sim import chipsets as cs
import nfc.clf.acr122
import nfc.clf.pn532
import nfc.clf.pn533
import nfc.clf.pn53x

logging.disable(logging.CRITICAL)
REAL_ACTIVATE = nfc.tag.activate
RT, LT = nfc.clf.RemoteTarget, nfc.clf.LocalTarget
ATR_REQ = bytes.fromhex('D400' + '01FE0102030405060708' + '00000032' + '46666D010111')
ATR_RES = bytes.fromhex('D501' + '01FE1112131415161718' + '0000000832' + '46666D010111')


# ---------------------------------------------------------------- scripted hardware
def found_target(kind, target):
    if kind == 'tta':
        return RT(target.brty, sens_res=b'\x44\x00', sel_res=b'\x00', sdd_res=b'\x04\x11\x22\x33\x44\x55\x66')
    if kind == 't1t':
        return RT(target.brty, sens_res=b'\x00\x0c', rid_res=b'\x11\x48\x01\x02\x03\x04')
    if kind == 't1t-bad':
        return RT(target.brty, sens_res=b'\x00\x0c', rid_res=b'\x21\x48\x01')
    if kind == 'tta-badlen':
        return RT(target.brty, sens_res=b'\x44')
    if kind == 'ttb':
        return RT(target.brty, sensb_res=bytes(12))
    if kind == 'ttf':
        return RT(target.brty, sensf_res=b'\x01' + bytes(16))
    if kind == 'dep':
        return RT(target.brty, atr_res=ATR_RES, atr_req=target.atr_req)
    raise ValueError(kind)


def sense_result(code, default_kind):
    def f(target):
        if code == 'none':
            return None
        if code == 'comm-error':
            raise nfc.clf.TimeoutError('scripted')
        if code == 'proto-error':
            raise nfc.clf.ProtocolError('scripted')
        if code == 'unsupported':
            raise nfc.clf.UnsupportedTargetError('scripted')
        if code == 'ioerror':
            raise IOError(5, 'scripted')
        return found_target(default_kind if code == 'found' else code, target)
    return f


T2_MEMORY = bytes.fromhex('04112233' '44556677' '00480000' 'E1100600' '0300FE00') + bytes(44)


def t2t_exchange(target, data, timeout):
    data = bytes(data)
    if data[:1] == b'\x30' and len(data) == 2 and data[1] * 4 < len(T2_MEMORY):
        page = data[1] * 4
        return bytearray((T2_MEMORY + T2_MEMORY)[page:page + 16])
    raise nfc.clf.TimeoutError('scripted t2t: no answer')


def make_script(case):
    plan, default = {}, {}
    for kind in ('tta', 'ttb', 'ttf', 'dep'):
        codes = case.get('sense_' + kind, [])
        plan['sense_' + kind] = [sense_result(c, kind) for c in codes]
        default['sense_' + kind] = sense_result('none', kind)

    def listen_result(code):
        def f(target, timeout):
            if code == 'none':
                return None
            if code == 'comm-error':
                raise nfc.clf.TimeoutError('scripted')
            if code == 'found-dep':
                return LT(target.brty, atr_req=ATR_REQ, atr_res=target.atr_res, dep_req=b'\xD4\x06\x00')
            if code == 'found-short-atr':
                return LT(target.brty, atr_req=ATR_REQ[:10], atr_res=target.atr_res)
            if code == 'found-no-atr':
                return LT(target.brty)
            return LT(target.brty, tt3_cmd=b'\x06' + bytes(15), sensf_res=b'\x01' + bytes(16))
        return f
    for kind in ('tta', 'ttb', 'ttf', 'dep'):
        plan['listen_' + kind] = [listen_result(c) for c in case.get('listen_' + kind, [])]
        default['listen_' + kind] = listen_result('none')

    def xchg(code):
        def f(target, data, timeout):
            if code == 'timeout':
                raise nfc.clf.TimeoutError('scripted')
            if code == 'broken':
                raise nfc.clf.BrokenLinkError('scripted')
            if code == 'transmission':
                raise nfc.clf.TransmissionError('scripted')
            if code == 'ioerror':
                raise IOError(5, 'scripted')
            if code == 'none':
                return None
            if code == 't2t':
                return t2t_exchange(target, data, timeout)
            return bytearray(b'\x90\x00')
        return f
    for m in ('send_cmd_recv_rsp', 'send_rsp_recv_cmd'):
        plan[m] = [xchg(c) for c in case.get(m, [])]
        default[m] = xchg(case.get(m + '_default', 'data'))
    default['get_max_send_data_size'] = lambda target: 290
    default['get_max_recv_data_size'] = lambda target: 290
    if case.get('close_raises'):
        plan['close'] = [IOError(5, 'scripted')]
    if case.get('mute_raises'):
        plan['mute'] = [IOError(5, 'scripted')]
    if case.get('led_raises'):
        plan['turn_on_led_and_buzzer'] = [IOError(5, 'scripted')]
    return Script(plan, default)


def target_from_spec(spec):
    kw = {}
    if spec.get('kind') == 'dep':
        kw['atr_req'] = ATR_REQ[:spec.get('atr_len', len(ATR_REQ))]
    if spec.get('sel_req_len') is not None:
        kw['sel_req'] = bytes(spec['sel_req_len'])
    if spec.get('kind') == 'notarget':
        return 'not a target'
    return RT(spec['brty'], **kw)


# ---------------------------------------------------------------- running one case
class Runner:
    def __init__(self, ck, sk):
        self.ck = ck
        self.sk = sk
        self.matcher = SkeletonTraces(sk)
        self.unmatched = 0
        self.validated = 0
        self.ops = 0

    def call(self, w, case, fname, fn):
        """one top-level frontend call: trace correspondence + monitor"""
        rec = w.rec
        mark = rec.mark()
        nprob = len(rec.problems)
        try:
            r = fn()
            outcome = 'ok'
        except SelfDeadlock as e:
            r, outcome = None, 'SelfDeadlock'
            rec.problem('self-deadlock:' + fname, str(e), {})
        except Exception as e:  # noqa: the frontend's documented and undocumented exceptions alike
            r, outcome = None, type(e).__name__
        trace = rec.since(mark)
        self.ops += 1
        self.ck.count('op:' + fname)
        self.ck.count('outcome:' + outcome)
        drives = any(e[0] in ('DevBegin', 'ConnectCall', 'EvSet') for e in trace)
        self.ck.case((fname, tuple(trace), outcome), drives,
                     {'op': fname, 'outcome': outcome, 'trace': [' '.join(map(str, e)) for e in trace][:40]} if drives else None)
        lock = w.clf.__dict__.get('lock') if w.clf is not None else None
        if lock is not None and lock.locked():
            rec.problem('lock-leaked:' + fname, 'frontend lock still held after %s returned' % fname, {})
            lock.owner = None
            lock._l.release()
        for p in rec.problems[nprob:]:
            self.ck.violation(p['key'], p['what'], {'case': case, 'call': fname, 'outcome': outcome, 'detail': p['data'],
                                                    'trace': [list(e) for e in trace]})
        silent = self.silent_labels(case)
        if self.matcher.accepts(fname, trace, silent):
            self.validated += 1
        else:
            self.unmatched += 1
            k = self.matcher.longest_prefix(fname, trace, silent)
            self.ck.correspondence_mismatch('trace-of-skeleton', {
                'case': case, 'call': fname, 'outcome': outcome, 'trace': [list(e) for e in trace],
                'skeleton_explains_prefix_of_length': k, 'first_unexplained_event': list(trace[k]) if k < len(trace) else None})
        return r, outcome

    @staticmethod
    def silent_labels(case):
        """callbacks this case leaves to the frontend's built-in defaults"""
        out = set()
        if case.get('op') != 'connect':
            return out
        if not case.get('terminate', True):
            out.add('terminate')
        rd, ll, cd = case.get('rdwr'), case.get('llcp'), case.get('card')
        if rd is not None and rd.get('startup') is None:
            out.add('[on-startup]')
        for mode, keys in ((rd, ('discover', 'connect', 'release')), (ll, ('connect', 'release')), (cd, ('discover', 'connect', 'release'))):
            if mode is not None:
                for k in keys:
                    if mode.get(k) is None:
                        out.add('[on-%s]' % k)
        return out

    def run_case(self, case):
        with World() as w:
            self.execute(w, case)
            bad = excl_check(w.rec.events)
            if bad is not None:
                idx, why = bad
                t, e = w.rec.events[idx]
                site = e[1] if len(e) > 1 else e[0]
                # same concrete failure as the entry monitor sees; keyed by the event so that it is not a second finding
                if not any(p['key'].startswith(('unlocked-', 'driver-call-on-closed', 'self-deadlock')) for p in w.rec.problems):
                    self.ck.violation('schedule-unsafe:%s' % site, 'recorded schedule violates the exclusion predicate: ' + why,
                                      {'case': case, 'index': idx, 'schedule': [[t_, list(e_)] for t_, e_ in w.rec.events]})

    # ------------------------------------------------------------
    def execute(self, w, case):
        pre = case.get('pre', 'open')
        script = make_script(case)
        dev = w.device(script)
        if case['op'] == 'init':
            res = case.get('result', 'dev')
            w.connect_plan = [dev if res == 'dev' else None if res == 'none' else IOError(13, 'scripted')]
            clf = RecFrontend.__new__(RecFrontend)
            w.clf = clf
            self.call(w, case, '__init__', lambda: clf.__init__('sim:%s' % res))
            if res == 'dev':
                self.call(w, case, 'close', clf.close)
            return
        clf = w.new_frontend()
        if pre in ('open', 'opened-then-closed'):
            w.connect_plan = [dev]
            self.call(w, case, 'open', lambda: clf.open('sim'))
        if pre == 'opened-then-closed':
            self.call(w, case, 'close', clf.close)
        op = case['op']
        if op == 'open':
            res = case.get('result', 'dev')
            arg = {'bad-path-type': 5, 'empty-path': ''}.get(res, 'sim:again')
            w.connect_plan = [w.device(make_script(case)) if res == 'dev' else IOError(13, 'scripted') if res == 'ioerror' else None]
            self.call(w, case, 'open', lambda: clf.open(arg))
        elif op == 'close':
            self.call(w, case, 'close', clf.close)
            self.call(w, case, 'close', clf.close)
        elif op == 'with':
            self.call(w, case, '__enter__', clf.__enter__)
            self.call(w, case, '__exit__', lambda: clf.__exit__(None, None, None))
        elif op == 'str':
            self.call(w, case, '__str__', lambda: str(clf))
        elif op == 'sense':
            self.sense(w, case, clf)
        elif op == 'listen':
            self.listen(w, case, clf)
        elif op == 'exchange':
            if case.get('role') == 'remote':
                self.sense(w, dict(case, targets=[{'brty': '106A', 'kind': 'tta'}], sense_tta=['found']), clf, nested=True)
            elif case.get('role') == 'local':
                self.listen(w, dict(case, brty='212F', listen_ttf=['found']), clf)
            for _ in range(case.get('count', 1)):
                self.call(w, case, 'exchange', lambda: clf.exchange(b'\x30\x00', 0.1))
        elif op == 'size':
            self.call(w, case, 'max_send_data_size', lambda: clf.max_send_data_size)
            self.call(w, case, 'max_recv_data_size', lambda: clf.max_recv_data_size)
        elif op == 'connect':
            self.connect(w, case, clf)
        else:
            raise ValueError(op)
        if case.get('close_after', True):
            self.call(w, case, 'close', clf.close)
            self.call(w, case, '__str__', lambda: str(clf))

    def sense(self, w, case, clf, nested=False):
        targets = [target_from_spec(s) for s in case.get('targets', [])]
        opts = {}
        if case.get('iterations') is not None:
            opts['iterations'] = case['iterations']
            opts['interval'] = 0.01
        return self.call(w, case, 'sense', lambda: clf.sense(*targets, **opts))

    def listen(self, w, case, clf):
        if case.get('bad_arg'):
            target = 'not a target'
        else:
            kw = {'atr_res': ATR_RES} if case.get('dep') else {}
            target = LT(case.get('brty', '106A'), **kw)
        return self.call(w, case, 'listen', lambda: clf.listen(target, 0.1))

    def connect(self, w, case, clf):
        budget = [case.get('terminate_after', 3)]

        def terminate():
            budget[0] -= 1
            return budget[0] < 0
        options = {}
        if case.get('terminate', True):
            options['terminate'] = w.callback('terminate', terminate)
        rd, ll, cd = case.get('rdwr'), case.get('llcp'), case.get('card')
        if case.get('bad') == 'type':
            options['rdwr'] = 'not a dict'

        def reenter(what):
            # outside code calling back into the frontend (never while the frontend holds its lock)
            if what == 'exchange':
                try:
                    clf.exchange(b'\x30\x00', 0.1)
                except nfc.clf.CommunicationError:
                    pass
            elif what == 'str':
                str(clf)
            elif what == 'size':
                clf.max_send_data_size
            elif what == 'close':
                clf.close()
            elif what == 'sense':
                clf.sense(RT('106A'))

        if rd is not None:
            o = {}
            if rd.get('startup') == 'drop':
                o['on-startup'] = w.callback('rdwr_options[on-startup]', lambda targets: None)
            elif rd.get('startup') == 'custom':
                o['on-startup'] = w.callback('rdwr_options[on-startup]', lambda targets: [RT('106A'), RT('212F')])
            if rd.get('discover') is not None:
                o['on-discover'] = w.callback('options[on-discover]', lambda target: (reenter(rd.get('discover_reenter')), rd['discover'])[1])
            if rd.get('connect') is not None:
                o['on-connect'] = w.callback('options[on-connect]', lambda tag: (reenter(rd.get('connect_reenter')), rd['connect'])[1])
            if rd.get('release') is not None:
                o['on-release'] = w.callback('options[on-release]', lambda tag: (reenter(rd.get('release_reenter')), rd['release'])[1])
            if rd.get('beep') is not None:
                o['beep-on-connect'] = rd['beep']
            if rd.get('iterations') is not None:
                o['iterations'] = rd['iterations']
            o['interval'] = 0.01
            if rd.get('targets'):
                o['targets'] = rd['targets']
            rounds = [rd.get('present_rounds', 2)]

            def present():
                if rd.get('present_raises') and rounds[0] <= 0:
                    raise IOError(19, 'scripted: device gone')
                if rd.get('present_exchange', True):
                    try:
                        clf.exchange(b'\x30\x00', 0.1)
                    except nfc.clf.CommunicationError:
                        return False
                rounds[0] -= 1
                return rounds[0] >= 0
            act = rd.get('activate', 'tag')
            if act == 'tag':
                w.activate = lambda c, t: TagProxy(w, present)
            elif act == 'real':
                def real(c, t):
                    tag = REAL_ACTIVATE(c, t)
                    return None if tag is None else TagProxy(w, lambda: (rounds.__setitem__(0, rounds[0] - 1), tag.is_present and rounds[0] >= 0)[1])
                w.activate = real
            else:
                w.activate = lambda c, t: None
            options['rdwr'] = o
        if ll is not None:
            o = {}
            acts = list(ll.get('activate', []))

            def activate(mac):
                code = acts.pop(0) if acts else 'fail'
                if code == 'sense-ok' or code == 'sense-fail':
                    mac.clf.sense(RT('106A', atr_req=ATR_REQ))
                if code == 'listen-ok' or code == 'listen-fail':
                    mac.clf.listen(LT('106A', atr_res=ATR_RES), 0.1)
                if code == 'ioerror':
                    raise IOError(5, 'scripted')
                return code.endswith('ok')

            def run(llc, terminate):
                for _ in range(ll.get('run_exchanges', 2)):
                    if terminate():
                        break
                    try:
                        clf.exchange(b'\x00\x00', 0.1)
                    except nfc.clf.CommunicationError:
                        break

            def startup(llc):
                if ll.get('startup') == 'drop':
                    return None
                llc.script_activate = activate
                llc.script_run = run
                return llc
            o['on-startup'] = w.callback('llcp_options[on-startup]', startup)
            if ll.get('connect') is not None:
                o['on-connect'] = w.callback('options[on-connect]', lambda llc: ll['connect'])
            if ll.get('release') is not None:
                o['on-release'] = w.callback('options[on-release]', lambda llc: ll['release'])
            if ll.get('role'):
                o['role'] = ll['role']
            if ll.get('brs') is not None:
                o['brs'] = ll['brs']
            options['llcp'] = o
        if cd is not None:
            o = {}
            if cd.get('startup') == 'drop':
                o['on-startup'] = w.callback('card_options[on-startup]', lambda target: None)
            else:
                o['on-startup'] = w.callback('card_options[on-startup]', lambda target: LT(cd.get('brty', '212F')))
            if cd.get('discover') is not None:
                o['on-discover'] = w.callback('options[on-discover]', lambda target: cd['discover'])
            if cd.get('connect') is not None:
                o['on-connect'] = w.callback('options[on-connect]', lambda tag: cd['connect'])
            if cd.get('release') is not None:
                o['on-release'] = w.callback('options[on-release]', lambda tag: cd['release'])
            o['timeout'] = 0.1
            rounds = list(cd.get('rounds', ['ok', 'ok']))

            def respond(c, rsp, timeout):
                code = rounds.pop(0) if rounds else 'broken'
                if code == 'broken':
                    raise nfc.clf.BrokenLinkError('scripted')
                if code == 'comm-error':
                    raise nfc.clf.TransmissionError('scripted')
                return c.exchange(rsp or b'\x00', timeout)
            if cd.get('emulate', 'tag') == 'tag':
                w.emulate = lambda c, t: RecEmulation(w, c, b'\x06' + bytes(15), lambda cmd: b'\x07' + bytes(10), respond)
            else:
                w.emulate = lambda c, t: None
            options['card'] = o
        return self.call(w, case, 'connect', lambda: clf.connect(**options))


# ---------------------------------------------------------------- case generation
def fixed_cases():
    cs = []
    for pre in ('open', 'closed', 'opened-then-closed'):
        for res in ('dev', 'none', 'ioerror', 'bad-path-type', 'empty-path'):
            cs.append({'pre': pre, 'op': 'open', 'result': res})
        cs.append({'pre': pre, 'op': 'close'})
        cs.append({'pre': pre, 'op': 'close', 'close_raises': True})
        cs.append({'pre': pre, 'op': 'with'})
        cs.append({'pre': pre, 'op': 'str'})
        cs.append({'pre': pre, 'op': 'size'})
        for role in ('remote', 'local', 'none'):
            for r in ('data', 'timeout', 'none', 'ioerror'):
                cs.append({'pre': pre, 'op': 'exchange', 'role': role, 'count': 2,
                           'send_cmd_recv_rsp_default': r, 'send_rsp_recv_cmd_default': r})
        cs.append({'pre': pre, 'op': 'sense', 'targets': [{'brty': '106A', 'kind': 'tta'}], 'sense_tta': ['found']})
        cs.append({'pre': pre, 'op': 'listen', 'brty': '106A', 'listen_tta': ['found']})
        cs.append({'pre': pre, 'op': 'connect', 'rdwr': {}, 'terminate_after': 1})
    for res in ('dev', 'none', 'ioerror'):
        cs.append({'op': 'init', 'result': res})
    # sense: every technology, every driver answer
    for brty, kind in (('106A', 'tta'), ('106B', 'ttb'), ('212F', 'ttf'), ('424F', 'ttf'), ('106A', 'dep'), ('106X', 'bogus')):
        for code in ('none', 'found', 'comm-error', 'proto-error', 'unsupported', 'ioerror'):
            k = 'dep' if kind == 'dep' else kind
            cs.append({'op': 'sense', 'targets': [{'brty': brty, 'kind': kind}], 'sense_' + k: [code], 'iterations': 1})
            cs.append({'op': 'sense', 'targets': [{'brty': brty, 'kind': kind}, {'brty': '212F', 'kind': 'ttf'}],
                       'sense_' + k: [code, code], 'iterations': 2})
    for code in ('t1t', 't1t-bad', 'tta-badlen'):
        cs.append({'op': 'sense', 'targets': [{'brty': '106A', 'kind': 'tta'}], 'sense_tta': [code]})
    cs.append({'op': 'sense', 'targets': [{'brty': '106A', 'kind': 'tta', 'sel_req_len': 5}]})
    cs.append({'op': 'sense', 'targets': [{'brty': '106A', 'kind': 'dep', 'atr_len': 10}]})
    cs.append({'op': 'sense', 'targets': [{'brty': '106A', 'kind': 'notarget'}]})
    cs.append({'op': 'sense', 'targets': []})
    cs.append({'op': 'sense', 'targets': [{'brty': '106A', 'kind': 'tta'}], 'mute_raises': True})
    cs.append({'op': 'sense', 'targets': [{'brty': '106A', 'kind': 'tta'}, {'brty': '106B', 'kind': 'ttb'}, {'brty': '212F', 'kind': 'ttf'}],
               'iterations': 3, 'sense_ttf': ['none', 'none', 'found']})
    # listen
    for brty in ('106A', '212A', '106B', '848B', '212F', '424F', '999X'):
        for code in ('none', 'found', 'comm-error'):
            k = {'A': 'tta', 'B': 'ttb', 'F': 'ttf'}.get(brty[-1], 'tta')
            cs.append({'op': 'listen', 'brty': brty, 'listen_' + k: [code]})
    for code in ('none', 'found-dep', 'found-short-atr', 'found-no-atr', 'comm-error'):
        cs.append({'op': 'listen', 'brty': '106A', 'dep': True, 'listen_dep': [code]})
    cs.append({'op': 'listen', 'bad_arg': True})
    # connect
    cs.append({'op': 'connect', 'terminate_after': 2})
    cs.append({'op': 'connect', 'bad': 'type'})
    cs.append({'op': 'connect', 'rdwr': {'startup': 'drop'}})
    cs.append({'op': 'connect', 'rdwr': {}, 'terminate': False, 'sense_tta': ['found'], 'send_cmd_recv_rsp_default': 't2t'})
    for beep in (True, False, None):
        for conn in (True, False):
            for rounds in (0, 1, 3):
                cs.append({'op': 'connect', 'terminate_after': 6, 'sense_tta': ['none', 'found'],
                           'rdwr': {'connect': conn, 'beep': beep, 'present_rounds': rounds, 'release': True, 'discover': True}})
    cs.append({'op': 'connect', 'terminate_after': 4, 'sense_tta': ['found'], 'rdwr': {'discover': False}})
    cs.append({'op': 'connect', 'terminate_after': 4, 'sense_tta': ['found'], 'rdwr': {'activate': 'none'}})
    cs.append({'op': 'connect', 'terminate_after': 9, 'sense_tta': ['found'], 'send_cmd_recv_rsp_default': 't2t',
               'rdwr': {'activate': 'real', 'connect': True, 'present_rounds': 2, 'release': True}})
    cs.append({'op': 'connect', 'terminate_after': 9, 'sense_ttf': ['found'], 'rdwr': {'connect': True, 'release': False, 'startup': 'custom'}})
    cs.append({'op': 'connect', 'terminate_after': 9, 'sense_tta': ['found'], 'rdwr': {'connect': True, 'present_raises': True, 'present_rounds': 1}})
    cs.append({'op': 'connect', 'terminate_after': 9, 'sense_tta': ['found'], 'led_raises': True, 'rdwr': {'connect': True}})
    cs.append({'op': 'connect', 'terminate_after': 1, 'sense_tta': ['found'], 'rdwr': {'connect': True, 'present_rounds': 5}})
    for what in ('exchange', 'str', 'size', 'sense', 'close'):
        for where in ('discover_reenter', 'connect_reenter', 'release_reenter'):
            cs.append({'op': 'connect', 'terminate_after': 6, 'sense_tta': ['found'],
                       'rdwr': {'discover': True, 'connect': True, 'release': True, where: what, 'present_rounds': 1}})
    for role in (None, 'initiator', 'target'):
        for acts in (['fail', 'fail'], ['sense-fail', 'listen-ok'], ['listen-fail', 'sense-ok'], ['ok'], ['ioerror']):
            for conn in (True, False):
                cs.append({'op': 'connect', 'terminate_after': 3, 'llcp': {'role': role, 'activate': acts, 'connect': conn, 'release': True, 'brs': 1},
                           'sense_dep': ['found'], 'listen_dep': ['found-dep']})
    cs.append({'op': 'connect', 'llcp': {'startup': 'drop'}})
    for lst in (['none', 'found'], ['found']):
        for disc in (True, False):
            for emu in ('tag', 'none'):
                for conn in (True, False):
                    for rounds in (['ok', 'ok', 'broken'], ['comm-error', 'ok'], []):
                        cs.append({'op': 'connect', 'terminate_after': 5, 'listen_ttf': lst,
                                   'card': {'discover': disc, 'emulate': emu, 'connect': conn, 'rounds': rounds, 'release': True}})
    cs.append({'op': 'connect', 'card': {'startup': 'drop'}})
    cs.append({'op': 'connect', 'terminate_after': 4, 'sense_tta': ['none', 'none', 'found'], 'listen_ttf': ['none', 'found'],
               'rdwr': {'connect': True, 'present_rounds': 1, 'release': False},
               'llcp': {'activate': ['sense-fail', 'listen-fail', 'sense-ok'], 'connect': True, 'release': False},
               'card': {'connect': True, 'rounds': ['ok'], 'release': False}})
    for c in cs:
        c.setdefault('pre', 'open')
    return cs


def random_case(rng):
    pick = rng.choice
    pre = pick(['open', 'open', 'open', 'closed', 'opened-then-closed'])
    op = pick(['sense', 'sense', 'listen', 'exchange', 'size', 'connect', 'connect', 'connect', 'open', 'close', 'str', 'with'])
    c = {'pre': pre, 'op': op}
    codes = ['none', 'none', 'found', 'comm-error', 'proto-error', 'unsupported']
    for k in ('tta', 'ttb', 'ttf', 'dep'):
        c['sense_' + k] = [pick(codes) for _ in range(rng.randrange(0, 5))]
        c['listen_' + k] = [pick(['none', 'found', 'comm-error'] + (['found-dep', 'found-short-atr'] if k == 'dep' else []))
                            for _ in range(rng.randrange(0, 3))]
    c['send_cmd_recv_rsp_default'] = pick(['data', 'data', 'timeout', 'none', 't2t', 'transmission'])
    c['send_rsp_recv_cmd_default'] = pick(['data', 'data', 'timeout', 'none', 'broken'])
    c['close_raises'] = rng.random() < 0.2
    if op == 'sense':
        specs = [{'brty': '106A', 'kind': 'tta'}, {'brty': '106B', 'kind': 'ttb'}, {'brty': '212F', 'kind': 'ttf'},
                 {'brty': '424F', 'kind': 'ttf'}, {'brty': '106A', 'kind': 'dep'}, {'brty': '212F', 'kind': 'dep'},
                 {'brty': '106Q', 'kind': 'bogus'}, {'brty': '106A', 'kind': 'tta', 'sel_req_len': pick([4, 5, 7])}]
        c['targets'] = [dict(pick(specs)) for _ in range(rng.randrange(0, 4))]
        c['iterations'] = pick([None, 1, 2, 3])
        c['mute_raises'] = rng.random() < 0.1
    elif op == 'listen':
        c['brty'] = pick(['106A', '212A', '424A', '106B', '212B', '212F', '424F', '000Z'])
        c['dep'] = rng.random() < 0.3
    elif op == 'exchange':
        c['role'] = pick(['remote', 'local', 'none'])
        c['count'] = rng.randrange(1, 4)
    elif op == 'open':
        c['result'] = pick(['dev', 'none', 'ioerror', 'empty-path'])
    elif op == 'connect':
        c['terminate_after'] = rng.randrange(0, 8)
        reent = [None, None, None, 'exchange', 'str', 'size', 'sense', 'close']
        if rng.random() < 0.7:
            c['rdwr'] = {'startup': pick([None, None, 'drop', 'custom']), 'discover': pick([None, True, True, False]),
                         'connect': pick([None, True, True, False]), 'release': pick([None, True, False]),
                         'beep': pick([None, True, False]), 'present_rounds': rng.randrange(0, 4),
                         'present_raises': rng.random() < 0.15, 'present_exchange': rng.random() < 0.8,
                         'activate': pick(['tag', 'tag', 'none', 'real']), 'iterations': pick([None, 1, 2]),
                         'discover_reenter': pick(reent), 'connect_reenter': pick(reent), 'release_reenter': pick(reent)}
        if rng.random() < 0.4:
            c['llcp'] = {'startup': pick([None, None, 'drop']), 'role': pick([None, 'initiator', 'target']),
                         'activate': [pick(['fail', 'ok', 'sense-ok', 'sense-fail', 'listen-ok', 'listen-fail', 'ioerror'])
                                      for _ in range(rng.randrange(0, 4))],
                         'connect': pick([None, True, False]), 'release': pick([None, True, False]),
                         'run_exchanges': rng.randrange(0, 4)}
        if rng.random() < 0.4:
            c['card'] = {'startup': pick([None, None, 'drop']), 'brty': pick(['212F', '106A', '106B']),
                         'discover': pick([None, True, False]), 'emulate': pick(['tag', 'tag', 'none']),
                         'connect': pick([None, True, False]), 'release': pick([None, True, False]),
                         'rounds': [pick(['ok', 'ok', 'comm-error', 'broken']) for _ in range(rng.randrange(0, 5))]}
        c['led_raises'] = rng.random() < 0.1
    return c


# ---------------------------------------------------------------- real drivers over fake host links
T2_UID = bytes.fromhex('04112233445566')


class TagInField(object):
    """RF side of the host simulators of sim/chipsets.py: a Type 2 tag that answers InListPassiveTarget and READ"""
    tag_present = True

    def handle(self, cmd, data):
        if cmd == 0x4A:
            if self.tag_present and len(data) >= 2 and data[1] == 0:
                return b'\x01\x01\x00\x44\x00\x07' + T2_UID
            return b'\x00'
        return super(TagInField, self).handle(cmd, data)


class Acr122Tag(TagInField, cs.Acr122Sim):
    pass


class Pn53xTag(TagInField, cs.Pn53xSim):
    pass


def t2_remote(cmd):
    cmd = bytes(cmd)
    if cmd[:1] == b'\x30' and len(cmd) >= 2:
        d = (T2_MEMORY + T2_MEMORY)[(cmd[1] % 16) * 4:(cmd[1] % 16) * 4 + 16]
        return d + cs.crc_a(d)
    return b''


REAL_DRIVERS = {
    'acr122': (lambda clock: Acr122Tag(clock), lambda tr: nfc.clf.acr122.init(tr)),
    'pn533': (lambda clock: Pn53xTag('pn533', clock), lambda tr: nfc.clf.pn533.init(tr)),
    'pn532': (lambda clock: Pn53xTag('pn532', clock, tty=True),
              lambda tr: nfc.clf.pn532.Device(nfc.clf.pn532.Chipset(tr, logger=logging.getLogger('c15')), logger=logging.getLogger('c15'))),
}
DRIVER_TIME_MODULES = [nfc.clf.acr122, nfc.clf.pn532, nfc.clf.pn533, nfc.clf.pn53x]


def real_driver_case(run, case):
    """the real driver `case['driver']` on a fake host link under the recording frontend: open (driver init),
    sense, exchange, connect(rdwr) with LED/buzzer and a presence loop, close.  Besides the usual trace
    correspondence and entry monitor, every transport read/write must come from the lock holder."""
    make_sim, make_dev = REAL_DRIVERS[case['driver']]
    clock = cs.VClock()
    saved = [(m, m.time) for m in DRIVER_TIME_MODULES if hasattr(m, 'time')]
    cs.install_clock(clock, DRIVER_TIME_MODULES)
    stats = {}
    try:
        with ThreadWatch() as watch, World() as w:
            sim = make_sim(clock)
            sim.remote = t2_remote
            guard = GuardedTransport(sim, w.rec, lambda: w.clf, case['driver'])

            def factory(path):
                real = make_dev(guard)
                real._path = 'sim:' + case['driver']
                return RecDevice(w.rec, RealScript(real), lambda: w.clf)
            clf = w.new_frontend()
            w.connect_plan = [factory]
            run.call(w, case, 'open', lambda: clf.open('sim'))
            run.call(w, case, 'sense', lambda: clf.sense(RT('106A'), iterations=2, interval=0.01))
            run.call(w, case, 'exchange', lambda: clf.exchange(b'\x30\x04', 0.1))
            run.call(w, case, 'max_send_data_size', lambda: clf.max_send_data_size)
            rounds = [case.get('present_rounds', 3)]

            def present():
                real_time.sleep(case.get('pause', 0.03))      # lets a timer of the driver fire (scaled by ThreadWatch)
                rounds[0] -= 1
                try:
                    clf.exchange(b'\x30\x00', 0.1)
                except nfc.clf.CommunicationError:
                    return False
                return rounds[0] >= 0
            w.activate = lambda c, t: TagProxy(w, present)
            budget = [case.get('terminate_after', 8)]

            def terminate():
                budget[0] -= 1
                return budget[0] < 0
            opts = {'on-connect': w.callback('options[on-connect]', lambda tag: True),
                    'on-release': w.callback('options[on-release]', lambda tag: True),
                    'on-discover': w.callback('options[on-discover]', lambda target: True),
                    'beep-on-connect': case.get('beep', True), 'iterations': 1, 'interval': 0.01, 'targets': ['106A']}
            run.call(w, case, 'connect', lambda: clf.connect(rdwr=opts, terminate=w.callback('terminate', terminate)))
            real_time.sleep(case.get('pause', 0.03))
            run.call(w, case, '__str__', lambda: str(clf))
            run.call(w, case, 'close', clf.close)
            alive = watch.join(2.0)
            nprob = 0
            for p in w.rec.problems:
                if p['key'].startswith('unlocked-transport-io'):
                    nprob += 1
                    run.ck.violation(p['key'], p['what'], {'case': case, 'detail': p['data'],
                                                           'threads_started_during_case': [type(t).__name__ for t in watch.started]})
            stats = {'driver': case['driver'], 'transport_io': guard.io_count, 'unlocked_transport_io': nprob,
                     'threads_started': [type(t).__name__ for t in watch.started], 'threads_still_alive': len(alive)}
            run.ck.count('real-driver:' + case['driver'])
            run.ck.count('transport-io', guard.io_count)
            bad = excl_check(w.rec.events)
            if bad is not None and not w.rec.problems:
                run.ck.violation('schedule-unsafe:real-driver', 'recorded schedule violates the exclusion predicate: ' + bad[1],
                                 {'case': case, 'index': bad[0]})
    finally:
        for m, t in saved:
            m.time = t
    return stats


def real_driver_cases(quick):
    cs_ = []
    for drv in ('acr122', 'pn533', 'pn532'):
        for beep in (True, False):
            cs_.append({'op': 'real-driver', 'driver': drv, 'beep': beep, 'present_rounds': 3, 'terminate_after': 8})
        cs_.append({'op': 'real-driver', 'driver': drv, 'beep': True, 'present_rounds': 6, 'terminate_after': 3})
    return cs_ if not quick else [c for c in cs_ if c['driver'] != 'pn532' or c['present_rounds'] == 3 and c['beep']]


# ---------------------------------------------------------------- multi-thread stress (supporting evidence only)
def stress(ck, seconds, nthreads, cap=4000):
    import random
    old = sys.getswitchinterval()
    sys.setswitchinterval(1e-5)
    stats = {'ops': 0, 'errors': {}}
    try:
        with World(real_sleep=real_time.sleep) as w:
            w.rec.yield_hook = lambda: real_time.sleep(0)
            clf = w.new_frontend()

            def new_device(path=None):
                return w.device(make_script({'sense_tta': [], 'send_cmd_recv_rsp_default': 'data'}))
            sc = Script({}, {'sense_tta': sense_result('found', 'tta'), 'send_cmd_recv_rsp': lambda t, d, to: bytearray(b'\x00'),
                             'get_max_send_data_size': lambda t: 1, 'get_max_recv_data_size': lambda t: 1})
            w.connect_plan = []
            orig_connect = nfc.clf.device.connect

            def connect(path):
                w.connect_plan[:] = [w.device(sc)]
                return orig_connect(path)
            nfc.clf.device.connect = connect
            clf.open('sim')
            stop = real_time.time() + seconds
            seeds = [ck.rng.randrange(1 << 30) for _ in range(nthreads)]

            def worker(seed):
                rng = random.Random(seed)
                n = 0
                while real_time.time() < stop and n < cap:
                    n += 1
                    k = rng.randrange(10)
                    try:
                        if k < 3:
                            clf.sense(RT('106A'))
                        elif k < 5:
                            clf.exchange(b'\x30\x00', 0.01)
                        elif k == 5:
                            clf.max_send_data_size
                        elif k == 6:
                            budget = [3]
                            rounds = [2]

                            def present():
                                rounds[0] -= 1
                                clf.exchange(b'\x30\x00', 0.01)
                                return rounds[0] >= 0
                            w.activate = lambda c, t: TagProxy(w, present)
                            clf.connect(rdwr={'on-connect': lambda tag: True, 'interval': 0.0, 'iterations': 1},
                                        terminate=lambda: (budget.__setitem__(0, budget[0] - 1), budget[0] < 0)[1])
                        elif k == 7:
                            str(clf)
                        elif k == 8:
                            clf.close()
                        else:
                            clf.open('sim')
                    except (IOError, nfc.clf.Error) as e:
                        stats['errors'][type(e).__name__] = stats['errors'].get(type(e).__name__, 0) + 1
                    except Exception as e:  # noqa: e.g. AttributeError on a device closed under our feet
                        key = 'unexpected:' + type(e).__name__
                        stats['errors'][key] = stats['errors'].get(key, 0) + 1
                stats['ops'] += n
            ts = [threading.Thread(target=worker, args=(s,)) for s in seeds]
            for t in ts:
                t.start()
            for t in ts:
                t.join(seconds + 60)
            hung = [t for t in ts if t.is_alive()]
            sched = list(w.rec.events)
            bad = excl_check(sched)
            stats.update({'threads': nthreads, 'events': len(sched), 'hung_threads': len(hung),
                          'monitor_failures': len(w.rec.problems),
                          'overlapping_driver_calls_witnessed': w.rec.overlaps_observed, 'exclusion_predicate': 'holds' if bad is None else bad[1]})
            seen = set()
            for p in w.rec.problems:
                if p['key'] not in seen:
                    seen.add(p['key'])
                    ck.violation(p['key'], p['what'] + ' (multi-thread stress)', {'stress': True, 'detail': p['data']})
            if bad is not None and not w.rec.problems:
                idx, why = bad
                ck.violation('schedule-unsafe:stress', 'recorded multi-thread schedule violates the exclusion predicate: ' + why,
                             {'index': idx, 'window': [[t, list(e)] for t, e in sched[max(0, idx - 12):idx + 3]]})
    finally:
        sys.setswitchinterval(old)
    return stats


def checker_rejects():
    """diagnostics when frontend_locked fails: which methods does the checker reject (evaluated inside Coq)"""
    import re
    import shutil
    import tempfile
    from common import sh
    d = tempfile.mkdtemp(prefix='c15_')
    try:
        open(os.path.join(d, 'Q.v'), 'w').write(
            'From Coq Require Import List String.\nFrom NV Require Import Skel.LockSyntax Skel.LockCheck Gen.FrontendSkel.\n'
            'Import ListNotations.\nEval vm_compute in (filter (fun f => match chk (lookup frontend_prog) frontend_fuel false false '
            '(Call f) with Some _ => false | None => true end) (frontend_init :: frontend_entry_names)).\n')
        rc, out = sh(['coqc', '-Q', COQ, 'NV', os.path.join(d, 'Q.v')], timeout=120)
        return re.findall(r'"([^"]+)"', out.split(':')[0]) if rc == 0 else None
    finally:
        shutil.rmtree(d, ignore_errors=True)


# ---------------------------------------------------------------- main
def main():
    ck = Check('C15')
    ck.trusted = ['Coq 8.16.1 kernel; vm_compute evaluates the checker on the regenerated skeleton; no native_compute',
                  'translate/skel_c15.py (ast skeleton extractor, fail closed) with its whitelists of pure / outside names',
                  'harness/sim/frontend_rec.py: recording driver, lock wrapper and the Python mirror of LockSyntax.exec '
                  'used for trace inclusion (no extraction is involved: the model is evaluated inside Coq)']
    ck.assumptions = ['threading.Lock is a non-re-entrant mutex (mutex_ok); a read of self.device sees the last write (dev_ok)',
                      'application threads use the frontend only through the methods of ContactlessFrontend '
                      '(code that reaches into clf.device directly, e.g. nfc/__main__.py printing clf.device, is outside)',
                      'ContactlessFrontend.__init__ runs before the object is shared (its self.device = None precedes the lock)',
                      'attribute reads of self.device without the lock (connect() line 495 test, __str__) are reported, '
                      'not counted as driver calls; Device.__str__/vendor_name/product_name/path do not drive the hardware',
                      '`if self.device:` is read as `self.device is not None` (driver objects define neither __bool__ nor __len__)',
                      'pre-emption inside a driver method and the drivers themselves are outside the model']
    ck.coq(gen=['FrontendSkel', 'DriverScan'], targets=['Skel/LockCheck.vo', 'Bridge/C15Skel.vo', 'Bridge/C15Drivers.vo'], props='C15')
    if any('Bridge/C15Skel' in b or 'not built' in b for b in ck.broken) and not any(b.startswith('translation') for b in ck.broken):
        rej = checker_rejects()
        if rej is not None:
            ck.cov['checker_rejects_methods'] = rej
            ck.broken.append('LockCheck.chk rejects the regenerated skeleton of: %s' % ', '.join(rej))
    try:
        import re
        scan = skel_c15.scan_drivers(REPO)
        pol = open(os.path.join(COQ, 'Skel', 'DriverPolicy.v')).read()
        allowed = set(re.findall(r'"([^"]+)"', pol[pol.index('Definition allowed_imports'):pol.index('Definition expected_modules')]))
        where = ['%s:%d imports %s (not on the whitelist of Skel/DriverPolicy.v)' % (f, l, m) for f, l, m in scan['imports'] if m not in allowed]
        where += ['%s:%d %s' % (f, l, w) for f, l, w in scan['flags']]
        ck.cov['driver_scan'] = {'modules': scan['modules'], 'imports': sorted(set(m for _f, _l, m in scan['imports'])), 'findings': where}
        if where:
            ck.broken.append('driver modules may run driver/transport code outside the calling thread: ' + '; '.join(where[:12]))
    except Exception as e:  # noqa: fail closed
        if not any(b.startswith('translation DriverScan') for b in ck.broken):
            ck.broken.append('driver scan failed: %s' % e)
    if MISSING:
        ck.broken.append('nfc.clf.device.Device has public methods the recording driver does not know: %s' % MISSING)
    try:
        sk = skel_c15.extract(REPO)
    except Exception as e:  # noqa: fail closed
        sk = None
        if not any('translation' in b for b in ck.broken):
            ck.broken.append('skeleton extraction failed: %s' % e)
    if sk is not None:
        gen = os.path.join(COQ, 'Gen', 'FrontendSkel.v')
        if not os.path.exists(gen) or open(gen).read() != skel_c15.to_coq(sk):
            ck.broken.append('Gen/FrontendSkel.v is not the skeleton the correspondence uses')
        # one obligation per syntactic driver call site (informative: decided by frontend_locked as a whole)
        ck.cov['driver_call_sites'] = sk['driver_call_sites']
        ck.cov['device_reads_without_lock'] = [r for r in sk['device_reads'] if not r['lexically_locked']]
        ck.cov['extractor_notes'] = sk['notes']
    if sk is None:
        ck.finish(level='proof', rule='-', explanation='skeleton extraction failed')
    quick = ck.tier == 'quick'
    run = Runner(ck, sk)
    if ck.replay:
        data = json.load(open(ck.replay))
        case = data.get('case', {}).get('case')
        if case and case.get('op') == 'real-driver':
            real_driver_case(run, case)
        elif case:
            run.run_case(case)
        else:
            stress(ck, 3, 4)
        ck.finish(level='proof', rule='replay', explanation='replay of one recorded case')
    # corpus first: the minimised past failure (LED/buzzer calls of _rdwr_connect)
    corpus = [{'pre': 'open', 'op': 'connect', 'terminate_after': 4, 'sense_tta': ['found'],
               'rdwr': {'connect': True, 'beep': True, 'present_rounds': 1, 'release': True}},
              {'pre': 'open', 'op': 'connect', 'terminate_after': 4, 'sense_tta': ['found'],
               'rdwr': {'connect': True, 'beep': False, 'present_rounds': 0, 'release': True}}]
    cases = corpus + fixed_cases()
    for _ in range(1500 if quick else 40000):
        cases.append(random_case(ck.rng))
    for c in cases:
        run.run_case(c)
    ck.cov['real_drivers'] = [real_driver_case(run, c) for c in real_driver_cases(quick)]
    st = stress(ck, 4 if quick else 60, 4 if quick else 6, 4000 if quick else 60000)
    if not quick and not ck.broken:
        # independent re-check of the compiled libraries (kernel re-typechecks Skel, Gen and Bridge)
        from common import sh, BuildLock
        with BuildLock():
            rc, out = sh(['coqchk', '-silent', '-o', '-Q', '.', 'NV', 'NV.Bridge.C15Skel'], cwd=COQ, timeout=900)
        good = rc == 0 and '* Axioms: <none>' in out
        ck.obligations.append({'name': 'coqchk NV.Bridge.C15Skel', 'kind': 'coqchk', 'ok': good, 'detail': out[-300:] if not good else ''})
        if not good:
            ck.broken.append('coqchk failed on NV.Bridge.C15Skel: ' + ' '.join(out.split())[-200:])
    ck.cov['stress'] = st
    ck.cov['traces_validated_against_impl'] = run.validated
    ck.cov['frontend_calls_traced'] = run.ops
    ck.finish(level='proof',
              rule='every public entry point of ContactlessFrontend (open, __init__(path), close, with-statement, sense, listen, '
                   'exchange, max_send/recv_data_size, __str__, connect in rdwr/llcp/card mode with presence loop, LED/buzzer, '
                   'callbacks that call back into the frontend, device closed half way) on scripted drivers: fixed grid + random '
                   'scripts; one evaluation = one top-level frontend call whose event trace (Acq, Rel, DevBegin/DevEnd m, '
                   'ConnectCall, EvSet, ExtCall) is checked to be a trace of the extracted skeleton and monitored at every '
                   'driver entry; non-trivial = the call drives the device (driver call, device.connect or device write); '
                   'distinct by hash of (entry point, trace, outcome)',
              explanation='verified lock-discipline analysis (Coq) evaluated on the skeleton regenerated from the source, '
                          'tied to the running code by trace inclusion and an entry monitor; multi-thread stress as support')


if __name__ == '__main__':
    main()
