"""C10 - nothing sent on an LLCP link exceeds the peer's announced MIU; aggregation is transparent.

Obligations: Props/C10.v (collect_bound, ui_i_payload_bound, send_emsgsize, agf_transparent,
collect_terminates over coq/Model/Collect.v, for all queue states and every MIU 128..2175).

Correspondence: a REAL nfc.llcp.llc.LogicalLinkController (no MAC, no run loop; cfg['send-miu'] and
cfg['send-agf'] set directly) whose queues are filled through the socket API by a generated script
(sendto on connection-less sockets, listen/accept or directly established data link connections with
pending data and pending acknowledgements, received SNL requests, pending resolve requests, rejected
connects).  Before every collect() the controller state is abstracted (alpha) into the model's state
grammar; the extracted model runs collect on that abstraction; compared are: the PDUs of the returned
frame, the encoded frame bytes, the information field length and the abstraction of the state after the
call.  The frame is then decoded and dispatched at a second real controller and the delivered PDUs are
compared with the model's receiver.  send()/sendto() results (EMSGSIZE, ...) are compared as well.

Limits LEARNT from the peer (families learnt-*): the link MIU is taken over by the real activate() from general
bytes carrying a MIUX TLV (a real nfc.dep Initiator/Target on a stub frontend), connection MIUs by dispatched
CONNECT / CC PDU bytes (listen/accept, threaded connect); MIUX values 0..7FFh at the boundaries with every
combination of the reserved bits 11..15.  The monitor computes the TRUE limit 128 + (V & 7FFh) from the bytes and
checks cfg['send-miu'], socket send MIUs, every frame and every UI / I payload against it; the model's learn_miu /
learn_conn_miu are compared with what the code took over.

Monitor (written from the property text, independent of the model): parse the encoded frame from its
bytes; information field <= remote MIU; every UI payload <= link MIU and every I payload <= the MIU the
peer announced for that connection; PDUs delivered at the receiver == PDUs collected, in order.  Frames
that contain a PDU sent through a raw access point socket are excepted as the property says.
"""
import array
import json
import logging
import sys
import threading
import time

from common import Check

import nfc.llcp
import nfc.llcp.llc as L
import nfc.llcp.pdu as P
import nfc.llcp.tco as T

logging.disable(logging.CRITICAL)
DONTWAIT = nfc.llcp.MSG_DONTWAIT
NUMBERED = (12, 13, 14)
PTNAME = {0: 'SYMM', 1: 'PAX', 2: 'AGF', 3: 'UI', 4: 'CONNECT', 5: 'DISC', 6: 'CC', 7: 'DM', 8: 'FRMR', 9: 'SNL',
          10: 'DPS', 12: 'I', 13: 'RR', 14: 'RNR'}


def hexs(b):
    b = bytes(b)
    return b.hex() if b else '-'


def payload(n, fill):
    return bytes((fill + i) & 255 for i in range(n))


# ------------------------------------------------------------------ message arguments of send()/sendto()
class BytesSub(bytes):
    pass


ARG_KINDS = ['bytes', 'bytearray', 'bytes-sub', 'mv-bytes', 'mv-bytearray', 'mv-B', 'mv-H', 'mv-I', 'mv-2d', 'str', 'list',
             'none', 'int', 'array-B', 'array-H']
BYTES_KINDS = ('bytes', 'bytearray', 'bytes-sub')      # what the API documents: a bytes-like message


def make_arg(kind, n, fill):
    """message object with n ITEMS; returns (object, octets it stands for or None)"""
    raw = payload(n, fill)
    if kind == 'bytes':
        return raw, raw
    if kind == 'bytearray':
        return bytearray(raw), raw
    if kind == 'bytes-sub':
        return BytesSub(raw), raw
    if kind == 'mv-bytes':
        return memoryview(raw), raw
    if kind == 'mv-bytearray':
        return memoryview(bytearray(raw)), raw
    if kind == 'mv-B':
        return memoryview(array.array('B', raw)), raw
    if kind in ('mv-H', 'mv-I', 'array-H'):
        a = array.array('H' if kind != 'mv-I' else 'I', [(fill + i) & 0xFFFF for i in range(n)])
        return (a if kind == 'array-H' else memoryview(a)), a.tobytes()
    if kind == 'array-B':
        return array.array('B', raw), raw
    if kind == 'mv-2d':
        m = n - n % 2
        return memoryview(payload(m, fill)).cast('B', (2, m // 2)) if m else memoryview(b''), payload(m, fill)
    if kind == 'str':
        return raw.decode('latin'), None
    if kind == 'list':
        return list(raw), None
    if kind == 'int':
        return n, None
    return None, None


# ------------------------------------------------------------------ alpha: real objects -> model grammar
LEN_MISMATCH = []


def a_pdu(p):
    """pt da sa ns nr bodyhex ; body = encoded information field"""
    pt = p.ptype
    num = pt in NUMBERED
    ns = (p.ns or 0) if num else 0
    nr = (p.nr or 0) if num else 0
    if p.name in ('UI', 'I'):
        body = bytes(p.data)
    elif num:
        body = b''
    else:
        body = bytes(p.encode())[2:]
    if len(p) != p.header_size + len(body):
        # len(pdu) is what collect()/dequeue()/AggregatedFrame.__len__ budget with; remember, the step reports it
        LEN_MISMATCH.append('%s: len(pdu) = %d, encoded with %d octets (header %d + information field %d)'
                            % (p.name, len(p), p.header_size + len(body), p.header_size, len(body)))
    return '%d %d %d %d %d %s' % (pt, p.dsap, p.ssap, ns, nr, hexs(body))


def a_list(f, l):
    return ' '.join([str(len(l))] + [f(x) for x in l])


def a_sock(s):
    dlc = isinstance(s, T.DataLinkConnection)
    g = (lambda n: int(getattr(s, n) or 0)) if dlc else (lambda n: 0)
    return ' '.join(str(x) for x in [
        s.state.value, int(bool(s.mode.RECV_BUSY)), int(bool(s.mode.RECV_BUSY_SENT)), g('recv_confs'),
        g('recv_cnt'), g('recv_ack'), g('recv_win'), g('send_cnt'), g('send_ack'), g('send_win'),
        int(s.send_miu or 0), int(s.peer or 0), int(s.addr or 0)]) + ' ' + a_list(a_pdu, list(s.send_queue))


def a_kind(s):
    return 0 if isinstance(s, T.RawAccessPoint) else 1 if isinstance(s, T.LogicalDataLink) else 2


def a_obj(o):
    if isinstance(o, L.ServiceDiscovery):
        return ' '.join(['D', a_list(lambda r: '%d %d' % (r[0], r[1]), list(o.sdres)),
                         a_list(lambda r: '%d %s' % (r[0], hexs(r[1])), list(o.sdreq)), a_list(a_pdu, list(o.dmpdu))])
    socks = list(o.sock_list)
    kinds = set(a_kind(s) for s in socks)
    assert len(kinds) <= 1, 'mixed socket classes on one SAP'
    return ' '.join(['S', str(kinds.pop() if kinds else 0), a_list(a_sock, socks), a_list(a_pdu, list(o.send_list))])


def a_state(llc):
    return a_list(a_obj, [o for o in llc.sap if o])


def a_frame(f):
    if f is None:
        return 'none'
    if f.name == 'AGF':
        return 'agf ' + a_list(a_pdu, list(f))
    return 'one ' + a_pdu(f)


# ------------------------------------------------------------------ independent frame reader (monitor)
def read_pdus(wire):
    """[(ptype, dsap, ssap, information field bytes)] of a frame, from its bytes only (LLCP 1.3, 4.2/4.3)"""
    def one(b):
        ptype = ((b[0] << 8 | b[1]) >> 6) & 15
        hs = 3 if ptype in NUMBERED else 2
        return ptype, b[0] >> 2, b[1] & 63, bytes(b[hs:])
    top = one(wire)
    if top[0] != 2:
        return top, [top]
    subs, off = [], 2
    while off < len(wire):
        n = wire[off] << 8 | wire[off + 1]
        subs.append(one(wire[off + 2:off + 2 + n]))
        off += 2 + n
    return top, subs


# ------------------------------------------------------------------ receiver: a second real controller
class Recorder(object):
    def __init__(self, log, addr):
        self.log, self.addr = log, addr
        self.dmpdu = RecList(log)

    def enqueue(self, p):
        self.log.append(('enq', self.addr, p))


class RecList(list):
    def __init__(self, log):
        list.__init__(self)
        self.log = log

    def append(self, p):
        self.log.append(('dm', 1, p))


def deliver(wire, icv=None):
    """pdu.decode + dispatch at a fresh controller; returns canonical list of what reached the SAP layer"""
    rx = L.LogicalLinkController()
    if icv is not None:
        rx.sec = TestCipher(icv)
    log = []
    rx.sap = [Recorder(log, i) for i in range(64)]
    try:
        rx.dispatch(P.decode(bytes(wire)))
    except P.Error as e:
        return 'err ' + type(e).__name__
    out = []
    for kind, addr, p in log:
        if kind == 'dm':    # connect-by-name to a name the receiver does not serve: answered with DM by sap 1
            out.append(('cbn', p.dsap))
        else:
            out.append((a_pdu(p), addr))
    return out


def canon_rx_model(line):
    """model `receive` output -> same canonical form"""
    w = line.split()
    if w[0] != 'ok':
        return line
    n = int(w[1])
    out = []
    for i in range(n):
        pt, da, sa, ns, nr, body = w[2 + 6 * i: 8 + 6 * i]
        if pt == '4' and da == '1':
            out.append(('cbn', int(sa)))
        else:
            out.append((' '.join([pt, da, sa, ns, nr, body]), int(da)))
    return out


# ------------------------------------------------------------------ secure data transfer: a test cipher
class TestCipher(object):
    """stands in for nfc.llcp.sec.CipherSuite1 (OpenSSL is not available here): what collect()/dispatch() use of
    llc.sec is icv_size, encrypt(header, plaintext) and decrypt(header, ciphertext); ciphertext = plaintext + ICV"""

    def __init__(self, icv):
        self.icv_size = icv

    def encrypt(self, a, p):
        return bytes(p) + b'\xEE' * self.icv_size

    def decrypt(self, a, c):
        c = bytes(c)
        return c[:len(c) - self.icv_size] if self.icv_size else c


# ------------------------------------------------------------------ limits announced by the peer (monitor side)
def tlv_walk(b):
    """(T, V) list of a TLV sequence, from the bytes (LLCP 1.3 section 4.4/4.5)"""
    out, i = [], 0
    while i + 2 <= len(b):
        out.append((b[i], bytes(b[i + 2:i + 2 + b[i + 1]])))
        i += 2 + b[i + 1]
    return out


def last_miux(b):
    vs = [v[0] << 8 | v[1] for t, v in tlv_walk(b) if t == 2 and len(v) == 2]
    return vs[-1] if vs else None


def true_miu_of_tlvs(b):
    """MIU = 128 + MIUX, MIUX = the low 11 bits of the TLV value; 128 if the TLV is absent"""
    v = last_miux(b)
    return 128 if v is None else 128 + (v & 0x7FF)


def miux_tlv(v):
    return b'' if v is None else bytes([2, 2, v >> 8, v & 255])


def activate_llc(role, tlvs, agf):
    """LogicalLinkController.activate() over a real nfc.dep MAC; the contactless frontend is a stub that plays the
    peer's ATR (the general bytes are 'Ffm' + tlvs)"""
    import nfc.clf
    import nfc.dep
    gb = b'Ffm' + tlvs
    clf = nfc.clf.ContactlessFrontend()

    def no_exchange(*a, **k):
        raise nfc.clf.CommunicationError

    clf.exchange = no_exchange
    if role == 'I':
        atr_res = bytes.fromhex('D50100010203040506070809' '0000000832') + gb
        clf.sense = lambda *a, **k: nfc.clf.RemoteTarget("106A", atr_res=bytearray(atr_res))
        mac = nfc.dep.Initiator(clf)
        opts = {'brs': 0}
    else:
        atr_req = bytes.fromhex('D400' '00010203040506070809' '00000032') + gb
        clf.listen = lambda *a, **k: nfc.clf.RemoteTarget("106A", atr_req=bytearray(atr_req),
                                                          dep_req=bytearray.fromhex('D406000000'))
        mac = nfc.dep.Target(clf)
        opts = {}
    llc = L.LogicalLinkController(agf=bool(agf), sec=False)
    if llc.activate(mac, **opts) is not True:
        raise RuntimeError('activate() failed for general bytes ' + gb.hex())
    return llc


# ------------------------------------------------------------------ the application's view of the stack
class Api(object):
    """socket calls either on the controller (llc.sendto(tco, ..)) or through the public wrapper objects
    nfc.llcp.Socket (sock.sendto(..)); the scripts and the abstraction work on the underlying tco objects"""
    NAMES = ('bind', 'connect', 'listen', 'send', 'sendto', 'recv', 'recvfrom', 'setsockopt', 'getsockopt', 'close',
             'getsockname', 'getpeername')

    def __init__(self, llc, wrap):
        import nfc.llcp.socket
        self.llc, self.wrap, self.w = llc, wrap, {}
        self.Socket = nfc.llcp.socket.Socket
        for n in self.NAMES:
            setattr(self, n, self._method(n))

    def wrapper(self, tco):
        if id(tco) not in self.w:
            sock = self.Socket(self.llc, None)
            sock._tco = tco
            self.w[id(tco)] = sock
        return self.w[id(tco)]

    def _method(self, name):
        def call(tco, *a):
            if self.wrap:
                return getattr(self.wrapper(tco), name)(*a)
            return getattr(self.llc, name)(tco, *a)
        return call

    def socket(self, sock_type):
        if not self.wrap:
            return self.llc.socket(sock_type)
        sock = self.Socket(self.llc, sock_type)
        self.w[id(sock._tco)] = sock
        return sock._tco

    def accept(self, tco):
        if not self.wrap:
            return self.llc.accept(tco)
        sock = self.wrapper(tco).accept()
        self.w[id(sock._tco)] = sock
        return sock._tco


# ------------------------------------------------------------------ script interpreter (sender side)
class Sender(object):
    """executes a JSON-serialisable script of socket-API operations on a real controller"""

    def __init__(self, sc):
        agf = sc['agf']
        self.learn = []          # (model line, expected) for the limits taken over from the peer
        self.pending = {}        # key -> thread blocked in llc.connect()
        if sc.get('gb'):
            # the link MIU is LEARNT: real activate() on a real NFC-DEP MAC whose peer sent these general bytes
            role, tlvs = sc['gb']
            self.llc = activate_llc(role, bytes.fromhex(tlvs), agf)
            self.miu = self.llc.cfg['send-miu']                      # what the code will use
            self.true_miu = true_miu_of_tlvs(bytes.fromhex(tlvs))    # what the peer announced (from the bytes)
            v = last_miux(bytes.fromhex(tlvs))
            self.learn.append(('learn %s' % ('-' if v is None else v), str(self.miu)))
        else:
            self.miu = self.true_miu = sc['miu']
            self.llc = L.LogicalLinkController()
            self.llc.cfg['send-miu'] = self.miu
        self.llc.cfg['send-agf'] = bool(agf)
        self.icv = sc.get('icv')
        if self.icv is not None:
            self.llc.sec = TestCipher(self.icv)      # collect() and dispatch() now run their encrypted branches
        self.io = Api(self.llc, bool(sc.get('wrap')))
        self.socks = {}
        self.handed = {}         # key -> bytearrays handed over with send()/sendto() (the application still owns them)
        self.conn_miu = {}       # (dsap=peer, ssap=addr) -> MIU announced by the peer for that connection
        self.raw_used = False
        self.conn_learnt = []    # (how, MIUX value, socket send_miu, true limit)
        self.sendlog = []        # (model line, expected result)
        self.arglog = []         # (argument kind, outcome, errno)
        self.optlog = []         # (set/get, option, value, outcome, tco)
        self.threads = []

    def api(self, fn, *a):
        try:
            return 'ok', fn(*a)
        except nfc.llcp.Error as e:
            return 'err', e.errno

    def run(self, script):
        for op in script:
            getattr(self, 'op_' + op[0])(*op[1:])

    # -- sockets
    def _bind(self, s, spec):
        if isinstance(spec, str):
            spec = spec.encode('latin')
        return self.api(self.io.bind, s, spec)[0] == 'ok'

    def op_ldl(self, key, spec):
        s = self.io.socket(nfc.llcp.LOGICAL_DATA_LINK)
        if self._bind(s, spec):
            self.socks[key] = s

    def op_raw(self, key, addr):
        s = self.io.socket(L.RAW_ACCESS_POINT)
        if self._bind(s, addr):
            self.socks[key] = s

    def op_ldlconnect(self, key, dest):
        if key in self.socks:
            self.api(self.io.connect, self.socks[key], dest)

    def op_sendto(self, key, n, dest, fill):
        s = self.socks.get(key)
        if s is None:
            return
        msg = payload(n, fill)
        before = a_sock(s)
        r, v = self.api(self.io.sendto, s, msg, dest, DONTWAIT)
        exp = 'ok ' + a_sock(s) if r == 'ok' else 'err LlcpError:%d' % v
        self.sendlog.append(('sendto %d %d %s %s' % (self.miu, dest, hexs(msg), before), exp, n, r, self.true_miu))

    def op_send_arg(self, key, kind, n, dest, fill):
        """send()/sendto() with a message argument of the given Python type (n items).  The model knows octets only:
        for bytes-like arguments the result is compared with it; for every other type the outcome is recorded and the
        monitor applies - TypeError or llcp.Error are the documented refusals, anything accepted is measured in octets"""
        s = self.socks.get(key)
        if s is None:
            return
        msg, octets = make_arg(kind, n, fill)
        before = a_sock(s)
        raw = isinstance(s, T.RawAccessPoint)
        dlc = isinstance(s, T.DataLinkConnection)
        try:
            if dlc:
                self.io.send(s, msg, DONTWAIT)
            else:
                self.io.sendto(s, msg, dest, DONTWAIT)
            r, v = 'ok', None
        except nfc.llcp.Error as e:
            r, v = 'err', e.errno
        except TypeError:
            r, v = 'type', None
        self.arglog.append((kind, r, v))
        if raw:
            if r == 'ok':
                self.raw_used = True
            return
        lim = min(self.true_miu, self.conn_miu.get((s.peer, s.addr), 0)) if dlc else self.true_miu
        nbytes = len(octets) if octets is not None else None
        if kind in BYTES_KINDS or (r == 'ok' and octets is not None):
            exp = 'ok ' + a_sock(s) if r == 'ok' else ('err LlcpError:%d' % v if r == 'err' else 'TypeError')
            line = ('send %s %s' % (hexs(octets), before)) if dlc else ('sendto %d %d %s %s' % (self.miu, dest, hexs(octets), before))
            self.sendlog.append((line, exp, nbytes, r, lim))
        elif r == 'ok':
            self.sendlog.append((None, None, 10 ** 9, r, lim))       # accepted something that is not octets at all

    def op_send_buf(self, key, n, dest, fill):
        """send()/sendto() of a bytearray the application keeps (and may change afterwards, op_mutate)"""
        s = self.socks.get(key)
        if s is None:
            return
        buf = bytearray(payload(n, fill))
        octets = bytes(buf)
        before = a_sock(s)
        dlc = isinstance(s, T.DataLinkConnection)
        if dlc:
            r, v = self.api(self.io.send, s, buf, DONTWAIT)
            line = 'send %s %s' % (hexs(octets), before)
            lim = min(self.true_miu, self.conn_miu.get((s.peer, s.addr), 0))
        else:
            r, v = self.api(self.io.sendto, s, buf, dest, DONTWAIT)
            line = 'sendto %d %d %s %s' % (self.miu, dest, hexs(octets), before)
            lim = self.true_miu
        exp = 'ok ' + a_sock(s) if r == 'ok' else 'err LlcpError:%d' % v
        self.sendlog.append((line, exp, n, r, lim))
        if r == 'ok':
            self.handed.setdefault(key, []).append(buf)

    def op_mutate(self, key, how, k):
        """the application reuses the buffers it has sent (MSG_DONTWAIT returned, the data is handed over)"""
        for buf in self.handed.get(key, []):
            if how == 'extend':
                buf.extend(payload(k, 0x55))
            elif how == 'truncate':
                del buf[k:]
            else:
                for i in range(len(buf)):
                    buf[i] = (k + i) & 255

    def op_setopt(self, key, option, value):
        """setsockopt with any option number / value; ValueError, NotImplementedError, TypeError and llcp.Error are
        the refusals the API documents or raises on purpose"""
        s = self.socks.get(key)
        if s is None:
            return
        try:
            r = ('ok', self.io.setsockopt(s, option, value))
        except (nfc.llcp.Error, ValueError, NotImplementedError, TypeError) as e:
            r = (type(e).__name__, None)
        self.optlog.append(('set', option, value, r[0], s))

    def op_getopt(self, key, option):
        s = self.socks.get(key)
        if s is None:
            return
        try:
            r = ('ok', self.io.getsockopt(s, option))
        except (nfc.llcp.Error, ValueError, NotImplementedError, TypeError) as e:
            r = (type(e).__name__, None)
        self.optlog.append(('get', option, None, r[0], s))

    def op_rawsend(self, key, n, dest, fill):
        s = self.socks.get(key)
        if s is None:
            return
        self.raw_used = True
        self.io.sendto(s, P.UnnumberedInformation(dest, s.addr, payload(n, fill)), dest, DONTWAIT)

    def op_dlc(self, key, addr, peer, annc, swin, rwin):
        """data link connection brought to ESTABLISHED as connect() does on reception of CC(miu=annc, rw=swin)"""
        s = self.io.socket(nfc.llcp.DATA_LINK_CONNECTION)
        self.io.setsockopt(s, nfc.llcp.SO_RCVBUF, rwin)
        if not self._bind(s, addr):
            return
        s.peer = peer
        s.recv_buf = s.recv_win
        s.send_miu = annc
        s.send_win = swin
        s.state.ESTABLISHED = True
        if s.send_miu > self.llc.cfg['send-miu']:      # llc.connect()
            s.send_miu = self.llc.cfg['send-miu']
        self.socks[key] = s
        self.conn_miu[(peer, s.addr)] = annc

    def op_listen(self, key, spec, rwin, rmiu):
        s = self.io.socket(nfc.llcp.DATA_LINK_CONNECTION)
        self.io.setsockopt(s, nfc.llcp.SO_RCVBUF, rwin)
        self.io.setsockopt(s, nfc.llcp.SO_RCVMIU, rmiu)
        if not self._bind(s, spec):
            return
        self.io.listen(s, 4)
        self.socks[key] = s

    def op_accept(self, lkey, key, ssap, annc, rw):
        ls = self.socks.get(lkey)
        if ls is None or len(ls.recv_queue) >= ls.recv_buf:
            return
        self.llc.dispatch(P.Connect(ls.addr, ssap, annc, rw))
        if not len(ls.recv_queue):
            return
        s = self.io.accept(ls)
        self.socks[key] = s
        self.conn_miu[(s.peer, s.addr)] = annc

    def _learnt(self, s, v, how):
        """a data link connection has just taken its send MIU from a CONNECT / CC with MIUX value v"""
        true = 128 if v is None else 128 + (v & 0x7FF)
        self.conn_miu[(s.peer, s.addr)] = true
        self.learn.append(('learnconn %d %s %s' % (self.miu, '-' if v is None else v, a_sock(s)), a_sock(s)))
        self.conn_learnt.append((how, v, s.send_miu, min(true, self.true_miu)))

    def op_accept_raw(self, lkey, key, ssap, v, rw):
        """CONNECT PDU bytes with a MIUX TLV arrive for a listening socket; accept()"""
        ls = self.socks.get(lkey)
        if ls is None or len(ls.recv_queue) >= ls.recv_buf:
            return
        wire = bytes([ls.addr << 2 | 1, ssap]) + miux_tlv(v) + (bytes([5, 1, rw]) if rw != 1 else b'')
        self.llc.dispatch(P.decode(wire))
        if not len(ls.recv_queue):
            return
        s = self.io.accept(ls)
        self.socks[key] = s
        self._learnt(s, v, 'CONNECT')

    def op_connect_start(self, key, addr, dest, rwin=None, rmiu=None):
        """llc.connect() in a thread; it queues CONNECT and waits for the answer"""
        s = self.io.socket(nfc.llcp.DATA_LINK_CONNECTION)
        if rwin is not None:
            self.io.setsockopt(s, nfc.llcp.SO_RCVBUF, rwin)
        if rmiu is not None:
            self.io.setsockopt(s, nfc.llcp.SO_RCVMIU, rmiu)
        if not self._bind(s, addr):
            return

        def run():
            try:
                self.io.connect(s, dest)
            except nfc.llcp.Error:
                pass

        t = threading.Thread(target=run)
        t.daemon = True
        t.start()
        for _ in range(4000):
            if len(s.send_queue) or not t.is_alive():
                break
            time.sleep(0.0005)
        self.socks[key] = s
        self.pending[key] = (t, dest)

    def op_cc(self, key, v, rw):
        """CC PDU bytes with a MIUX TLV answer the pending connect()"""
        if key not in self.pending:
            return
        t, dest = self.pending.pop(key)
        s = self.socks[key]
        wire = bytes([s.addr << 2 | 1, 0x80 | dest]) + miux_tlv(v) + (bytes([5, 1, rw]) if rw != 1 else b'')
        self.llc.dispatch(P.decode(wire))
        t.join(2)
        if s.state.ESTABLISHED:
            self._learnt(s, v, 'CC')

    def op_send(self, key, n, fill):
        s = self.socks.get(key)
        if s is None:
            return
        msg = payload(n, fill)
        before = a_sock(s)
        r, v = self.api(self.io.send, s, msg, DONTWAIT)
        exp = 'ok ' + a_sock(s) if r == 'ok' else 'err LlcpError:%d' % v
        self.sendlog.append(('send %s %s' % (hexs(msg), before), exp, n, r,
                             min(self.true_miu, self.conn_miu.get((s.peer, s.addr), 0))))

    def op_rx(self, key, k, j):
        """k in-sequence I PDUs arrive from the peer, the application reads j of them"""
        s = self.socks.get(key)
        if s is None or not s.state.ESTABLISHED:
            return
        for _ in range(k):
            self.llc.dispatch(P.Information(s.addr, s.peer, s.recv_cnt, s.send_ack, b'in'))
        for _ in range(j):
            if len(s.recv_queue) and s.state.ESTABLISHED:
                self.io.recv(s)

    def op_busy(self, key, flag):
        s = self.socks.get(key)
        if s is not None:
            self.io.setsockopt(s, nfc.llcp.SO_RCVBSY, flag)

    def op_badi(self, key):
        s = self.socks.get(key)
        if s is not None and s.state.ESTABLISHED:
            self.llc.dispatch(P.Information(s.addr, s.peer, (s.recv_cnt + 5) % 16, s.send_ack, b'x'))

    def op_disc(self, key):
        s = self.socks.get(key)
        if s is not None and s.state.ESTABLISHED:
            self.llc.dispatch(P.Disconnect(s.addr, s.peer))

    def op_connectpdu(self, key, addr, dest, rmiu, rwin):
        """what DataLinkConnection.connect() does before it blocks: CONNECT PDU queued, state CONNECT"""
        s = self.io.socket(nfc.llcp.DATA_LINK_CONNECTION)
        self.io.setsockopt(s, nfc.llcp.SO_RCVBUF, rwin)
        self.io.setsockopt(s, nfc.llcp.SO_RCVMIU, rmiu)
        if not self._bind(s, addr):
            return
        if isinstance(dest, str):
            p = P.Connect(1, s.addr, s.recv_miu, s.recv_win, dest.encode('latin'))
        else:
            p = P.Connect(dest, s.addr, s.recv_miu, s.recv_win)
        s.state.CONNECT = True
        s.send_queue.append(p)
        self.socks[key] = s

    # -- service discovery and rejects
    def op_snlreq(self, reqs):
        self.llc.dispatch(P.ServiceNameLookup(1, 1, sdreq=[(t, bytes.fromhex(n)) for t, n in reqs]))

    def op_resolve(self, tid, namehex):
        sd = self.llc.sap[1]
        with sd.resp:                      # the two statements of ServiceDiscovery.resolve() before it waits
            if tid in sd.tids:
                sd.tids.remove(tid)
            sd.sdreq.append((tid, bytes.fromhex(namehex)))

    def op_resolve_thread(self, namehex):
        sd = self.llc.sap[1]
        n0 = len(sd.sdreq)
        t = threading.Thread(target=self.llc.resolve, args=(bytes.fromhex(namehex),))
        t.daemon = True
        t.start()
        self.threads.append(t)
        for _ in range(2000):
            if len(sd.sdreq) > n0:
                break
            time.sleep(0.001)

    def op_cbn(self, ssap):
        self.llc.dispatch(P.Connect(1, ssap, sn=b'urn:nfc:sn:nobody'))

    def op_sapconnect(self, dsap, ssap):
        self.llc.dispatch(P.Connect(dsap, ssap))

    def op_sapi(self, dsap, ssap):
        self.llc.dispatch(P.Information(dsap, ssap, 0, 0, b'?'))

    def close(self):
        for key, (t, dest) in self.pending.items():
            self.socks[key].close()
            t.join(2)
        if self.threads:
            self.llc.sap[1].shutdown()
            for t in self.threads:
                t.join(1)


# ------------------------------------------------------------------ one scenario: script -> cases
def run_scenario(ck, sc, lines, expect, maxframes=8):
    """runs the script on real code; a ['collect'] operation and the end of the script call collect() (at the end
    until nothing is left, at most maxframes times); every call is one model line.
    sc = dict(miu, agf, script, family)"""
    agf = sc['agf']
    snd = Sender(sc)
    miu = snd.miu            # the link MIU the code works with (model input)
    lim = snd.true_miu       # the link MIU the peer announced (monitor)
    frame_no = [0]
    if miu != lim:
        ck.violation('link-miu-learnt-wrong', 'activate() took over send-miu %d from general bytes that announce MIU %d '
                     '(MIUX TLV value %04Xh)' % (miu, lim, last_miux(bytes.fromhex(sc['gb'][1])) or 0), {'scenario': sc})

    def flush_learn():
        for line, exp in snd.learn:
            lines.append(line)
            expect.append((exp, 'learn', sc, None))
            ck.count('learn-' + line.split()[0])
        del snd.learn[:]
        for how, v, got, true in snd.conn_learnt:
            ck.case(('conn', how, v, lim), True)
            if got != true:
                ck.violation('conn-miu-learnt-wrong:' + how, '%s with MIUX TLV value %04Xh on a link with MIU %d gave socket send MIU '
                             '%d, the peer announced %d' % (how, v or 0, lim, got, true), {'scenario': sc})
        del snd.conn_learnt[:]

    def flush_sends():
        for line, exp, n, r, slim in snd.sendlog:
            if line is not None:
                lines.append(line)
                expect.append((exp, 'send', sc, None))
                ck.count('send-' + ('accepted' if r == 'ok' else 'errno-' + exp.split(':')[-1]))
            # monitor: a payload above the link / connection MIU must not be queued (n = octets that would go out)
            if r == 'ok' and n > slim:
                ck.violation('send-accepts-oversize', 'send()/sendto() queued a message of %s octets, the MIU of its receiver is %d'
                             % (n if n < 10 ** 9 else 'unknown many', slim), {'scenario': sc, 'len': n, 'limit': slim})
        del snd.sendlog[:]
        for what, option, value, outcome, tco in snd.optlog:
            ck.count('sockopt-%s-%s:%s' % (what, option if option in range(1, 7) else 'unknown', outcome))
            ck.case(('opt', what, option, value, outcome), True)
            # monitor: no socket option may lift a connection's send MIU above what the peer announced for it
            if isinstance(tco, T.DataLinkConnection) and tco.state.ESTABLISHED:
                true = min(lim, snd.conn_miu.get((tco.peer, tco.addr), 0))
                if tco.send_miu > true:
                    ck.violation('sockopt-raises-send-miu', '%ssockopt(option %s, value %s) left the connection with send MIU %d, the '
                                 'peer announced %d' % (what, option, value, tco.send_miu, true), {'scenario': sc})
        del snd.optlog[:]
        for kind, r, v in snd.arglog:
            ck.count('arg-%s:%s' % (kind, 'accepted' if r == 'ok' else 'TypeError' if r == 'type' else 'errno-%d' % v))
            ck.case(('arg', kind, r, v, snd.true_miu), True)
        del snd.arglog[:]

    def step():
        """one collect(); returns True if a frame came out"""
        k = frame_no[0]
        frame_no[0] += 1
        del LEN_MISMATCH[:]
        pre = a_state(snd.llc)
        f = snd.llc.collect()
        post = a_state(snd.llc)
        if f is not None:
            try:
                a_frame(f)
            except P.EncodeError:
                pass                # handled below: nothing is sent
        if LEN_MISMATCH:
            # the budget arithmetic works on a wrong length; the frame itself is still measured below, from its bytes
            ck.violation('len-mismatch:' + LEN_MISMATCH[0].split(':')[0], 'the length collect() budgets with differs from the '
                         'encoded length - %s' % LEN_MISMATCH[0], {'scenario': sc, 'frame_index': k})
        lines.append('collect fixed %d %d %s %s' % (miu, int(agf), '-' if snd.icv is None else snd.icv, pre))
        if f is None:
            expect.append(('ok none | none | 0 | ' + post, 'collect', sc, k))
            ck.case((miu, agf, pre), False)
            ck.count('collect-none')
            return False
        try:
            wire = bytes(P.encode(f))
        except P.EncodeError:
            # the frame cannot be encoded (SDREQ name above 254 bytes): nothing is sent; compare the rest
            expect.append((('encode-error', len(f) - f.header_size, post), 'collect-encode-error', sc, k))
            ck.case((miu, agf, pre), True)
            ck.count('collect-encode-error')
            return True
        top, subs = read_pdus(wire)
        hs = 3 if top[0] in NUMBERED else 2
        info = len(wire) - hs
        expect.append(('ok %s | %s | %d | %s' % (a_frame(f), hexs(wire), info, post), 'collect', sc, k))
        ck.count('collect-' + ('agf' if top[0] == 2 else 'single'))
        if snd.raw_used:
            ck.count('raw-excepted-frame:' + ('above-miu' if info > miu else 'within-miu'))
        else:
            ck.count(('sec-' if snd.icv is not None else '') + ('frame-info-vs-miu:%+d' % (info - lim) if info - lim >= -8 else 'frame-info-vs-miu:<-8'))
        ck.case((miu, agf, pre), True, {'family': sc['family'], 'miu': miu, 'agf': agf, 'info': info,
                                        'frame': [PTNAME.get(x[0], x[0]) for x in subs]} if (k == 0 and info >= miu - 4) else None)
        # ---------------- monitor
        icv = snd.icv or 0
        sec_on = snd.icv is not None
        if not snd.raw_used:
            names = '+'.join(PTNAME.get(x[0], str(x[0])) for x in subs[:3]) + ('+..' if len(subs) > 3 else '')
            # a single encrypted UI / I PDU carries its ICV on top of a payload of at most MIU octets ("the receiver must
            # accept them with complete MIU plus ICV size", collect()); every other frame is bounded by the MIU itself
            allow = lim + (icv if (sec_on and top[0] in (3, 12)) else 0)
            if info > allow:
                kind = 'agf' if top[0] == 2 else PTNAME.get(top[0], str(top[0]))
                ck.violation('frame-exceeds-miu:' + kind + ('-sec' if sec_on else ''),
                             'collect() returned a %s frame (%s) whose information field of %d bytes%s exceeds the '
                             'remote Link MIU %d' % (kind, names, info, ' (ICV %d included)' % icv if sec_on else '', lim),
                             {'scenario': sc, 'frame_index': k, 'info': info, 'miu': lim, 'frame': hexs(wire)[:400]})
            for pt, dsap, ssap, body in subs:
                plain = len(body) - (icv if sec_on else 0)
                if pt == 3 and plain > lim:
                    ck.violation('payload-exceeds-miu:UI', 'UI payload of %d bytes above the link MIU %d' % (plain, lim),
                                 {'scenario': sc, 'len': plain, 'miu': lim})
                if pt == 12:
                    climit = snd.conn_miu.get((dsap, ssap))
                    if climit is None or plain > climit:
                        ck.violation('payload-exceeds-miu:I', 'I payload of %d bytes above the MIU %s announced for the connection'
                                     % (plain, climit), {'scenario': sc, 'len': plain, 'limit': climit})
        # ---------------- receiver (decrypts when secure data transfer is on)
        got = deliver(wire, snd.icv)
        sent = list(f) if f.name == 'AGF' else [f]

        def canon(p, strip):
            if p.name == 'CONNECT' and p.dsap == 1:
                return ('cbn', p.ssap)
            t = a_pdu(p)
            if strip and p.name in ('UI', 'I'):
                w = t.split()
                w[5] = hexs(bytes(p.data)[:len(p.data) - icv])
                t = ' '.join(w)
            return (t, p.dsap)
        want = [canon(p, sec_on) for p in sent]            # what the SAP layer must get: the plaintext PDUs
        on_wire = [canon(p, False) for p in sent]          # what the model's receiver (no decryption) sees
        if got != want:
            ck.violation('agf-not-transparent', 'the receiving controller did not dispatch exactly the collected PDUs in order',
                         {'scenario': sc, 'frame_index': k, 'frame': hexs(wire)[:400], 'delivered': str(got)[:400], 'collected': str(want)[:400]})
        lines.append('receive ' + hexs(wire))
        expect.append((on_wire, 'receive', sc, k))
        ck.count('receive')
        return True

    try:
        flush_learn()
        if any(op[0] == 'resolve_thread' for op in sc['script']):
            import random as _r
            L.random = _r.Random(sc['miu'] * 7 + len(sc['script']))
        for op in sc['script']:
            if op[0] == 'collect':
                step()
            else:
                snd.run([op])
                flush_sends()
                flush_learn()
        for _ in range(maxframes):
            if not step():
                break
    finally:
        snd.close()


# ------------------------------------------------------------------ generators
def name_of(rng, n):
    base = b'urn:nfc:sn:'
    if n <= len(base):
        return (base + b'x' * 8)[:n]
    return base + bytes(rng.choice(b'abcdefghijklmnopqrstuvwxyz') for _ in range(n - len(base)))


def pick_miu(rng):
    return rng.choice([128, 129, 130, 131, 132, 133, 135, 248, 249, 250, 251, 255, 256, 257, 1024, 2174, 2175,
                       rng.randrange(128, 2176), rng.randrange(128, 2176), rng.randrange(128, 300)])


def gen_sdres(rng):
    """1..40 pending SDRES against a MIU next to 4n"""
    n = rng.randrange(1, 41)
    miu = rng.choice([max(128, 4 * n + d) for d in (-3, -2, -1, 0, 1, 2, 3)] + [128 + rng.randrange(0, 36), pick_miu(rng)])
    script = []
    left, tid = n, 0
    while left:
        k = min(left, rng.choice([1, 5, 40]))
        script.append(['snlreq', [[(tid + i) % 256, name_of(rng, rng.randrange(12, 20)).hex()] for i in range(k)]])
        tid += k
        left -= k
    if rng.random() < 0.5:
        script.append(['resolve', 200, name_of(rng, rng.choice([1, 12, 20, 60])).hex()])
    if rng.random() < 0.3:
        script.append(['cbn', rng.randrange(2, 64)])
    rng.shuffle(script)
    return dict(family='sdres', miu=miu, agf=rng.random() < 0.5, script=script)


def gen_sdreq(rng):
    """pending resolve requests with names of 1..255 bytes against the budget"""
    miu = pick_miu(rng)
    script = []
    n = rng.randrange(1, 6)
    for i in range(n):
        ln = rng.choice([1, 2, 20, 124, 125, 126, 127, 128, 129, 200, 253, 254, 255, max(1, min(255, miu - 3 + rng.randrange(-2, 3))),
                         rng.randrange(1, 256)])
        script.append(['resolve', 10 + i, name_of(rng, ln).hex()])
    if rng.random() < 0.5:
        script.append(['snlreq', [[i, name_of(rng, 14).hex()] for i in range(rng.randrange(1, 8))]])
    if rng.random() < 0.4:
        script.insert(0, ['ldl', 'a', None])
        script.append(['sendto', 'a', max(0, miu - rng.randrange(0, 300)), rng.randrange(2, 64), 1])
    return dict(family='sdreq', miu=miu, agf=rng.random() < 0.6, script=script)


def gen_ui_pair(rng):
    """two or three UI PDUs whose sizes put the aggregate next to the MIU"""
    miu = pick_miu(rng)
    a = rng.choice([miu - rng.randrange(0, 10), rng.randrange(0, miu), miu // 2 - 4 + rng.randrange(-3, 4), miu + rng.randrange(1, 3)])
    a = max(0, a)
    b = max(0, miu - 4 - (2 + a) - 2 + rng.randrange(-3, 4))     # 2+2+a + 2+2+b around miu
    script = [['ldl', 'a', rng.choice([None, None, 40, 'urn:nfc:sn:svc'])], ['ldl', 'b', None]]
    script.append(['sendto', 'a', a, rng.randrange(2, 64), rng.randrange(256)])
    script.append(['sendto', rng.choice('ab'), b, rng.randrange(2, 64), rng.randrange(256)])
    if rng.random() < 0.5:
        script.append(['sendto', 'b', rng.randrange(0, 12), rng.randrange(2, 64), rng.randrange(256)])
    if rng.random() < 0.2:
        script.append(['raw', 'r', 60])
    return dict(family='ui-pair', miu=miu, agf=rng.random() < 0.85, script=script)


def gen_first_plus_ack(rng):
    """a first PDU that (nearly) fills the MIU, then PDUs that are dequeued without a size test"""
    miu = pick_miu(rng)
    first = max(0, miu - rng.randrange(0, 9))
    script = [['ldl', 'a', None], ['sendto', 'a', first, rng.randrange(2, 64), rng.randrange(256)]]
    extra = rng.sample(['necessary', 'busy', 'voluntary', 'sapdm', 'snl', 'cbn', 'sap0'], rng.randrange(1, 4))
    for i, e in enumerate(extra):
        key = 'd%d' % i
        if e == 'necessary':
            script += [['dlc', key, 40 + i, 20 + i, 128, 1, 1], ['rx', key, 1, 1]]
        elif e == 'busy':
            script += [['dlc', key, 40 + i, 20 + i, 128, 1, 2], ['busy', key, True]]
        elif e == 'voluntary':
            script += [['dlc', key, 40 + i, 20 + i, 128, 2, 3], ['rx', key, 2, rng.randrange(1, 3)]]
        elif e == 'sapdm':
            script += [['sapconnect', 32, rng.randrange(2, 64)]]
        elif e == 'sap0':
            script += [['sapconnect', 0, rng.randrange(2, 64)]]
        elif e == 'snl':
            script += [['snlreq', [[i, name_of(rng, 14).hex()] for i in range(rng.randrange(1, 4))]]]
        elif e == 'cbn':
            script += [['cbn', rng.randrange(2, 64)]]
    return dict(family='first+unsized', miu=miu, agf=rng.random() < 0.9, script=script)


def gen_budget_snl(rng):
    """aggregation budget of -2..6 bytes left when the service discovery SAP is asked"""
    miu = pick_miu(rng)
    left = rng.randrange(-2, 9)
    first = miu - 9 - left          # budget after the first PDU: miu - (2 + 2 + 2 + first) - 3
    script = [['ldl', 'a', None], ['sendto', 'a', max(0, first), rng.randrange(2, 64), 7],
              ['snlreq', [[i, name_of(rng, 14).hex()] for i in range(rng.randrange(1, 5))]]]
    if rng.random() < 0.5:
        script.append(['resolve', 99, name_of(rng, rng.choice([1, 2, 3, 12])).hex()])
    return dict(family='budget-snl', miu=miu, agf=True, script=script)


def gen_dlc(rng):
    """data link connections with pending data, piggy-backed / necessary / voluntary acknowledgements"""
    miu = pick_miu(rng)
    script = []
    n = rng.randrange(1, 5)
    for i in range(n):
        key = 'c%d' % i
        annc = rng.choice([128, 128, miu, miu + 7, rng.randrange(128, 2176)])
        swin, rwin = rng.randrange(1, 16), rng.randrange(1, 16)
        if rng.random() < 0.4:
            script.append(['listen', 'l%d' % i, rng.choice([None, 'urn:nfc:sn:s%d' % i]), rng.choice([0, 1, 2, 15, rwin]),
                           rng.choice([128, 248, 1000])])
            script.append(['accept', 'l%d' % i, key, 10 + i, annc, swin])
        else:
            script.append(['dlc', key, 40 + i, 10 + i, annc, swin, rwin])
        lim = min(annc, miu)
        for _ in range(rng.randrange(0, 4)):
            script.append(['send', key, max(0, rng.choice([lim, lim - 1, lim + 1, rng.randrange(0, lim + 1), rng.randrange(0, 20),
                                                           miu - 9 - rng.randrange(0, 6)])), rng.randrange(256)])
        if rng.random() < 0.7:
            k = rng.randrange(1, rwin + 1)
            script.append(['rx', key, k, rng.randrange(0, k + 1)])
        if rng.random() < 0.2:
            script.append(['busy', key, True])
        r = rng.random()
        if r < 0.08:
            script.append(['badi', key])
        elif r < 0.16:
            script.append(['disc', key])
    if rng.random() < 0.4:
        script.append(['ldl', 'u', None])
        script.append(['sendto', 'u', max(0, miu - rng.randrange(0, 40)), rng.randrange(2, 64), 3])
    if rng.random() < 0.3:
        script.append(['sapi', 40, 63])
    if rng.random() < 0.3:
        script.append(['connectpdu', 'k', 50, rng.choice([17, 'urn:nfc:sn:' + 'n' * rng.choice([1, 20, 110, 117, 118, 119, 200])]),
                       rng.choice([128, 1000]), rng.choice([1, 5])])
    return dict(family='dlc', miu=miu, agf=rng.random() < 0.7, script=script)


def gen_mix(rng):
    parts = [gen_dlc(rng), gen_sdres(rng), gen_ui_pair(rng)]
    miu = pick_miu(rng)
    script = [op for p in parts for op in p['script']]
    # keys of different parts are distinct by construction (c*, l*, a, b, r, u, k)
    return dict(family='mix', miu=miu, agf=rng.random() < 0.7, script=script)


def gen_raw(rng):
    """raw access point sockets with queued PDUs: correspondence only (the property excepts them)"""
    miu = pick_miu(rng)
    script = [['raw', 'r', rng.choice([33, 60])], ['ldl', 'a', None],
              ['rawsend', 'r', rng.choice([0, 5, miu - 1, miu, miu + 9]), 16, 1],
              ['sendto', 'a', rng.randrange(0, 60), 17, 2],
              ['rawsend', 'r', rng.choice([0, 5, miu + 40]), 16, 3]]
    return dict(family='raw', miu=miu, agf=rng.random() < 0.7, script=script)


def gen_threaded(rng):
    miu = pick_miu(rng)
    script = [['resolve_thread', name_of(rng, rng.choice([12, 30, 200])).hex()] for _ in range(rng.randrange(1, 3))]
    script.append(['snlreq', [[i, name_of(rng, 14).hex()] for i in range(rng.randrange(0, 4))]])
    return dict(family='resolve-thread', miu=miu, agf=rng.random() < 0.5, script=script)


CORPUS = [
    # a sent bytearray grows before collect(): 100 octets handed over, 400 in the buffer (connection MIU 200, link MIU 1024)
    dict(family='corpus', miu=1024, agf=False, script=[['dlc', 'c', 40, 16, 200, 4, 1], ['send_buf', 'c', 100, 16, 1],
                                                       ['mutate', 'c', 'extend', 300]]),
    # SO_SNDMIU on an established connection (connection MIU 200, link MIU 1024) through the wrapper
    dict(family='corpus', miu=1024, agf=False, wrap=True, script=[['dlc', 'c', 40, 16, 200, 4, 1], ['setopt', 'c', 1, 1024],
                                                                  ['send', 'c', 300, 1]]),
    # message arguments that are not octet strings: 100 16-bit items are 200 octets (MIU 128)
    dict(family='corpus', miu=128, agf=False, script=[['ldl', 'a', None], ['send_arg', 'a', 'mv-H', 100, 16, 1]]),
    dict(family='corpus', miu=128, agf=True, script=[['dlc', 'c', 40, 16, 128, 4, 1], ['send_arg', 'c', 'mv-I', 64, 16, 1],
                                                     ['send_arg', 'c', 'bytes', 5, 16, 2]]),
    # CC / CONNECT that announce a receive window of 0 (RW TLV encoded) next to a UI PDU that just fits / just does not
    dict(family='corpus', miu=128, agf=True, script=[['listen', 'l', 'urn:nfc:sn:svc', 0, 128], ['accept', 'l', 'c', 32, 128, 1],
                                                     ['ldl', 'u', 33], ['sendto', 'u', 119, 17, 1]]),
    dict(family='corpus', miu=128, agf=True, script=[['connectpdu', 'k', 32, 16, 128, 0], ['ldl', 'u', 33], ['sendto', 'u', 118, 17, 1]]),
    # secure data transfer: I PDU 10 + I PDU that fits only without its ICV (MIU 128, ICV 4, spare 1 and 4)
    dict(family='corpus', miu=128, agf=True, icv=4, script=[['dlc', 'c', 40, 16, 128, 4, 1], ['send', 'c', 10, 1], ['send', 'c', 103, 2]]),
    dict(family='corpus', miu=131, agf=True, icv=4, script=[['dlc', 'c', 40, 16, 131, 4, 1], ['send', 'c', 10, 1], ['send', 'c', 103, 2]]),
    dict(family='corpus', miu=128, agf=True, icv=4, script=[['ldl', 'a', None], ['sendto', 'a', 10, 16, 1], ['sendto', 'a', 106, 16, 2]]),
    dict(family='corpus', miu=128, agf=False, icv=4, script=[['ldl', 'a', None], ['sendto', 'a', 128, 16, 1], ['sendto', 'a', 125, 16, 2]]),
    # limits learnt from the peer (general bytes 02 02 08 78 = MIU 248 with reserved bit 11; CC with MIUX 0800h = MIU 128)
    dict(family='corpus', miu=None, gb=['I', '01011302020878'], agf=False,
         script=[['ldl', 'a', None], ['sendto', 'a', 248, 16, 1], ['sendto', 'a', 300, 16, 2]]),
    dict(family='corpus', miu=None, gb=['I', '010113020207ff'], agf=False,
         script=[['connect_start', 'c', 32, 16], ['collect'], ['cc', 'c', 0x800, 1], ['send', 'c', 128, 1], ['send', 'c', 200, 2]]),
    dict(family='corpus', miu=None, gb=['T', '010113020207ff'], agf=True,
         script=[['listen', 'l', None, 2, 128], ['accept_raw', 'l', 'c', 9, 0x800, 1], ['send', 'c', 128, 1], ['send', 'c', 200, 2]]),
    # minimised past failures (DESIGN section 12 row 13)
    dict(family='corpus', miu=130, agf=False,
         script=[['snlreq', [[i, ('urn:nfc:sn:x%02d' % i).encode().hex()] for i in range(40)]]]),
    dict(family='corpus', miu=128, agf=True,
         script=[['ldl', 'a', None], ['sendto', 'a', 126, 16, 120], ['dlc', 'd', 40, 20, 128, 1, 1], ['rx', 'd', 1, 1]]),
    dict(family='corpus', miu=128, agf=True,
         script=[['ldl', 'a', None], ['sendto', 'a', 117, 16, 1], ['snlreq', [[1, b'urn:nfc:sn:a'.hex()]]]]),
    dict(family='corpus', miu=128, agf=True,
         script=[['ldl', 'a', None], ['sendto', 'a', 124, 16, 1], ['snlreq', [[1, b'urn:nfc:sn:a'.hex()]]]]),
    dict(family='corpus', miu=128, agf=True,
         script=[['ldl', 'a', None], ['sendto', 'a', 125, 16, 1], ['sapconnect', 0, 9], ['cbn', 5]]),
    dict(family='corpus', miu=131, agf=True,
         script=[['dlc', 'd', 40, 20, 2000, 3, 2], ['send', 'd', 127, 1], ['busy', 'd', True], ['dlc', 'e', 41, 21, 128, 1, 1],
                 ['rx', 'e', 1, 1], ['send', 'e', 1, 1]]),
    dict(family='corpus', miu=300, agf=True, script=[['resolve', 1, (b'urn:nfc:sn:' + b'n' * 244).hex()], ['resolve', 2, b'urn:nfc:sn:ok'.hex()]]),
]


def sweep_sdres(miu, agf):
    """more pending SDRES than fit, for one given MIU"""
    n = miu // 4 + 2
    reqs = [[i % 256, b'urn:nfc:sn:q'.hex()] for i in range(n)]
    script = [['snlreq', reqs[i:i + 60]] for i in range(0, n, 60)]
    return dict(family='sweep-sdres', miu=miu, agf=agf, script=script)


def sweep_first_unsized(miu, d, what):
    """UI with miu-d bytes, then a PDU that is handed out without a size test, aggregation on"""
    script = [['ldl', 'a', None], ['sendto', 'a', miu - d, 16, d]]
    if what == 0:
        script += [['dlc', 'd', 40, 20, 128, 1, 1], ['rx', 'd', 1, 1]]
    elif what == 1:
        script += [['sapconnect', 0, 9]]
    elif what == 2:
        script += [['snlreq', [[1, b'urn:nfc:sn:q'.hex()]]]]
    else:
        script += [['dlc', 'd', 40, 20, 128, 1, 2], ['busy', 'd', True], ['cbn', 7]]
    return dict(family='sweep-first+unsized', miu=miu, agf=True, script=script)


RESERVED = [r << 11 for r in range(32)]          # every combination of the reserved bits 11..15 of a MIUX value


def gb_tlvs(rng, v):
    """general bytes after 'Ffm': VERSION, [MIUX], now and then WKS / LTO / OPT around it"""
    t = [bytes.fromhex('010113')]
    if rng.random() < 0.3:
        t.append(bytes.fromhex('03020003'))
    t.append(miux_tlv(v))
    if rng.random() < 0.3:
        t.append(bytes.fromhex('040132'))
    if rng.random() < 0.3:
        t.append(bytes.fromhex('070103'))
    return b''.join(t).hex()


def learnt_link(rng, v, agf):
    """the link MIU comes from activate(); queue UI PDUs at and above the TRUE limit 128 + (v & 0x7FF)"""
    true = 128 if v is None else 128 + (v & 0x7FF)
    script = [['ldl', 'a', None], ['sendto', 'a', true, 16, 1], ['sendto', 'a', true + 1, 17, 2],
              ['sendto', 'a', true + rng.choice([2, 100, 2048]), 18, 3], ['sendto', 'a', max(0, true - rng.randrange(1, 9)), 19, 4],
              ['sendto', 'a', rng.randrange(0, 5), 20, 5]]
    if rng.random() < 0.5:
        script.append(['snlreq', [[i % 256, b'urn:nfc:sn:q'.hex()] for i in range(true // 4 + 2)]])
    return dict(family='learnt-link', miu=None, gb=[rng.choice('IT'), gb_tlvs(rng, v)], agf=agf, script=script)


def learnt_conn(rng, v, how, link_v, agf):
    """the connection MIU comes from a CONNECT / CC with a MIUX TLV; queue I PDUs at and above the TRUE limit"""
    true = 128 if v is None else 128 + (v & 0x7FF)
    link = 128 if link_v is None else 128 + (link_v & 0x7FF)
    lim = min(true, link)
    rw = rng.choice([1, 1, 4, 15])
    if how == 'CONNECT':
        script = [['listen', 'l', rng.choice([None, 'urn:nfc:sn:svc']), 2, 128], ['accept_raw', 'l', 'c', 9, v, rw]]
    else:
        script = [['connect_start', 'c', 33, 17], ['collect'], ['cc', 'c', v, rw]]
    script += [['send', 'c', lim, 1], ['send', 'c', lim + 1, 2], ['send', 'c', true + 1, 3],
               ['send', 'c', lim + rng.choice([2, 50, 2048]), 4], ['send', 'c', max(0, lim - rng.randrange(1, 9)), 5]]
    if rng.random() < 0.4:
        script += [['ldl', 'u', None], ['sendto', 'u', rng.randrange(0, 30), 16, 9]]
    return dict(family='learnt-conn-' + how, miu=None, gb=[rng.choice('IT'), gb_tlvs(rng, link_v)], agf=agf, script=script)


def learnt(ck):
    """limits LEARNT from the peer: MIUX values 0..7FFh at the boundaries, each reserved bit 11..15 alone and in
    every combination, absent TLV; in general bytes (activate), CONNECT and CC"""
    rng, quick = ck.rng, ck.tier == 'quick'
    lows = [0, 1, 0x78, 0x7FE, 0x7FF]
    yield learnt_link(rng, None, True)
    yield learnt_conn(rng, None, 'CONNECT', 0x7FF, False)
    yield learnt_conn(rng, None, 'CC', 0x7FF, True)
    for res in RESERVED:
        for low in (lows if not quick else [0, 0x78, 0x7FF, rng.randrange(0, 0x800)]):
            v = res | low
            yield learnt_link(rng, v, rng.random() < 0.5)
            yield learnt_conn(rng, v, 'CONNECT', rng.choice([0x7FF, 0x7FF, 0x78, res | 0x7FF, res | 0x100]), rng.random() < 0.5)
            yield learnt_conn(rng, v, 'CC', rng.choice([0x7FF, 0x7FF, 0x78, res | 0x7FF, res | 0x100]), rng.random() < 0.5)
    for _ in range(40 if quick else 3000):
        v = rng.choice(RESERVED) | rng.randrange(0, 0x800)
        k = rng.randrange(3)
        if k == 0:
            yield learnt_link(rng, v, rng.random() < 0.5)
        else:
            yield learnt_conn(rng, v, ('CONNECT', 'CC')[k - 1], rng.choice(RESERVED) | rng.randrange(0, 0x800), rng.random() < 0.5)


def sweep_sec(miu, icv, kind, spare, n_first):
    """secure data transfer, aggregation on: a first I / UI PDU of n_first octets, a second one that leaves `spare`
    octets of the MIU when the ICV of the second PDU is (wrongly) left out of account, then a third small one"""
    hs = 3 if kind == 'I' else 2
    size = miu - (2 + hs + n_first + icv) - (2 + hs) - spare
    if kind == 'I':
        script = [['dlc', 'c', 40, 16, miu, 6, 2], ['send', 'c', n_first, 1], ['send', 'c', max(0, size), 2], ['send', 'c', 1, 3]]
    else:
        script = [['ldl', 'a', None], ['sendto', 'a', n_first, 16, 1], ['sendto', 'a', max(0, size), 17, 2], ['sendto', 'a', 1, 18, 3]]
    return dict(family='sweep-sec-' + kind, miu=miu, agf=True, icv=icv, script=script)


def gen_sec(rng):
    """secure data transfer: several connections / connection-less sockets whose PDUs meet the aggregation budget at
    budget-6 .. budget+2 (ICV included), acknowledgements and SNL in between"""
    miu = pick_miu(rng)
    icv = rng.choice([4, 4, 4, 8, 1])
    script = []
    used = 0
    n = rng.randrange(2, 5)
    for i in range(n):
        kind = rng.choice('IIU')
        hs = 3 if kind == 'I' else 2
        if i < n - 1:
            size = rng.choice([rng.randrange(0, 40), rng.randrange(0, max(1, miu // n))])
        else:
            size = miu - used - (2 + hs + icv) + rng.randrange(-6, 3)
        size = max(0, size)
        used += 2 + hs + size + icv
        if kind == 'I':
            key = 'c%d' % i
            script += [['dlc', key, 40 + i, 10 + i, rng.choice([miu, 2175]), rng.randrange(2, 16), rng.randrange(1, 4)],
                       ['send', key, size, i]]
            if rng.random() < 0.3:
                script += [['rx', key, 1, rng.randrange(0, 2)]]
        else:
            key = 'u%d' % i
            script += [['ldl', key, None], ['sendto', key, size, 16 + i, i]]
    if rng.random() < 0.3:
        script.append(['snlreq', [[1, b'urn:nfc:sn:q'.hex()]]])
    return dict(family='sec', miu=miu, agf=rng.random() < 0.9, icv=icv, script=script)


def secure(rng, sc):
    """a share of every family runs with secure data transfer active"""
    if 'icv' not in sc and rng.random() < 0.3:
        sc = dict(sc, icv=rng.choice([4, 4, 4, 8, 0]))
    return sc


def conn_setup(rng, miu, how, rwin, rmiu, d, first):
    """a connection-mode socket with receive window rwin and receive MIU rmiu accepts (CC pending) or connects
    (CONNECT pending) while connection-less data fills the aggregate to within d octets of the remote MIU"""
    tlvs = (4 if min(rmiu, 248) > 128 else 0) + (3 if rwin != 1 else 0)     # MIUX / RW TLVs of the encoded CC / CONNECT
    n = miu - d - (2 + 2 + tlvs) - (2 + 2)                                   # UI payload: CC/CONNECT + UI = miu - d
    if how == 'cc':
        setup = [['listen', 'l', 'urn:nfc:sn:svc' if first else None, rwin, rmiu], ['accept', 'l', 'c', 9, rng.choice([128, 300]), 2]]
    elif how == 'cc-raw':
        setup = [['listen', 'l', 'urn:nfc:sn:svc' if first else None, rwin, rmiu], ['accept_raw', 'l', 'c', 9, rng.choice([None, 0x78]), 1]]
    elif how == 'connect':
        setup = [['connectpdu', 'k', 33 if first else 60, 17, rmiu, rwin]]
    else:
        setup = [['connect_start', 'k', 33 if first else 60, 17, rwin, rmiu]]
    filler = [['ldl', 'u', 45], ['sendto', 'u', max(0, n), 16, d]]
    script = setup + filler
    if rng.random() < 0.3:
        script += [['sendto', 'u', rng.randrange(0, 4), 17, 9]]
    if rng.random() < 0.2:
        script += [['dlc', 'e', 50, 20, 128, 1, 1], ['rx', 'e', 1, 1]]
    return dict(family='conn-setup-' + how, miu=miu, agf=True, script=script)


def gen_conn_setup(rng):
    return conn_setup(rng, pick_miu(rng), rng.choice(['cc', 'cc', 'cc-raw', 'connect', 'connect-thread']),
                      rng.choice([0, 0, 1, 2, 15]), rng.choice([128, 248, 248, 1000]), rng.randrange(0, 5), rng.random() < 0.7)


def gen_api_args(rng, miu=None, kind=None):
    """every send path with every kind of message argument; item counts around MIU / itemsize and MIU"""
    miu = miu or pick_miu(rng)
    annc = rng.choice([128, miu, min(2175, miu + 9)])
    cl = min(miu, annc)
    script = [['ldl', 'a', None], ['dlc', 'c', 40, 16, annc, 15, 2], ['raw', 'r', 60]]
    kinds = [kind] if kind else rng.sample(ARG_KINDS, 4)
    for kd in kinds:
        isz = {'mv-H': 2, 'mv-I': 4, 'array-H': 2}.get(kd, 1)
        for key, lim in (('a', miu), ('c', cl)):
            for n in sorted(set([lim // isz, lim // isz + 1, lim, lim + 1, rng.randrange(0, lim + 2), rng.choice([0, 1, 2])])):
                script.append(['send_arg', key, kd, n, 17, rng.randrange(256)])
                if rng.random() < 0.25:
                    script.append(['collect'])
        script.append(['send_arg', 'r', kd, rng.randrange(0, 20), 17, 1])
    return dict(family='api-args', miu=miu, agf=rng.random() < 0.5, script=script)


OPTIONS = [1, 2, 3, 4, 5, 6, 0, 7, 99, -1]      # SO_SNDMIU .. SO_RCVBSY and numbers that are no option


def opt_values(rng, miu):
    return [0, 1, miu - 1, miu, miu + 1, 2175, 65535, -1, rng.randrange(0, 4000)]


def gen_sockopt(rng):
    """wrapper API: established connections (connection MIU below the link MIU) and connection-less sockets; every
    socket option with boundary values; then I / UI PDUs at and above the MIU of their receiver"""
    miu = rng.choice([248, 300, 1024, 2175, rng.randrange(200, 2176)])
    cm = rng.choice([128, 128, 200, miu - 1, rng.randrange(128, miu)])
    how = rng.randrange(3)
    if how == 0:
        script = [['dlc', 'c', 40, 16, cm, 15, 2]]
    elif how == 1:
        script = [['listen', 'l', None, 2, 128], ['accept_raw', 'l', 'c', 9, cm - 128, 15]]
    else:
        script = [['connect_start', 'c', 33, 17], ['collect'], ['cc', 'c', cm - 128, 15]]
    script += [['ldl', 'u', None]]
    for _ in range(rng.randrange(2, 7)):
        key = rng.choice('ccu')
        opt = rng.choice(OPTIONS[:6] + OPTIONS)
        if rng.random() < 0.25:
            script.append(['getopt', key, opt])
        else:
            val = rng.choice(opt_values(rng, miu) + opt_values(rng, cm))
            if opt == 6:
                val = rng.choice([0, 1, val])
            script.append(['setopt', key, opt, val])
    if rng.random() < 0.3:
        script.append(['setopt', 'c', 6, 0])
    for n in (cm, cm + 1, miu, rng.randrange(0, cm + 1)):
        script.append(['send', 'c', n, n & 255])
    script += [['sendto', 'u', miu, 16, 1], ['sendto', 'u', miu + 1, 16, 2]]
    return dict(family='sockopt', miu=miu, agf=rng.random() < 0.5, wrap=True, script=script)


def sweep_sockopt(miu, cm, opt, val):
    return dict(family='sweep-sockopt', miu=miu, agf=False, wrap=True,
                script=[['dlc', 'c', 40, 16, cm, 15, 2], ['ldl', 'u', None], ['setopt', 'c', opt, val], ['getopt', 'c', opt],
                        ['setopt', 'u', opt, val], ['send', 'c', cm, 1], ['send', 'c', cm + 1, 2], ['send', 'c', miu, 3],
                        ['sendto', 'u', miu, 16, 4], ['sendto', 'u', miu + 1, 16, 5]])


def gen_mutate(rng):
    """bytearrays handed over with send()/sendto() are changed by the application before collect()"""
    miu = rng.choice([248, 1024, 2175, rng.randrange(200, 2176)])
    cm = rng.choice([128, 200, rng.randrange(128, miu)])
    script = [['dlc', 'c', 40, 16, cm, 15, 2], ['ldl', 'u', None]]
    n = rng.choice([cm, cm - 28, 100, rng.randrange(0, cm + 1)])
    script += [['send_buf', 'c', max(0, n), 16, 1]]
    if rng.random() < 0.5:
        script += [['send_buf', 'c', rng.randrange(0, 20), 16, 2]]
    m = rng.choice([miu, miu - 28, 10])
    script += [['send_buf', 'u', max(0, m), 17, 3]]
    how = rng.choice(['extend', 'extend', 'extend', 'truncate', 'overwrite'])
    k = rng.choice([1, 300, cm, miu - cm, rng.randrange(0, miu)]) if how == 'extend' else rng.randrange(0, 40)
    script += [['mutate', 'c', how, k]]
    if rng.random() < 0.5:
        script += [['mutate', 'u', how, rng.choice([1, k])]]
    return dict(family='mutate-after-send', miu=miu, agf=rng.random() < 0.5, wrap=rng.random() < 0.5, script=script)


def wrapped(rng, sc):
    """a share of every family is driven through nfc.llcp.Socket wrapper objects"""
    if 'wrap' not in sc and rng.random() < 0.4:
        sc = dict(sc, wrap=True)
    return sc


def interleave(rng, sc):
    """now and then call collect() in the middle of the script"""
    if rng.random() < 0.3 and len(sc['script']) > 2:
        script = list(sc['script'])
        for _ in range(rng.randrange(1, 3)):
            script.insert(rng.randrange(2, len(script) + 1), ['collect'])
        sc = dict(sc, script=script)
    return sc


def scenarios(ck):
    rng, quick = ck.rng, ck.tier == 'quick'
    for sc in CORPUS:
        yield sc
    for sc in learnt(ck):
        yield sc
    # every MIU (not only multiples of 4): quick 128..639, thorough 128..2175
    top = 640 if quick else 2176
    for miu in range(128, top):
        yield sweep_sdres(miu, miu % 2 == 0)
    for miu in range(128, 384 if quick else 2176):
        for d in ((1 + miu % 6,) if quick else range(1, 7)):
            yield sweep_first_unsized(miu, d, (miu + d) % 4)
    # secure data transfer: the ICV of a second / third PDU at the edge of the aggregation budget
    for miu in range(128, 200 if quick else 2176, 1 if quick else 3):
        for spare in ((miu % 9 - 2,) if quick else range(-2, 7)):
            yield sweep_sec(miu, 4, 'IU'[(miu + spare) % 2], spare, 10 + miu % 5)
    for _ in range(300 if quick else 6000):
        yield interleave(rng, gen_sec(rng))
    # every socket option (and numbers that are none) with every boundary value, through the wrapper
    for opt in OPTIONS:
        for miu, cm in (((1024, 200),) if quick else ((1024, 200), (248, 128), (2175, 2174))):
            for val in [0, 1, cm - 1, cm, cm + 1, miu - 1, miu, miu + 1, 2175, 65535, -1]:
                yield sweep_sockopt(miu, cm, opt, val)
    # every kind of message argument on every send path, at a few MIUs
    for kd in ARG_KINDS:
        for miu in ((128, 131, 248) if quick else (128, 129, 130, 131, 248, 1000, 2175)):
            yield gen_api_args(rng, miu, kd)
    # CC / CONNECT with a receive window of 0 / 1 / 2 / 15 and a non-default MIU next to a filler, for every MIU
    for miu in range(128, 256 if quick else 2176):
        yield conn_setup(rng, miu, ('cc', 'connect', 'cc-raw')[miu % 3], (0, 1, 2, 15, 0)[miu % 5], (248, 128)[miu % 2], miu % 4, miu % 7 != 0)
    n = 4000 if quick else 60000
    gens = [(gen_sdres, 5), (gen_sdreq, 4), (gen_ui_pair, 5), (gen_first_plus_ack, 6), (gen_budget_snl, 4), (gen_dlc, 8),
            (gen_mix, 3), (gen_raw, 1), (gen_conn_setup, 4), (gen_api_args, 3), (gen_sockopt, 4), (gen_mutate, 3)]
    tot = sum(w for _, w in gens)
    for g, w in gens:
        for _ in range(n * w // tot):
            yield wrapped(rng, secure(rng, interleave(rng, g(rng))))
    for _ in range(4 if quick else 40):
        yield gen_threaded(rng)


def main():
    ck = Check('C10')
    ck.trusted = ['Coq 8.16.1 kernel (vm_compute only in the non-vacuity/refutation examples); no native_compute',
                  'translate/kspec_c10.py + py2coq.py (extraction of the budget expressions / size tests / __len__ from the source)',
                  'extraction: ExtrOcamlBasic only; extract/c10_run.ml driver; OCaml 4.13.1',
                  'harness/prop/c10.py: abstraction function alpha (controller state -> model state), script interpreter, '
                  'independent frame reader']
    ck.assumptions = ['secure data transfer: llc.sec is replaced by a test cipher (OpenSSL is absent here) with icv_size 0..8 whose '
                      'ciphertext is the plaintext followed by the ICV; the theorems assume of the cipher only that encrypt lengthens the '
                      'data by icv_size; a single encrypted UI / I PDU may carry MIU + ICV octets (collect() comment), every other frame '
                      'at most MIU; key agreement (DPS) and decryption are not modelled',
                      'raw access point sockets with queued PDUs are excepted (hypothesis raw-idle of the theorems; the '
                      'monitor skips scenarios that send through a raw socket, the correspondence does not)',
                      'the receiver model covers pdu.decode framing, header, size and address checks and dispatch flattening; '
                      'TLV value parsing inside PAX/CONNECT/CC/SNL/DPS is left to C11; nested aggregated frames are sliced',
                      'socket states are reached through the API except: ESTABLISHED by op_dlc (fields set as connect() does on '
                      'CC), CONNECT with queued CONNECT PDU by op_connectpdu, pending resolve requests by op_resolve '
                      '(statements of ServiceDiscovery.resolve before it waits); a threaded llc.resolve() is used in family resolve-thread']
    ck.coq(gen=['CollectK'], targets=['Proofs/Collect.vo', 'Proofs/CollectRx.vo', 'Proofs/CollectMiux.vo', 'Bridge/Collect.vo'], props='C10')
    mr = ck.model()
    if mr is None:
        ck.finish()

    if ck.replay:
        scs = [json.load(open(ck.replay))['case']['scenario']]
    else:
        scs = scenarios(ck)

    lines, expect = [], []
    stat = {'mismatch': 0, 'ok': 0}

    def flush():
        if not lines:
            return
        out = mr.run(lines)
        if len(out) != len(lines):
            ck.broken.append('model runner returned %d lines for %d inputs' % (len(out), len(lines)))
        for line, (exp, kind, sc, k), got in zip(lines, expect, out):
            if kind == 'receive':
                ok = canon_rx_model(got) == exp
            elif kind == 'collect-encode-error':
                parts = got.split(' | ')
                ok = len(parts) == 4 and parts[1] == 'encode-error' and int(parts[2]) == exp[1] and parts[3] == exp[2]
            else:
                ok = got == exp
            if ok:
                stat['ok'] += 1
            else:
                stat['mismatch'] += 1
                if stat['mismatch'] <= 5:
                    ck.correspondence_mismatch(kind, {'scenario': sc, 'frame_index': k, 'input': line[:3000],
                                                      'impl': str(exp)[:3000], 'model': got[:3000]})
        del lines[:]
        del expect[:]

    for sc in scs:
        ck.count('family-' + sc['family'])
        try:
            run_scenario(ck, sc, lines, expect)
        except Exception as e:  # noqa - an exception out of collect()/dispatch() is reported, never swallowed
            ck.violation('exception:' + type(e).__name__, 'collect()/dispatch() raised %r' % (e,), {'scenario': sc})
        if len(lines) > 4000:
            flush()
    flush()
    ck.cov['traces_validated_against_impl'] = stat['ok']
    ck.finish(level='proof',
              rule='scripts of socket-API operations. sweeps over every remote MIU (quick 128..639 / 128..383, thorough 128..2175): more '
                   'pending SDRES than fit; UI of MIU-1..MIU-6 bytes followed by a PDU that is handed out without a size test. '
                   'random families: 1..40 pending SDRES against MIUs next to 4n; resolve requests with names of 1..255 bytes; '
                   'UI pairs/triples that put the aggregate at MIU-3..MIU+3; a first PDU at MIU-8..MIU followed by '
                   'necessary/busy/voluntary acknowledgements, DM of SAP 0/SAP n/connect-by-name, SNL; aggregation budget -2..8 '
                   'at the service discovery SAP; 1..4 data link connections (listen/accept or established) with data at the '
                   'connection/link MIU +-1, piggy-backed acknowledgements, FRMR/DISC, queued CONNECT; mixtures; raw sockets; '
                   'remote MIU 128..2175 (boundary values and uniform), aggregation on/off; collect() in the middle of a script '
                   'and repeated at its end until the queues are empty (max 8 frames). one evaluation = one collect() call '
                   'compared with the model (frame PDUs, bytes, information field, abstracted state after); non-trivial = a '
                   'frame was returned; distinct by hash of configuration + abstracted controller state',
              explanation='theorems over all queue states and MIUs for the model of the repaired code + bridge lemmas over the '
                          'budget expressions/size tests regenerated from the source + differential run of the real '
                          'LogicalLinkController/sockets against the extracted model + independent monitor on the encoded '
                          'frames and on the PDUs delivered by a second real controller')


if __name__ == '__main__':
    main()
