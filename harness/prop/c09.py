"""C09 - when the LLCP link ends no application thread is left waiting.

Obligations: Props/C09.v (LlcLife multi-thread transition system: blocked_implies_open,
no_thread_left_waiting, after_shutdown_total, servers_exit - all schedules, any number of threads).
Search + monitor: the REAL llc run loop, sockets and SNEP/handover server threads under the
deterministic scheduler sim/sched.py against a scripted peer (sim/llcpeer.py): every blocking call x
every point of a short conversation at which the link ends x cause of the end x schedules
(systematic up to 2 deviations from the non-pre-emptive default schedule, random beyond).
Monitor = "when no thread is runnable, no thread is blocked", "every call issued after
termination returned or raised nfc.llcp.Error", "server threads exit", "connect() returns".
Correspondence: every observed lock-hold segment of a socket call is a step of the LlcLife
segment function on the observed socket state (extract/c09_run.ml).
"""
import builtins
import json
import logging
import re
import sys

from common import Check

import nfc
import nfc.clf
import nfc.llcp
import nfc.llcp.llc as llcmod
import nfc.llcp.pdu as pdu
import nfc.llcp.tco as tco
import nfc.snep.server
import nfc.handover.server

from sim import sched as S
from sim import llcpeer as L

logging.disable(logging.CRITICAL)
llcmod.print = lambda *a, **k: None      # the KeyboardInterrupt handler prints an empty line

RAW = llcmod.RAW_ACCESS_POINT
LDL = nfc.llcp.LOGICAL_DATA_LINK
DLC = nfc.llcp.DATA_LINK_CONNECTION
NOWAIT = nfc.llcp.MSG_DONTWAIT


# ------------------------------------------------------------------------------------------------
# scenarios: name -> dict(build=..., peer=kwargs, ends=[exchange indices], post=bool)
# build(llc, ctx) returns the application threads; every socket call goes through ctx.call
# ------------------------------------------------------------------------------------------------
def sock(llc, kind):
    return nfc.llcp.Socket(llc, kind)


def sc_raw_recv(llc, ctx):
    s = sock(llc, RAW)
    s.bind(40)
    return [('app', lambda: ctx.call('raw.recv', s.recv))]


def sc_raw_poll(llc, ctx):
    s = sock(llc, RAW)
    s.bind(40)
    return [('app', lambda: ctx.call('raw.poll-recv', lambda: s.poll('recv')))]


def sc_raw_send(llc, ctx):
    s = sock(llc, RAW)
    s.bind(40)

    def app():
        ctx.call('raw.send', lambda: s.send(pdu.UnnumberedInformation(33, 40, b'x')))
        ctx.call('raw.send', lambda: s.send(pdu.UnnumberedInformation(33, 40, b'y')))
        ctx.call('raw.poll-send', lambda: s.poll('send'))
    return [('app', app)]


def sc_ldl_recvfrom(llc, ctx):
    s = sock(llc, LDL)
    s.bind(41)
    return [('app', lambda: ctx.call('ldl.recvfrom', s.recvfrom))]


def sc_ldl_poll(llc, ctx):
    s = sock(llc, LDL)
    s.bind(41)
    return [('app', lambda: ctx.call('ldl.poll-recv', lambda: s.poll('recv')))]


def sc_ldl_sendto(llc, ctx):
    s = sock(llc, LDL)

    def app():
        ctx.call('ldl.sendto', lambda: s.sendto(b'abc', 33))
        ctx.call('ldl.sendto', lambda: s.sendto(b'def', 33))
        ctx.call('ldl.recvfrom', s.recvfrom)
    return [('app', app)]


def sc_dlc_accept(llc, ctx):
    s = sock(llc, DLC)
    s.bind('urn:nfc:sn:test')
    s.listen(2)

    def app():
        r = ctx.call('dlc.accept', s.accept)
        del r
    return [('app', app)]


def sc_dlc_accept_use(llc, ctx):
    """accept a connection, then use the client socket (send, recv)"""
    s = sock(llc, DLC)
    s.bind('urn:nfc:sn:test')       # address 16
    s.listen(2)
    box = {}

    def app():
        def acc():
            box['c'] = s.accept()
            return box['c']
        if ctx.call('dlc.accept', acc)[0] == 'ret':
            c = box['c']
            ctx.call('dlc.send', lambda: c.send(b'hello'))
            ctx.call('dlc.recv', c.recv)
    return [('app', app)]


def sc_dlc_connect(llc, ctx):
    s = sock(llc, DLC)

    def app():
        if ctx.call('dlc.connect', lambda: s.connect('urn:nfc:sn:snep'))[0] == 'ret':
            ctx.call('dlc.recv', s.recv)
    return [('app', app)]


def sc_dlc_send(llc, ctx):
    """remote receive window 1 and no acknowledgements: the second send waits for the window"""
    s = sock(llc, DLC)

    def app():
        if ctx.call('dlc.connect', lambda: s.connect(16))[0] == 'ret':
            ctx.call('dlc.send', lambda: s.send(b'one'))
            ctx.call('dlc.send', lambda: s.send(b'two'))
            ctx.call('dlc.send', lambda: s.send(b'three'))
    return [('app', app)]


def sc_dlc_poll(which):
    def build(llc, ctx):
        s = sock(llc, DLC)

        def app():
            if ctx.call('dlc.connect', lambda: s.connect(16))[0] == 'ret':
                if which == 'send':
                    ctx.call('dlc.send-nowait', lambda: s.send(b'one', NOWAIT))
                ctx.call('dlc.poll-' + which, lambda: s.poll(which))
                ctx.call('dlc.poll-' + which, lambda: s.poll(which))
        return [('app', app)]
    return build


def sc_dlc_close(llc, ctx):
    s = sock(llc, DLC)

    def app():
        if ctx.call('dlc.connect', lambda: s.connect(16))[0] == 'ret':
            ctx.call('dlc.close', s.close)
    return [('app', app)]


def sc_resolve(llc, ctx):
    return [('app', lambda: ctx.call('resolve', lambda: llc.resolve('urn:nfc:sn:x')))]


def sc_two_threads(llc, ctx):
    """two threads in recv on the same socket, a third in resolve, a fourth connecting"""
    s = sock(llc, LDL)
    s.bind(41)
    d = sock(llc, DLC)
    return [('app1', lambda: ctx.call('ldl.recvfrom', s.recvfrom)),
            ('app2', lambda: ctx.call('ldl.recvfrom', s.recvfrom)),
            ('app3', lambda: ctx.call('resolve', lambda: llc.resolve('urn:nfc:sn:x'))),
            ('app4', lambda: ctx.call('dlc.connect', lambda: d.connect(16)))]


def sc_close_vs_term(llc, ctx):
    """one thread in recv, another closes the same socket while the link ends"""
    s = sock(llc, DLC)

    def app1():
        if ctx.call('dlc.connect', lambda: s.connect(16))[0] == 'ret':
            ctx.call('dlc.recv', s.recv)

    def app2():
        ctx.call('dlc.poll-recv', lambda: s.poll('recv', 0.3))
        ctx.call('dlc.close', s.close)
    return [('app1', app1), ('app2', app2)]


def sc_closed_early(llc, ctx):
    """sockets the application closed itself while the link was up are used again after the end"""
    a, b, c = sock(llc, LDL), sock(llc, RAW), sock(llc, DLC)

    def app():
        ctx.call('ldl.bind', lambda: a.bind(41))
        ctx.call('raw.bind', lambda: b.bind(40))
        ctx.call('dlc.bind', lambda: c.bind('urn:nfc:sn:early'))
        ctx.call('ldl.close', a.close)
        ctx.call('raw.close', b.close)
        ctx.call('dlc.close', c.close)
        ctx.after_term.wait()
        for nm, s in (('ldl', a), ('raw', b), ('dlc', c)):
            ctx.call(nm + '.close', s.close)
            ctx.call(nm + '.recv', s.recv)
            ctx.call(nm + '.poll-recv', lambda s=s: s.poll('recv'))
            ctx.call(nm + '.getsockname', s.getsockname)
        ctx.call('ldl.sendto', lambda: a.sendto(b'x', 33))
        ctx.call('dlc.send', lambda: c.send(b'x'))
        ctx.call('dlc.connect', lambda: c.connect(16))
        ctx.call('dlc.accept', c.accept)
    return [('app', app)]


def sc_poll_vs_close(llc, ctx):
    """poll('recv') and close() of the same connected socket both wait on recv_ready; the DM that answers
    close()'s DISC is announced with a single notify(): whoever is not woken stays until the link ends"""
    s = sock(llc, DLC)

    def app1():
        ok = ctx.call('dlc.connect', lambda: s.connect(16))[0] == 'ret'
        ctx.after_conn.set()          # (also when connect failed: app2 must not wait on the harness itself)
        if ok:
            ctx.call('dlc.poll-recv', lambda: s.poll('recv'))

    def app2():
        ctx.after_conn.wait()
        ctx.call('dlc.close', s.close)
    ctx.after_conn = ctx.sch.threading.Event()
    return [('app1', app1), ('app2', app2)]


def sc_bind_during_term(llc, ctx):
    """application threads that bind / connect / listen on so far unbound sockets while terminate() runs"""
    a, b, c = sock(llc, DLC), sock(llc, LDL), sock(llc, DLC)

    def late_dlc():
        ctx.term_started.wait()
        if ctx.call('dlc.bind', lambda: a.bind(60))[0] == 'ret':         # an address the shutdown loop passes early
            ctx.call('dlc.connect', lambda: a.connect(16))

    def late_ldl():
        ctx.term_started.wait()
        if ctx.call('ldl.bind', lambda: b.bind('urn:nfc:sn:late'))[0] == 'ret':
            ctx.call('ldl.recvfrom', b.recvfrom)

    def late_lis():
        ctx.term_started.wait()
        if ctx.call('dlc.listen', lambda: c.listen(1))[0] == 'ret':       # implicit bind
            ctx.call('dlc.accept', c.accept)
    return [('late-dlc', late_dlc), ('late-ldl', late_ldl), ('late-lis', late_lis)]


class AtTermRelease(S.DefaultChooser):
    """default schedule, except that at the k-th release of llc.lock by the link thread inside terminate()
    the application threads named late-* run (until they block or finish) before the link thread goes on"""

    def __init__(self, k):
        self.k, self.seen, self.pos, self.active = k, 0, 0, False
        self.releases = 0

    def attach(self, sch, llc, ctx):
        self.sch, self.ctx, self.label = sch, ctx, llc.lock.label

    def choose(self, step, cur, enabled):
        log = self.sch.log
        while self.pos < len(log):
            e = log[self.pos]
            self.pos += 1
            if e[2] == 'rel' and e[3] == self.label and self.ctx.term_begin is not None and self.ctx.term_end is None \
                    and self.sch.recs[e[1]].name == 'link':
                self.releases += 1
                if self.releases == self.k:
                    self.active = True
        if self.active:
            late = [t for t in enabled if t.name.startswith('late-')]
            if late:
                return cur if cur in late else late[0]
            self.active = False
        return S.DefaultChooser.choose(self, step, cur, enabled)


def bind_during_terminate(ck):
    """a pre-emption at EVERY release of llc.lock inside terminate(): sockets bound there must be shut down with the
    link or the bind must fail; no call may be left waiting"""
    for cause in ('disc', 'none', 'ioerror:timedout', 'terminate'):
        for role in ('initiator', 'target'):
            case = {'scenario': 'bind-during-term', 'cause': cause, 'end_at': 2, 'role': role}
            k = 1
            while k <= 80:
                ch = AtTermRelease(k)
                out = run_case(case, ch)
                bad = monitor(ck, case, out)
                note_case(ck, case, out, ('term-release', k))
                if ch.releases < k or bad:
                    break           # there is no k-th release: all of them have been tried (or a failure is recorded)
                k += 1
            ck.count('term-lock-releases:%d' % (k - 1))


class Snep(nfc.snep.server.SnepServer):
    pass


def sc_snep(llc, ctx):
    return [('snep', Snep(llc))]


def sc_handover(llc, ctx):
    return [('handover', nfc.handover.server.HandoverServer(llc))]


SNEP_PUT = bytes.fromhex('1002' '00000005' 'd00101' '5400')       # PUT, 5 byte NDEF (text record, 1 byte)
SNEP_PUT_FRAG = bytes.fromhex('1002' '00000020' 'd0011c54')     # announces 32 bytes, sends 4: server asks for more
HO_REQ_PART = bytes.fromhex('91020a487212')                     # incomplete handover request


def push_server(dsap, first):
    return {0: [pdu.Connect(dsap, 32, miu=128, rw=1)], 2: [pdu.Information(dsap, 32, 0, 0, first)]}


SCENARIOS = {
    'raw-recv': dict(build=sc_raw_recv),
    'raw-poll': dict(build=sc_raw_poll),
    'raw-send': dict(build=sc_raw_send),
    'ldl-recvfrom': dict(build=sc_ldl_recvfrom),
    'ldl-poll': dict(build=sc_ldl_poll),
    'ldl-sendto': dict(build=sc_ldl_sendto),
    'dlc-accept': dict(build=sc_dlc_accept),
    'dlc-accept-use': dict(build=sc_dlc_accept_use, peer=dict(push={1: [pdu.Connect(16, 32, miu=128, rw=1)]}), ends=(2, 3, 4, 6)),
    'dlc-connect': dict(build=sc_dlc_connect, ends=(0, 1, 2, 3, 5)),
    'dlc-connect-nocc': dict(build=sc_dlc_connect, peer=dict(cc=False)),
    'dlc-send-window': dict(build=sc_dlc_send, peer=dict(ack=False), ends=(2, 3, 4, 6)),
    'dlc-poll-recv': dict(build=sc_dlc_poll('recv'), ends=(1, 2, 4)),
    'dlc-poll-send': dict(build=sc_dlc_poll('send'), peer=dict(ack=False), ends=(2, 3, 5)),
    'dlc-poll-acks': dict(build=sc_dlc_poll('acks'), ends=(1, 2, 4)),
    'dlc-close': dict(build=sc_dlc_close, peer=dict(dm=False), ends=(2, 3, 5)),
    'resolve': dict(build=sc_resolve, peer=dict(snl=False)),
    'threads': dict(build=sc_two_threads, peer=dict(snl=False, cc=False), ends=(1, 3)),
    'close-vs-term': dict(build=sc_close_vs_term, peer=dict(dm=False), ends=(2, 4)),
    'closed-early': dict(build=sc_closed_early, ends=(1, 3)),
    'bind-during-term': dict(build=sc_bind_during_term, ends=(2,)),
    'dlc-frmr-received': dict(build=sc_dlc_connect, peer=dict(push={3: [pdu.FrameReject(32, 16)]}), ends=(5,)),
    'dlc-frmr-sent': dict(build=sc_dlc_connect, peer=dict(push={3: [pdu.UnnumberedInformation(32, 16, b'zz')]}), ends=(6,)),
    'poll-vs-close': dict(build=sc_poll_vs_close, ends=(3, 5, 8)),
    'poll-vs-close-nodm': dict(build=sc_poll_vs_close, peer=dict(dm=False), ends=(3, 6)),
    'snep-idle': dict(build=sc_snep, ends=(0, 2)),
    'snep-put': dict(build=sc_snep, peer=dict(push=push_server(4, SNEP_PUT)), ends=(1, 2, 3, 4, 6)),
    'snep-frag': dict(build=sc_snep, peer=dict(push=push_server(4, SNEP_PUT_FRAG)), ends=(3, 4, 6)),
    'handover-idle': dict(build=sc_handover, ends=(0, 2)),
    'handover-req': dict(build=sc_handover, peer=dict(push=push_server(16, HO_REQ_PART)), ends=(1, 2, 3, 4, 6)),
}
DEFAULT_ENDS = (0, 1, 3)

# minimised past failures (replayed first): (case, schedule of thread ids)
SCHEDULE_CORPUS = [
    # DataLinkConnection.enqueue tested the socket state outside the lock: app2 closes the socket between the
    # link thread's test "state.CONNECT" and its append of the CC; app1's connect() is woken by the close, finds
    # the CC, sets ESTABLISHED (the closed socket is revived), close() removes it from the access point, app1's
    # recv() then waits on a socket that terminate() no longer reaches          (fixes/c09-8)
    ({'scenario': 'close-vs-term', 'cause': 'commerr', 'end_at': 4, 'role': 'target'},
     [0, 0, 0, 2, 0, 2, 2, 2, 2, 2, 2, 2, 2, 2, 2, 1, 1, 1, 1, 1, 2, 2, 2, 2, 2, 0, 0, 0, 2, 2, 2, 2, 2, 2, 2, 2, 2, 2,
      2, 2, 2, 1, 1, 2, 2, 2, 2, 2, 2, 2, 2, 2]),
]


# ------------------------------------------------------------------------------------------------
# calls issued after termination (each in its own thread, started after run() has ended)
# ------------------------------------------------------------------------------------------------
def post_calls(llc, ctx):
    out = []

    def seq(name, kind, *steps):
        def body():
            box = {'s': None}

            def mk():
                box['s'] = sock(llc, kind)
                return 'socket'
            if ctx.call(name + ':socket', mk)[0] != 'ret':
                return
            for api, fn in steps:
                ctx.call(name + ':' + api, lambda fn=fn: fn(box['s']))
        out.append((name, body))

    seq('post-raw', RAW, ('bind', lambda s: s.bind(40)), ('send', lambda s: s.send(pdu.Symmetry())),
        ('recv', lambda s: s.recv()), ('poll', lambda s: s.poll('recv')), ('close', lambda s: s.close()))
    seq('post-raw-unbound', RAW, ('send', lambda s: s.send(pdu.Symmetry())), ('recv', lambda s: s.recv()))
    seq('post-ldl', LDL, ('bind', lambda s: s.bind()), ('sendto', lambda s: s.sendto(b'x', 33)),
        ('recvfrom', lambda s: s.recvfrom()), ('poll', lambda s: s.poll('recv')), ('close', lambda s: s.close()))
    seq('post-ldl-unbound', LDL, ('connect', lambda s: s.connect(33)), ('sendto', lambda s: s.sendto(b'x', 33)),
        ('recvfrom', lambda s: s.recvfrom()))
    seq('post-dlc-connect', DLC, ('connect', lambda s: s.connect(16)), ('send', lambda s: s.send(b'x')),
        ('recv', lambda s: s.recv()), ('poll', lambda s: s.poll('recv')), ('close', lambda s: s.close()))
    seq('post-dlc-connect-name', DLC, ('connect', lambda s: s.connect('urn:nfc:sn:snep')), ('close', lambda s: s.close()))
    seq('post-dlc-listen', DLC, ('bind', lambda s: s.bind('urn:nfc:sn:late')), ('listen', lambda s: s.listen(1)),
        ('accept', lambda s: s.accept()), ('close', lambda s: s.close()))
    seq('post-dlc-unbound', DLC, ('listen', lambda s: s.listen(1)), ('accept', lambda s: s.accept()),
        ('send', lambda s: s.send(b'x')), ('recv', lambda s: s.recv()), ('poll-acks', lambda s: s.poll('acks')),
        ('getsockopt', lambda s: s.getsockopt(nfc.llcp.SO_RCVBUF)), ('close', lambda s: s.close()))
    out.append(('post-resolve', lambda: ctx.call('post-resolve:resolve', lambda: llc.resolve('urn:nfc:sn:x'))))

    def late_server():
        box = {}

        def mk():
            box['s'] = Snep(llc, 'urn:nfc:xsn:late.snep')
            return 'server'
        if ctx.call('post-snep:SnepServer', mk)[0] == 'ret':
            box['s'].start()
    out.append(('post-snep', late_server))
    return out


# ------------------------------------------------------------------------------------------------
# the monitor: an executable reading of the property text on one finished run
# ------------------------------------------------------------------------------------------------
def tname(name):
    """'Thread-115 (_serve)' -> '_serve' (thread numbers differ from run to run)"""
    m = re.match(r'Thread-\d+ \((\w+)\)', name)
    return m.group(1) if m else name.split(':')[-1]


def current_call(out, tid_name):
    cur = None
    for c in out['calls']:
        if c['thread'] == tid_name and c['result'] is None:
            cur = c['api']
    return cur


def monitor(ck, case, out):
    """returns the list of violation keys found in this run"""
    found = []

    def report(key, what):
        found.append(key)
        data = dict(case)
        data.update(schedule=out['schedule'], blocked=out['blocked'], run_result=out['run_result'],
                    calls=[(c['thread'], c['api'], c['result']) for c in out['calls']],
                    threads=[t for t in out['threads'] if t[2] != 'done' or t[3]])
        ck.violation(key, what, data)

    term_begin, term_end = out['term']
    if out['livelock']:
        report('livelock:' + case['scenario'], 'run did not finish within the step bound')
        return found
    rr = out['run_result']
    if rr is not None and rr.startswith('exc '):
        # the link loop ended by an exception it does not handle: run() raises instead of returning
        # (or leaving by SystemExit / KeyboardInterrupt after terminate())
        report('run-loop-exception:' + rr[4:].split(':')[0],
               'the llcp run loop ended with an unhandled %s%s' % (rr[4:], '' if term_begin is not None else
                                                                   ' and terminate() was never called'))
    if term_begin is None and rr is None:
        # the link thread is still in its loop (blocked itself, or the step bound): reported below as a hang of
        # the link thread if it is blocked; nothing else can be said about the application calls
        ck.count('link-never-ended')
        if not any(b['thread'] == 'link' for b in out['blocked']):
            return found
    if term_begin is None and rr is not None and not rr.startswith('exc '):
        ck.count('run-ended-without-terminate')
    # (1) when no thread is runnable no thread is blocked
    for b in out['blocked']:
        api = current_call(out, b['thread']) or ('thread ' + tname(b['thread']))
        api = api.split(':')[-1] if api.startswith('post-') else api
        issued_after = any(c['thread'] == b['thread'] and c['result'] is None and c['issued_after_term'] for c in out['calls'])
        key = ('hang-after-term:' if issued_after else 'hang:') + api
        report(key, ('call issued after termination never returns: ' if issued_after else
                     'thread left waiting for ever after the link ended (%s): ' % case['cause']) + api)
    # (2) calls issued after termination return or raise nfc.llcp.Error; (3) so do the calls that
    # were in progress when the termination began
    for c in out['calls']:
        if c['result'] is None or c['result'][0] != 'exc':
            continue
        api = c['api'].split(':')[-1] if c['api'].startswith('post-') else c['api']
        if c['issued_after_term']:
            report('exc-after-term:%s:%s' % (api, c['result'][1].split(':')[0]),
                   'call issued after termination raises %s instead of nfc.llcp.Error' % c['result'][1])
        else:
            ck.count('inflight-exception:%s:%s' % (api, c['result'][1].split(':')[0]))
    # (4) service threads exit (and not by an unhandled exception of a call blocked at / issued after the end)
    for tid, name, state, exc in out['threads']:
        if exc is not None and name != 'link':
            ck.count('thread-died:%s:%s' % (tname(name), exc.split(':')[0]))
    # (5) the run loop returns to connect(): SystemExit would leave connect() without a result
    return found


def run_case(case, chooser=None):
    sc = SCENARIOS[case['scenario']]
    out = L.run_scenario(sc['build'], case['cause'], case['end_at'], chooser=chooser, role=case['role'],
                         peer_kw=copy_peer(sc.get('peer')), post=post_calls if case.get('post') else None,
                         observe=CORR is not None)
    if CORR is not None:
        CORR.check_run(case, out)
    return out


# ------------------------------------------------------------------------------------------------
# correspondence: every observed lock-hold segment of a socket call is a step of the LlcLife segment
# function (extracted model, extract/c09_run.ml) on the observed socket state
# ------------------------------------------------------------------------------------------------
ENTRY = {'recv': 'PRecv0', 'recvfrom': 'PRecv0', 'poll-recv': 'PPoll0:recv', 'poll-send': 'PPoll0:send',
         'poll-acks': 'PPoll0:acks', 'send': 'PSend0:0', 'sendto': 'PSend0:0', 'send-nowait': 'PSend0:1',
         'accept': 'PAcc1', 'connect': 'PConn0', 'bind': 'PBind0', 'listen': 'PLis0', 'close': 'PClose0',
         'resolve': 'PRes0'}
UNLOCKED = {'PRecv0', 'PPoll0', 'PSend0', 'PSend0b', 'PConn0', 'PLis0', 'PBind0', 'PClose0', 'PRes0'}
LLC_LOCKED = {'PSendBind', 'PConnBind', 'PLisBind', 'PBind1', 'PClose4', 'PRes1', 'PRes2', 'PAcc4', 'PAcc3'}


def tree_is_fixed():
    """does the tree under test contain the repairs fixes/c09-1..7 (then the model variant is Fixed)"""
    import inspect
    try:
        if 'with self.lock' not in inspect.getsource(tco.RawAccessPoint.recv):
            return False
        if 'with self.lock' not in inspect.getsource(tco.DataLinkConnection.poll):
            return False
        if 'with self.lock' not in inspect.getsource(llcmod.LogicalLinkController.accept):
            return False
        if 'with self.lock' not in inspect.getsource(tco.DataLinkConnection.enqueue).split('self.log(')[0]:
            return False
        llc = llcmod.LogicalLinkController(sec=False)
        a = nfc.llcp.Socket(llc, LDL)
        a.bind(40)
        a.close()
        a.close()
        llc.mac = None
        llc.terminate('probe')
        if llc.resolve('urn:nfc:sn:x') is not None:
            return False
        try:
            nfc.llcp.Socket(llc, LDL).bind(41)
            return False
        except nfc.llcp.Error:
            pass
        return True
    except Exception:  # noqa
        return False


class Correspondence(object):
    def __init__(self, ck, exe, variant):
        import subprocess
        self.ck, self.variant = ck, variant
        self.p = subprocess.Popen([exe], stdin=subprocess.PIPE, stdout=subprocess.PIPE, bufsize=0)
        self.cache = {}
        self.nseg = 0
        self.nmis = 0
        self.nhold = 0
        self.strict = variant == 'Fixed'

    def ask(self, line):
        r = self.cache.get(line)
        if r is None:
            self.p.stdin.write((line + '\n').encode())
            r = self.p.stdout.readline().decode().rstrip('\n')
            self.cache[line] = r
        return r

    def seg(self, point, snap, term, orc):
        kind, st, b, i, rq, sq, rb, sb, sl, ak = snap
        line = 'seg %s %s %s %s %d %d 1 %s %d %d %d %d %d %d %d' % (self.variant, point, kind, st, b, i, rq, sq, rb, sb, sl, ak, term, orc)
        act, post, nall = [x.strip() for x in self.ask(line).split('|')]
        return act, post, set(() if nall == '-' else nall.split(','))

    @staticmethod
    def post_str(snap):
        kind, st, b, i, rq, sq, rb, sb, sl, ak = snap
        return '%s %d %d %s %d %d %d %d %d' % (st, b, i, rq, sq, rb, sb, sl, ak)

    @staticmethod
    def result_str(api, res):
        if res[0] == 'llcp':
            return 'ret llcp %d' % res[2]
        if res[0] == 'exc':
            return 'ret crash ' + res[1].split(':')[0]
        v = res[1]
        if isinstance(v, (tuple, list)):
            v = v[0]
        if v is None:
            return 'ret ok None'
        if v is True or v is False:
            return 'ret ok ' + str(v)
        if api.endswith('accept'):
            return 'ret ok socket'
        if api.endswith('resolve'):
            return 'ret ok addr'
        return 'ret ok data'

    def mismatch(self, case, rec, why, extra=None):
        self.nmis += 1
        self.ck.count('segment-mismatch:' + rec['api'].split(':')[-1])
        if self.strict:
            self.ck.correspondence_mismatch('segment', {'case': {k: case.get(k) for k in ('scenario', 'cause', 'end_at', 'role')},
                                                        'api': rec['api'], 'why': why, 'detail': extra,
                                                        'at_call': rec['at_call'], 'result': rec['result'],
                                                        'segs': [(g['lock'], g['pre'], g['post'], g['end']) for g in rec['segs']]})

    def walk(self, case, rec):
        api = rec['api'].split(':')[-1].split('.')[-1]
        point = ENTRY.get(api)
        if point is None or rec['at_call'] is None:
            return
        segs = list(rec['segs'])
        state, term = rec['at_call'], rec['term_at_call']
        want = self.result_str(rec['api'], rec['result']) if rec['result'] is not None else None
        for _ in range(12):
            name = point.split(':')[0]
            unlocked = name in UNLOCKED or (self.variant == 'Orig' and name == 'PAcc3')
            if unlocked:
                cands = [self.seg(point, state, term, orc) for orc in (1, 0)]
                ok = None
                for act, post, nall in cands:
                    if act.startswith('goto') or (act.startswith('ret') and not segs and (want is None or act == want)):
                        ok = (act, post, nall)
                        break
                if ok is None:
                    return self.mismatch(case, rec, 'unlocked step at %s' % point, [c[0] for c in cands])
                self.nseg += 1
                act = ok[0]
            else:
                lk = 'llc' if name in LLC_LOCKED else 'sock'
                if not segs:
                    if want is None:
                        return            # the call was still in progress when the run ended
                    return self.mismatch(case, rec, 'model expects a %s-lock segment at %s, none observed' % (lk, point))
                sg = segs.pop(0)
                if sg['lock'] != lk:
                    return self.mismatch(case, rec, 'segment under the %s lock observed at %s' % (sg['lock'], point))
                ok = None
                tried = []
                for orc in (1, 0):
                    act, post, nall = self.seg(point, sg['pre'], sg['term'], orc)
                    tried.append((act, post))
                    if post != self.post_str(sg['post']) or nall != set(sg['nall']):
                        continue
                    if sg['end'][0] == 'wait':
                        if act.startswith('wait ' + sg['end'][1] + ' '):
                            ok = act
                            break
                    elif act.startswith('goto') or (act.startswith('ret') and not segs and (want is None or act == want
                                                                                            or (name == 'PBind1' and act.startswith('ret llcp') and want.startswith('ret llcp')))):
                        ok = act
                        break
                if ok is None:
                    return self.mismatch(case, rec, 'segment at %s' % point, {'observed': (sg['pre'], self.post_str(sg['post']), sg['end'], sg['nall'], sg['term']), 'model': tried})
                self.nseg += 1
                act = ok
                state, term = sg['post'], sg['term']
            if act.startswith('ret'):
                if segs:
                    return self.mismatch(case, rec, 'call returned in the model but more segments were observed')
                return
            point = act.split()[-1]
        return self.mismatch(case, rec, 'walk does not end')

    CONDS = {'RAW': {'send_ready', 'recv_ready'}, 'LDL': {'send_ready', 'recv_ready'},
             'DLC': {'send_ready', 'recv_ready', 'acks_ready', 'send_token'}, 'SDP': {'resp'}}

    def holds_ok(self, case, rec):
        """what WaitCheck guarantees of the skeleton (Skel/WaitSyntax.hold_ok), observed on the real holds:
        a hold that ends in wait(c) leaves the object open and c is one of its conditions; a hold under the
        object's own lock that closes the object notifies all its conditions"""
        for sg in rec['segs']:
            kind = sg['pre'][0]
            # invariant of the model on which the atomicity of the link thread's enqueue rests
            # (Proofs/LlcLife.sock_ok: a closed DLC has an empty receive queue)
            for snap in (sg['pre'], sg['post']):
                if snap[0] == 'DLC' and snap[1] == 'SHUTDOWN' and snap[4] != '-':
                    self.nmis += 1
                    self.ck.count('closed-dlc-has-queue:' + rec['api'].split(':')[-1])
                    if self.strict:
                        self.ck.correspondence_mismatch('closed DLC socket with a non-empty receive queue (model invariant)',
                                                        {'api': rec['api'], 'state': snap})
                    break
            own = (sg['lock'] == 'sock') or kind == 'SDP'
            if not own:
                continue
            self.nhold += 1
            bad = None
            if sg['end'][0] == 'wait' and (sg['post'][1] == 'SHUTDOWN' or sg['end'][1] not in self.CONDS[kind]):
                bad = 'wait on a closed object'
            if sg['pre'][1] != 'SHUTDOWN' and sg['post'][1] == 'SHUTDOWN' and not self.CONDS[kind] <= set(sg['nall']):
                bad = 'closed without notifying all conditions'
            if bad:
                self.nmis += 1
                self.ck.count('hold-not-ok:' + rec['api'].split(':')[-1])
                if self.strict:
                    self.ck.correspondence_mismatch('hold_ok', {'api': rec['api'], 'why': bad, 'hold': (sg['pre'], sg['post'], sg['end'], sg['nall'])})

    def check_run(self, case, out):
        for rec in out.get('records', []):
            self.walk(case, rec)
            self.holds_ok(case, rec)
        for sg in out.get('link_segs', []):
            kind, st, b, i, rq, sq, rb, sb, sl, ak = sg['pre']
            line = 'close %s %s %d %d 1 %s %d %d %d %d %d' % (kind, st, b, i, rq, sq, rb, sb, sl, ak)
            post, nall = [x.strip() for x in self.ask(line).split('|')]
            self.nseg += 1
            if post != self.post_str(sg['post']) or set(nall.split(',')) != set(sg['nall']):
                self.nmis += 1
                self.ck.count('segment-mismatch:terminate-close')
                if self.strict:
                    self.ck.correspondence_mismatch('terminate-close', {'pre': sg['pre'], 'post': sg['post'], 'notified': sg['nall'],
                                                                        'model': (post, nall)})


CORR = None


def copy_peer(kw):
    kw = dict(kw or {})
    if 'push' in kw:
        kw['push'] = {k: list(v) for k, v in kw['push'].items()}
    return kw


def explore(ck, case, budget, depth2, nrandom):
    """default schedule, every single deviation, (sampled) pairs of deviations, random schedules.
    Stops early for a key once it has been found."""
    keys = set()
    runs = 0
    base = run_case(case)
    runs += 1
    keys.update(monitor(ck, case, base))
    note_case(ck, case, base, ())
    n = len(base['schedule'])
    singles = [(i, a) for i in range(n) for a in base['enabled'][i] if a != base['schedule'][i]]
    second = []
    for i, a in singles:
        if runs >= budget:
            break
        o = run_case(case, S.Deviations({i: a}))
        runs += 1
        keys.update(monitor(ck, case, o))
        note_case(ck, case, o, ((i, a),))
        if depth2:
            for j in range(i + 1, len(o['schedule'])):
                for b in o['enabled'][j]:
                    if b != o['schedule'][j]:
                        second.append(((i, a), (j, b)))
    if depth2 and second:
        rng = ck.rng
        if len(second) > depth2:
            second = rng.sample(second, depth2)
        for (i, a), (j, b) in second:
            if runs >= budget:
                break
            o = run_case(case, S.Deviations({i: a, j: b}))
            runs += 1
            keys.update(monitor(ck, case, o))
            note_case(ck, case, o, ((i, a), (j, b)))
    for _ in range(nrandom):
        if runs >= budget:
            break
        seed = ck.rng.randrange(1 << 30)
        import random
        o = run_case(case, S.RandomChooser(random.Random(seed), ck.rng.choice([0.1, 0.25, 0.5])))
        runs += 1
        keys.update(monitor(ck, case, o))
        note_case(ck, case, o, ('random', seed))
    return runs, keys


SEGLOG = []


def note_case(ck, case, out, dev):
    blocked_at_end = sum(1 for c in out['calls'] if not c['issued_after_term'])
    canon = (case['scenario'], case['cause'], case['end_at'], case['role'], tuple(out['schedule']))
    ck.case(canon, nontrivial=len(out['calls']) > 0 or len(out['threads']) > 1,
            sample={'scenario': case['scenario'], 'cause': case['cause'], 'end_at': case['end_at'], 'role': case['role'],
                    'deviations': list(dev), 'steps': out['steps'],
                    'calls': [(c['api'], c['result']) for c in out['calls']][:6]} if not dev else None)
    ck.count('runs:' + case['scenario'])
    ck.count('cause:' + case['cause'])
    del blocked_at_end


class Overrun(BaseException):
    """raised by the scripted device to unwind a connect() that keeps searching after the link ended"""


CONNECT_EXPECT = {'disc': True, 'none': True, 'commerr': True, 'terminate': True,
                  'ioerror': False, 'secerr': False, 'kbdint': False}
# minimised past failures first: (cause, exchange index of the end, role, device recovers afterwards)
CONNECT_CORPUS = [('ioerror:timedout', 1, 'initiator', True), ('ioerror:epipe@collect', 1, 'target', True),
                  ('ioerror', 0, 'initiator', True), ('ioerror', 1, 'target', True), ('secerr', 2, 'initiator', True),
                  ('ioerror', 2, 'initiator', False)]


def connect_once(cause, end_at, role, recover, chooser=None):
    """the REAL ContactlessFrontend.connect(llcp=...) over a scripted MAC: the first activation finds the
    peer, the conversation ends at exchange `end_at` by `cause`; afterwards the peer is gone (every further
    activation is a device call that finds nothing; if the device does not recover it raises IOError).
    An application thread started from on-connect blocks in recv() meanwhile."""
    sch = S.Sched(chooser, max_steps=3000)
    res = {'after_end': 0, 'activations': 0}
    with S.install(sch, L.MODULES):
        peer = L.Peer(sch, cause, end_at)
        clf = nfc.clf.ContactlessFrontend()
        clf.device = object()                 # connect() only tests that a device is present
        saved = (nfc.dep.Initiator.activate, nfc.dep.Target.activate)

        def fake_activate(self, **kw):
            sch.point('activate')
            want = nfc.dep.Initiator if role == 'initiator' else nfc.dep.Target
            res['activations'] += 1
            if res['activations'] > 1 or peer.ended or peer.terminate_cb():
                res['after_end'] += 1
                if res['after_end'] > 3:
                    raise Overrun()
                if not recover:
                    raise IOError(19, 'device gone')
                sch.sleep(0.005)
                return None                    # nobody there any more
            if type(self) is not want:
                return None

            def deact(**k):
                if not recover:
                    raise IOError(19, 'device gone')
            self.exchange = peer.exchange
            self.deactivate = deact
            self.rwt = 0.001
            return L.GB

        def on_connect(llc):
            L.arm(peer, llc)
            s = sock(llc, RAW)
            s.bind(40)

            def app():
                try:
                    s.recv()
                    res['app'] = 'returned'
                except nfc.llcp.Error as e:
                    res['app'] = 'llcp %d' % e.errno
                except S.Abort:
                    raise
                except Exception as e:  # noqa
                    res['app'] = 'exc ' + type(e).__name__
            sch.spawn(app, 'app')
            return True

        nfc.dep.Initiator.activate = nfc.dep.Target.activate = fake_activate
        try:
            def body():
                try:
                    res['r'] = ('returned', clf.connect(llcp={'role': role if role != 'any' else None, 'on-connect': on_connect},
                                                        terminate=peer.terminate_cb))
                except SystemExit:
                    res['r'] = ('SystemExit', None)
                except Overrun:
                    res['r'] = ('keeps-searching', res['after_end'])
                except S.Abort:
                    raise
                except BaseException as e:  # noqa
                    res['r'] = (type(e).__name__, str(e)[:60])
            sch.spawn(body, 'main')
            blocked = sch.run()
            res['blocked'] = [sch.describe(b) for b in blocked]
            res['livelock'] = sch.livelock
            res['schedule'] = list(sch.schedule)
            res['link_ended'] = peer.ended or peer.terminate_cb()
            sch.shutdown()
        finally:
            nfc.dep.Initiator.activate, nfc.dep.Target.activate = saved
    return res


def connect_monitor(ck, cause, end_at, role, recover, res):
    data = {'connect': True, 'cause': cause, 'end_at': end_at, 'role': role, 'recover': recover,
            'result': res.get('r'), 'device_calls_after_end': res['after_end'], 'blocked': res['blocked'],
            'app_thread': res.get('app'), 'schedule': res['schedule']}
    r = res.get('r')
    if not res['link_ended'] or res['activations'] == 0:
        ck.count('connect:no-link')         # e.g. the terminate callback was true before the first activation
        return
    if res['livelock'] or r is None or (r[0] == 'keeps-searching'):
        ck.violation('connect-hangs:' + cause,
                     'ContactlessFrontend.connect() does not return after the llcp link ended by %s: it keeps searching for a '
                     'peer (%d further device calls)' % (cause, res['after_end']), data)
        return
    if r[0] != 'returned':
        ck.violation('connect-no-return:' + r[0],
                     'ContactlessFrontend.connect() does not return to its caller when the llcp link ends by %s: %s escapes'
                     % (cause, r[0]), data)
        return
    # a device that stays broken makes terminate() raise IOError from mac.deactivate(): documented result False
    expect = CONNECT_EXPECT[L.base_cause(cause)] if recover else False
    if r[1] is not expect:
        ck.violation('connect-wrong-result:' + cause,
                     'connect() returned %r after the llcp link ended by %s (device %s), documented: %r'
                     % (r[1], cause, 'recovers' if recover else 'stays broken', expect), data)
    if res['after_end'] > 1:
        ck.violation('connect-late:' + cause, 'connect() made %d device calls after the link had ended before returning'
                     % res['after_end'], data)
    if res['blocked'] or res.get('app') is None or res['app'].startswith('exc'):
        ck.violation('connect-thread-left:' + cause,
                     'after connect() returned a thread is left waiting / died: app thread %r, blocked %r' % (res.get('app'), res['blocked']), data)


def connect_returns(ck, only=None):
    """connect() returns to its caller with the documented value, within a bounded number of device calls,
    for every cause of the link end x exchange index x role x device recovering or not"""
    quick = ck.tier == 'quick'
    plan = list(CONNECT_CORPUS)
    for cause in L.CAUSES:
        for end_at in (0, 1, 2, 3):
            for role in ('initiator', 'target'):
                for recover in (True, False):
                    if (cause, end_at, role, recover) not in plan:
                        plan.append((cause, end_at, role, recover))
    for member in L.ERROR_FAMILY:
        for place in L.PLACES:
            cause = member if place == 'exchange' else member + '@' + place
            for end_at, role in ((0, 'initiator'), (2, 'target')):
                if (cause, end_at, role, True) not in plan:
                    plan.append((cause, end_at, role, True))
    if only is not None:
        plan = [only]
    import random
    for cause, end_at, role, recover in plan:
        choosers = [None] + [S.RandomChooser(random.Random(ck.rng.randrange(1 << 30)), 0.3) for _ in range(1 if quick else 6)]
        for ch in choosers:
            res = connect_once(cause, end_at, role, recover, ch)
            ck.case(('connect', cause, end_at, role, recover, tuple(res['schedule'])), True)
            ck.count('connect:' + cause)
            connect_monitor(ck, cause, end_at, role, recover, res)


def error_family(ck):
    """every member of the family of exceptions the link loop has to treat alike (plain IOError, the builtin
    subclasses Python 3 makes of IOError(ETIMEDOUT/EPIPE/EACCES), a driver's IOError subclass, the sec.* errors and
    a subclass) x where it is raised (mac.exchange, collect, dispatch) x exchange index x role, with threads
    blocked in recvfrom (2), resolve and connect: the link must be terminated and nobody left waiting"""
    quick = ck.tier == 'quick'
    for member in L.ERROR_FAMILY:
        for place in L.PLACES:
            cause = member if place == 'exchange' else member + '@' + place
            for end_at in ((0, 2) if quick else (0, 1, 2, 3)):
                for role in ('initiator', 'target'):
                    case = {'scenario': 'threads', 'cause': cause, 'end_at': end_at, 'role': role}
                    out = run_case(case)
                    monitor(ck, case, out)
                    note_case(ck, case, out, ('family',))
                    if out['term'][0] is None or out['run_result'] not in ('SystemExit',):
                        # the run loop must have called terminate() and left through SystemExit
                        data = dict(case, run_result=out['run_result'], term=out['term'], schedule=out['schedule'],
                                    blocked=out['blocked'])
                        ck.violation('run-loop-error-not-handled:' + L.base_cause(cause),
                                     'the llcp run loop does not terminate the link on %s raised in %s: run() ended with %r, terminate() %s'
                                     % (member, place, out['run_result'], 'not called' if out['term'][0] is None else 'called'), data)


def sc_blocked_all(llc, ctx):
    """one thread in each kind of blocking call: raw recv (40), ldl recvfrom (41), accept (listening at 16),
    connect (from 32 to 20, never answered), resolve (never answered), recv on an established connection (33 <-> 21)"""
    r, l, a, c, e = sock(llc, RAW), sock(llc, LDL), sock(llc, DLC), sock(llc, DLC), sock(llc, DLC)
    r.bind(40)
    l.bind(41)
    a.bind('urn:nfc:sn:test')
    a.listen(2)
    c.bind(32)
    e.bind(33)

    def est():
        if ctx.call('dlc.connect', lambda: e.connect(21))[0] == 'ret':
            ctx.call('dlc.recv', e.recv)
    return [('t-raw', lambda: ctx.call('raw.recv', r.recv)), ('t-ldl', lambda: ctx.call('ldl.recvfrom', l.recvfrom)),
            ('t-acc', lambda: ctx.call('dlc.accept', a.accept)), ('t-con', lambda: ctx.call('dlc.connect', lambda: c.connect(20))),
            ('t-res', lambda: ctx.call('resolve', lambda: llc.resolve('urn:nfc:sn:x'))), ('t-est', est)]


SCENARIOS['blocked-all'] = dict(build=sc_blocked_all, peer=dict(snl=False, cc={21}), ends=(3,))


class AppsFirst(S.DefaultChooser):
    """application threads run whenever they can (so they are all blocked before the peer's PDU arrives)"""

    def choose(self, step, cur, enabled):
        apps = [t for t in enabled if t.name != 'link']
        if apps:
            return cur if cur in apps else apps[0]
        return enabled[0]


def crafted_pdus(quick, rng):
    """(label, octets): every PDU type with every value of its small enumerated fields, reserved types and
    parameters, malformed-but-decodable content; addressed to the sockets of sc_blocked_all"""
    def hdr(dsap, ptype, ssap):
        return bytes([(dsap << 2) | (ptype >> 2), ((ptype & 3) << 6) | ssap])
    out = []
    # DM: all 256 reason octets in answer to the pending CONNECT (32 <- 20), a sample to the other sockets
    for reason in range(256):
        out.append(('DM reason %02x -> 32' % reason, hdr(32, 7, 20) + bytes([reason])))
    for dsap, ssap in ((33, 21), (16, 20), (40, 20), (41, 20), (1, 1), (0, 0), (50, 20)):
        for reason in (0, 1, 2, 3, 4, 0x10, 0x11, 0x12, 0x20, 0x21, 0x22, 0x7f, 0x80, 0xff):
            out.append(('DM reason %02x -> %d' % (reason, dsap), hdr(dsap, 7, ssap) + bytes([reason])))
    # FRMR: all flag nibbles x a few rejected ptypes / sequence octets, to the established and the connecting socket
    for dsap, ssap in ((33, 21), (32, 20), (16, 20)):
        for flags in range(16):
            for ptype in (0, 7, 12, 15):
                out.append(('FRMR flags %x ptype %x -> %d' % (flags, ptype, dsap),
                            hdr(dsap, 8, ssap) + bytes([(flags << 4) | ptype, 0x12, 0x34, 0x56])))
    # every PDU type (incl. reserved 1010b, 1011b, 1110b, 1111b is not defined) with empty / short / long bodies, to every socket
    bodies = (b'', b'\x00', b'\xff', b'\x01\x01', b'\x02\x02\x00', bytes(range(8)), b'\xff' * 20)
    for ptype in range(16):
        for dsap, ssap in ((32, 20), (33, 21), (16, 20), (40, 20), (41, 20), (1, 1), (0, 0)):
            for body in bodies:
                out.append(('ptype %x -> %d body %s' % (ptype, dsap, body.hex()[:12]), hdr(dsap, ptype, ssap) + body))
    # parameters: every TLV type 0..255 with length 0, 1, 2 in CONNECT (to the listener), CC (to the connecting socket), PAX
    for t in range(256):
        for val in (b'', b'\x00', b'\xff\xff'):
            tlv = bytes([t, len(val)]) + val
            out.append(('CONNECT tlv %02x/%d' % (t, len(val)), hdr(16, 4, 20) + tlv))
            out.append(('CC tlv %02x/%d' % (t, len(val)), hdr(32, 6, 20) + tlv))
            if t < 16 or t > 250:
                out.append(('PAX tlv %02x/%d' % (t, len(val)), hdr(0, 1, 0) + tlv))
    # SNL with every TLV type, AGF wrapping a reserved DM / nested content, I / RR / RNR sequence octets
    for t in range(0, 256, 1 if not quick else 3):
        out.append(('SNL tlv %02x' % t, hdr(1, 9, 1) + bytes([t, 2, 1, 16])))
    for inner in (hdr(32, 7, 20) + b'\x04', hdr(33, 8, 21) + b'\xf0\x00\x00\x00', hdr(0, 2, 0) + b'\x00\x00', b''):
        out.append(('AGF [%s]' % inner.hex(), hdr(0, 2, 0) + len(inner).to_bytes(2, 'big') + inner))
    for seq in range(0, 256, 17):
        for ptype in (12, 13, 14):
            out.append(('numbered %x seq %02x' % (ptype, seq), hdr(33, ptype, 21) + bytes([seq]) + (b'data' if ptype == 12 else b'')))
    if quick:
        head = out[:256]                                   # all DM reasons
        rest = out[256:]
        out = head + rng.sample(rest, 260)
    return out


def crafted_run(octets, role):
    return L.run_scenario(sc_blocked_all, 'disc', 7, chooser=AppsFirst(), role=role,
                          peer_kw=dict(cc={21}, snl=False, push={4: [bytes(octets)]}), observe=False)


def crafted_pdu_sweep(ck):
    """the peer sends one crafted PDU while a thread is blocked in every kind of blocking call; afterwards the link
    ends (remote DISC) - or has ended already because the PDU was refused.  Whatever the PDU: the run loop returns
    (or leaves by SystemExit / KeyboardInterrupt after terminate()) and nobody is left waiting"""
    quick = ck.tier == 'quick'
    for i, (label, octets) in enumerate(crafted_pdus(quick, ck.rng)):
        role = ('initiator', 'target')[i % 2]
        out = crafted_run(octets, role)
        case = {'scenario': 'blocked-all', 'cause': 'disc', 'end_at': 7, 'role': role, 'peer_pdu': octets.hex(), 'pdu': label}
        ck.case(('pdu', octets, role), True,
                {'kind': 'crafted peer PDU', 'pdu': label, 'octets': octets.hex()[:24], 'run_result': out['run_result']} if i % 400 == 0 else None)
        ck.count('crafted-pdu')
        for k in monitor(ck, case, out):
            pass


def device_still_broken(ck):
    """IOError in the run loop from a device that stays broken: terminate() talks to the device again"""
    for role in ('initiator', 'target'):
        def build(llc, ctx):
            def broken(**kw):
                raise IOError(5, 'device gone')
            llc.mac.deactivate = broken
            return sc_raw_recv(llc, ctx) + sc_resolve(llc, ctx)
        out = L.run_scenario(build, 'ioerror', 2, role=role)
        case = {'scenario': 'device-still-broken', 'cause': 'ioerror', 'end_at': 2, 'role': role}
        ck.case(('broken', role), True)
        ck.count('runs:device-still-broken')
        if out['term'][0] is None:
            continue
        for b in out['blocked']:
            api = current_call(out, b['thread']) or b['thread']
            ck.violation('hang-device-broken:' + api,
                         'thread left waiting for ever: terminate() raised IOError from mac.deactivate() before shutting the sockets down',
                         dict(case, blocked=out['blocked'], run_result=out['run_result']))


def main():
    ck = Check('C09')
    quick = ck.tier == 'quick'
    if ck.replay:
        return replay(ck)
    ck.trusted = ['Coq 8.16.1 kernel (vm_compute for witnesses and for running WaitCheck on the skeleton)',
                  'translate/skel_c09.py (fail-closed ast extractor of the wait/notify skeleton; its whitelists)',
                  'harness/sim/sched.py (cooperative scheduler) and harness/sim/llcpeer.py (scripted peer)',
                  'extraction: ExtrOcamlBasic only; extract/c09_run.ml driver']
    ck.assumptions = ['liveness is proved as a safety invariant (blocked => not shut down, or notification pending) plus: '
                      'CPython schedules every runnable thread eventually and Condition.wait has no lost wake-ups',
                      'pre-emption inside a lock-hold segment is not modelled (single lock per socket; reads outside the lock are separate steps)']
    coq_ok = True
    import os
    if os.path.exists(os.path.join(os.path.dirname(__file__), '..', '..', 'coq', 'Props', 'C09.v')):
        coq_ok = ck.coq(gen=['TcoSkel'], targets=['Proofs/LlcLife.vo', 'Proofs/LlcLifeOwn.vo', 'Bridge/C09Skel.vo'], props=['C09', 'C09Skel'])
    del coq_ok
    global CORR
    mr = ck.model()
    if mr is not None:
        variant = 'Fixed' if tree_is_fixed() else 'Orig'
        ck.notes.append('model variant for the correspondence: ' + variant)
        CORR = Correspondence(ck, mr.exe, variant)

    # corpus of minimised past failures first (each is a single deviation from the default schedule)
    roles = ('initiator', 'target')
    causes = L.CAUSES
    total = 0
    found = set()
    per_case_budget = 60 if quick else 220
    depth2 = 12 if quick else 110
    nrandom = 3 if quick else 20
    plan = []
    for name, sc in SCENARIOS.items():
        ends = sc.get('ends', DEFAULT_ENDS)
        for cause in causes:
            for role in roles:
                for e in ends:
                    plan.append({'scenario': name, 'cause': cause, 'end_at': e, 'role': role})
    if quick:
        # every scenario x every cause at least once; ends and role rotate
        sel = []
        for name, sc in SCENARIOS.items():
            ends = sc.get('ends', DEFAULT_ENDS)
            for ci, cause in enumerate(causes):
                k = (ci + len(name)) % len(ends)
                sel.append({'scenario': name, 'cause': cause, 'end_at': ends[k], 'role': roles[(ci + len(name)) % 2]})
        extra = ck.rng.sample([p for p in plan if p not in sel], 20)
        plan = sel + extra
    for case, schedule in SCHEDULE_CORPUS:
        out = run_case(case, S.Replay(schedule))
        found |= set(monitor(ck, case, out))
        note_case(ck, case, out, ('corpus',))
        total += 1
    crafted_pdu_sweep(ck)
    error_family(ck)
    bind_during_terminate(ck)
    connect_returns(ck)          # starts with its own corpus of minimised past failures
    members = {'ioerror': [m for m in L.ERROR_FAMILY if m.startswith('ioerror')],
               'secerr': [m for m in L.ERROR_FAMILY if m.startswith('secerr')]}
    for i, case in enumerate(plan):
        fam = members.get(case['cause'])
        if fam:
            place = L.PLACES[(i // len(fam)) % len(L.PLACES)]
            case['cause'] = fam[i % len(fam)] + ('' if place == 'exchange' else '@' + place)
    for case in plan:
        runs, keys = explore(ck, case, per_case_budget, depth2, nrandom)
        total += runs
        found |= keys
    # calls issued after termination
    for cause in causes:
        for role in roles:
            case = {'scenario': 'raw-recv', 'cause': cause, 'end_at': 1, 'role': role, 'post': True}
            runs, keys = explore(ck, case, 8 if quick else 120, 0, 2 if quick else 20)
            total += runs
            found |= keys
    device_still_broken(ck)
    ck.cov['schedules_run'] = total
    if CORR is not None:
        ck.cov['segments_validated_against_model'] = CORR.nseg - CORR.nmis
        ck.cov['segment_mismatches'] = CORR.nmis
        ck.cov['holds_checked_against_hold_ok'] = CORR.nhold
        ck.cov['model_variant'] = CORR.variant
    ck.finish(level='proof',
              rule='scenario (blocking call) x cause of link end x exchange index of the end x role x schedule; schedules: default '
                   'non-pre-emptive, every single deviation, sampled pairs of deviations, seeded random. non-trivial = at least one '
                   'socket call or server thread was alive; distinct by (scenario, cause, end, role, schedule)',
              explanation='theorems over all schedules and any number of threads for the LlcLife transition system; the real run loop, '
                          'sockets and server threads are driven under a deterministic scheduler to search for hangs and to tie the '
                          'segment function of the model to the observed lock-hold segments')


def replay(ck):
    data = json.load(open(ck.replay))
    case = data['case']
    if 'peer_pdu' in case:
        out = crafted_run(bytes.fromhex(case['peer_pdu']), case['role'])
        print(json.dumps({'blocked': out['blocked'], 'run_result': out['run_result'],
                          'calls': [(c['thread'], c['api'], c['result']) for c in out['calls']]}, indent=1, default=str))
        bad = monitor(ck, case, out)
        print('REPRODUCED' if bad else 'not reproduced')
        sys.exit(1 if bad else 0)
    if 'schedule' in case and case.get('scenario') in SCENARIOS:
        out = run_case(case, S.Replay(case['schedule']))
        print(json.dumps({'blocked': out['blocked'], 'run_result': out['run_result'],
                          'calls': [(c['thread'], c['api'], c['result']) for c in out['calls']],
                          'threads': out['threads']}, indent=1, default=str))
        bad = monitor(ck, case, out)
        print('REPRODUCED' if bad else 'not reproduced')
        sys.exit(1 if bad else 0)
    key = data.get('key', '')
    if key.startswith('connect-'):
        if case.get('connect'):
            res = connect_once(case['cause'], case['end_at'], case['role'], case['recover'], S.Replay(case['schedule']))
            print(json.dumps({k: res.get(k) for k in ('r', 'after_end', 'app', 'blocked')}, default=str))
            connect_monitor(ck, case['cause'], case['end_at'], case['role'], case['recover'], res)
        else:
            connect_returns(ck)
    elif key.startswith('hang-device-broken'):
        device_still_broken(ck)
    elif key.startswith('run-loop-error-not-handled'):
        error_family(ck)
    else:
        print('replay file has no schedule; rerun ./check C09')
        sys.exit(2)
    hit = [k for k, _w, _d in ck.violations if k == key]
    print('REPRODUCED' if hit else 'not reproduced')
    sys.exit(1 if hit else 0)


if __name__ == '__main__':
    main()
