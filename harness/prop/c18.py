"""C18 - connect() and sense() honour their documented contract.

Obligations: Props/C18.v (theorems over ALL option combinations and environment oracles for the
executable model Model/Connect.v).  Correspondence: the REAL ContactlessFrontend (connect,
_rdwr_connect, _llcp_connect, _card_connect, sense, listen, exchange) over a scripted recording
device and scripted tag / llc / emulation counterparts (harness/sim/clfscript.py) against the
extracted model: same option dictionaries, same oracle streams, compared on the complete ordered
event list (callbacks with their values, driver calls, terminate polls, activations) and the result.
Monitor: the documented contract (docstrings of connect/sense/listen/exchange) written as a
state machine over the implementation's events, independent of the model.
"""
import itertools
import json
import logging
import sys

from common import Check

import nfc
import nfc.clf
from sim import clfscript as S

logging.disable(logging.CRITICAL)


# =========================================================================== monitor: connect
ATTEMPT = ('mute', 'sense_', 'listen_', 'llc_activate', 'tag_activate', 'emulate')
HOLD_OK = ('beep_on', 'beep_off', 'term:', 'present?', 'llc_run', 'process', 'send_rsp')
OBJ = {'rdwr': 'tag', 'llcp': 'llc', 'card': 'emu'}
DOC_EXC = ('IOError', 'UnsupportedTargetError', 'KeyboardInterrupt')


def truthy(code):
    return code in 'TxO'


def documented_startup(case):
    """which option blocks are left after on-startup, by the documentation alone.
    True / False / None (= the documentation does not say)"""
    r, l_, c = case.get('rdwr'), case.get('llcp'), case.get('card')
    kept = {}
    undocumented = False
    ntargets, single_x = 0, False
    if r is not None:
        st = r.get('startup', '-')
        tg = 'ABF' if r.get('targets') is None else r['targets']
        if st in ('-', '='):
            final = tg
        elif st in ('N', 'E'):
            final = ''
        elif st == 'I':
            final = None
            undocumented = True       # a true value that is not a list of targets
        else:
            final = st[1:]
        if final is not None:
            kept['rdwr'] = bool(final) and 'Z' not in final
            ntargets, single_x = len(final), final == 'X'
            if kept['rdwr'] and any(ch in final for ch in 'dLa'):
                undocumented = True   # targets with invalid attributes: sense() raises ValueError
    if l_ is not None:
        kept['llcp'] = l_.get('startup', '-') in ('-', '=')
    if c is not None:
        st = c.get('startup', '-')
        if st == '-':
            kept['card'] = None       # default on-startup is not documented
        elif st in ('N', 'x', 'Z'):
            kept['card'] = False
        else:
            kept['card'] = True
            if st == 'Q':
                undocumented = True   # listen() raises ValueError for that brty
    return kept, undocumented, ntargets, single_x


def monitor_connect(case, result, ev):
    """returns list of (key, what) - failures of the documented contract on this observation"""
    V = []

    def bad(key, what):
        if not any(k == key for k, _ in V):
            V.append((key, what))
    if case.get('nodev'):
        if result != 'raise IOError' or S.visible(ev):
            bad('nodev', 'connect() without a device must raise IOError(ENODEV) and do nothing')
        return V
    blocks = {'rdwr': case.get('rdwr'), 'llcp': case.get('llcp'), 'card': case.get('card')}

    def supplied(b, k):
        return bool(blocks[b] and blocks[b].get(k))
    kept, undocumented, ntargets, single_x = documented_startup(case)
    phase = 'startup'
    seen_startup = set()
    held = None            # block whose on-connect returned a true value and that is not yet released
    was_held = None
    released = None
    await_connect = None   # block whose activation succeeded: the user's on-connect must be the next event
    disc = None            # truth value of the on-discover of the running attempt
    raised = None
    terminated = False     # terminate() has returned a true value
    final = None           # reason why no further event may follow
    obj = None
    polled = True          # terminate() was consulted since the last presence check / response of the hold phase
    xch_since_poll = 0     # live llc: link exchanges since terminate() was last consulted
    xch_after_term = 0     # live llc: link exchanges after terminate() had returned true
    for e in ev:
        if e.startswith('startup:'):
            b = e.split(':')[1]
            if phase != 'startup':
                bad('order:startup-late:' + b, 'on-startup called after discovery had begun')
            if b in seen_startup:
                bad('order:startup-twice:' + b, 'on-startup called twice')
            seen_startup.add(b)
            continue
        phase = 'loop'
        if e.startswith('!'):
            if e.startswith('!raise:'):
                # a driver's UnsupportedTargetError is documented to be ignored by sense() with several targets
                if not (e == '!raise:UnsupportedTargetError:sense' and ntargets != 1):
                    raised = e.split(':')[1]
            elif e == '!xchg' and case.get('live') in ('llc', 'dep') and not case.get('noterm'):
                # "... or when the 'terminate' function returned a true value": the symmetry loop has to ask in
                # every turn and to end with at most the DISC exchange once the answer was true
                if terminated:
                    xch_after_term += 1
                    if xch_after_term > 2:
                        bad('llc-runs-on-after-terminate', 'more than two link exchanges after terminate() returned true')
                else:
                    xch_since_poll += 1
                    if xch_since_poll > 1:
                        bad('hold-without-terminate-poll', 'terminate() is not consulted between two exchanges of the llcp run loop')
            elif e in ('!tag:1', '!llc:1', '!emu:1'):
                b = {'!tag:1': 'rdwr', '!llc:1': 'llcp', '!emu:1': 'card'}[e]
                if supplied(b, 'connect'):
                    await_connect = b
                else:
                    held = was_held = b           # the default on-connect returns True
            continue
        # ---- a visible event
        if final is not None:
            bad('continues-after-%s' % final, 'event %r after the point where connect() had to return' % e)
        if raised is not None:
            bad('continues-after-exception', 'event %r after %s was raised' % (e, raised))
        if await_connect is not None and not e.startswith('connect:' + await_connect):
            bad('connect-not-called:' + await_connect, 'activation succeeded but on-connect was not called next')
            await_connect = None
        if e == 'mute' and single_x and kept.get('rdwr'):
            raised = 'UnsupportedTargetError'     # sense() of the single unsupported target raises (documented)
            single_x = False
            continue
        if e.startswith(ATTEMPT):
            if terminated:
                bad('stops', 'a new discovery/activation step (%s) started after terminate() returned true' % e)
            if held is not None:
                bad('release-missing-before-next', 'new discovery started although on-release of %s was not called' % held)
            if e.startswith(('tag_activate', 'emulate')):
                b = 'rdwr' if e.startswith('tag_activate') else 'card'
                if supplied(b, 'discover') and disc is not True:
                    bad('activate-without-discover:' + b, 'target activated although on-discover did not return a true value')
                disc = None
            elif not e.startswith('mute'):
                disc = None
        elif e.startswith('discover:'):
            _, b, v = e.split(':')
            if held is not None:
                bad('release-missing-before-next', 'on-discover while the previous activation (%s) was not released' % held)
            disc = truthy(v)
        elif e.startswith('connect:'):
            _, b, v = e.split(':')
            if await_connect != b:
                bad('connect-without-activation:' + b, 'on-connect called without a successful activation')
            await_connect = None
            if truthy(v):
                held = was_held = b
            else:
                final = 'connect-false'
                obj = OBJ[b]
        elif e.startswith('release:'):
            _, b, v = e.split(':')
            if held != b:
                bad('release-without-connect-true:' + b, 'on-release called although no on-connect of this block returned true (or twice)')
            held = None
            released = b
            final = 'release'
        elif e.startswith('term:'):
            polled = True
            xch_since_poll = 0
            if e == 'term:1':
                terminated = True
                if held is None:
                    final = 'terminate'
        elif e.startswith(HOLD_OK):
            if e in ('present?', 'send_rsp') and not case.get('noterm'):
                # "... or when the 'terminate' function returned a true value": it has to be asked in every pass
                if not polled:
                    bad('hold-without-terminate-poll', 'terminate() is not consulted between two passes of the hold loop')
                polled = False
            if held is None and not e.startswith('process') and not e.startswith('beep'):
                bad('hold-event-outside-hold', 'event %r outside the hold phase of an activation' % e)
    # ---- end of the run
    # an exception that ends the hold phase terminates connect() (documented: returns False); the
    # documentation of on-release does not promise a call in that case, so none is demanded
    if held is not None and supplied(held, 'release') and raised is None:
        bad('release-missing', 'on-connect (%s) returned a true value, the hold phase ended without exception, '
            'but on-release was never called' % held)
    if undocumented:
        return V
    if result.startswith('raise') or result == 'hang':
        bad('unexpected-exception:' + result.split()[-1], 'connect() must return (documented: None / False / True / object), got ' + result)
        return V
    vis = S.visible(ev)
    loop_events = [e for e in vis if not e.startswith('startup:')]
    if kept and all(v is False for v in kept.values()) or not kept:
        if result != 'ret None' or loop_events:
            bad('no-options-left', 'no options left after on-startup: connect() must return None at once, got ' + result)
        return V
    if obj is not None:
        want = ['ret ' + obj]
    elif raised in DOC_EXC:
        want = ['ret False']
    elif was_held is not None:
        want = ['ret True'] + (['ret None'] if terminated else [])
    else:
        want = ['ret None']
        if any(v is not None for v in kept.values()) and any(kept.values()) and not terminated and not case.get('noterm'):
            bad('none-without-terminate', 'connect() returned although terminate() was never true and nothing was activated')
    if result not in want:
        key = 'result-after-release' if released else 'result:%s-instead-of-%s' % (result.split()[-1], want[0].split()[-1])
        bad(key, 'connect() returned %s, documented: %s' % (result[4:], ' or '.join(w[4:] for w in want)))
    return V


# =========================================================================== monitor: sense / listen / exchange
def monitor_history(case, results, ev):
    V = []

    def bad(key, what):
        if not any(k == key for k, _ in V):
            V.append((key, what))
    # split the event list per op
    logs, cur = [], None
    for e in ev:
        if e == '|':
            cur = []
            logs.append(cur)
        else:
            cur.append(e)
    latest = None          # what the latest sense/listen that touched the device left behind
    nsense = -1
    for op, res, log in zip(case['ops'], results, logs):
        vis = S.visible(log)
        out = res.split(' stored=')[0]
        if op[0] == 'sense':
            nsense += 1
            specs, iters, tab = op[1], op[2], op[3]
            if case.get('nodev'):
                continue
            if len(specs) != 1 and out == 'raise UnsupportedTargetError':
                bad('sense-unsupported-multi', 'sense() with %d targets raised UnsupportedTargetError' % len(specs))
            if vis:
                latest = out[4:] if out.startswith('ret rt:') else None
            if 'Z' in specs:
                continue
            n = max(1, 1 if iters is None else iters)

            def entry(i, j):
                return tab[i][j] if i < len(tab) and j < len(tab[i]) else 'n'
            # the documented order: iteration by iteration, targets in the order given
            expect = None
            stop = False
            for i in range(n):
                for j, sp in enumerate(specs):
                    if sp in 'dLa':
                        stop = True          # invalid attributes: ValueError (not covered by the property)
                        break
                    if sp == 'X':
                        if len(specs) == 1:
                            stop = True
                            break
                        continue
                    o = entry(i, j)
                    if o in 'fp' or (o == 's' and sp != 'A'):
                        expect = 'rt:%d:%d:%d' % (nsense, i, j)
                        stop = True
                        break
                    if o in 'ikIemq' or (o == 'u' and len(specs) == 1):
                        stop = True
                        break
                if stop:
                    break
            if out.startswith('ret rt:') and out[4:] != expect:
                bad('sense-not-first', 'sense() returned %s, the first target found in the order given is %s' % (out[4:], expect))
            if out == 'ret None' and expect is not None:
                bad('sense-missed', 'sense() returned None although %s was found' % expect)
            if out == 'ret None' and (not vis or vis[-1] != 'mute'):
                bad('sense-field-on', 'sense() returned None but the last driver call is not mute(): %s' % ' '.join(vis[-3:]))
        elif op[0] == 'listen':
            if case.get('nodev'):
                continue
            if vis:
                latest = out[4:] if out.startswith('ret lt:') else None
        else:
            if case.get('nodev'):
                if out != 'raise IOError':
                    bad('exchange-nodev', 'exchange() without device must raise IOError')
                continue
            used = [e.split('>')[1] for e in vis if e.startswith(('cmd>', 'rsp>'))]
            if latest is None:
                if used or out != 'ret None':
                    bad('exchange-stale-target', 'exchange() used %s although the latest sense/listen found nothing' % used)
            else:
                if used != [latest]:
                    bad('exchange-wrong-target', 'exchange() used %s, the latest sense/listen stored %s' % (used, latest))
                want = 'cmd>' if latest.startswith('rt:') else 'rsp>'
                if vis and not vis[0].startswith(want):
                    bad('exchange-wrong-direction', 'exchange() used the wrong driver direction for ' + latest)
    return V


# =========================================================================== case generation
CBCOMB = [(d, c, r) for d in (0, 1) for c in (0, 1) for r in (0, 1)]


def structures(tier, rng):
    """option dictionaries without oracle streams: (case skeleton, exploration limits)"""
    out = []
    full = tier != 'quick'
    # ---- single blocks, every combination of supplied callbacks
    for d, c, r in CBCOMB:
        for targets, iters in ((('A', 1),) if not full else (('A', 1), ('XA', 2), (None, 1))):
            out.append({'rdwr': {'targets': targets, 'discover': d, 'connect': c, 'release': r, 'iterations': iters}})
    for c, r in itertools.product((0, 1), (0, 1)):
        for role in (None, 'target', 'initiator', 'invalid') if full else (None, 'initiator'):
            out.append({'llcp': {'connect': c, 'release': r, 'role': role}})
    for d, c, r in CBCOMB:
        for st in ('F', 'P') if full else ('F',):
            out.append({'card': {'startup': st, 'discover': d, 'connect': c, 'release': r}})
    # ---- on-startup variants (every documented and undocumented kind of result)
    for st in ('-', '=', 'N', 'E', 'I', 'LA', 'LAD', 'Ld', 'LaF', 'LZ', 'LAZ', 'LX', 'LXF', 'L'):
        for tg in (None, '', 'F'):
            out.append({'rdwr': {'targets': tg, 'startup': st, 'connect': 1, 'release': 1, 'iterations': 1}})
    for st in ('-', '=', 'N', 'o'):
        out.append({'llcp': {'startup': st, 'connect': 1, 'release': 1, 'role': 'target'}})
    for st in ('-', 'N', 'x', 'A', 'B', 'F', 'P', 'Q', 'Z'):
        out.append({'card': {'startup': st, 'connect': 1, 'release': 1}})
    # ---- iterations / beep
    for iters in (None, 0, 1, 2, 3, -1):
        for beep in (None, 0, 1):
            out.append({'rdwr': {'targets': 'AF', 'connect': 1, 'release': 1, 'iterations': iters, 'beep': beep}})
    # ---- combinations of blocks
    combos = [('rdwr', 'llcp'), ('rdwr', 'card'), ('llcp', 'card'), ('rdwr', 'llcp', 'card')]
    for combo in combos:
        for d, c, r in (CBCOMB if full else [(1, 1, 1), (0, 0, 0), (0, 1, 1)]):
            sk = {}
            if 'rdwr' in combo:
                sk['rdwr'] = {'targets': 'A', 'discover': d, 'connect': c, 'release': r, 'iterations': 1}
            if 'llcp' in combo:
                sk['llcp'] = {'connect': c, 'release': r, 'role': 'initiator' if len(combo) == 3 else None}
            if 'card' in combo:
                sk['card'] = {'startup': 'F', 'discover': d, 'connect': c, 'release': r}
            out.append(sk)
    out.append({})
    out.append({'rdwr': {'targets': 'A', 'iterations': 1}, 'nodev': 1})
    return out


def explore(sk, limits, domains, budget, rng=None, walks=0):
    """depth-first enumeration of every oracle answer (bounded by limits), or random walks.
    yields (result, events, concrete case)"""
    n = 0
    if walks:
        for _ in range(walks):
            ch = S.Chooser(rng=rng)
            yield S.run_connect(dict(sk), chooser=ch, limits=limits, domains=domains)
        return
    prefix = []
    while prefix is not None and n < budget:
        ch = S.Chooser(prefix)
        yield S.run_connect(dict(sk), chooser=ch, limits=limits, domains=domains)
        n += 1
        prefix = ch.next_prefix()


LIM_DFS = {'term': 4, 'cbs': 3, 'sense': 3, 'listen': 2, 'tagact': 1, 'present': 2, 'llcact': 2, 'llcrun': 1,
           'emulate': 1, 'cardstep': 2}
DOM_DFS = {'sense': 'nfpiu', 'listen': 'nfi', 'tagact': 'tni', 'present': 'nyik', 'llcact': 'fti',
           'llcrun': [(0, 'r'), (2, 'r'), (1, 'k'), (0, 'i'), (1, 'I'), (0, 'e'), (1, 'm'), (0, 'q')], 'cardstep': 'bncik'}
LIM_WALK = {'term': 12, 'cbs': 12, 'sense': 24, 'listen': 8, 'tagact': 6, 'present': 8, 'llcact': 8, 'llcrun': 4,
            'emulate': 6, 'cardstep': 8}


def random_structure(rng):
    sk = {}
    if rng.random() < 0.7:
        sk['rdwr'] = {'targets': rng.choice([None, 'A', 'F', 'AB', 'XA', 'ABF', 'X', 'BXF', '']),
                      'startup': rng.choice(['-', '-', '=', '=', 'N', 'E', 'LA', 'LAD', 'LDF', 'LXF', 'LAZ', 'Ld', 'LFa']),
                      'discover': rng.randrange(2), 'connect': rng.randrange(2), 'release': rng.randrange(2),
                      'iterations': rng.choice([None, 0, 1, 1, 2, 3]), 'beep': rng.choice([None, 0, 1])}
    if rng.random() < 0.6:
        sk['llcp'] = {'startup': rng.choice(['-', '-', '=', '=', 'N', 'o']), 'connect': rng.randrange(2),
                      'release': rng.randrange(2), 'role': rng.choice([None, None, 'target', 'initiator', 'invalid'])}
    if rng.random() < 0.6:
        sk['card'] = {'startup': rng.choice(['-', 'N', 'x', 'A', 'B', 'F', 'F', 'P', 'P', 'Q', 'Z']),
                      'discover': rng.randrange(2), 'connect': rng.randrange(2), 'release': rng.randrange(2)}
    if rng.random() < 0.03:
        sk['nodev'] = 1
    return sk


def history_cases(tier, rng):
    """sense / listen / exchange histories"""
    quick = tier == 'quick'
    out = []
    # exhaustive: one sense call, every target list up to length 2 (3 in thorough, reduced alphabet) x outcome table
    specs = 'ABFXDdaZ'
    lists = [''] + list(specs) + [a + b for a in specs for b in specs]
    if not quick:
        lists += [a + b + c for a in 'AFXd' for b in 'AFXZ' for c in 'ABX']
    outs = 'nfpuicsk'
    for ts in lists:
        ndrv = sum(1 for ch in ts if ch in 'ABFD')
        for iters in ((None, 2) if quick else (None, 0, 1, 2, 3)):
            n = max(1, iters or 1)
            cells = ndrv * min(n, 2)
            dom = outs if cells <= 2 else 'nfuis'
            if cells > 4:
                continue
            for combo in itertools.product(dom, repeat=cells):
                it = iter(combo)
                tab = []
                for i in range(min(n, 2)):
                    row = ''
                    for ch in ts:
                        row += next(it) if ch in 'ABFD' else 'n'
                    tab.append(row)
                out.append({'ops': [['sense', ts, iters, tab], ['exchange']]})
    # listen: every local target x outcome, followed by exchange
    for sp in 'ABFPQZ':
        for o in 'nfbuik':
            out.append({'ops': [['listen', sp, o], ['exchange']]})
    # random longer histories
    for _ in range(400 if quick else 6000):
        ops = []
        for _ in range(rng.randrange(2, 8)):
            k = rng.random()
            if k < 0.4:
                ts = ''.join(rng.choice('AABBFFXDdaZ') for _ in range(rng.choice([0, 1, 1, 2, 2, 3])))
                if rng.random() < 0.7:
                    ts = ts.replace('Z', 'A').replace('d', 'F').replace('a', 'B')
                iters = rng.choice([None, 0, 1, 2, 3])
                tab = [''.join(rng.choice('nnnnfpuicskIemq') for _ in ts) for _ in range(rng.randrange(0, 4))]
                ops.append(['sense', ts, iters, tab])
            elif k < 0.6:
                ops.append(['listen', rng.choice('ABFPPQZ'), rng.choice('nfffbuikIemq')])
            else:
                ops.append(['exchange'])
        c = {'ops': ops}
        if rng.random() < 0.03:
            c['nodev'] = 1
        out.append(c)
    return out


CORPUS = [
    # minimised past failures (run first)
    ({'rdwr': {'targets': 'A', 'release': 1, 'iterations': 1}, 'cbs': 'N', 'term': '0000', 'sense': [['f']],
      'tagact': 't', 'present': 'n'}, 'on-release returns None: connect() kept looping instead of returning True'),
    ({'rdwr': {'targets': 'A', 'release': 1, 'iterations': 1}, 'cbs': 'x', 'term': '0000', 'sense': [['f']],
      'tagact': 't', 'present': 'n'}, "on-release returns 'x': connect() returned 'x' instead of True"),
    ({'llcp': {'release': 1, 'role': 'initiator'}, 'cbs': 'F', 'term': '0000', 'llcact': 't', 'llcrun': [[1, 'r']]},
     'llcp on-release returns False: connect() kept looping'),
    ({'card': {'startup': 'F', 'release': 1}, 'cbs': '0', 'term': '0000', 'listen': 'f', 'emulate': '1', 'cardstep': 'b'},
     'card on-release returns 0: connect() kept looping'),
    ({'rdwr': {'targets': 'A', 'release': 1, 'iterations': 1}, 'cbs': 'T', 'term': '0000', 'sense': [['f']],
      'tagact': 't', 'present': 'yi'}, 'IOError out of the presence check: connect() returns False (on-release not called, not promised)'),
    ({'rdwr': {'targets': 'A', 'release': 1, 'iterations': 1}, 'cbs': 'T', 'term': '0000', 'sense': [['f']],
      'tagact': 't', 'present': 'k'}, 'KeyboardInterrupt in the presence loop: False'),
    ({'llcp': {'release': 1, 'role': 'target'}, 'cbs': 'T', 'term': '0000', 'llcact': 't', 'llcrun': [[1, 'k']]},
     'KeyboardInterrupt out of llc.run: False'),
    ({'card': {'startup': 'F', 'release': 1}, 'cbs': 'T', 'term': '0000', 'listen': 'f', 'emulate': '1', 'cardstep': 'ni'},
     'IOError in the card command loop: False'),
    # live: real nfc.tag.activate - the activation command fails with a non-timeout communication error
    ({'live': 'tag', 'ttype': 't4a', 'rdwr': {'targets': 'A', 'connect': 1, 'iterations': 1}, 'cbs': 'F', 'term': '000',
      'sense': [['f'], ['f']], 'xchg': 'Xo'}, 'TransmissionError in the RATS exchange must not leave connect()'),
    ({'live': 'tag', 'ttype': 't4a', 'rdwr': {'targets': 'A', 'connect': 1, 'iterations': 1}, 'cbs': 'F', 'term': '000',
      'sense': [['f'], ['f']], 'xchg': 'Po'}, 'ProtocolError in the RATS exchange must not leave connect()'),
    ({'live': 'tag', 'ttype': 't4b', 'rdwr': {'targets': 'B', 'connect': 1, 'iterations': 1}, 'cbs': 'F', 'term': '000',
      'sense': [['f'], ['f']], 'xchg': 'Xo'}, 'TransmissionError in the ATTRIB exchange must not leave connect()'),
    # live: real LogicalLinkController - the application keeps datagrams queued while terminate() turns true
    ({'live': 'llc', 'busy': 1, 'llcp': {'role': 'initiator', 'connect': 1, 'release': 1}, 'cbs': 'TN', 'term': '0001',
      'llcact': 't'}, 'initiator, busy link: terminate() must be consulted in every turn of the run loop'),
    ({'live': 'llc', 'busy': 1, 'llcp': {'role': 'target', 'connect': 1, 'release': 1}, 'cbs': 'TN', 'term': '0001',
      'llcact': 't'}, 'target, busy link: terminate() must be consulted in every turn of the run loop'),
    # live: real nfc.dep.Initiator.activate under connect(llcp=...) with a Type 1 Tag (no SEL_RES) in the field
    ({'live': 'dep', 'penv': 't1', 'llcp': {'role': 'initiator', 'connect': 1, 'release': 1, 'acm': False, 'brs': 2},
      'cbs': 'TN', 'term': '001'}, 'a Type 1 Tag in the field: the DEP search must not raise, connect() returns None'),
    ({'live': 'dep', 'penv': 't1', 'llcp': {'role': None, 'connect': 1, 'release': 1, 'acm': True, 'brs': 0},
      'cbs': 'TN', 'term': '001'}, 'a Type 1 Tag in the field, both roles, active mode search first'),
    # the peer sends well-formed but adversarial LLCP PDUs: connect() still returns a documented value, on-release once
    ({'live': 'llc', 'srv': 1, 'llcp': {'role': 'target', 'connect': 1, 'release': 1}, 'cbs': 'TN', 'term': '0000', 'llcact': 't',
      'peer': 'D'}, 'AGF with CONNECT PDUs whose service name is not ASCII'),
    ({'live': 'llc', 'srv': 1, 'llcp': {'role': 'initiator', 'connect': 1, 'release': 1}, 'cbs': 'TN', 'term': '0000', 'llcact': 't',
      'peer': 'BF'}, 'CONNECT to a listening SAP with non-ASCII / non-UTF-8 service names'),
    ({'live': 'dep', 'penv': 'rinit', 'srv': 1, 'llcp': {'role': 'target', 'connect': 1, 'release': 1}, 'cbs': 'TN', 'term': '0000',
      'peer': 'sH'}, 'real NFC-DEP target: AGF with non-UTF-8 service names'),
    # the reader's transport fails in the llcp run loop with each member of the IOError family (Python 3 makes
    # IOError(errno.ETIMEDOUT) a TimeoutError, IOError(errno.EPIPE) a BrokenPipeError): connect() returns False
    ({'live': 'llc', 'llcp': {'role': 'initiator', 'connect': 1, 'release': 1}, 'cbs': 'TN', 'term': '00000', 'llcact': 't',
      'peer': 'sm'}, 'IOError(ETIMEDOUT) in the initiator run loop: False'),
    ({'live': 'llc', 'llcp': {'role': 'target', 'connect': 1, 'release': 1}, 'cbs': 'TN', 'term': '00000', 'llcact': 't',
      'peer': 'sq'}, 'IOError(EPIPE) in the target run loop: False'),
    ({'live': 'dep', 'penv': 'f_dep', 'llcp': {'role': 'initiator', 'connect': 1, 'release': 1, 'acm': False, 'brs': 1},
      'cbs': 'TN', 'term': '00000', 'xchg': 'oo', 'peer': 'm'}, 'real NFC-DEP initiator: IOError(ETIMEDOUT) from the device: False'),
    ({'live': 'dep', 'penv': 'rinit', 'llcp': {'role': 'target', 'connect': 1, 'release': 1}, 'cbs': 'TN', 'term': '00000',
      'peer': 'sm'}, 'real NFC-DEP target: IOError(ETIMEDOUT) from the device: False'),
    ({'live': 'llc', 'llcp': {'role': 'initiator', 'connect': 1, 'release': 1}, 'cbs': 'TN', 'term': '00000', 'llcact': 't',
      'peer': 'I'}, 'plain IOError in the run loop: False'),
    ({'live': 'llc', 'llcp': {'role': 'initiator', 'connect': 1, 'release': 1}, 'cbs': 'TN', 'term': '00000', 'llcact': 't',
      'peer': 'e'}, 'IOError(ENODEV) in the run loop: False'),
    # no terminate option at all (default lambda: False): the run ends by a return
    ({'rdwr': {'targets': 'A', 'connect': 1, 'iterations': 1}, 'cbs': 'F', 'noterm': 1, 'sense': [['f']], 'tagact': 't'},
     'no terminate option, on-connect false: the tag object is returned'),
    ({'rdwr': {'targets': 'A', 'iterations': 1}, 'noterm': 1, 'sense': [['n'], ['f']], 'tagact': 't', 'present': 'yyn'},
     'no terminate option, default callbacks: True after the tag has gone'),
    ({'llcp': {'role': 'target'}, 'card': {'startup': 'F'}, 'noterm': 1, 'llcact': 'f', 'listen': 'i'},
     'no terminate option, IOError from listen: False'),
]


def main():
    ck = Check('C18')
    ck.trusted = ['Coq 8.16.1 kernel (no native_compute)',
                  'translate/kspec_c18.py (ast skeleton extractor: action / condition / pure-statement tables)',
                  'extraction: ExtrOcamlBasic only; extract/c18_run.ml driver; OCaml 4.13.1',
                  'harness/sim/clfscript.py: scripted device / tag / llc / emulation stand-ins and the event recorder',
                  'harness/prop/c18.py: case generator, comparison, monitor']
    ck.assumptions = ['tag activation, llc activation/run loop, tag emulation and the presence check are abstracted by '
                      'oracle streams (scripted stand-ins bound to nfc.tag.activate, nfc.tag.emulate, '
                      'nfc.llcp.llc.LogicalLinkController); the real counterparts are the subject of C04-C12',
                      'callbacks do not raise; terminate() does not raise; wrong-typed callback results are '
                      'classified by truth value (DESIGN Appendix D)',
                      'the model describes the tree with fixes/c18-return-true-after-release.diff applied (commit ec7a677)',
                      'live parts: real nfc.tag.activate / presence checks of every tag class over canned healthy-tag '
                      'answers with injected Timeout/Transmission/Protocol errors; real LogicalLinkController over scripted '
                      'MAC objects, and real nfc.dep.Initiator / Target activation over the scripted device with a scripted '
                      'remote peer answering ATR / PSL / DEP / DSL / RLS (NFC-DEP data exchange itself is the subject of C04/C19)']
    ck.coq(gen=['ConnectSkel'], targets=['Proofs/ConnectSense.vo', 'Proofs/Connect.vo', 'Proofs/ConnectTrace.vo', 'Proofs/ConnectFuel.vo',
                                       'Skel/ConnectSyntax.vo', 'Skel/ConnectRun.vo', 'Gen/ConnectSkel.vo', 'Bridge/Connect.vo'], props='C18')
    mr = ck.model()
    if mr is None:
        ck.finish()
    rng = ck.rng
    quick = ck.tier == 'quick'
    lines, expect = [], []
    stats = {'mis': 0, 'ok': 0}

    def flush():
        # model run + comparison for the buffered cases
        if not lines:
            return
        out = mr.run(lines)
        if len(out) != len(lines):
            ck.broken.append('model runner returned %d lines for %d cases' % (len(out), len(lines)))
        for line, (impl, kind, case), got in zip(lines, expect, out):
            if got.strip() != impl.strip():
                stats['mis'] += 1
                if stats['mis'] <= 5:
                    ck.correspondence_mismatch(kind, {'input': line, 'impl': impl[:600], 'model': got[:600], 'case': case})
            else:
                stats['ok'] += 1
        del lines[:]
        del expect[:]

    def observe_connect(kind, res, ev, case):
        if len(lines) >= 40000:
            flush()
        vis = S.visible(ev)
        lines.append(S.encode_connect(case))
        expect.append((res + ' | ' + ' '.join(vis), 'connect/' + kind, case))
        nontrivial = any(e.startswith(('discover:', 'connect:', 'release:', 'tag_activate', 'llc_activate', 'emulate')) for e in vis)
        canon = lines[-1] if not case.get('live') else lines[-1] + ' %s %s %s %s %s' % (
            case['live'], case.get('ttype') or case.get('penv'), (case.get('busy'), case.get('srv')), case.get('xchg'), case.get('peer')) + \
            (json.dumps(case.get('llcp'), sort_keys=True) if case.get('live') == 'dep' else '')
        ck.case(canon, nontrivial, None)
        ck.count(kind)
        for key, what in monitor_connect(case, res, ev):
            ck.violation('connect:' + key, what, {'case': case, 'result': res, 'events': ev})
        if len(ck.cov['samples']) < 8 and nontrivial and len(vis) > 6 and ck.cov['evaluations'] % 997 == 1:
            ck.cov['samples'].append({'kind': kind, 'case': case, 'result': res, 'events': ' '.join(vis)[:300]})

    # ------------------------------------------------------------------ replay of a stored failure
    if ck.replay:
        data = json.load(open(ck.replay))
        case = data['case'].get('case', data['case'])
        if 'ops' in case:
            results, ev = S.run_history(case)
            for key, what in monitor_history(case, results, ev):
                ck.violation('history:' + key, what, {'case': case, 'results': results, 'events': ev})
        else:
            res, ev, c2 = S.run_connect(case)
            observe_connect('replay', res, ev, c2)
            if not ck.violations:
                flush()
        ck.finish(level='proof', rule='replay of one stored case', explanation='replay')

    # ------------------------------------------------------------------ corpus
    for case, why in CORPUS:
        res, ev, c2 = S.run_connect(case)
        observe_connect('corpus', res, ev, c2)

    # ------------------------------------------------------------------ documented argument checks
    with S.Session({}) as s:
        for opt in ('rdwr', 'llcp', 'card'):
            for badv in ('x', 1, [1]):
                try:
                    s.clf.connect(**{opt: badv})
                    ck.violation('connect:typeerror:' + opt, 'connect(%s=%r) must raise TypeError' % (opt, badv), {'opt': opt})
                except TypeError:
                    pass
                except Exception as e:  # noqa
                    ck.violation('connect:typeerror:' + opt, 'connect(%s=%r) raised %s, documented TypeError' % (opt, badv, type(e).__name__), {'opt': opt})
                ck.count('argcheck')

    # ------------------------------------------------------------------ systematic exploration
    sks = structures(ck.tier, rng)
    budget = 150 if quick else 250000
    for sk in sks:
        n = 0
        for res, ev, case in explore(sk, LIM_DFS, DOM_DFS, budget):
            observe_connect('dfs', res, ev, case)
            n += 1
        ck.count('dfs-structures')
        if n >= budget:
            ck.count('dfs-truncated')
            # the tree was cut: add random walks through the same tree
            for res, ev, case in explore(sk, LIM_DFS, DOM_DFS, 0, rng, walks=60 if quick else 600):
                observe_connect('dfs-walk', res, ev, case)
    # ------------------------------------------------------------------ live counterparts (quick and thorough)
    # (a) the REAL nfc.tag.activate and the real presence checks for every tag type over the scripted device:
    #     every exchange of the activation / presence check answers or fails with TimeoutError,
    #     TransmissionError or ProtocolError, at each position
    lim_tag = dict(LIM_DFS, term=3, cbs=3, sense=2, xchg=4)
    for ttype, tg in (('t1', 'A'), ('t2', 'A'), ('t2n', 'A'), ('t4a', 'A'), ('t4b', 'B'),
                      ('t3', 'F'), ('t3std', 'F'), ('t3lite', 'F'), ('t3lites', 'F')):
        dom = dict(DOM_DFS, sense='nfpi' if tg == 'F' else 'nfi', cbs='TF', xchg='oXPT')
        for d, c, r in ((0, 1, 1), (0, 0, 0), (1, 1, 1)) if quick else CBCOMB:
            sk = {'live': 'tag', 'ttype': ttype, 'rdwr': {'targets': tg, 'discover': d, 'connect': c, 'release': r, 'iterations': 1}}
            n = 0
            for res, ev, case in explore(sk, lim_tag, dom, 250 if quick else 30000):
                observe_connect('live-tag', res, ev, case)
                n += 1
            if n >= (250 if quick else 30000):
                for res, ev, case in explore(sk, lim_tag, dom, 0, rng, walks=100 if quick else 2000):
                    observe_connect('live-tag', res, ev, case)
    # (b) the REAL LogicalLinkController (activate, run loops, collect, dispatch, terminate) over scripted MAC
    #     objects, both roles, idle link and a link on which the application always has the next datagram
    #     queued, the peer answering SYMM / DISC / nothing, terminate() turning true at every step
    lim_llc = dict(LIM_DFS, term=8, cbs=2, llcact=2, peer=6)
    dom_llc = dict(DOM_DFS, cbs='TF', llcact='tf', peer='sdx' + S.IOCODES)
    for role in ('initiator', 'target', None):
        for busy in (1, 0):
            for c, r in ((1, 1), (0, 0)):
                sk = {'live': 'llc', 'busy': busy, 'llcp': {'role': role, 'connect': c, 'release': r}}
                n = 0
                for res, ev, case in explore(sk, lim_llc, dom_llc, 300 if quick else 30000):
                    observe_connect('live-llc', res, ev, case)
                    n += 1
                if n >= (300 if quick else 30000):
                    for res, ev, case in explore(sk, lim_llc, dom_llc, 0, rng, walks=100 if quick else 2000):
                        observe_connect('live-llc', res, ev, case)
    # (c) the REAL nfc.dep.Initiator.activate / Target.activate (their sense / listen calls, the evaluation of
    #     what was found, ATR / PSL exchange) and the real LogicalLinkController under connect(llcp=...): the
    #     environment presents nothing, a Type 1 / Type 2 / Type 4A tag, a DEP-capable 106A target (with and
    #     without Type 4A), 212F tags with and without NFCID2 01FE, a Type B tag, an active-mode target, a remote
    #     initiator; role initiator / target / None, active mode search on / off, bit rate selection 0..2
    lim_dep = dict(LIM_DFS, term=5, cbs=2, xchg=2, peer=3)
    dom_dep = dict(DOM_DFS, cbs='TF', xchg='oT', peer='sdx' + S.IOCODES)
    for penv in ('none', 't1', 't2', 't4a', 'dep106', 't4adep', 'f_tag', 'f_dep', 'tb', 'active', 'rinit'):
        for role in ('initiator', 'target', None):
            for acm in (True, False, None):
                for brs in ((2,) if quick else (0, 1, 2, None)):
                    sk = {'live': 'dep', 'penv': penv, 'llcp': {'role': role, 'connect': 1, 'release': 1, 'acm': acm, 'brs': brs}}
                    for res, ev, case in explore(sk, lim_dep, dom_dep, 60 if quick else 3000):
                        observe_connect('live-dep', res, ev, case)
    # (e) the scripted peer sends adversarial but well-formed LLCP PDUs into the REAL run loops (dispatch, service
    #     discovery, connection endpoints, logging of PDUs): CONNECT / SNL SDREQ with non-ASCII, non-UTF-8, NUL, empty
    #     and known service names (top level, to a listening SAP, inside AGF), DM with reserved reasons, FRMR with every
    #     flag nibble, PAX mid-link, AGF with zero-length entries, unknown ptypes, connection PDUs without connection
    adv = ''.join(sorted(S.ADV))
    lim_adv = dict(LIM_DFS, term=0, cbs=0, llcact=0, xchg=0, peer=2)
    for live, extra, roles in (('llc', {}, ('initiator', 'target')), ('dep', {'penv': 'f_dep'}, ('initiator',)),
                               ('dep', {'penv': 'rinit'}, ('target',))):
        for role in roles:
            for srv in (1, 0):
                sk = dict(extra, live=live, srv=srv, llcp={'role': role, 'connect': 1, 'release': 1, 'acm': False, 'brs': 1},
                          cbs='TT', term='00000', llcact='t', xchg='oo')
                lim = dict(lim_adv, peer=(2 if live == 'llc' or not quick else 1))
                for res, ev, case in explore(sk, lim, dict(DOM_DFS, peer='s' + adv), 4000 if quick else 100000):
                    observe_connect('live-adversarial', res, ev, case)
    # (d) every place where an IOError can reach connect() x every member of the I/O error family
    fam = S.IOCODES
    sites = [({'rdwr': {'targets': 'A', 'connect': 1, 'release': 1, 'iterations': 1}}, {'sense': 'nf' + fam}),
             ({'rdwr': {'targets': 'A', 'connect': 1, 'release': 1, 'iterations': 1}}, {'sense': 'f', 'tagact': 'tn' + fam}),
             ({'rdwr': {'targets': 'A', 'connect': 1, 'release': 1, 'iterations': 1}}, {'sense': 'f', 'tagact': 't', 'present': 'ny' + fam}),
             ({'llcp': {'connect': 1, 'release': 1, 'role': None}}, {'llcact': 'ft' + fam}),
             ({'card': {'startup': 'F', 'connect': 1, 'release': 1}}, {'listen': 'nf' + fam}),
             ({'card': {'startup': 'F', 'connect': 1, 'release': 1}}, {'listen': 'f', 'cardstep': 'bnc' + fam}),
             ({'card': {'startup': 'P', 'connect': 1, 'release': 1}}, {'listen': 'f' + fam})]
    for sk, dom in sites:
        for res, ev, case in explore(sk, dict(LIM_DFS, term=3, cbs=2), dict(DOM_DFS, cbs='TF', **dom), 400 if quick else 20000):
            observe_connect('io-family', res, ev, case)
    # ------------------------------------------------------------------ random option dictionaries, long streams
    for _ in range(1500 if quick else 25000):
        sk = random_structure(rng)
        if rng.random() < 0.05 and not sk.get('nodev'):
            sk['termd'] = '0'      # terminate() never true after the stream: the run must end otherwise
            lim = dict(LIM_WALK, term=3)
        else:
            lim = LIM_WALK
        for res, ev, case in explore(sk, lim, None, 0, rng, walks=1):
            if res == 'hang':
                ck.count('hang-skipped')
                continue
            observe_connect('random', res, ev, case)

    # ------------------------------------------------------------------ sense / listen / exchange histories
    for case in history_cases(ck.tier, rng):
        if len(lines) >= 40000:
            flush()
        results, ev = S.run_history(case)
        txt = ' ; '.join(results) + ' # ' + ' '.join(S.visible(ev))
        lines.append(S.encode_history(case))
        expect.append((txt, 'history', case))
        nontrivial = any(op[0] == 'sense' and len(op[1]) >= 2 for op in case['ops']) or len(case['ops']) > 2
        ck.case(lines[-1], nontrivial, None)
        ck.count('history')
        for key, what in monitor_history(case, results, ev):
            ck.violation('history:' + key, what, {'case': case, 'results': results, 'events': ev})
    flush()
    ck.cov['traces_validated_against_impl'] = stats['ok']
    ck.finish(level='proof',
              rule='connect: depth-first enumeration of EVERY oracle answer (terminate true at every step, callback values '
                   'True/False/None/0/"x"/object, sense/listen/activation/presence/run/command-loop outcomes incl. IOError and '
                   'KeyboardInterrupt) under bounded stream lengths for a list of option structures (every combination of '
                   'supplied/missing callbacks per block, roles, on-startup results, iterations, beep, block combinations), '
                   'plus random option dictionaries with long random streams; sense/listen/exchange: every target list up to '
                   'length 2 (3 in thorough) over supported/unsupported/invalid targets x every outcome table, plus random '
                   'histories. non-trivial = at least one activation step or callback happened / a multi-target sense or a '
                   'history with more than two operations; distinct by hash of the encoded case',
              explanation='theorems over all option combinations and all oracle environments for the executable model; the '
                          'model is tied to the source by running the real ContactlessFrontend and the extracted model on the '
                          'same oracle streams and comparing complete event lists and results; the documented contract is '
                          'checked independently on the implementation by a monitor')


if __name__ == '__main__':
    main()
