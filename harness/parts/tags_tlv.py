"""Type 1 / Type 2 Tag (TLV structured memory) part of C01, C02, C03.

Obligations: Props/C0x_tlv.v over Model/TlvMem.v, Model/T2T.v, Model/T1T.v.
Correspondence: real Type2Tag / Type1Tag objects (nfc.tag.activate on a fake clf backed by the
byte-accurate simulators of harness/sim/tag_t1t2.py) against the extracted models on generated
layouts: result class, ordered state-changing commands, final memory, what a fresh tag object
reads from the final memory (octets, capacity); for C02 the fresh reader's view after every cut.
Monitors: written from the property texts (DESIGN.md appendix D), they use only the layout the
generator built (offset of the NDEF TLV, reserved addresses, end of the data area), never the
library's or the model's parse.
"""
import logging

from common import hx

import random
import nfc.tag
import nfc.tag.tt1
import nfc.tag.tt2
from sim.tag_t1t2 import T2TSim, T1TSim, FakeClf, activate, REAL_FRONTEND

logging.disable(logging.CRITICAL)

MODEL = 'tags_tlv'
COQ = {
    'C01': dict(gen=['TlvK'], targets=['Proofs/T2TWrite.vo', 'Proofs/T2TRetry.vo', 'Proofs/T1T.vo', 'Proofs/T1TRetry.vo', 'Bridge/TlvK.vo'], props=['C01_tlv']),
    'C02': dict(gen=['TlvK'], targets=['Proofs/T2TCut.vo', 'Proofs/T2TRetry.vo', 'Proofs/T1T.vo', 'Proofs/T1TRetry.vo', 'Bridge/TlvK.vo'], props=['C02_tlv']),
    'C03': dict(gen=['TlvK', 'TlvFmtK'], targets=['Proofs/T2TFrame.vo', 'Proofs/T2Sector.vo', 'Proofs/T1T.vo', 'Bridge/TlvK.vo', 'Bridge/TlvFmtK.vo'], props=['C03_tlv']),
}
TRUSTED = ['Coq 8.16.1 kernel (vm_compute only in the non-vacuity examples and refutation witnesses)',
           'translate/kspec_tags_tlv.py + py2coq.py (kernel translator for get_lock_byte_range / get_rsvd_byte_range / get_capacity of tt1.py, tt2.py)',
           'extraction: ExtrOcamlBasic only; extract/tags_tlv_run.ml driver; OCaml 4.13.1',
           'harness/sim/tag_t1t2.py (simulated Type 1 / Type 2 tags: command set, roll-over READ, one-way lock/OTP bytes, power cut)',
           'harness/parts/tags_tlv.py (layout generator, correspondence, monitors)']
_A = ['Type 1/2: the on-demand loading of the memory reader (16-byte READ / RALL, READ8, RSEG) is abstracted to the '
      'readable image of the tag; READ / SECTOR SELECT traffic is not part of the observation (validated by the '
      'correspondence run, where the real lazy reader runs against the eager model)',
      'Type 1/2: a WRITE replaces the addressed unit; one-way (lock/OTP) and read-only bytes are simulator-only - the '
      'theorems show such bytes are always rewritten with their old value, so both semantics agree',
      'Type 2: the readable image of a tag whose size is not a multiple of 16 bytes is completed by roll-over to page 0 '
      '(as NXP Type 2 tags answer READ); Type 1: static memory 120 bytes, dynamic memory a multiple of 128 bytes',
      'Type 1/2: wf_layout (Coq) is a decidable predicate over the memory, phrased with the model\'s own TLV walk; the '
      'harness builds layouts independently from a grammar and checks for each that wf_layout holds and that the NDEF TLV '
      'offset, capacity and room the model sees are the generator\'s; a reserved range that makes the value of a TLV in front '
      'of the NDEF TLV run into the NDEF TLV\'s length/value bytes is not well-formed (l_hw <= l_off)',
      'Type 1/2: the models follow the tree after the repairs fixes/c01-tt*, c02-tt2-*, c03-tt2-* and after the reader repairs '
      'fixes/c08-12 .. c08-16 (read errors inside a TLV end the Type 1 walk, control TLVs need length 3, an NDEF TLV that does '
      'not fit the data area / capacity is not reported); on a tree without them the correspondence on damaged layouts and on '
      'some cut states breaks',
      'Type 1: memory of at most 2048 bytes (16 segments)',
      'Type 2 tags with several sectors: the memory models use absolute addresses; Model/T2Sector.v + Props/C03_tlv.v show that '
      'sector_select keeps _current_sector equal to the tag\'s sector under every outcome of a SECTOR SELECT sequence, each real '
      'sector_select call is compared with that model, and the harness checks the equality at every READ / WRITE.  A garbled or '
      'NAKed packet is taken as not acted upon by the tag; a lost second packet cannot be told from the passive acknowledgement '
      '(inherent in the protocol) and is not injected.  Read failures while a write loads more memory (sector select / READ '
      'faults outside synchronize) are monitor-only',
      'Type 1/2: NXP / Broadcom product classes (NTAG203/213/215/216, Ultralight, Topaz, Topaz-512) are reached through '
      'nfc.tag.activate and share the generic read/write code; their read-protection / password features are not exercised',
      'layers around the tag classes are monitor-only (no Coq model): nfc.tag.Tag.format / Tag.ndef caching (histories read -> '
      'format(wipe) -> write on one tag object: the write is judged against the layout valid after format() and compared with the '
      'model\'s write on the memory format() left), nfc.clf.ContactlessFrontend.exchange (all multi-sector Type 2 histories, every '
      'second generated layout of C01 / C03 and every replay run through a real ContactlessFrontend over a fake device that '
      'forwards to the simulated tag), the PN532 / PN533 Type 1 transport (_tt1_send_cmd_recv_rsp: RSEG emulation, READ8 / '
      'WRITE-E8 through CIU registers) for Type 1 tags up to 2048 bytes on the chip simulator harness/sim/chipsets.py.  Other '
      'drivers, the Type 2 transport of the drivers and sense() of the real frontend are not exercised by this part']
ASSUMPTIONS = {'C01': _A,
               'C02': _A + ['power cut = the tag executes the first k state-changing commands completely and nothing '
                            'afterwards (a WRITE is atomic for its page / block / byte)',
                            'several operations on one tag object: the memory reader state (data_from_tag, data_in_cache) across '
                            'write attempts is in the Coq model (run_attempt: a command fails after the 3 tries either lost or executed-'
                            'but-unanswered; after a failed synchronize the reader forgets its cache - repair c02-tlv-reader-reset-after-'
                            'failed-write) and compared with the real reader after every failed attempt; invariant reader_ok and the '
                            'retry / rewrite theorems are in Props/C02_tlv.v, Props/C01_tlv.v.  Monitor-only / not modelled: which '
                            'CommunicationError subclass the fault raises (all three end as TagCommandError after the retries), faults on '
                            'READ / SECTOR SELECT commands, retries of format(), more than one tag object on one tag',
                            'Type 1: the theorem carries the guard "one length byte, or the three length bytes share a write '
                            'unit"; the excluded class is the open finding of findings/C02.json (refutation witness in Props/C02_tlv.v)'],
               'C03': _A + ['Topaz / Topaz-512 format() (tt1_broadcom.py) is modelled as the fixed address writes it performs; it '
                            'satisfies the frame monitor on factory layouts only - other layouts are the open finding of '
                            'findings/C03.json (refutation witness in Props/C03_tlv.v); format of blank tags is out of scope (appendix D)']}
RULE = {
    'C01': 'T1/T2: layouts from a grammar (data-area size, 0-3 control TLVs with reserved ranges before/inside/directly '
           'after/beyond the message and beyond the data area, NULL/unknown TLV padding) x lengths {0,1,253..256,cap-1,cap,'
           'cap+1,range-boundary,random} x random contents x random previous contents; non-trivial = the value crosses a '
           'reserved range, the 254/255 boundary, or is empty / at capacity; plus histories read -> format(wipe) -> write on one tag '
           'object (new message equal to / sharing bytes with / unrelated to the one read before), Type 1 tags of 512..2048 bytes '
           'behind the real pn532 / pn533 drivers, multi-sector Type 2 tags behind a real ContactlessFrontend',
    'C02': 'T1/T2: (old length, new length) pairs on both sides of 254/255 x layouts with unaligned NDEF TLV over-represented '
           'x every cut point k; two-operation histories on one tag object: write fails transiently at command k1 (k1 = 1 with '
           'every error kind, command lost / response lost, and other k1), retry cut at every k2; read -> format(wipe) -> write on '
           'one tag object with every cut point of the write; non-trivial = every (layout, lengths, k)',
    'C03': 'T1/T2: writes as C01 plus format with and without wipe; reserved ranges directly after an empty NDEF TLV, '
           'directly after the message and beyond the data area over-represented; non-trivial = a reserved byte shares a '
           'write unit with an NDEF-area byte or lies inside the written region; read -> format -> write histories on one tag '
           'object incl. Topaz-512 layouts whose NDEF TLV sits before byte 22 (format moves it)',
}


# =====================================================================================
# layouts (generator side: knows where everything is, independent of library and model)
# =====================================================================================
def _representable():
    """addresses a lock/memory control TLV can name: (PageAddr, ByteOffset) x BytesPerPage 2^k"""
    tab = {}
    for k in range(0, 12):
        for pa in range(16):
            for bo in range(16):
                a = pa * (1 << k) + bo
                tab.setdefault(a, (pa << 4 | bo, k))
    return tab


REPR = _representable()
REPR_SORTED = sorted(REPR)


def snap(a):
    """nearest representable address >= a"""
    for x in REPR_SORTED:
        if x >= a:
            return x
    return REPR_SORTED[-1]


def ctl_tlv(kind, addr, nbytes, rng):
    """control TLV reserving [addr, addr+nbytes): kind 1 = lock control, 2 = memory control"""
    d0, k = REPR[addr]
    if kind == 1:
        bits = 8 * nbytes - rng.randrange(0, 8)
        bits = max(bits, 8 * (nbytes - 1) + 1)
        d1 = bits & 255          # 256 bits -> 0
        return bytes([1, 3, d0, d1, (rng.randrange(1, 16) << 4) | k])
    return bytes([2, 3, d0, nbytes & 255, (rng.randrange(0, 16) << 4) | k])


class Layout(object):
    """kind 't2' / 't1s' (static) / 't1d' (dynamic); mem; off = NDEF TLV; dend = end of data area;
    R = reserved addresses; first = first data byte; unit = write unit size"""

    def area(self, a):
        return self.off <= a < self.dend and a not in self.R

    def free_after_tag(self):
        return sum(1 for a in range(self.off + 1, self.dend) if a not in self.R)

    def room(self):
        f = self.free_after_tag()
        return max(min(254, f - 1), f - 3)

    def value_addrs(self, n, start):
        out, a = [], start
        while len(out) < n:
            if a not in self.R:
                out.append(a)
            a += 1
        return out

    def put_message(self, mem, data):
        """independent TLV encoder used to prepare 'previous contents'"""
        mem[self.off] = 3
        if len(data) < 255:
            mem[self.off + 1] = len(data)
            start = self.off + 2
        else:
            mem[self.off + 1:self.off + 4] = bytes([255, len(data) >> 8, len(data) & 255])
            start = self.off + 4
        pos = self.value_addrs(len(data), start)
        for a, b in zip(pos, data):
            mem[a] = b
        t = (pos[-1] + 1) if pos else start
        while t in self.R:
            t += 1
        if t < self.dend:
            mem[t] = 0xFE

    def sim(self, mem=None):
        mem = self.mem if mem is None else mem
        if self.kind == 't2':
            return T2TSim(mem, oneway=self.oneway, version=getattr(self, 'version', None))
        return T1TSim(self.hr, mem, oneway=self.oneway)

    def describe(self):
        return {'kind': self.kind, 'product': type(activate(FakeClf(self.sim()))).__name__, 'off': self.off, 'dend': self.dend,
                'size': len(self.mem), 'reserved': sorted(self.R), 'oneway': sorted(self.oneway),
                'hr': hx(getattr(self, 'hr', b'')), 'version': hx(getattr(self, 'version', None) or b''),
                'plain': getattr(self, 'version', None) is None, 'capacity': self.cap_expected, 'mem': hx(self.mem)}

    @staticmethod
    def from_desc(d):
        L = Layout()
        L.kind, L.off, L.dend, L.R, L.oneway = d['kind'], d['off'], d['dend'], set(d['reserved']), set(d['oneway'])
        L.mem, L.cap_expected = bytearray.fromhex(d['mem']), d['capacity']
        L.first, L.unit = (16, 4) if L.kind == 't2' else (12, 1 if L.kind == 't1s' else 8)
        if L.kind == 't2':
            L.version = None if d['plain'] else bytes.fromhex(d['version'])
        else:
            L.hr = bytes.fromhex(d['hr'])
        return L


def gen_layout(rng, kind, big=False, want_cap=None, unaligned=False, tight=False):
    """a well-formed layout (appendix D).  want_cap: minimum net capacity; unaligned: NDEF TLV not
    on a unit boundary; tight: put a reserved range directly after an empty NDEF TLV"""
    for _attempt in range(200):
        L = Layout()
        L.kind = kind
        if kind == 't2':
            L.first, L.unit = 16, 4
            sizes = [6, 6, 6, 8, 12, 0x12, 0x12, 0x20, 0x3E] + ([0x6D, 0x80, 0xFF] if big else [])
            if want_cap:
                sizes = [s for s in sizes + [0x30, 0x40, 0x3E] if 8 * s > want_cap + 40]
            size8 = rng.choice(sizes)
            L.dend = 16 + 8 * size8
            tail = 0 if size8 == 6 and rng.random() < 0.7 else 4 * rng.choice([0, 1, 2, 5, 9])
            total = L.dend + tail
            L.version, uid0 = None, rng.choice([0x01, 0x02, 0x05, 0x07])
            if rng.random() < 0.3 and not want_cap:
                # NXP product classes reached through nfc.tag.tt2_nxp.activate (UID0 = 04h)
                prod = rng.choice([('ul', 6, 64, None), ('ntag203', 0x12, 168, b'\x00'),
                                   ('ntag213', 0x12, 180, bytes.fromhex('0004040201000F03')),
                                   ('ntag215', 0x3E, 540, bytes.fromhex('0004040201001103')),
                                   ('ntag216', 0x6D, 924, bytes.fromhex('0004040201001303'))][:5 if big else 4])
                _n, size8, total, L.version = prod
                L.dend, uid0 = 16 + 8 * size8, 0x04
            fixed_R = set()
        elif kind == 't1s':
            L.first, L.unit = 12, 1
            L.hr = bytes([0x11, rng.choice([0x48, 0x00, 0x11])])
            L.dend, total = 120, 120
            fixed_R = set(range(104, 120))
        else:
            L.first, L.unit = 12, 8
            # every HR0 the code treats as dynamic memory (high nibble 1, low nibble != 1); 12 4C = Topaz-512
            L.hr = bytes([rng.choice([0x12, 0x12, 0x13, 0x14, 0x1A, 0x1F, 0x10]), rng.choice([0x4C, 0x00])])
            nseg = rng.choice([2, 4, 4, 4, 8] + ([16] if big else []))
            total = 128 * nseg
            L.dend = total
            fixed_R = set(range(104, 128))
        mem = bytearray(rng.randrange(256) for _ in range(total))
        # ---- chain of TLVs before the NDEF TLV
        nctl = rng.choice([0, 0, 1, 1, 2, 3])
        npad = rng.choice([0, 0, 1, 2, 3]) if not unaligned else rng.choice([1, 2, 3, 5, 6, 7])
        items = ['ctl'] * nctl + ['null'] * npad + (['unk'] if rng.random() < 0.15 else [])
        rng.shuffle(items)
        chain_len = sum(5 if i == 'ctl' else 1 if i == 'null' else 0 for i in items)
        unk = None
        if 'unk' in items:
            unk = bytes([rng.choice([0x04, 0x40, 0xFD])]) + bytes([rng.randrange(0, 5)])
            unk += bytes(rng.randrange(256) for _ in range(unk[1]))
            chain_len += len(unk)
        # ---- where the reserved ranges go (relative to the NDEF TLV), decided before the chain is laid out
        gap_before = 0
        places = []
        for _ in range(nctl):
            places.append(rng.choice(['before', 'inside', 'inside', 'tight', 'beyond', 'area-end', 'beyond-area', 'beyond-area']))
        if tight and nctl:
            places[0] = 'tight'
        est_off = L.first + chain_len
        ranges = []
        for p in places:
            n = rng.choice([1, 1, 2, 3, 4, 6, 8, 13])
            if p == 'before':
                a = snap(est_off + gap_before)
                if a != est_off + gap_before or gap_before:
                    p = 'inside'
                else:
                    gap_before = n
            if p == 'tight':
                a = snap(est_off + gap_before + 2 + rng.choice([0, 0, 0, 1, 2]))
            if p == 'inside':
                a = snap(est_off + gap_before + 2 + rng.randrange(0, 60))
            if p == 'beyond':
                a = snap(rng.randrange(est_off + 2, max(est_off + 3, L.dend)))
            if p == 'area-end':
                a = snap(max(est_off + 4, L.dend - n - rng.choice([0, 0, 1, 3])))
            if p == 'beyond-area':
                a = snap(L.dend + rng.choice([0, 0, 0, 1, 4]))
            ranges.append((a, n, rng.choice([1, 2])))
        # ---- lay out the chain; a 'before' gap sits directly in front of the NDEF TLV
        o = L.first
        ri = 0
        bad = False
        for it in items:
            if it == 'null':
                mem[o] = 0
                o += 1
            elif it == 'unk':
                mem[o:o + len(unk)] = unk
                o += len(unk)
            else:
                a, n, k = ranges[ri]
                ri += 1
                mem[o:o + 5] = ctl_tlv(k, a, n, rng)
                o += 5
        L.off = o + gap_before
        if kind == 't1s' or kind == 't1d':
            clip = 0x800
        else:
            clip = 0x100000
        L.R = set(fixed_R)
        for a, n, k in ranges:
            L.R.update(x for x in range(a, a + n) if x < clip)
        L.oneway = set(x for x in L.R if x >= L.dend and x < total)
        # ---- well-formedness (appendix D)
        if L.off + 1 >= L.dend:
            continue
        if any(x in L.R for x in range(L.first, o)):       # reserved bytes on the chain TLVs themselves
            continue
        if any(x not in L.R for x in range(o, L.off)):       # the gap must be exactly reserved
            continue
        if L.off in L.R or L.off + 1 in L.R:
            continue
        f = L.free_after_tag()
        cap = (f + 1) - (4 if f + 1 > 256 else 2)
        if cap >= 255 and (L.off + 2 in L.R or L.off + 3 in L.R):
            continue
        if cap < 0 or (want_cap and cap < want_cap):
            continue
        if unaligned and L.off % L.unit == 0 and L.unit > 1:
            continue
        if tight and not (L.off + 2 in L.R or L.off + 3 in L.R or L.off + 4 in L.R):
            continue
        L.cap_expected = cap
        # ---- management bytes
        if kind == 't2':
            mem[0:10] = bytes([uid0, 2, 3, 0x88 ^ uid0 ^ 1, 5, 6, 7, 8, 0x0C, 0x48])
            mem[10:12] = b'\x00\x00'
            mem[12:16] = bytes([0xE1, rng.choice([0x10, 0x10, 0x11, 0x12]), size8, 0x00])
        else:
            mem[0:8] = bytes([1, 2, 3, 4, 5, 6, 7, 0])
            mem[8:12] = bytes([0xE1, rng.choice([0x10, 0x10, 0x11]), total // 8 - 1, 0x00])
        mem[L.off], mem[L.off + 1] = 3, 0            # an empty NDEF TLV; callers put previous contents
        L.mem = mem
        return L
    raise RuntimeError('layout generator failed')


def gen_end_layout(rng, kind, remain, ctl=False):
    """a well-formed layout whose NDEF TLV header sits at the very end of the data area: `remain` (0..3) free bytes
    are left behind tag + length byte (capacity = remain, minus nothing: 0/1/2/3), and - for Type 2 - physical memory
    (dynamic lock bytes, configuration pages) lies directly behind the data area.  ctl: a lock control TLV declares
    the first bytes behind the data area (otherwise they are just memory beyond the declared data area)."""
    L = Layout()
    L.kind = kind
    if kind == 't2':
        L.first, L.unit = 16, 4
        size8 = rng.choice([6, 6, 8, 0x12, 0x20])
        L.dend = 16 + 8 * size8
        total = L.dend + 4 * rng.choice([1, 1, 2, 4, 6])
        fixed_R, end_free = set(), L.dend
        L.version = None
    elif kind == 't1s':
        L.first, L.unit = 12, 1
        L.hr = bytes([0x11, rng.choice([0x48, 0x00])])
        L.dend, total = 120, 120
        fixed_R, end_free = set(range(104, 120)), 104
    else:
        L.first, L.unit = 12, 8
        L.hr = bytes([rng.choice([0x12, 0x14]), 0x00])
        total = 128 * rng.choice([2, 4])
        L.dend = total
        fixed_R, end_free = set(range(104, 128)), total
    mem = bytearray(rng.randrange(1, 256) for _ in range(total))
    L.off = end_free - 2 - remain
    L.R = set(fixed_R)
    o = L.first
    if ctl and kind == 't2' and snap(L.dend) == L.dend:
        n = rng.choice([1, 2, 3])
        mem[o:o + 5] = ctl_tlv(1, L.dend, n, rng)
        L.R.update(range(L.dend, L.dend + n))
        o += 5
    if rng.random() < 0.5:                 # a proprietary TLV in front (kept clear of the reserved blocks of Type 1)
        room = min(L.off, 104 if kind != 't2' else L.off) - o - 2
        if room > 0:
            n = rng.randrange(0, min(room, 200) + 1)
            mem[o:o + 2] = bytes([0xFD, n])
            o += 2 + n
    for a in range(o, L.off):              # NULL TLVs up to the NDEF TLV (reserved bytes are skipped by the walk anyway)
        if a not in L.R:
            mem[a] = 0
    mem[L.off], mem[L.off + 1] = 3, 0
    L.oneway = set(x for x in range(L.dend, min(total, L.dend + 3)))
    f = L.free_after_tag()
    L.cap_expected = (f + 1) - (4 if f + 1 > 256 else 2)
    if kind == 't2':
        mem[0:10] = bytes([rng.choice([1, 2, 5, 7]), 2, 3, 0x88, 5, 6, 7, 8, 0x0C, 0x48])
        mem[10:12] = b'\x00\x00'
        mem[12:16] = bytes([0xE1, 0x10, size8, 0x00])
    else:
        mem[0:8] = bytes([1, 2, 3, 4, 5, 6, 7, 0])
        mem[8:12] = bytes([0xE1, 0x10, total // 8 - 1, 0x00])
    L.mem = mem
    assert L.cap_expected == remain and L.off >= L.first
    return L


def gen_boundary_layout(rng, kind, usable):
    """a well-formed layout with exactly `usable` non-reserved bytes from the NDEF TLV's tag byte to the end of the declared
    data area (get_capacity's count; 257 is where the 3-byte length accounting starts), and physical memory behind it"""
    L = Layout()
    L.kind = kind
    if kind == 't2':
        L.first, L.unit = 16, 4
        size8 = (usable + rng.randrange(0, 24) + 7) // 8
        L.dend = 16 + 8 * size8
        total = L.dend + 4 * rng.choice([1, 2, 4, 6])
        L.R = set()
        L.off = L.dend - usable
        L.version = None
    else:
        L.first, L.unit = 12, 8
        L.hr = bytes([rng.choice([0x12, 0x12, 0x14]), rng.choice([0x4C, 0x00])])
        L.dend = 8 * ((usable + 36 + rng.randrange(0, 17) + 7) // 8)      # reserved 104..127 lie inside
        total = 512 if L.dend < 512 else 1024
        L.R = set(range(104, 128))
        L.off = L.dend - 24 - usable
    mem = bytearray(rng.randrange(1, 256) for _ in range(total))
    o = L.first
    if kind != 't2' and L.off >= 22 and rng.random() < 0.6:      # the Topaz-512 control TLVs (they repeat 120..127)
        mem[12:22] = bytes.fromhex('0103F230330203F00203')
        o = 22
    for a in range(o, L.off):
        mem[a] = 0
    mem[L.off], mem[L.off + 1] = 3, 0
    L.oneway = set(range(L.dend, min(total, L.dend + 3))) if kind == 't2' else set()
    f = L.free_after_tag()
    L.cap_expected = (f + 1) - (4 if f + 1 > 256 else 2)
    if kind == 't2':
        mem[0:10] = bytes([rng.choice([1, 2, 5, 7]), 2, 3, 0x88, 5, 6, 7, 8, 0x0C, 0x48])
        mem[10:12] = b'\x00\x00'
        mem[12:16] = bytes([0xE1, 0x10, size8, 0x00])
    else:
        mem[0:8] = bytes([1, 2, 3, 4, 5, 6, 7, 0])
        mem[8:12] = bytes([0xE1, 0x10, L.dend // 8 - 1, 0x00])
    L.mem = mem
    assert f + 1 == usable and L.off >= L.first, (kind, usable, L.off, L.dend)
    return L


def capacity_boundary_cases(ck, bt, pid, rng, kind, reps):
    """the 1-byte / 3-byte length boundary seen from the capacity side: 250..262 usable bytes, messages of exactly the
    reported capacity and one more (and 254/255), on an empty and on a full tag"""
    for usable in range(250, 263):
        for _ in range(reps):
            L = gen_boundary_layout(rng, kind, usable)
            check_info(ck, bt, L)
            for full in (False, True):
                prev = bytearray(L.mem)
                if full:
                    L.put_message(prev, rnd(rng, L.cap_expected))
                L1 = Layout()
                L1.__dict__.update(L.__dict__)
                L1.mem = prev
                for n in sorted(set([254, 255, L.cap_expected - 1, L.cap_expected, L.cap_expected + 1])):
                    if n <= L.cap_expected + 1:
                        write_case(ck, bt, L1, rnd(rng, n), pid, rng)
        ck.count('%s-usable-%d' % (kind, usable))
    bt.flush()


def end_of_area_cases(ck, bt, pid, rng, kind, reps):
    """format() and writes when the NDEF TLV ends (almost) at the end of the data area: capacity 0, 1, 2, 3"""
    for remain in (0, 1, 2, 3):
        for rep in range(reps):
            L = gen_end_layout(rng, kind, remain, ctl=(rep % 3 == 2))
            check_info(ck, bt, L)
            for full in (False, True):
                prev = bytearray(L.mem)
                if full:
                    L.put_message(prev, rnd(rng, L.cap_expected))
                L1 = Layout()
                L1.__dict__.update(L.__dict__)
                L1.mem = prev
                for n in sorted(set([0, L.cap_expected, L.cap_expected + 1])):
                    write_case(ck, bt, L1, rnd(rng, n), pid, rng)
                if pid == 'C03' and kind == 't2':
                    for wipe in (None, 0, 0xFF):
                        format_case(ck, bt, L1, wipe)
            ck.count('%s-end-of-area-%d' % (kind, remain))
    bt.flush()


def lengths_for(L, rng, n_random=2):
    cap = L.cap_expected
    s = {0, 1, 253, 254, 255, 256, cap - 1, cap, cap + 1}
    for _ in range(n_random):
        s.add(rng.randrange(0, cap + 2))
    # a message that ends directly in front of a reserved range / at the end of the data area
    for start, ll in ((L.off + 2, 1), (L.off + 4, 3)):
        free = [a for a in range(start, L.dend) if a not in L.R]
        for i in range(1, len(free)):
            if free[i] != free[i - 1] + 1 and len(s) < 16:
                s.add(i)
                s.add(i + 1)
    return sorted(x for x in s if 0 <= x <= cap + 1 and x < 2200)


# =====================================================================================
# running the real code
# =====================================================================================
def classify(fn):
    try:
        fn()
        return 'ok'
    except ValueError:
        return 'err ValueError'
    except nfc.tag.TagCommandError:
        return 'err TagCommandError'
    except AttributeError:
        return 'crash AttributeError'
    except Exception as e:   # noqa
        return 'crash ' + type(e).__name__


def fresh_view(L, mem):
    """what a new tag object activated on a new session over this memory reports"""
    sim = L.sim(mem)
    try:
        tag = activate(FakeClf(sim))
        nd = tag.ndef
    except nfc.tag.TagCommandError:
        return 'failed err TagCommandError', 'none', None
    except Exception as e:   # noqa
        return 'failed crash ' + type(e).__name__, 'none', None
    if nd is None:
        return 'nondef', 'none', None
    if not nd.is_readable:
        return 'notreadable', str(nd.capacity), None
    o = bytes(nd.octets)
    assert nd.length == len(o)
    return 'msg ' + (hx(o) if o else '-'), str(nd.capacity), o


def show_cmds(log):
    return ','.join('%d:%s' % (a, hx(req)) for a, _old, req, _res in log) or '-'


def run_write(L, data, cut=None):
    """tag.ndef.octets = data on a new session; returns observation dict"""
    sim = L.sim()
    sim.cut_after = cut
    tag = activate(FakeClf(sim))
    got = {}

    def rd():
        got['nd'] = tag.ndef
    res = classify(rd)
    if res != 'ok':          # reading the tag already fails (possible on malformed layouts only)
        return dict(res=res, sim=sim, cap=None, ncmd=0)
    nd = got['nd']
    if nd is None:
        return dict(res='crash NoneAttr', sim=sim, cap=None, ncmd=0)
    cap = nd.capacity
    n0 = sim.ncmd

    def op():
        nd.octets = data
    res = classify(op)
    return dict(res=res, sim=sim, cap=cap, ncmd=sim.ncmd - n0)


def run_format(L, wipe):
    sim = L.sim()
    tag = activate(FakeClf(sim))
    out = {}

    def op():
        out['r'] = tag.format(wipe=wipe)
    res = classify(op)
    if res == 'ok':
        res = 'ok ' + {True: 'true', False: 'false', None: 'none'}[out['r']]
    return dict(res=res, sim=sim)


# =====================================================================================
# monitors (appendix D)
# =====================================================================================
def monitor_frame(ck, L, sim, what, key, case):
    """C03: only NDEF-area bytes change; every write unit touches the NDEF area"""
    for addr, old, req, _res in sim.log:
        unit = range(addr, addr + len(req))
        if not any(L.area(a) for a in unit):
            ck.violation('%s:%s:unit-outside' % (L.kind, key), '%s: a write command addresses a unit wholly outside the NDEF area' % what,
                         dict(case, unit_addr=addr, unit_data=hx(req)))
            return False
        for i, a in enumerate(unit):
            if not L.area(a) and req[i] != old[i]:
                ck.violation('%s:%s:byte-outside' % (L.kind, key), '%s: a byte outside the NDEF area (reserved/lock/beyond the data area) is overwritten' % what,
                             dict(case, byte_addr=a, byte_old=old[i], byte_new=req[i]))
                return False
    for a in range(len(L.mem)):
        if sim.mem[a] != L.mem[a] and not L.area(a):
            ck.violation('%s:%s:mem-outside' % (L.kind, key), '%s: memory outside the NDEF area changed' % what, dict(case, byte_addr=a))
            return False
    return True


def pure(sim):
    """no write hit a one-way / read-only byte with a different value (replace semantics = simulator semantics)"""
    return all(req == res for _a, _o, req, res in sim.log)


# =====================================================================================
# the checks
# =====================================================================================
KINDS = ['t2', 't1s', 't1d']
MODEL_PREFIX = {'t2': 't2', 't1s': 't1', 't1d': 't1'}


def model_args(L, mem=None):
    mem = L.mem if mem is None else mem
    if L.kind == 't2':
        return hx(mem)
    return hx(L.hr) + ' ' + hx(mem)


class Batch(object):
    """model lines queued together with the implementation's observation"""

    def __init__(self, ck, mr):
        self.ck, self.mr = ck, mr
        self.lines, self.expect = [], []

    def add(self, line, impl, name, case, mask=None):
        self.lines.append(line)
        self.expect.append((impl, name, case, mask))

    def flush(self):
        if self.mr is None or not self.lines:
            return
        out = self.mr.run(self.lines)
        nmis = 0
        for line, (impl, name, case, mask), got in zip(self.lines, self.expect, out):
            a, b = impl, got
            if mask:
                a, b = mask(a), mask(b)
            if a != b:
                nmis += 1
                if nmis <= 5:
                    self.ck.correspondence_mismatch(name, dict(case, impl=impl[:400], model=got[:400]))
        self.ck.cov['traces_validated_against_impl'] = self.ck.cov.get('traces_validated_against_impl', 0) + len(self.lines) - nmis
        self.lines, self.expect = [], []


def rnd(rng, n):
    return bytes(rng.randrange(256) for _ in range(n))


def hexarg(b):
    return hx(b) if len(b) else '-'


def check_info(ck, bt, L):
    """the Coq wf_layout predicate accepts the generated layout and sees the same NDEF TLV / capacity / room"""
    f = L.free_after_tag()
    exp = 'off=%d cap=%d rd=true wr=true dend=%d free=%d room=%d wf=true' % (L.off, L.cap_expected, L.dend, f, L.room())
    bt.add('%s_info %s' % (MODEL_PREFIX[L.kind], model_args(L)), exp, L.kind + '-layout', {'layout': L.describe()},
           mask=lambda s: ' '.join(w for w in s.split() if not w.startswith('hw=')))


def write_case(ck, bt, L, data, pid, rng):
    """one uninterrupted write: correspondence + monitors of C01 / C03"""
    case = {'layout': L.describe(), 'data': hx(data)}
    ob = run_write(L, data)
    sim = ob['sim']
    fr, fcap, foct = fresh_view(L, sim.mem)
    impl = ' | '.join([ob['res'], show_cmds(sim.log), hx(sim.mem), fr, fcap])
    is_pure = pure(sim)
    bt.add('%s_write %s %s' % (MODEL_PREFIX[L.kind], model_args(L), hexarg(data)), impl, L.kind + '-write', case,
           mask=None if is_pure else (lambda s: ' | '.join(s.split(' | ')[:2])))
    n = len(data)
    crosses = any(a in L.R for a in range(L.off, (L.value_addrs(n, L.off + (2 if n < 255 else 4)) or [L.off])[-1] + 1)) if n <= L.cap_expected else False
    nontrivial = crosses or n in (0, 254, 255, L.cap_expected, L.cap_expected + 1)
    ck.case((L.kind, hx(L.mem), hx(data)), nontrivial,
            {'tag': L.kind, 'off': L.off, 'data_area_end': L.dend, 'reserved': len(L.R), 'len': n, 'capacity': ob['cap'], 'result': ob['res'], 'writes': len(sim.log)})
    ck.count('%s-write-%s' % (L.kind, 'oversize' if n > (ob['cap'] or 0) else 'empty' if n == 0 else 'long' if n >= 255 else 'short'))
    cap = ob['cap']
    if pid == 'C01':
        if cap is None:
            ck.violation(L.kind + ':wf-not-ndef', 'a well-formed layout is not recognised as NDEF', case)
            return
        if cap > L.room():
            ck.violation(L.kind + ':capacity', 'reported capacity %d exceeds what the layout can hold (%d)' % (cap, L.room()), case)
        if n > cap:
            if ob['res'] != 'err ValueError' or ob['ncmd'] != 0 or sim.log:
                ck.violation(L.kind + ':oversize', 'data longer than the capacity is not rejected before any command is sent', dict(case, result=ob['res'], commands=ob['ncmd']))
        else:
            if ob['res'] != 'ok':
                key = 'empty' if n == 0 else 'len'
                ck.violation('%s:write-fails:%s:%s' % (L.kind, key, ob['res'].split()[-1]), 'assigning %d octets (capacity %d) fails with %s' % (n, cap, ob['res']), dict(case, result=ob['res']))
            elif foct != data:
                ck.violation(L.kind + ':readback', 'a fresh reader does not read back the octets written', dict(case, fresh=fr[:200]))
            elif fcap != str(cap):
                ck.violation(L.kind + ':capacity-changed', 'capacity reported after the write differs', dict(case, before=cap, after=fcap))
    if pid == 'C03':
        monitor_frame(ck, L, sim, 'NDEF write', 'write', case)


def fuzz_case(ck, bt, L, rng):
    """correspondence only, on a damaged (in general not well-formed) layout: the model must follow the code
    through its error paths too (no NDEF, not writeable, read beyond the memory, short control TLV, ...)"""
    mem = bytearray(L.mem)
    L.put_message(mem, rnd(rng, rng.randrange(0, L.cap_expected + 1)))
    for _ in range(rng.choice([1, 1, 2, 4])):
        a = rng.randrange(8, min(len(mem), L.off + 8))
        mem[a] = rng.choice([0, 1, 2, 3, 0xFE, 0xFF, 0xE1, 0x10, 0x0F, rng.randrange(256)])
    L1 = Layout()
    L1.__dict__.update(L.__dict__)
    L1.mem = mem
    data = rnd(rng, rng.choice([0, 1, 5, 40, 254, 255, 300]))
    ob = run_write(L1, data)
    sim = ob['sim']
    fr, fcap, _ = fresh_view(L1, sim.mem)
    impl = ' | '.join([ob['res'], show_cmds(sim.log), hx(sim.mem), fr, fcap])
    bt.add('%s_write %s %s' % (MODEL_PREFIX[L.kind], model_args(L1), hexarg(data)), impl, L.kind + '-fuzz-write',
           {'layout': L1.describe(), 'data': hx(data)}, mask=None if pure(sim) else (lambda s: ' | '.join(s.split(' | ')[:2])))
    ck.case((L.kind, 'fuzz', hx(mem), hx(data)), ob['res'] != 'ok', None)
    ck.count('%s-fuzz-%s' % (L.kind, ob['res'].replace(' ', '-')))


def format_case(ck, bt, L, wipe):
    case = {'layout': L.describe(), 'wipe': wipe}
    ob = run_format(L, wipe)
    sim = ob['sim']
    fr, fcap, _ = fresh_view(L, sim.mem)
    impl = ' | '.join([ob['res'], show_cmds(sim.log), hx(sim.mem), fr, fcap])
    is_pure = pure(sim)
    bt.add('%s_format %s %s' % (MODEL_PREFIX[L.kind], model_args(L), '-' if wipe is None else str(wipe)), impl, L.kind + '-format', case,
           mask=None if is_pure else (lambda s: ' | '.join(s.split(' | ')[:2])))
    shares = any((a in L.R) for addr, _o, req, _r in sim.log for a in range(addr, addr + len(req)))
    ck.case((L.kind, 'format', hx(L.mem), wipe), shares, None)
    ck.count('%s-format-%s' % (L.kind, 'wipe' if wipe is not None else 'nowipe'))
    key = 'format'
    if L.kind != 't2':
        # Topaz / Topaz-512 product classes: format() re-creates the factory management bytes
        if L.kind == 't1s':
            factory = L.off == 12 and bytes(L.mem[8:12]) == b'\xe1\x10\x0e\x00' and L.R == set(range(104, 120))
        else:
            factory = bytes(L.mem[8:24]) == bytes.fromhex('e1103f000103f230330203f002030300') and L.R == set(range(104, 128))
        key = 'vformat:' + ('factory-layout' if factory else 'other-layout')
    monitor_frame(ck, L, sim, 'format' + (' with wipe' if wipe is not None else ''), key, case)


def cut_case(ck, bt, L, old, new, rng, sample_real, prepared=False):
    """every cut point of one write: correspondence (fresh view per k) + monitor of C02"""
    mem = bytearray(L.mem)
    L2 = Layout()
    L2.__dict__.update(L.__dict__)
    L2.mem = mem
    if not prepared:
        L2.put_message(mem, old)
    case = {'layout': L2.describe(), 'old': hx(old), 'new': hx(new)}
    ob = run_write(L2, new)
    log = ob['sim'].log
    n = len(log)
    # memory after the first k state-changing commands
    mems = [bytes(mem)]
    cur = bytearray(mem)
    for addr, _old, _req, res in log:
        cur[addr:addr + len(res)] = res
        mems.append(bytes(cur))
    # the real thing for some k: run the write with the tag leaving the field after command k
    ks = sorted(set([0, 1, n - 2, n - 1, n] + [rng.randrange(0, n + 1) for _ in range(sample_real)]))
    for k in ks:
        if 0 <= k <= n:
            obk = run_write(L2, new, cut=k)
            if bytes(obk['sim'].mem) != mems[k]:
                ck.broken.append('harness: memory after a cut at command %d differs from the command-log prefix' % k)
    views = []
    reported = False
    for k in range(n + 1):
        fr, _fcap, foct = fresh_view(L2, mems[k])
        views.append(fr)
        ck.case((L.kind, hx(mem), hx(new), k), True,
                {'tag': L.kind, 'off': L.off, 'old_len': len(old), 'new_len': len(new), 'cut_after': k, 'of': n, 'fresh': fr[:24]} if k == n - 1 else None)
        ok = fr in ('nondef', 'notreadable', 'msg -') or foct == old or foct == new or fr.startswith('failed err')
        if not ok and not reported:
            reported = True
            one_unit = (L.off + 1) // L.unit == (L.off + 3) // L.unit
            ll = 'short' if len(new) < 255 else 'long-oneunit' if one_unit else 'long-straddle'
            ck.violation('%s:cut:%s:mixture' % (L.kind, ll),
                         'after a power cut a fresh reader sees a %d byte message that is neither the old (%d) nor the new (%d) one' % (len(foct) if foct is not None else -1, len(old), len(new)),
                         dict(case, cut_after=k, commands=n, fresh=fr[:120]))
    ck.count('%s-cut-writes' % L.kind)
    ck.count('%s-cut-points' % L.kind, n + 1)
    if pure(ob['sim']):
        bt.add('%s_cut %s %s' % (MODEL_PREFIX[L.kind], model_args(L2), hexarg(new)), ';'.join(views), L.kind + '-cut', case)


FAULT_KINDS = [nfc.clf.TimeoutError, nfc.clf.TransmissionError, nfc.clf.ProtocolError]
RETRY_MODELLED = ('t2', 't1s', 't1d')      # tag kinds whose reader state across operations is in the Coq model


def retry_case(ck, L, old, new, k1, kind, executed, pid, rng, sample_real=1, bt=None):
    """two operations on the SAME tag object: tag.ndef.octets = new fails at its k1-th state-changing command
    with a transient fault (lost command, or executed with the response lost; the tag answers again
    afterwards), then the same assignment is retried and the tag leaves the field after k2 commands of
    the retry, for every k2; a fresh reader then looks at the memory.  Monitor (appendix D): old | empty /
    no NDEF / not readable | new, and the uninterrupted retry succeeds and reads back; correspondence: tag
    memory and reader state after the failed attempt, commands and fresh views of the retry vs the model."""
    mem = bytearray(L.mem)
    L2 = Layout()
    L2.__dict__.update(L.__dict__)
    L2.mem = mem
    L2.put_message(mem, old)
    case = {'layout': L2.describe(), 'old': hx(old), 'new': hx(new), 'retry': {'k1': k1, 'kind': kind.__name__, 'executed': executed}}

    def history(cut2):
        sim = L2.sim()
        clf = FakeClf(sim)
        tag = activate(clf)
        nd = tag.ndef
        if nd is None:
            return None
        clf.fault(k1, kind, executed)

        def op():
            tag.ndef.octets = new
        r1 = classify(op)
        clf._fault = None
        n1 = len(sim.log)
        m1 = bytes(sim.mem)
        rdr = tag.ndef._tag_memory
        reader = (bytes(rdr._data_from_tag), bytes(rdr._data_in_cache))
        if cut2 is not None:
            sim.cut_after = n1 + cut2
        r2 = classify(op) if r1 != 'ok' else 'ok'
        return dict(r1=r1, r2=r2, n1=n1, m1=m1, sim=sim, reader=reader)

    h = history(None)
    if h is None or h['r1'] == 'ok':       # k1 beyond the last command: nothing failed
        return False
    sim = h['sim']
    log2 = sim.log[h['n1']:]
    n2 = len(log2)
    mems = [h['m1']]
    cur = bytearray(h['m1'])
    for addr, _o, _req, res in log2:
        cur[addr:addr + len(res)] = res
        mems.append(bytes(cur))
    for k in sorted(set([0, 1, n2] + [rng.randrange(0, n2 + 1) for _ in range(sample_real)])):
        if 0 <= k <= n2:
            hk = history(k)
            if bytes(hk['sim'].mem) != mems[k]:
                ck.broken.append('harness: memory after a cut in the retry at command %d differs from the command-log prefix' % k)
    one_unit = (L.off + 1) // L.unit == (L.off + 3) // L.unit
    ll = 'short' if len(new) < 255 else 'long-oneunit' if one_unit else 'long-straddle'
    ex = 'executed' if executed else 'lost'
    reported = False
    views = []
    for k in range(n2 + 1):
        fr, _fcap, foct = fresh_view(L2, mems[k])
        views.append(fr)
        ck.case((L.kind, 'retry', hx(mem), hx(new), k1, kind.__name__, executed, k), True,
                {'tag': L.kind, 'history': 'write fails at command %d (%s, %s), retry cut after %d of %d' % (k1, kind.__name__, ex, k, n2),
                 'fresh': fr[:24]} if k == 1 else None)
        ok = fr in ('nondef', 'notreadable', 'msg -') or foct == old or foct == new or fr.startswith('failed err')
        if not ok and not reported and pid == 'C02':
            reported = True
            ck.violation('%s:retry-cut:%s:%s:mixture' % (L.kind, ll, ex),
                         'write fails transiently at command %d (%s), the retry on the same tag object is cut after %d of %d commands: a fresh reader '
                         'sees a %d byte message that is neither the old (%d) nor the new (%d) one' % (k1, ex, k, n2, len(foct), len(old), len(new)),
                         dict(case, cut_after=k, commands=n2, fresh=fr[:120]))
    fr, _fcap, foct = fresh_view(L2, mems[n2])
    if pid == 'C01' and (h['r2'] != 'ok' or foct != new):
        ck.violation('%s:retry:%s:%s' % (L.kind, 'fails' if h['r2'] != 'ok' else 'readback', ex),
                     'the retry of an assignment that failed transiently at command %d (%s) %s' % (
                         k1, ex, 'fails with ' + h['r2'] if h['r2'] != 'ok' else 'does not read back'), dict(case, result=h['r2'], fresh=fr[:120]))
    if bt is not None and L.kind in RETRY_MODELLED and pure(sim):
        # tie: tag memory and the reader's (data_from_tag, data_in_cache) after the failed attempt, result, commands and
        # fresh views of the retry against the extracted model; the real reader holds a loaded prefix of the image
        frm, cch = h['reader']
        impl = ' | '.join([hx(h['m1']), hx(frm), hx(cch), h['r2'], show_cmds(log2), ';'.join(views)])
        nfrm = len(frm)

        def mask(line, nfrm=nfrm):
            w = line.split(' | ')
            if len(w) != 6:
                return line
            w[1], w[2] = w[1][:2 * nfrm], w[2][:2 * nfrm]
            return ' | '.join(w)
        bt.add('%s_retry %s %s %d %s' % (MODEL_PREFIX[L.kind], model_args(L2), hexarg(new), k1, 'unanswered' if executed else 'lost'),
               impl, L.kind + '-retry', case, mask=mask)
    ck.count('%s-retry-histories' % L.kind)
    ck.count('%s-retry-cut-points' % L.kind, n2 + 1)
    return True


def rewrite_case(ck, L, old, d1, k1, kind, executed, d2, pid, rng, bt=None):
    """two DIFFERENT assignments on one tag object: tag.ndef.octets = d1 fails at its k1-th command, then the application
    assigns d2; the second write is cut at every k2.  For the second write the previous message is whatever the first
    attempt left on the tag (old, empty or d1).  Correspondence with the model + monitor old | empty | new."""
    if L.kind == 't1d' and max(len(d1), len(d2)) >= 255 and (L.off + 1) // L.unit != (L.off + 3) // L.unit:
        return False    # the open Type 1 length-commit finding is not re-counted here
    mem = bytearray(L.mem)
    L2 = Layout()
    L2.__dict__.update(L.__dict__)
    L2.mem = mem
    L2.put_message(mem, old)
    case = {'layout': L2.describe(), 'old': hx(old), 'new': hx(d2), 'rewrite': {'d1': hx(d1), 'k1': k1, 'kind': kind.__name__, 'executed': executed}}
    sim = L2.sim()
    clf = FakeClf(sim)
    tag = activate(clf)
    if tag.ndef is None:
        return False
    clf.fault(k1, kind, executed)

    def op1():
        tag.ndef.octets = d1

    def op2():
        tag.ndef.octets = d2
    r1 = classify(op1)
    clf._fault = None
    if r1 == 'ok':
        return False
    n1 = len(sim.log)
    m1 = bytes(sim.mem)
    prev = fresh_view(L2, m1)
    r2 = classify(op2)
    log2 = sim.log[n1:]
    mems = [m1]
    cur = bytearray(m1)
    for addr, _o, _req, res in log2:
        cur[addr:addr + len(res)] = res
        mems.append(bytes(cur))
    n_first = len(run_write_on(L, old, d1))
    phase = 'commit' if k1 == n_first else 'zero' if k1 == 1 else 'data'
    ex = 'unanswered' if executed else 'lost'
    views, reported = [], False
    for k in range(len(mems)):
        fr, _c, foct = fresh_view(L2, mems[k])
        views.append(fr)
        ck.case((L.kind, 'rewrite', hx(mem), hx(d1), hx(d2), k1, executed, k), True, None)
        ok = fr in ('nondef', 'notreadable', 'msg -') or fr == prev[0] or foct == d2 or fr.startswith('failed err')
        if not ok and not reported and pid == 'C02':
            reported = True
            ck.violation('%s:rewrite-cut:%s-%s:mixture' % (L.kind, phase, ex),
                         'an assignment failed at command %d (%s, %s); a second assignment with other data on the same tag object, cut after %d of %d '
                         'commands, leaves a %d byte message that is neither what the tag held before it (%s...) nor the new data' % (
                             k1, phase, ex, k, len(log2), len(foct), prev[0][:20]), dict(case, cut_after=k, fresh=fr[:120]))
    if bt is not None and pure(sim):
        impl = ' | '.join([hx(m1), r2, show_cmds(log2), ';'.join(views)])
        bt.add('%s_rewrite %s %s %d %s %s' % (MODEL_PREFIX[L.kind], model_args(L2), hexarg(d1), k1, 'unanswered' if executed else 'lost', hexarg(d2)),
               impl, L.kind + '-rewrite', case)
    ck.count('%s-rewrite-histories' % L.kind)
    return True


def retry_cases(ck, L, old, new, pid, rng, extra, bt=None):
    """k1 = 1 with every error kind and both fates of the command, plus a few other k1"""
    n = len(run_write_on(L, old, new))
    todo = [(1, FAULT_KINDS[0], False), (1, FAULT_KINDS[1], True), (1, FAULT_KINDS[2], False), (1, FAULT_KINDS[0], True)]
    for k1 in sorted(set([2, n - 1, n] + [rng.randrange(1, n + 1) for _ in range(extra)] if n else [])):
        if 1 < k1 <= n:
            todo.append((k1, rng.choice(FAULT_KINDS), rng.random() < 0.5))
    if L.kind == 't1d' and len(new) >= 255 and (L.off + 1) // L.unit != (L.off + 3) // L.unit:
        return      # the open Type 1 finding of findings/C02.json (length commit across two blocks) is not re-counted here
    for k1, kind, executed in todo:
        if k1 <= n:
            retry_case(ck, L, old, new, k1, kind, executed, pid, rng, bt=bt)
    if pid == 'C02' and n:
        # a different second assignment after the failed one: first / a middle / the last (commit) command, both fates
        d2 = rnd(rng, rng.choice([len(new), len(new), max(0, len(new) - 3), min(L.cap_expected, len(new) + 5)]))
        for k1 in sorted(set([1, n, rng.randrange(1, n + 1)])):
            for executed in (False, True):
                rewrite_case(ck, L, old, new, k1, rng.choice(FAULT_KINDS), executed, d2, pid, rng, bt=bt)


class _Part(object):
    """the commands of one operation of a history, in the shape monitor_frame expects of a simulator"""

    def __init__(self, log, mem):
        self.log, self.mem = log, mem


def layout_after_format(L, product, mem_f):
    """the layout that is valid once format() returned True: the Topaz / Topaz-512 product classes re-create the factory
    management bytes (NDEF TLV at byte 12 / 22), everything else keeps the position of the NDEF TLV"""
    Lf = Layout()
    Lf.__dict__.update(L.__dict__)
    Lf.mem = bytearray(mem_f)
    if product == 'Topaz':
        Lf.off, Lf.R, Lf.dend = 12, set(range(104, 120)), 120
    elif product == 'Topaz512':
        Lf.off, Lf.R, Lf.dend = 22, set(range(104, 128)), 512
    f = Lf.free_after_tag()
    Lf.cap_expected = (f + 1) - (4 if f + 1 > 256 else 2)
    return Lf


def fmtwrite_case(ck, bt, L, old, wipe, new, pid, rng):
    """three operations on ONE tag object through the base class code (Tag.ndef, Tag.format, NDEF.octets): the message is read,
    the tag is formatted, a new message is assigned.  The assignment is judged against the layout that is valid after the
    format: (C01) it succeeds and a fresh reader reads it back, (C02) after a cut at any of its commands a fresh reader sees
    the formatted (empty) tag or the new message, (C03) its commands stay inside the NDEF area of the formatted tag.
    Correspondence: the assignment on the kept tag object against the model's write on the memory left by format()."""
    mem = bytearray(L.mem)
    L2 = Layout()
    L2.__dict__.update(L.__dict__)
    L2.mem = mem
    L2.put_message(mem, old)
    case = {'layout': L2.describe(), 'old': hx(old), 'fmtwrite': {'wipe': wipe, 'data': hx(new)}}
    product = case['layout']['product']
    if (product == 'Topaz512' and len(mem) != 512) or (product == 'Topaz' and len(mem) != 120):
        ck.count('fmtwrite-skipped-product-size')
        return
    sim = L2.sim()
    tag = activate(FakeClf(sim))
    got = {}

    def rd():
        got['o'] = bytes(tag.ndef.octets) if tag.ndef is not None else None
    if classify(rd) != 'ok' or got['o'] is None:
        return
    if got['o'] != old:
        ck.broken.append('harness: the prepared message is not what the tag object reads (%s)' % L.kind)
        return

    def fm():
        got['f'] = tag.format(wipe=wipe)
    rf = classify(fm)
    formatted = rf == 'ok' and got['f'] is True
    mem_f, n_f = bytes(sim.mem), len(sim.log)
    Lf = layout_after_format(L2, product, mem_f) if formatted else L2
    if not formatted:
        Lf = Layout()
        Lf.__dict__.update(L2.__dict__)
        Lf.mem = bytearray(mem_f)
    frf, fcapf, foctf = fresh_view(Lf, mem_f)
    if formatted and frf != 'msg -':
        if pid == 'C01':
            ck.violation('%s:fmtwrite:format-view' % L.kind, 'format() returned True but a fresh reader does not see an empty message', dict(case, fresh=frf[:80]))
        return

    def capf():
        got['cap'] = tag.ndef.capacity if tag.ndef is not None else None
    if classify(capf) != 'ok' or got['cap'] is None:
        if pid == 'C01' and formatted:
            ck.violation('%s:fmtwrite:no-ndef' % L.kind, 'the tag object does not show NDEF after its own format() returned True', case)
        return
    cap = got['cap']

    def wr():
        tag.ndef.octets = new
    n0 = sim.ncmd
    r2 = classify(wr)
    log2 = sim.log[n_f:]
    part = _Part(log2, sim.mem)
    fr, fcap, foct = fresh_view(Lf, sim.mem)
    impl = ' | '.join([r2, show_cmds(log2), hx(sim.mem), fr, fcap])
    is_pure = all(req == res for _a, _o, req, res in log2)
    bt.add('%s_write %s %s' % (MODEL_PREFIX[L.kind], model_args(Lf), hexarg(new)), impl, L.kind + '-format-then-write', case,
           mask=None if is_pure else (lambda s: ' | '.join(s.split(' | ')[:2])))
    ck.case((L.kind, 'fmtwrite', hx(mem), wipe, hx(new)), True,
            {'tag': L.kind, 'product': product, 'history': 'read %d bytes; format(wipe=%s) -> %s; assign %d bytes -> %s with %d commands' % (
                len(old), wipe, got.get('f') if rf == 'ok' else rf, len(new), r2, len(log2))} if len(new) in (0, len(old)) else None)
    ck.count('%s-format-then-write%s' % (L.kind, '' if formatted else '-unformatted'))
    n = len(new)
    if pid == 'C01':
        if fcapf != 'none' and str(cap) != fcapf and formatted:
            ck.violation('%s:fmtwrite:capacity' % L.kind, 'capacity on the tag object after format() (%d) differs from what a fresh reader reports (%s)' % (cap, fcapf), case)
        elif n > cap:
            if r2 != 'err ValueError' or log2 or sim.ncmd != n0:
                ck.violation('%s:fmtwrite:oversize' % L.kind, 'data longer than the capacity is not rejected before any command is sent', dict(case, result=r2))
        elif r2 != 'ok':
            ck.violation('%s:fmtwrite:fails:%s' % (L.kind, r2.split()[-1]), 'assigning %d octets (capacity %d) after format() fails with %s' % (n, cap, r2), dict(case, result=r2))
        elif foct != new:
            ck.violation('%s:fmtwrite:readback' % L.kind, 'a fresh reader does not read back the octets written after format()', dict(case, fresh=fr[:200]))
    if pid == 'C03':
        monitor_frame(ck, Lf, part, 'NDEF write after format()', 'fmtwrite', case)
    if pid == 'C02' and r2 == 'ok':
        cur = bytearray(mem_f)
        before = foctf if foctf is not None else None
        for k in range(len(log2) + 1):
            if k:
                addr, _o, _req, res = log2[k - 1]
                cur[addr:addr + len(res)] = res
            frk, _c, fok = fresh_view(Lf, bytes(cur))
            ck.case((L.kind, 'fmtwrite', hx(mem), wipe, hx(new), k), True, None)
            ok = frk in ('nondef', 'notreadable', 'msg -') or fok == new or frk.startswith('failed err') or (fok is not None and fok == before)
            if not ok:
                one_unit = (Lf.off + 1) // Lf.unit == (Lf.off + 3) // Lf.unit
                ll = 'short' if n < 255 else 'long-oneunit' if one_unit else 'long-straddle'
                key = '%s:cut:%s:mixture' % (L.kind, ll) if (L.kind, ll) == ('t1d', 'long-straddle') else '%s:fmtwrite-cut:%s:mixture' % (L.kind, ll)
                ck.violation(key, 'after format() and a power cut in the following write a fresh reader sees a %d byte message that is neither empty nor the new (%d) one' % (
                    len(fok) if fok is not None else -1, n), dict(case, cut_after=k, commands=len(log2), fresh=frk[:120]))
                break
        ck.count('%s-fmtwrite-cut-points' % L.kind, len(log2) + 1)


def fmtwrite_cases(ck, bt, L, pid, rng, reps):
    for _ in range(reps):
        old = rnd(rng, rng.choice([1, 5, 40, min(L.cap_expected, 100), rng.randrange(1, max(2, min(L.cap_expected, 300)))]))
        if len(old) > L.cap_expected or not old:
            continue
        wipe = rng.choice([None, None, 0, 0xFF, old[0], rng.randrange(256)])
        c = rng.randrange(5)
        if c == 0:
            new = old
        elif c == 1:                       # shares most bytes with the message read before the format
            new = bytearray(old)
            for _i in range(rng.choice([1, 2, 5])):
                new[rng.randrange(len(new))] ^= rng.randrange(1, 256)
            new = bytes(new)
        elif c == 2:
            new = old[:rng.randrange(0, len(old) + 1)] + rnd(rng, rng.choice([0, 3, 20]))
        elif c == 3:
            new = rnd(rng, rng.choice([0, 1, len(old)]))
        else:
            new = rnd(rng, rng.randrange(0, min(L.cap_expected, 280) + 1))
        fmtwrite_case(ck, bt, L, old, wipe, new, pid, rng)


def topaz_layout(rng, big, off=None):
    """Topaz (static, 120 bytes) / Topaz-512 tag as a user may have laid it out: NDEF TLV anywhere from byte 12, optionally the
    factory Lock Control / Memory Control TLVs in front of it"""
    L = Layout()
    L.first, L.oneway = 12, set()
    if not big:
        L.kind, L.unit, L.hr, L.dend = 't1s', 1, bytes([0x11, 0x48]), 120
        L.R = set(range(104, 120))
        L.off = 12 + rng.choice([0, 0, 1, 3, 10]) if off is None else off
        mem = bytearray(rng.randrange(1, 256) for _ in range(120))
        mem[8:12] = bytes.fromhex('e1100e00')
        mem[12:L.off] = bytes(L.off - 12)
    else:
        L.kind, L.unit, L.hr, L.dend = 't1d', 8, bytes([0x12, 0x4C]), 512
        mem = bytearray(rng.randrange(1, 256) for _ in range(512))
        mem[8:12] = bytes.fromhex('e1103f00')
        c = rng.randrange(4) if off is None else (3 if off >= 22 else 2 if off >= 17 else 0)
        L.R = set(range(104, 128))     # block 0Dh..0Fh are skipped on every dynamic memory tag
        if c == 0:       # no control TLV
            L.off = 12 + rng.choice([0, 1, 4]) if off is None else off
            mem[12:L.off] = bytes(L.off - 12)
        elif c == 1 or c == 2:     # Lock Control TLV only
            L.off = 17 + rng.choice([0, 2]) if off is None else off
            mem[12:17] = bytes.fromhex('0103f23033')
            mem[17:L.off] = bytes(L.off - 17)
        else:
            L.off = 22 + rng.choice([0, 0, 3]) if off is None else off
            mem[12:22] = bytes.fromhex('0103f230330203f00203')
            mem[22:L.off] = bytes(L.off - 22)
    mem[0:8] = bytes([1, 2, 3, 4, 5, 6, 7, 0])
    mem[L.off], mem[L.off + 1] = 3, 0
    L.mem = mem
    f = L.free_after_tag()
    L.cap_expected = (f + 1) - (4 if f + 1 > 256 else 2)
    return L


def driver_world(drv, sim):
    """a real ContactlessFrontend with a real nfc.clf.pn532 / pn533 Device whose chip is the host-link simulator of
    harness/sim/chipsets.py (C13; used read-only), the simulated Type 1 tag in its field"""
    from sim import c13_world as W

    def remote(data):
        try:
            return bytes(sim.command(bytearray(data)))
        except nfc.clf.CommunicationError:
            return b''
    w = W.World(drv)
    w.sim.remote = remote
    w.clf.target = sim.target()
    return w


def driver_case(ck, bt, drv, L, old, data, pid, rng):
    """Type 1 Tag with more than 1 KByte behind the real PN532 / PN533 driver (RSEG is emulated by the driver with sixteen READ8,
    READ8 / WRITE-E8 are sent through CIU registers): write through the driver, read back through the driver and directly."""
    mem = bytearray(L.mem)
    L2 = Layout()
    L2.__dict__.update(L.__dict__)
    L2.mem = mem
    L2.put_message(mem, old)
    case = {'layout': L2.describe(), 'old': hx(old), 'driver': drv, 'data': hx(data)}
    sim = L2.sim()
    w = driver_world(drv, sim)
    tag = nfc.tag.activate(w.clf, w.clf.target)
    got = {}

    def rd():
        got['o'] = bytes(tag.ndef.octets) if tag is not None and tag.ndef is not None else None
    r0 = classify(rd)
    if pid == 'C01' and (r0 != 'ok' or got['o'] != old):
        ck.violation('t1d:driver-%s:read' % drv, 'a %d byte message on a %d byte Type 1 Tag is not read through the %s driver (%s)' % (len(old), len(mem), drv, r0), case)
        return
    if r0 != 'ok' or got['o'] is None:
        return

    def wr():
        tag.ndef.octets = data
    r1 = classify(wr)
    fr, fcap, foct = fresh_view(L2, sim.mem)
    impl = ' | '.join([r1, show_cmds(sim.log), hx(sim.mem), fr, fcap])
    bt.add('t1_write %s %s' % (model_args(L2), hexarg(data)), impl, 't1d-write-through-' + drv, case)
    s3 = L2.sim(sim.mem)
    t3 = nfc.tag.activate(driver_world(drv, s3).clf, s3.target())

    def rd3():
        got['o3'] = bytes(t3.ndef.octets) if t3 is not None and t3.ndef is not None else None
    r3 = classify(rd3)
    ck.case(('t1d', 'driver', drv, hx(mem[:32]), len(mem), hx(data[:16]), len(data)), True,
            {'tag': 't1d', 'driver': drv, 'size': len(mem), 'old_len': len(old), 'len': len(data), 'result': r1, 'writes': len(sim.log), 'read_through_driver': r3})
    ck.count('t1d-through-real-%s-driver' % drv)
    if pid == 'C01' and len(data) <= L2.cap_expected:
        if r1 != 'ok':
            ck.violation('t1d:driver-%s:write-fails' % drv, 'assigning %d octets through the %s driver fails with %s' % (len(data), drv, r1), case)
        elif foct != data:
            ck.violation('t1d:driver-%s:readback' % drv, 'a fresh reader does not read back what was written through the %s driver' % drv, dict(case, fresh=fr[:120]))
        elif r3 != 'ok' or got['o3'] != data:
            ck.violation('t1d:driver-%s:readback-driver' % drv, 'a fresh reader behind the %s driver does not read back the octets written (%s)' % (drv, r3), case)
    if pid == 'C03':
        monitor_frame(ck, L2, sim, 'NDEF write through the %s driver' % drv, 'driver-' + drv, case)


def big_t1_layout(rng, size):
    """Topaz-512 style header on a Type 1 Tag with `size` bytes (up to 2048: segments 8..15 exist above 1 KByte)"""
    L = Layout()
    L.kind, L.first, L.unit, L.hr, L.dend, L.oneway = 't1d', 12, 8, bytes([0x12, 0x4C]), size, set()
    L.R = set(range(104, 128))
    mem = bytearray(rng.randrange(1, 256) for _ in range(size))
    mem[0:12] = bytes([1, 2, 3, 4, 5, 6, 7, 0, 0xE1, 0x10, size // 8 - 1, 0])
    mem[12:22] = bytes.fromhex('0103f230330203f00203')
    L.off = 22 + rng.choice([0, 0, 1, 5])
    mem[22:L.off] = bytes(L.off - 22)
    mem[L.off], mem[L.off + 1] = 3, 0
    L.mem = mem
    f = L.free_after_tag()
    L.cap_expected = (f + 1) - (4 if f + 1 > 256 else 2)
    return L


def driver_cases(ck, bt, pid, rng, reps):
    for i in range(reps):
        for drv in ('pn532', 'pn533'):
            L = big_t1_layout(rng, 2048 if i == 0 else rng.choice([1152, 1280, 1536, 2048, 512]))
            old = rnd(rng, rng.choice([0, 40, L.cap_expected, rng.randrange(0, L.cap_expected + 1)]))
            data = rnd(rng, rng.choice([L.cap_expected, L.cap_expected - rng.randrange(0, 200), rng.randrange(0, L.cap_expected + 1)]))
            driver_case(ck, bt, drv, L, old, data, pid, rng)
    bt.flush()


def run_write_on(L, old, new):
    mem = bytearray(L.mem)
    L2 = Layout()
    L2.__dict__.update(L.__dict__)
    L2.mem = mem
    L2.put_message(mem, old)
    return run_write(L2, new)['sim'].log


SS_KINDS = [(1, 'timeout'), (1, 'transmission'), (1, 'protocol'), (1, 'nak'), (2, 'transmission'), (2, 'protocol'), (2, 'nak')]


def gen_sector_layout(rng, size8=None):
    """Type 2 tag whose data area reaches into the second (and third) 1K sector; lock bytes directly behind the data area"""
    L = Layout()
    L.kind, L.first, L.unit = 't2', 16, 4
    size8 = size8 or rng.choice([0x80, 0x80, 0x90, 0xC0, 0xFF])
    L.dend = 16 + 8 * size8
    total = L.dend + 4 * rng.choice([4, 8, 12])
    L.version = None
    mem = bytearray(rng.randrange(1, 256) for _ in range(total))
    npad = rng.choice([0, 1, 2, 3])
    for a in range(16, 16 + npad):
        mem[a] = 0
    L.off = 16 + npad
    L.R = set()
    mem[L.off], mem[L.off + 1] = 3, 0
    L.oneway = set(range(L.dend, L.dend + 3))
    f = L.free_after_tag()
    L.cap_expected = (f + 1) - (4 if f + 1 > 256 else 2)
    mem[0:10] = bytes([rng.choice([1, 2, 5, 7]), 2, 3, 0x88, 5, 6, 7, 8, 0x0C, 0x48])
    mem[10:12] = b'\x00\x00'
    mem[12:16] = bytes([0xE1, 0x10, size8, 0x00])
    L.mem = mem
    return L


def sector_case(ck, bt, L, old, d1, j, packet, kind, op2, pid, rng):
    """operations on ONE tag object of a Type 2 tag with more than one sector: tag.ndef.octets = d1 with the j-th SECTOR SELECT
    sequence failing at packet 1 / 2 (timeout, transmission / protocol error, NAK; the tag does not act on a packet it did not
    understand), then op2 = ('write', d2) or ('format', wipe).  Monitors: the library's _current_sector equals the tag's sector
    whenever a READ / WRITE is sent; the byte-wise frame over all sectors; (C01) op2 succeeds and reads back.
    Correspondence: every sector_select call against Model/T2Sector.v."""
    mem = bytearray(L.mem)
    L2 = Layout()
    L2.__dict__.update(L.__dict__)
    L2.mem = mem
    L2.put_message(mem, old)
    case = {'layout': L2.describe(), 'old': hx(old), 'sector': {'d1': hx(d1), 'j': j, 'packet': packet, 'kind': kind, 'op2': [op2[0], hx(op2[1]) if op2[0] == 'write' else op2[1]]}}
    sim = L2.sim()
    clf = FakeClf(sim)
    tag = activate(clf)
    clf.watch = tag
    calls = []
    orig = tag.sector_select

    def wrapped(sector):
        before = (tag._current_sector, sim.sector)
        seq0 = clf._ss_seq
        armed = clf._ss
        try:
            r = orig(sector)
            res = 'ok %d' % r
        except nfc.tag.TagCommandError:
            res = 'err TagCommandError'
            raise
        finally:
            if sector == before[0]:
                o = 'done'
            elif res.startswith('ok'):
                o = 'done'
            elif armed is not None and armed['at'] == seq0 + 1:
                o = ('p1nak' if armed['kind'] == 'nak' else 'p1err') if armed['packet'] == 1 else ('p2answer' if armed['kind'] == 'nak' else 'p2err')
            else:
                o = 'p2answer' if sector * 256 >= sim.npages else 'p1nak'
            calls.append(('ss %d %d %d %s' % (before[0], before[1], sector, o), '%s %d %d' % (res, tag._current_sector, sim.sector)))
        return r
    tag.sector_select = wrapped
    if tag.ndef is None:
        return 0
    n_before = clf._ss_seq
    if j:
        clf.fault_ss(j, packet, kind)

    def op1():
        tag.ndef.octets = d1
    r1 = classify(op1)
    nseq = clf._ss_seq - n_before
    clf._ss = None
    out = {}

    def o2():
        if op2[0] == 'write':
            tag.ndef.octets = op2[1]
        else:
            out['r'] = tag.format(wipe=op2[1])
    r2 = classify(o2)
    key = 'sector:p%d-%s' % (packet, kind) if j else 'sector:nofault'
    if clf.sector_desync is not None:
        ck.violation('t2:%s:desync' % key, 'a READ/WRITE (%s) was sent while the library believed sector %d and the tag was in sector %d' % (
            clf.sector_desync[2], clf.sector_desync[0], clf.sector_desync[1]), case)
    monitor_frame(ck, L2, sim, 'operations around a failed SECTOR SELECT', key, case)
    if pid == 'C01' and op2[0] == 'write':
        fr, _c, foct = fresh_view(L2, sim.mem)
        if r2 != 'ok' or foct != op2[1]:
            ck.violation('t2:%s:second-op' % key, 'the operation after a failed SECTOR SELECT %s' % ('fails with ' + r2 if r2 != 'ok' else 'does not read back'), dict(case, fresh=fr[:80]))
    for line, impl in calls:
        bt.add(line, impl, 't2-sector-select', case)
    ck.case(('t2', 'sector', hx(mem[:64]), hx(d1[:8]), j, packet, kind, op2[0]), True,
            {'tag': 't2', 'data_area_end': L.dend, 'history': 'write %d bytes, SECTOR SELECT #%d fails at packet %d (%s) -> %s; then %s -> %s' % (
                len(d1), j, packet, kind, r1, op2[0], r2)} if j == 1 else None)
    ck.count('t2-sector-histories')
    return nseq


def sector_cases(ck, bt, pid, rng, nlay):
    """all of these run through a real nfc.clf.ContactlessFrontend (exchange / lock) over a fake device"""
    REAL_FRONTEND[0] = True
    try:
        _sector_cases(ck, bt, pid, rng, nlay)
    finally:
        REAL_FRONTEND[0] = False
    ck.count('t2-sector-layouts-through-real-ContactlessFrontend', nlay)


def _sector_cases(ck, bt, pid, rng, nlay):
    for i in range(nlay):
        L = gen_sector_layout(rng, size8=(0x80 if i == 0 else None))
        old = rnd(rng, rng.choice([0, 40, 300]))
        d1 = rnd(rng, rng.choice([L.cap_expected, L.cap_expected - rng.randrange(0, 40), 1100]))
        ops = [('write', rnd(rng, rng.choice([0, 5, 60]))), ('format', None), ('format', 0), ('write', rnd(rng, min(L.cap_expected, 1200)))]
        nseq = sector_case(ck, bt, L, old, d1, 0, 0, 'none', ops[0], pid, rng)
        for j in range(1, nseq + 1):
            for packet, kind in (SS_KINDS if i == 0 else [rng.choice(SS_KINDS), rng.choice(SS_KINDS[4:])]):
                sector_case(ck, bt, L, old, d1, j, packet, kind, rng.choice(ops if pid == 'C03' else [ops[0], ops[3]]), pid, rng)
        bt.flush()


def corpus(ck, bt, pid, rng):
    """minimised past failures"""
    # Type 2, static memory, NDEF TLV at 16
    L = Layout()
    L.kind, L.first, L.unit, L.off, L.dend, L.R, L.oneway = 't2', 16, 4, 16, 64, set(), set()
    L.mem = bytearray(bytes([1, 2, 3, 0x88, 5, 6, 7, 8, 0x0C, 0x48, 0, 0, 0xE1, 0x10, 6, 0]) + bytes([3, 3, 0xD0, 0, 0, 0xFE]) + bytes(42))
    L.cap_expected = 46
    if pid == 'C01':
        write_case(ck, bt, L, b'', pid, rng)
    # NDEF TLV at byte 17 after one NULL TLV, old message 40 bytes, new message 300 bytes
    L = Layout()
    L.kind, L.first, L.unit, L.off, L.dend, L.R, L.oneway = 't2', 16, 4, 17, 16 + 8 * 0x40, set(), set()
    L.mem = bytearray(bytes([1, 2, 3, 0x88, 5, 6, 7, 8, 0x0C, 0x48, 0, 0, 0xE1, 0x10, 0x40, 0]) + bytes([0, 3, 0]) + bytes(8 * 0x40 - 3))
    L.cap_expected = 8 * 0x40 - 1 - 4
    if pid == 'C02':
        cut_case(ck, bt, L, bytes(range(40)), bytes((7 * i + 1) & 255 for i in range(300)), rng, 2)
    # lock byte directly after an empty NDEF TLV (lock control TLV: 1 lock byte at address 23)
    L = Layout()
    L.kind, L.first, L.unit, L.off, L.dend, L.R, L.oneway = 't2', 16, 4, 21, 64, {23}, set()
    L.mem = bytearray(bytes([1, 2, 3, 0x88, 5, 6, 7, 8, 0x0C, 0x48, 0, 0, 0xE1, 0x10, 6, 0]) + bytes([1, 3, 0x17, 8, 0x14]) + bytes([3, 0, 0x5A, 0xFE]) + bytes(39))
    L.cap_expected = 64 - 21 - 1 - 2
    if pid == 'C03':
        format_case(ck, bt, L, None)
        format_case(ck, bt, L, 0)
    if pid == 'C01':
        write_case(ck, bt, L, b'\xd0\x00\x00', pid, rng)
    # 48 byte data area, the empty NDEF TLV occupies its last two bytes (capacity 0), dynamic lock bytes at byte 64
    # (seeded regression C03-c3: the terminator must not be stored behind the data area)
    L = Layout()
    L.kind, L.first, L.unit, L.off, L.dend, L.R = 't2', 16, 4, 62, 64, set()
    L.oneway = {64, 65, 66}
    L.mem = bytearray(bytes([1, 2, 3, 0x88, 5, 6, 7, 8, 0x0C, 0x48, 0, 0, 0xE1, 0x10, 6, 0]) + bytes([0xFD, 44]) + bytes([0x5A] * 44) + bytes([3, 0])
                      + bytes([0x11, 0x22, 0x33, 0x44]) + bytes(12))
    L.cap_expected = 0
    if pid == 'C03':
        for wipe in (None, 0, 0xFF):
            format_case(ck, bt, L, wipe)
    if pid in ('C01', 'C03'):
        write_case(ck, bt, L, b'', pid, rng)
    # Topaz-512 style tag with TMS = 25h: 304 byte data area of a 512 byte memory, 258 usable bytes from the NDEF TLV at byte 22
    # (seeded regression C03-d2: capacity must be 254, a message of capacity bytes must end inside the data area)
    L = Layout()
    L.kind, L.first, L.unit, L.off, L.dend, L.oneway, L.hr = 't1d', 12, 8, 22, 304, set(), bytes([0x12, 0x4C])
    L.R = set(range(104, 128))
    L.mem = bytearray(bytes([1, 2, 3, 4, 5, 6, 7, 0, 0xE1, 0x10, 0x25, 0]) + bytes.fromhex('0103F230330203F002030300') + bytes([0xA5] * 488))
    L.cap_expected = 254
    if pid in ('C01', 'C03'):
        for n in (254, 255):
            write_case(ck, bt, L, bytes((7 * i + 1) & 255 for i in range(n)), pid, rng)
    # Type 2, length byte is the last byte of page 4: an assignment whose commit command is executed but not answered, then
    # an assignment of other data on the same tag object (stale reader cache; repair c02-tlv-reader-reset-after-failed-write)
    L = Layout()
    L.kind, L.first, L.unit, L.off, L.dend, L.R, L.oneway = 't2', 16, 4, 18, 16 + 8 * 12, set(), set()
    L.mem = bytearray(bytes([1, 2, 3, 0x88, 5, 6, 7, 8, 0x0C, 0x48, 0, 0, 0xE1, 0x10, 12, 0]) + bytes([0, 0, 3, 0]) + bytes(92))
    L.cap_expected = 96 - 3 - 2
    if pid == 'C02':
        d1 = bytes(range(100, 130))
        n1 = len(run_write_on(L, bytes(range(1, 41)), d1))
        rewrite_case(ck, L, bytes(range(1, 41)), d1, n1, FAULT_KINDS[0], True, bytes(range(200, 230)), pid, rng, bt=bt)
    # static Topaz, first write command lost, retry on the same tag object (seeded regression C02-b1)
    L = Layout()
    L.kind, L.first, L.unit, L.off, L.dend, L.oneway, L.hr = 't1s', 12, 1, 12, 120, set(), bytes([0x11, 0x00])
    L.R = set(range(104, 120))
    L.mem = bytearray(bytes([1, 2, 3, 4, 5, 6, 7, 0, 0xE1, 0x10, 0x0E, 0]) + bytes([3, 0]) + bytes(106))
    L.cap_expected = 90
    if pid in ('C01', 'C02'):
        retry_cases(ck, L, bytes(range(1, 46)), bytes(range(100, 112)), pid, rng, 1, bt=bt)
    # dynamic memory with HR0 = 14h (not Topaz-512), message stored past byte 127 (seeded regression C01-b4)
    L = Layout()
    L.kind, L.first, L.unit, L.off, L.dend, L.oneway, L.hr = 't1d', 12, 8, 13, 512, set(), bytes([0x14, 0x00])
    L.R = set(range(104, 128))
    L.mem = bytearray(bytes([1, 2, 3, 4, 5, 6, 7, 0, 0xE1, 0x10, 0x3F, 0]) + bytes([0, 3, 0]) + bytes(497))
    L.cap_expected = 512 - 13 - 24 - 4
    if pid in ('C01', 'C03'):
        write_case(ck, bt, L, bytes((i % 251) + 1 for i in range(200)), pid, rng)
    if pid == 'C02':
        cut_case(ck, bt, L, bytes(range(40)), bytes((i % 251) + 1 for i in range(200)), rng, 1)
    # one tag object: read, format(wipe), assign the message read before (seeded regressions C02-e1 / C03-e1: Tag.format must
    # drop the cached NDEF object; the Topaz formats write through a reader of their own)
    frng = random.Random(11)
    L = topaz_layout(frng, False, off=12)
    fmtwrite_case(ck, bt, L, bytes(range(1, 41)), 0, bytes(range(1, 41)), pid, rng)
    if 't1d' in KINDS:
        L = topaz_layout(frng, True, off=17)     # Lock Control TLV only: format() moves the NDEF TLV to byte 22
        fmtwrite_case(ck, bt, L, bytes(range(1, 21)), None, bytes(range(50, 80)), pid, rng)
        L = topaz_layout(frng, True, off=22)
        fmtwrite_case(ck, bt, L, bytes(range(1, 101)), 0xFF, bytes(range(1, 90)) + bytes(11), pid, rng)
    if 't1d' not in KINDS:
        return
    # Type 1, dynamic memory (Topaz-512 management TLVs), empty message
    L = Layout()
    L.kind, L.first, L.unit, L.off, L.dend, L.oneway, L.hr = 't1d', 12, 8, 22, 512, set(), bytes([0x12, 0x4C])
    L.R = set(range(104, 128))
    L.mem = bytearray(bytes([1, 2, 3, 4, 5, 6, 7, 0, 0xE1, 0x10, 0x3F, 0]) + bytes.fromhex('0103F230330203F002030300') + bytes(488))
    L.cap_expected = 462
    if pid == 'C01':
        write_case(ck, bt, L, b'', pid, rng)
    # NDEF TLV at byte 22 behind ten NULL TLVs: FF is the last byte of block 2, the length bytes are in block 3
    L = Layout()
    L.kind, L.first, L.unit, L.off, L.dend, L.oneway, L.hr = 't1d', 12, 8, 22, 512, set(), bytes([0x12, 0x4C])
    L.R = set(range(104, 128))
    L.mem = bytearray(bytes([1, 2, 3, 4, 5, 6, 7, 0, 0xE1, 0x10, 0x3F, 0]) + bytes(10) + bytes([3, 0]) + bytes(488))
    L.cap_expected = 462
    if pid == 'C02':
        cut_case(ck, bt, L, bytes(range(40)), bytes((i % 251) + 1 for i in range(300)), rng, 2)
    # Topaz-512 with an additional memory control TLV (bytes 200..207 reserved), NDEF TLV at byte 27
    L = Layout()
    L.kind, L.first, L.unit, L.off, L.dend, L.oneway, L.hr = 't1d', 12, 8, 27, 512, set(), bytes([0x12, 0x4C])
    L.R = set(range(104, 128)) | set(range(200, 208))
    L.mem = bytearray(bytes([1, 2, 3, 4, 5, 6, 7, 0, 0xE1, 0x10, 0x3F, 0]) + bytes.fromhex('0103F230330203F002030203C808040300') + bytes([0xA5] * 483))
    L.cap_expected = 512 - 27 - 24 - 8 - 4
    if pid == 'C03':
        format_case(ck, bt, L, 0)
        write_case(ck, bt, L, bytes(range(200)), pid, rng)


def replay(ck, pid, mr, path):
    """re-run the case recorded in a replay file written by Check.finish"""
    import json
    rec = json.load(open(path))
    case = rec.get('case') or {}
    if 'layout' not in case or case['layout'].get('kind') not in MODEL_PREFIX:
        return False
    L = Layout.from_desc(case['layout'])
    bt = Batch(ck, mr)
    REAL_FRONTEND[0] = True       # the real ContactlessFrontend.exchange in the loop (transparent unless it is what is broken)
    if 'sector' in case:
        r = case['sector']
        op2 = ('write', bytes.fromhex(r['op2'][1])) if r['op2'][0] == 'write' else ('format', r['op2'][1])
        sector_case(ck, bt, L, bytes.fromhex(case['old']), bytes.fromhex(r['d1']), r['j'], r['packet'], r['kind'], op2, pid, ck.rng)
    elif 'driver' in case:
        L.mem[L.off], L.mem[L.off + 1] = 3, 0
        driver_case(ck, bt, case['driver'], L, bytes.fromhex(case['old']), bytes.fromhex(case['data']), pid, ck.rng)
    elif 'fmtwrite' in case:
        r = case['fmtwrite']
        L.mem[L.off], L.mem[L.off + 1] = 3, 0       # the recorded layout holds the old message; fmtwrite_case stores it again
        fmtwrite_case(ck, bt, L, bytes.fromhex(case['old']), r['wipe'], bytes.fromhex(r['data']), pid, ck.rng)
    elif 'rewrite' in case:
        r = case['rewrite']
        kind = [k for k in FAULT_KINDS if k.__name__ == r['kind']][0]
        rewrite_case(ck, L, bytes.fromhex(case['old']), bytes.fromhex(r['d1']), r['k1'], kind, r['executed'], bytes.fromhex(case['new']), pid, ck.rng, bt=bt)
    elif 'retry' in case:
        r = case['retry']
        kind = [k for k in FAULT_KINDS if k.__name__ == r['kind']][0]
        retry_case(ck, L, bytes.fromhex(case['old']), bytes.fromhex(case['new']), r['k1'], kind, r['executed'], pid, ck.rng, bt=bt)
    elif 'new' in case:
        # the layout recorded for a cut case already holds the old message
        cut_case(ck, bt, L, bytes.fromhex(case['old']), bytes.fromhex(case['new']), ck.rng, 2, prepared=True)
    elif 'data' in case:
        write_case(ck, bt, L, bytes.fromhex(case['data']), pid, ck.rng)
    else:
        format_case(ck, bt, L, case.get('wipe'))
    bt.flush()
    return True


def run(ck, pid, mr):
    rng = ck.rng
    quick = ck.tier == 'quick'
    if ck.replay:
        replay(ck, pid, mr, ck.replay)
        return
    bt = Batch(ck, mr)
    corpus(ck, bt, pid, rng)
    bt.flush()
    if pid in ('C01', 'C03') and 't2' in KINDS:
        sector_cases(ck, bt, pid, rng, 3 if quick else 20)
    if pid in ('C01', 'C03') and 't1d' in KINDS:
        driver_cases(ck, bt, pid, rng, 3 if quick else 25)
    for kind in KINDS:
        if pid in ('C01', 'C03'):
            end_of_area_cases(ck, bt, pid, rng, kind, 3 if quick else 12)
            if kind != 't1s':
                capacity_boundary_cases(ck, bt, pid, rng, kind, 1 if quick else 6)
            nlay = (250 if quick else 1500)
            for i in range(nlay):
                L = gen_layout(rng, kind, big=(i % 12 == 0), tight=(pid == 'C03' and i % 3 == 0),
                               want_cap=(300 if i % 5 == 0 and kind != 't1s' else None))
                # every second layout: a real nfc.clf.ContactlessFrontend (exchange) between the tag object and the simulated tag
                REAL_FRONTEND[0] = i % 2 == 1
                ck.count('%s-layouts-through-%s' % (kind, 'real-ContactlessFrontend' if REAL_FRONTEND[0] else 'fake-clf'))
                check_info(ck, bt, L)
                for n in lengths_for(L, rng, 2 if quick else 4):
                    prev = bytearray(L.mem)
                    if rng.random() < 0.7:      # random previous message
                        L.put_message(prev, rnd(rng, rng.randrange(0, L.cap_expected + 1)))
                    else:                        # empty NDEF TLV
                        prev[L.off], prev[L.off + 1] = 3, 0
                    L1 = Layout()
                    L1.__dict__.update(L.__dict__)
                    L1.mem = prev
                    write_case(ck, bt, L1, rnd(rng, n), pid, rng)
                if pid == 'C03' and kind != 't2' and i % 4 == 1:
                    # the factory layouts of Topaz (static) / Topaz-512 (dynamic), product header ROM bytes
                    L.hr = bytes([0x11, 0x48]) if kind == 't1s' else bytes([0x12, 0x4C])
                    if kind == 't1s':
                        L.mem[8:14] = bytes.fromhex('e1100e000300')
                        L.off, L.R, L.oneway = 12, set(range(104, 120)), set()
                    elif len(L.mem) == 512:
                        L.mem[8:24] = bytes.fromhex('e1103f000103f230330203f002030300')
                        L.off, L.R, L.oneway = 22, set(range(104, 128)), set()
                    f = L.free_after_tag()
                    L.cap_expected = (f + 1) - (4 if f + 1 > 256 else 2)
                if pid == 'C03':
                    prev = bytearray(L.mem)
                    L.put_message(prev, rnd(rng, rng.randrange(0, L.cap_expected + 1)))
                    L1 = Layout()
                    L1.__dict__.update(L.__dict__)
                    L1.mem = prev
                    format_case(ck, bt, L1, None)
                    format_case(ck, bt, L1, rng.choice([0, 0xFF, rng.randrange(256), 0x1A5]))
                if i % 20 == 19:
                    bt.flush()
            REAL_FRONTEND[0] = False
            if pid == 'C01':
                for i in range(150 if quick else 2000):
                    fuzz_case(ck, bt, gen_layout(rng, kind), rng)
                bt.flush()
            # every length 0..capacity+1 for some layouts (thorough)
            if not quick:
                for i in range(40):
                    L = gen_layout(rng, kind, want_cap=(260 if i % 4 == 0 and kind != 't1s' else None))
                    L.mem[L.off], L.mem[L.off + 1] = 3, 0
                    for n in range(0, L.cap_expected + 2):
                        write_case(ck, bt, L, rnd(rng, n), pid, rng)
                    bt.flush()
        # read -> format -> write on one tag object (Tag.format / Tag.ndef base class code)
        for i in range(12 if quick else 120):
            if kind != 't2' and i % 3 != 2:
                L = topaz_layout(rng, kind == 't1d')
            else:
                L = gen_layout(rng, kind, want_cap=(300 if kind != 't1s' and i % 4 == 0 else None))
            fmtwrite_cases(ck, bt, L, pid, rng, 3)
        bt.flush()
        if pid in ('C01', 'C02'):
            # two-operation histories on the same tag object (stale reader cache after a failed write)
            for i in range((12 if quick else 150) if pid == 'C02' else (6 if quick else 60)):
                L = gen_layout(rng, kind, want_cap=(300 if kind != 't1s' and i % 3 == 0 else None), unaligned=(i % 2 == 0))
                cands = [x for x in [0, 1, 40, 254, 255, 300] if x <= L.cap_expected] + [rng.randrange(0, L.cap_expected + 1)]
                old = rnd(rng, rng.choice(cands[1:]))
                new = rnd(rng, rng.choice([c for c in cands if c <= 320]))
                retry_cases(ck, L, old, new, pid, rng, 1 if quick else 3, bt=bt)
                bt.flush()
        if pid == 'C02':
            npairs = 150 if quick else 2500
            grid = [0, 1, 40, 253, 254, 255, 256, 300]
            for i in range(npairs):
                longish = kind != 't1s' and i % 4 != 3
                L = gen_layout(rng, kind, want_cap=(300 if longish else None), unaligned=(i % 3 != 2), big=False)
                cands = [x for x in grid if x <= L.cap_expected] + [L.cap_expected, rng.randrange(0, L.cap_expected + 1)]
                old = rnd(rng, rng.choice(cands))
                new = rnd(rng, rng.choice(cands))
                cut_case(ck, bt, L, old, new, rng, 1 if quick else 3)
                if i % 10 == 9:
                    bt.flush()
            if not quick and kind != 't1s':
                # all unit offsets x boundary grid
                for shift in range(0, 8):
                    for ol in (0, 40, 254, 255, 256, 300):
                        for nl in (0, 1, 254, 255, 256, 300):
                            for _ in range(30):
                                L = gen_layout(rng, kind, want_cap=300, unaligned=False)
                                if (L.off - L.first) % 8 == shift:
                                    break
                            cut_case(ck, bt, L, rnd(rng, ol), rnd(rng, nl), rng, 0)
                    bt.flush()
    bt.flush()
