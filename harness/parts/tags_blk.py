"""Block tags part of C01 / C02 / C03: NFC Forum Type 3 Tag (passive tag and the library's own
Type3TagEmulation) and Type 4 Tag.

Correspondence: real Type3Tag / Type4Tag objects created by nfc.tag.activate on the simulators of
harness/sim/tag_t3t4.py (and a real Type3Tag reader talking to a real Type3TagEmulation) against
the extracted models Model/T3T.v, Model/T4T.v: result class of the assignment, ordered
state-changing commands (raw frames / APDUs), final memory, what a FRESH tag object reports on
the final memory; for C02 the same at every cut point.  Monitors: independent reading of the
property texts on the implementation's observations.
"""
import json
import logging
import struct

from common import hx

import nfc.tag
import nfc.tag.tt3
import nfc.tag.tt4
from sim.tag_t3t4 import (SimHang, SimT3Tag, T3Session, t3_attribute_block, EmuMemory, EmuSession,
                          SimT4Card, T4Session, t4_cc, AID_V1, AID_V2)

logging.disable(logging.CRITICAL)

MODEL = 'tags_blk'
_T = ['Proofs/Chunks.vo', 'Proofs/T3T.vo', 'Proofs/T3TEmu.vo', 'Proofs/T4T.vo', 'Bridge/Blk.vo']
# Gen/BlkK.v: kernels cut out of tt3.py / tt4.py on every run (translate/kspec_tags_blk.py); Bridge/Blk.v ties them
# to the models, Props/C01_blkBridge.v restates the bridge lemmas
COQ = {
    'C01': dict(gen=['BlkK'], targets=_T, props=['C01_blk', 'C01_blkBridge']),
    'C02': dict(gen=['BlkK'], targets=_T, props=['C02_blk', 'C01_blkBridge']),
    'C03': dict(gen=['BlkK'], targets=_T, props=['C03_blk', 'C01_blkBridge']),
}
TRUSTED = ['Coq 8.16.1 kernel (no native_compute); translate/py2coq.py + translate/kspec_tags_blk.py (kernel cutter with the '
           'readings of struct.unpack / bytearray / subscript assignment listed in its docstring); '
           'extraction ExtrOcamlBasic + extract/tags_blk_run.ml; '
           'simulators harness/sim/tag_t3t4.py (passive Type 3 tag, APDU-level Type 4 card) and the '
           'correspondence harness harness/parts/tags_blk.py']
ASSUMPTIONS = {
    'C01': ['Type 3: the tag serves the Nbr blocks per read it declares and accepts min(Nbw, 13) blocks per write '
            '(13 = what a 255 byte FeliCa frame can carry); the switch to the NDEF system by Polling(12FCh) on '
            'multi-system cards is outside the model (exercised on the simulator, frames compared modulo the IDm)',
            'Type 4: ISO-DEP is a reliable APDU channel (property C12); MLe >= NLEN field size (the specification '
            'demands MLe >= 15); READ/UPDATE BINARY offsets are plain 16 bit offsets (no ODO), so the usable '
            'capacity is limited to 65536 - nlen_size',
            'Type 3 emulation: the application serves its memory array through services 0009h/000Bh the way '
            'examples/tagtool.py does'],
    'C02': ['a power cut takes effect between commands: the k-th state-changing command is executed completely',
            'Type 4: MLc >= NLEN field size (2 or 4); a card that cannot take the NLEN field in one UPDATE BINARY '
            'cannot be updated atomically by any writer'],
    'C03': ['Type 3 NDEF area = attribute block 0 and data blocks 1..Nmaxb; Type 4 NDEF area = the NDEF file up '
            'to the maximum file size declared in the capability container',
            'generic Type3Tag.format() (re-discovers and re-declares the data area) and the FeliCa Lite variants '
            'are not covered by this part'],
}
RULE = {
    'C01': 'block tags: T3 (Nbr/Nbw 1..15, Nmaxb, physical limits, WriteF/RWFlag/checksum variants), T3 emulation, '
           'T4 (mapping 2/3, application 1.0/2.0, MLe/MLc 1..65535, file sizes) x lengths {0,1,15,16,17,cap-1,cap,cap+1,'
           'chunk boundaries,random} x random old/new contents; first a sweep Nbr {1,2,14,15} x Nbw {1,2,12..15} x lengths '
           'k*16-1,k*16,k*16+1 on passive tag and emulation (commands with the maximum block count); non-trivial = needs more than one data command or sits '
           'on a capacity/chunk boundary',
    'C02': 'block tags: the same generator, every cut point k = 0..n of every write; non-trivial = cut strictly inside',
    'C03': 'block tags: the same generator plus Type 4 format with and without wipe; non-trivial = at least one data byte '
           'written',
}


# ------------------------------------------------------------------------------ helpers
def exc_name(e):
    if isinstance(e, nfc.tag.TagCommandError):
        return 'TagCommandError'
    if isinstance(e, SimHang):
        return 'hang'
    return type(e).__name__


def observe(tag):
    """what a tag object reports: the line format of extract/tags_blk_run.ml show_fresh"""
    try:
        n = tag.ndef
    except Exception as e:  # noqa
        return ('hang' if isinstance(e, SimHang) else 'exc ' + exc_name(e)), None
    if n is None:
        return 'none', None
    o = n.octets
    extra = {'length': n.length, 'octets': o, 'readable': n.is_readable, 'writeable': n.is_writeable,
             'capacity': n.capacity}
    return 'ndef %d %d %d %s' % (n.is_readable, n.is_writeable, n.capacity, o.hex() if o else '-'), extra


def hexarg(b):
    return bytes(b).hex() if len(b) else '-'


def rand_bytes(rng, n):
    return bytes(rng.getrandbits(8) for _ in range(n))


# ------------------------------------------------------------------------------ Type 3 (passive)
def t3_make(cfg):
    blocks = [t3_attribute_block(cfg['ver'], cfg['nbr'], cfg['nbw'], cfg['nmaxb'], cfg['writef'], cfg['rwflag'],
                                 cfg['ln'], cfg.get('rfu', 0), cfg.get('badsum', False))]
    body = bytes.fromhex(cfg['body'])
    blocks += [body[i:i + 16] for i in range(0, len(body), 16)]
    sysblocks = {0x88: bytes.fromhex(cfg['mc'])} if cfg.get('mc') else None
    return SimT3Tag(blocks, pmm=bytes.fromhex(cfg['pmm']) if cfg.get('pmm') else None, max_read=cfg['maxr'],
                    max_write=cfg['maxw'], rw_service=cfg['rw'], sys_in_sensf=not cfg.get('nosys'),
                    systems=tuple(cfg.get('systems') or (0x12FC,)), sysblocks=sysblocks, lite=bool(cfg.get('lite')))


def t3_wellformed(cfg):
    nphys = len(cfg['body']) // 32
    return (cfg['ver'] >> 4 == 1 and not cfg.get('badsum') and 1 <= cfg['nbr'] <= cfg['maxr'] and cfg['nbw'] >= 1 and
            min(cfg['nbw'], 13) <= cfg['maxw'] and cfg['nmaxb'] <= nphys and
            cfg['writef'] == 0 and cfg['rwflag'] != 0 and cfg['rw'] and cfg['ln'] <= 16 * cfg['nmaxb'] and
            0x12FC in (cfg.get('systems') or (0x12FC,)))


def t3_gen(rng, small=False):
    nmaxb = rng.choice([1, 2, 3, 4, 5, 8, 13, 14, 20] if small else [1, 2, 3, 5, 13, 14, 17, 20, 40, 255, 256, 300])
    r = rng.random()
    nbr = rng.choice([1, 2, 14, 15, 15, rng.randrange(1, 16), rng.randrange(1, 16)])
    nbw = rng.choice([1, 2, 12, 13, 14, 15, rng.randrange(1, 16), rng.randrange(1, 16)])
    cfg = dict(ver=rng.choice([0x10, 0x10, 0x11, 0x1F]), nbr=nbr, nbw=nbw, nmaxb=nmaxb, writef=0, rwflag=1,
               rfu=rng.choice([0, 0, 0xA5]), rw=True)
    cfg['maxr'] = rng.choice([nbr, 15])
    cfg['maxw'] = rng.choice([min(nbw, 13), 13])
    nphys = nmaxb + rng.choice([0, 0, 1, 3])
    cfg['ln'] = rng.choice([0, 0, 1, 16, 17, 16 * nmaxb, rng.randrange(0, 16 * nmaxb + 1)])
    if r < 0.04:
        cfg['writef'] = 0x0F
    elif r < 0.08:
        cfg['rwflag'] = 0
    elif r < 0.10:
        cfg['badsum'] = True
    elif r < 0.12:
        cfg['ver'] = 0x20
    elif r < 0.14:
        cfg['nbr'] = rng.choice([0, 16, 20])
    elif r < 0.16:
        cfg['nbw'] = 0
    elif r < 0.18:
        cfg['maxw'] = max(1, min(nbw, 13) - 1)      # the tag accepts less than it declares
    elif r < 0.20:
        nphys = max(0, nmaxb - 1)                   # the tag has fewer blocks than it declares
    elif r < 0.22:
        cfg['rw'] = False
    elif r < 0.24:
        cfg['ln'] = 16 * nmaxb + rng.choice([1, 16, 40])
    cfg['body'] = rand_bytes(rng, 16 * nphys).hex()
    return cfg


def t3_lengths(rng, cap, cfg=None):
    ls = {0, 1, 15, 16, 17, cap - 1, cap, cap + 1, rng.randrange(0, cap + 1), rng.randrange(0, cap + 1)}
    if cfg is not None:       # exactly the largest single read / write command, one byte less, one byte more
        for k in (cfg['nbr'], cfg['nbw'], min(cfg['nbw'], 13)):
            ls |= {k * 16 - 1, k * 16, k * 16 + 1}
    return sorted(x for x in ls if 0 <= x <= cap + 1)


def t3_model_line(cfg, data, cut):
    tag = t3_make(cfg)
    return 't3 %d %d %d %d %s %s' % (cfg['maxr'], cfg['maxw'], cfg['rw'], cut, tag.memory().hex(),
                                     'none' if data is None else hexarg(data))


def t3_real(cfg, data, cut, make=t3_make, session=T3Session):
    """-> (model-format line, details)"""
    sim = make(cfg)
    before = sim.memory()
    s = session(sim)
    tag = s.activate()
    f0, x0 = observe(tag)
    if data is None or f0.startswith('exc') or f0 == 'hang':
        return f0, dict(f0=f0, x0=x0)
    nframes = len(s.frames)
    if cut >= 0:
        s.cut_after = cut
        s.dead = cut == 0
    try:
        tag.ndef.octets = data
        r = 'ok'
    except Exception as e:  # noqa
        r = 'exc ' + exc_name(e)
    after = sim.memory()
    f1, x1 = observe(session(sim).activate())
    idm0 = getattr(sim, 'idm', None)      # multi-system card: frames carry the IDm of the NDEF system
    frames = [(rec['frame'][:2] + bytes(idm0) + rec['frame'][10:]) if idm0 is not None else rec['frame'] for rec in s.log]
    line = ' | '.join([f0, r, ','.join(f.hex() for f in frames), after.hex(), f1])
    return line, dict(f0=f0, x0=x0, r=r, log=s.log, before=before, after=after, f1=f1, x1=x1,
                      ncmd=len(s.frames) - nframes)


# ------------------------------------------------------------------------------ Type 3 emulation
def emu_make(cfg):
    return EmuMemory(bytes(t3_attribute_block(cfg['ver'], cfg['nbr'], cfg['nbw'], cfg['nmaxb'], cfg['writef'],
                                              cfg['rwflag'], cfg['ln'], cfg.get('rfu', 0), cfg.get('badsum', False))) +
                     bytes.fromhex(cfg['body']))


class _EmuSim(object):
    """adapter so that t3_real can drive the emulation"""

    def __init__(self, mem):
        self.mem = mem

    def memory(self):
        return bytes(self.mem.data)


def emu_real(cfg, data, cut):
    return t3_real(cfg, data, cut, make=lambda c: _EmuSim(emu_make(c)),
                   session=lambda sim: EmuSession(sim.mem))


def emu_gen(rng, small=False):
    cfg = t3_gen(rng, small)
    cfg['maxr'], cfg['maxw'], cfg['rw'] = 15, 13, True
    if cfg['nbr'] > 15 and rng.random() < 0.5:
        cfg['nbr'] = 15
    return cfg


def emu_wellformed(cfg):
    nphys = len(cfg['body']) // 32
    return (cfg['ver'] >> 4 == 1 and not cfg.get('badsum') and 1 <= cfg['nbr'] <= 15 and cfg['nbw'] >= 1 and
            cfg['nmaxb'] <= nphys and cfg['writef'] == 0 and cfg['rwflag'] != 0 and cfg['ln'] <= 16 * cfg['nmaxb'])


def emu_model_line(cfg, data, cut):
    return 'emu %d %s %s' % (cut, bytes(emu_make(cfg).data).hex(), 'none' if data is None else hexarg(data))


# ------------------------------------------------------------------------------ Type 4
def t4_make(cfg):
    fid = bytes.fromhex(cfg['fid'])
    cc = t4_cc(cfg['mapping'], cfg['mle'], cfg['mlc'], fid, cfg['mfs'], cfg['rf'], cfg['wf'])
    if cfg.get('ver') is not None:
        cc = cc[:2] + bytes([cfg['ver']]) + cc[3:]
    aids = ([AID_V2] if cfg['v2'] else []) + ([AID_V1] if cfg['v1'] else [])
    return SimT4Card(cc, fid, bytes.fromhex(cfg['file']), aids=aids, other={b'\xE1\x05': b'\x5A' * 16})


def t4_nlen(cfg):
    return 2 if cfg['mapping'] == 2 else 4


def t4_wellformed(cfg):
    ns = t4_nlen(cfg)
    phys = len(cfg['file']) // 2
    nlen = int.from_bytes(bytes.fromhex(cfg['file'])[:ns], 'big') if phys >= ns else -1
    return ((cfg['v2'] or cfg['v1']) and cfg.get('ver') is None and cfg['mle'] >= ns and cfg['mlc'] >= 1 and
            ns + 1 <= cfg['mfs'] <= phys and cfg['rf'] == 0 and cfg['wf'] == 0 and 0 <= nlen <= min(cfg['mfs'], 65536) - ns)


def t4_gen(rng, small=False, big=False):
    mapping = rng.choice([2, 2, 3])
    ns = 2 if mapping == 2 else 4
    mfs = rng.choice([5, 8, 16, 40, 64, 100] if small else [5, 8, 16, 64, 100, 255, 256, 257, 258, 300, 600, 1000])
    mle = rng.choice([ns, 15, 16, 59, 128, 250, 253, 254, 255, 256, 257, 1000, 65535, rng.randrange(ns, 256)])
    mlc = rng.choice([1, 2, 3, 4, 5, 6, 13, 52, 128, 250, 253, 254, 255, 256, 1000, 65535, rng.randrange(1, 256)])
    if small:
        mlc = rng.choice([1, 2, 3, 4, 5, 6, 7, 13, 20, 52, 255, 256, 4000])
    if big and rng.random() < 0.5:
        mfs = rng.choice([4096, 32767, 65535] + ([65536, 65537, 65600, 70000] if mapping == 3 else []))
        mle = rng.choice([250, 255, 256, 257, 1000, 65535])       # keep the command count of huge files moderate
        mlc = rng.choice([250, 253, 255, 256, 1000, 65535])
    cfg = dict(mapping=mapping, mle=mle, mlc=mlc, mfs=mfs, rf=0, wf=0, fid=rng.choice(['e104', 'e104', '0001', 'beef']),
               v2=True, v1=False)
    r = rng.random()
    phys = mfs + rng.choice([0, 0, 0, 3, 8])
    if r < 0.06:
        cfg['v2'], cfg['v1'] = False, True
    elif r < 0.10:
        cfg['v1'] = True
    elif r < 0.13:
        cfg['wf'] = 0xFF
    elif r < 0.16:
        cfg['rf'] = 0x80
    elif r < 0.18:
        cfg['ver'] = rng.choice([0x10, 0x40, 0x00])
    elif r < 0.20:
        cfg['mle'] = rng.randrange(1, ns)
    elif r < 0.22:
        phys = max(ns, mfs - rng.choice([1, 4]))       # the file is shorter than declared
    elif r < 0.23:
        cfg['v2'] = False
    cap = max(0, min(mfs, phys) - ns)
    old = rng.choice([0, 0, 1, cap, rng.randrange(0, cap + 1)])
    if 0.24 <= r < 0.26:
        old = cap + rng.choice([1, 5])
    f = bytearray(rand_bytes(rng, phys))
    f[:ns] = old.to_bytes(ns, 'big')[:len(f[:ns])]
    cfg['file'] = bytes(f).hex()
    return cfg


def t4_lengths(rng, cfg, cap):
    ns = t4_nlen(cfg)
    mlc = min(cfg['mlc'], 255)
    mle = min(cfg['mle'], 256)
    ls = {0, 1, 15, 16, 17, cap - 1, cap, cap + 1, mlc - ns - 1, mlc - ns, mlc - ns + 1, 2 * mlc - ns, 253, 254, 255, 256,
          mle - 1, mle, mle + 1, 2 * mle, mlc - 1, mlc, mlc + 1,
          rng.randrange(0, cap + 1), rng.randrange(0, cap + 1)}
    return sorted(x for x in ls if 0 <= x <= cap + 1)


def t4_args(cfg):
    card = t4_make(cfg)
    return '%d %d %%d %s %s %s' % (cfg['v2'], cfg['v1'], card.files[b'\xE1\x03'].hex(), cfg['fid'], hexarg(card.files[card.fid]))


def t4_model_line(cfg, what, arg, cut):
    base = 't4 ' + t4_args(cfg) % cut
    if what == 'read':
        return base + ' read'
    if what == 'write':
        return base + ' write ' + hexarg(arg)
    return base + ' format ' + ('none' if arg is None else str(arg))


def t4_real(cfg, what, arg, cut):
    card = t4_make(cfg)
    before = card.memory()
    s = T4Session(card)
    tag = s.activate()
    f0, x0 = observe(tag)
    if what == 'read' or f0.startswith('exc') or f0 == 'hang':
        return f0, dict(f0=f0, x0=x0)
    napdu = len(s.apdus)
    if cut >= 0:
        s.cut_after = cut
        s.dead = cut == 0
    try:
        if what == 'write':
            tag.ndef.octets = arg
            r = 'ok'
        else:
            r = 'ok ' + {True: 'true', False: 'false', None: 'none'}[tag.format(wipe=arg)]
    except Exception as e:  # noqa
        r = 'exc ' + exc_name(e)
    after = card.memory()
    f1, x1 = observe(T4Session(card).activate())
    upd = [a.hex() for a in s.apdus[napdu:] if a[1] == 0xD6][:len(s.log)]
    line = ' | '.join([f0, r, ','.join(upd), hexarg(card.files[card.fid]), card.files[b'\xE1\x03'].hex(), f1])
    return line, dict(f0=f0, x0=x0, r=r, log=s.log, before=before, after=after, f1=f1, x1=x1,
                      ncmd=len(s.apdus) - napdu, apdus=[a.hex() for a in s.apdus[napdu:]])


# ------------------------------------------------------------------------------ cut runs
def cuts_real(kind, cfg, data):
    """-> model-format line 'n | r;mem;fresh | ...' and the list of per-k details"""
    if kind == 't4':
        line, d = t4_real(cfg, 'write', data, -1)
    elif kind == 't3':
        line, d = t3_real(cfg, data, -1)
    else:
        line, d = emu_real(cfg, data, -1)
    if 'log' not in d:
        return line, []
    n = len(d['log'])
    parts, det = [str(n)], []
    for k in range(n + 1):
        if kind == 't4':
            ln, dk = t4_real(cfg, 'write', data, k)
            f = ln.split(' | ')
            parts.append(';'.join([f[1], f[3], f[5]]))
        else:
            ln, dk = (t3_real if kind == 't3' else emu_real)(cfg, data, k)
            f = ln.split(' | ')
            parts.append(';'.join([f[1], f[3], f[4]]))
        det.append(dk)
    return ' | '.join(parts), det


def cuts_model_line(kind, cfg, data):
    if kind == 't4':
        a = t4_args(cfg).replace(' %d', '', 1)
        return 't4cuts %s %s' % (a, hexarg(data))
    if kind == 't3':
        return 't3cuts %d %d %d %s %s' % (cfg['maxr'], cfg['maxw'], cfg['rw'], t3_make(cfg).memory().hex(), hexarg(data))
    return 'emucuts %s %s' % (bytes(emu_make(cfg).data).hex(), hexarg(data))


# ------------------------------------------------------------------------------ monitors
def key_of(kind, what):
    return 'blk:%s:%s' % (kind, what)


def mon_c01(ck, kind, cfg, data, d, cap_room):
    """write then read round trip on a well-formed configuration"""
    x0 = d.get('x0')
    if x0 is None:
        ck.violation(key_of(kind, 'wellformed-not-read'), 'a well-formed %s tag is not recognised as NDEF tag (%s)' % (kind, d['f0']),
                     dict(kind=kind, cfg=cfg))
        return
    cap = x0['capacity']
    case = dict(kind=kind, cfg=cfg, data=hx(data))
    if cap > cap_room:
        ck.violation(key_of(kind, 'capacity-exceeds-room'), 'reported capacity %d exceeds what the layout holds (%d)' % (cap, cap_room), case)
    if len(data) > cap:
        if d['r'] != 'exc ValueError' or d['ncmd'] != 0 or d['before'] != d['after']:
            ck.violation(key_of(kind, 'oversize-not-rejected'),
                         'data longer than the capacity: result %s after %d commands' % (d['r'], d['ncmd']), case)
        return
    x1 = d.get('x1')
    if d['r'] != 'ok':
        ck.violation(key_of(kind, 'write-fails:' + d['r'].split()[-1]),
                     'writing %d bytes (capacity %d) fails with %s' % (len(data), cap, d['r']), case)
    elif x1 is None or not x1['readable'] or x1['octets'] != bytes(data) or x1['length'] != len(data) or x1['capacity'] != cap:
        got = d['f1'][:60]
        ck.violation(key_of(kind, 'readback-differs'),
                     'a fresh reader does not return the %d bytes written: %s' % (len(data), got), case)


def classify_c02(x_old, new, f, x):
    """which of the allowed outcomes does a fresh reader see"""
    if f.startswith('exc'):
        return 'crash'
    if x is None or not x['readable']:
        return 'not-readable'
    if x['octets'] == new and x['length'] == len(new):
        return 'new'
    if x['octets'] == b'':
        return 'empty'
    if x_old is not None and x_old['readable'] and x['octets'] == x_old['octets']:
        return 'old'
    return 'mixture'


def mon_c02(ck, kind, cfg, data, dets):
    x_old = dets[0].get('x0') if dets else None
    for k, dk in enumerate(dets):
        c = classify_c02(x_old, bytes(data), dk['f1'], dk.get('x1'))
        ck.count('%s-cut-%s' % (kind, c))
        if c in ('mixture', 'crash'):
            ck.violation(key_of(kind, 'cut-' + c),
                         'power cut after command %d of %d: a fresh reader sees %s (%s)' % (k, len(dets) - 1, c, dk['f1'][:50]),
                         dict(kind=kind, cfg=cfg, data=hx(data), cut=k))


def mon_c03_t3(ck, kind, cfg, data, d):
    nmaxb = cfg['nmaxb']
    case = dict(kind=kind, cfg=cfg, data=hx(data))
    for rec in d.get('log', []):
        if any(b > nmaxb for b in rec['blocks']):
            ck.violation(key_of(kind, 'write-beyond-nmaxb'), 'write command addresses block(s) %s beyond Nmaxb=%d' % (rec['blocks'], nmaxb), case)
    b, a = d['before'], d['after']
    lim = 16 * (nmaxb + 1)
    if len(a) != len(b) or a[lim:] != b[lim:]:
        ck.violation(key_of(kind, 'bytes-changed-outside'), 'memory beyond block Nmaxb=%d changed' % nmaxb, case)


def mon_c03_t4(ck, cfg, what, arg, d):
    case = dict(kind='t4', cfg=cfg, what=what, arg=hx(arg) if isinstance(arg, (bytes, bytearray)) else arg)
    fid = cfg['fid']
    for rec in d.get('log', []):
        if rec['fid'] != fid or rec['offset'] + len(rec['data']) > cfg['mfs']:
            ck.violation(key_of('t4', 'update-outside-ndef-file'),
                         'UPDATE BINARY on file %s offset %d length %d (NDEF file %s, size %d)' %
                         (rec['fid'], rec['offset'], len(rec['data']), fid, cfg['mfs']), case)
    for k in d['before']:
        if k != fid and d['before'][k] != d['after'][k]:
            ck.violation(key_of('t4', 'other-file-changed'), 'file %s changed' % k, case)
    if d['before'][fid][cfg['mfs']:] != d['after'][fid][cfg['mfs']:]:
        ck.violation(key_of('t4', 'bytes-beyond-mfs-changed'), 'bytes beyond the declared file size changed', case)


# ------------------------------------------------------------------------------ the run
CORPUS_T3 = [
    # Nbw 13 on a tag with more than 255 blocks (3-byte block list elements): frame would be 261 bytes
    (dict(ver=0x10, nbr=1, nbw=13, nmaxb=300, writef=0, rwflag=1, rw=True, maxr=15, maxw=13, ln=0, body='00' * (16 * 300)), 4800),
    # declared Nbw above what a frame can carry
    (dict(ver=0x10, nbr=15, nbw=15, nmaxb=20, writef=0, rwflag=1, rw=True, maxr=15, maxw=13, ln=0, body='ee' * (16 * 20)), 320),
]
MAXBLOCK_PAIRS = [(15, 13), (15, 15), (14, 14), (14, 12), (2, 2), (1, 1)]
CORPUS_T4 = [
    # MLc smaller than the NLEN field: final NLEN update truncated
    (dict(mapping=2, mle=15, mlc=1, mfs=600, rf=0, wf=0, fid='e104', v2=True, v1=False, file='0000' + 'ee' * 598), 300),
    (dict(mapping=3, mle=59, mlc=3, mfs=64, rf=0, wf=0, fid='e104', v2=True, v1=False, file='00000000' + 'ee' * 60), 10),
    # MLe / MLc beyond a short APDU
    (dict(mapping=2, mle=257, mlc=255, mfs=1000, rf=0, wf=0, fid='e104', v2=True, v1=False, file='0000' + 'ee' * 998), 998),
    (dict(mapping=2, mle=255, mlc=256, mfs=1000, rf=0, wf=0, fid='e104', v2=True, v1=False, file='0000' + 'ee' * 998), 998),
    (dict(mapping=2, mle=4000, mlc=4000, mfs=1000, rf=0, wf=0, fid='e104', v2=True, v1=False, file='0000' + 'ee' * 998), 254),
]
CORPUS_T4_BIG = [
    # file beyond the 16 bit offset range
    (dict(mapping=3, mle=200, mlc=200, mfs=70000, rf=0, wf=0, fid='e104', v2=True, v1=False, file='00000000' + 'ee' * 69996), 69996),
]


# ------------------------------------------------------------------------------ repairs of other properties
# The models follow the C08 repairs fixes/c08-04..10 (behaviour on tags that are NOT well-formed).  As long as
# a repair is not in the tree under test, the old behaviour on exactly that input class is tolerated in the
# correspondence (it is C08's finding, not a disagreement about C01-C03).  Whether a repair is present is
# decided by one canonical probe of the real code per class; with the repair present the class is compared
# like everything else.
def detect_pending():
    pend = set()
    body = bytes(range(256)) + bytes(64)

    def t3(**kw):
        cfg = dict(ver=0x10, nbr=4, nbw=3, nmaxb=5, writef=0, rwflag=1, rw=True, maxr=15, maxw=13, ln=16, body=body.hex())
        cfg.update(kw)
        return observe(T3Session(t3_make(cfg)).activate())[0]
    if t3(nbr=0) != 'none':
        pend.add('t3-nbr0')
    if t3(ln=16 * 5 + 16) != 'none':
        pend.add('t3-ln')
    if t3(nbr=16, nmaxb=19, ln=16 * 16).startswith('none'):
        pend.add('t3-nbrcap')

    def t4(mfs, phys, nlen):
        f = bytearray(b'\x33' * phys)
        f[:2] = nlen.to_bytes(2, 'big')
        cfg = dict(mapping=2, mle=59, mlc=52, mfs=mfs, rf=0, wf=0, fid='e104', v2=True, v1=False, file=bytes(f).hex())
        return observe(T4Session(t4_make(cfg)).activate())[0]
    if t4(32, 64, 40) != 'none':
        pend.add('t4-nlen')
    if t4(64, 32, 40) != 'none':
        pend.add('t4-nodata')
    return pend


def pending_classes(kind, cfg):
    c = set()
    if kind in ('t3', 'emu'):
        if cfg['nbr'] == 0:
            c.add('t3-nbr0')
        if cfg['nbr'] > 15:
            c.add('t3-nbrcap')
        if cfg['ln'] > 16 * cfg['nmaxb']:
            c.add('t3-ln')
    else:
        ns = t4_nlen(cfg)
        f = bytes.fromhex(cfg['file'])
        cap = min(cfg['mfs'], 65536) - ns
        if len(f) >= ns and int.from_bytes(f[:ns], 'big') > cap:
            c |= {'t4-nlen', 't4-nodata'}
        if len(f) < cfg['mfs']:
            c.add('t4-nodata')
    return c


class Batch(object):
    """collect model lines and the implementation's lines, compare at the end"""

    def __init__(self, ck, mr):
        self.ck, self.mr = ck, mr
        self.lines, self.impl, self.meta = [], [], []
        self.pending = detect_pending()
        if self.pending:
            ck.notes.append('blk: repairs not in the tree under test, old behaviour tolerated on these input classes: ' +
                            ', '.join(sorted(self.pending)))

    def add(self, mline, iline, meta):
        self.lines.append(mline)
        self.impl.append(iline)
        self.meta.append(meta)

    def flush(self):
        if not self.lines or self.mr is None:
            return
        out = self.mr.run(self.lines, timeout=1500)
        nmis = 0
        for ml, il, meta, got in zip(self.lines, self.impl, self.meta, out):
            if got != il:
                tol = self.pending & pending_classes(meta['kind'], meta['fullcfg'])
                if tol:
                    self.ck.count('blk-tolerated-' + '+'.join(sorted(tol)))
                    continue
                nmis += 1
                if nmis <= 3:
                    gi, ii = got.split(' | '), il.split(' | ')
                    diff = [j for j in range(max(len(gi), len(ii))) if (gi[j:j + 1] != ii[j:j + 1])]
                    j = diff[0] if diff else 0
                    self.ck.correspondence_mismatch('blk-' + meta['kind'], dict(
                        {k: v for k, v in meta.items() if k != 'fullcfg'}, field=j, impl=(ii[j] if j < len(ii) else '')[:300], model=(gi[j] if j < len(gi) else '')[:300]))
        self.ck.cov['traces_validated_against_impl'] = self.ck.cov.get('traces_validated_against_impl', 0) + len(self.lines) - nmis
        self.lines, self.impl, self.meta = [], [], []


def run_case(ck, pid, batch, kind, cfg, data):
    """one write of `data` to the configuration, all observations and monitors for property pid"""
    if kind == 't3':
        wf, real, mline = t3_wellformed(cfg), t3_real, t3_model_line
        room = 16 * min(cfg['nmaxb'], len(cfg['body']) // 32)
    elif kind == 'emu':
        wf, real, mline = emu_wellformed(cfg), emu_real, emu_model_line
        room = 16 * min(cfg['nmaxb'], len(cfg['body']) // 32)
    else:
        wf = t4_wellformed(cfg)
        room = len(cfg['file']) // 2 - t4_nlen(cfg)
    meta = dict(kind=kind, cfg={k: (v if k not in ('body', 'file') or len(v) <= 128 else v[:128] + '...') for k, v in cfg.items()},
                data=hx(data)[:128], datalen=len(data), wellformed=wf, fullcfg=cfg)
    if pid == 'C02':
        if kind == 't4' and cfg['mlc'] < t4_nlen(cfg):
            wf = False                       # NLEN cannot be written in one command: outside the property's reach
        iline, dets = cuts_real(kind, cfg, data)
        batch.add(cuts_model_line(kind, cfg, data), iline, meta)
        n = len(dets) - 1
        ck.case((kind, json.dumps(cfg, sort_keys=True), hx(data)), wf and n >= 3,
                dict(kind=kind, cfg=meta['cfg'], datalen=len(data), commands=n, wellformed=wf))
        if wf and dets and len(data) <= dets[0]['x0']['capacity'] if dets and dets[0].get('x0') else False:
            mon_c02(ck, kind, cfg, data, dets)
        return
    if kind == 't4':
        iline, d = t4_real(cfg, 'write', data, -1)
        batch.add(t4_model_line(cfg, 'write', data, -1), iline, meta)
    else:
        iline, d = real(cfg, data, -1)
        batch.add(mline(cfg, data, -1), iline, meta)
    ncmd = len(d.get('log', []))
    ck.count('%s-%s' % (kind, d.get('r', d['f0']).split()[-1] if 'r' in d else 'unreadable'))
    if pid == 'C01':
        cap = d['x0']['capacity'] if d.get('x0') else 0
        ck.case((kind, json.dumps(cfg, sort_keys=True), hx(data)), wf and (ncmd >= 4 or len(data) >= cap - 1 or (kind == 't4' and ncmd >= 2)),
                dict(kind=kind, cfg=meta['cfg'], datalen=len(data), commands=ncmd, wellformed=wf))
        if wf:
            mon_c01(ck, kind, cfg, data, d, room)
    else:
        ck.case((kind, json.dumps(cfg, sort_keys=True), hx(data)), wf and ncmd >= 2,
                dict(kind=kind, cfg=meta['cfg'], datalen=len(data), commands=ncmd, wellformed=wf))
        if 'before' in d:
            if kind == 't4':
                mon_c03_t4(ck, cfg, 'write', data, d)
            elif cfg['nmaxb'] <= len(cfg['body']) // 32:
                mon_c03_t3(ck, kind, cfg, data, d)


def run_format(ck, batch, cfg, wipe):
    iline, d = t4_real(cfg, 'format', wipe, -1)
    meta = dict(kind='t4', cfg={k: (v if k != 'file' or len(v) <= 128 else v[:128] + '...') for k, v in cfg.items()}, format=True, wipe=wipe,
                fullcfg=cfg)
    batch.add(t4_model_line(cfg, 'format', wipe, -1), iline, meta)
    ck.case(('t4fmt', json.dumps(cfg, sort_keys=True), wipe), t4_wellformed(cfg) and wipe is not None,
            dict(kind='t4-format', cfg=meta['cfg'], wipe=wipe))
    if 'before' in d:
        mon_c03_t4(ck, cfg, 'format', wipe, d)


# ------------------------------------------------------------------------------ histories on ONE tag object
# Tag.ndef -> Tag.format(..) -> tag.ndef.octets = .. through the real base class code (src/nfc/tag/__init__.py).
# Monitor only (format of Type 3 tags is not modelled): what the SAME tag object reports after format is what a
# fresh activation reports; data beyond that capacity is refused before any command; data within it is written
# inside the frame the new attribute block declares and read back by a fresh reader.
def _quiet(fn):
    import contextlib
    import io
    with contextlib.redirect_stdout(io.StringIO()):
        return fn()


def t3_write_attempts(sim, n0):
    return [b for bl in sim.attempts[n0:] for b in bl]


def run_history(ck, pid, kind, cfg, fmt, lengths):
    case = dict(kind=kind, history=True, cfg=cfg, format=fmt, lengths=lengths)
    for n in lengths:
        if kind == 't4':
            sim = t4_make(cfg)
            s = T4Session(sim)
            mem = lambda: sim.memory()          # noqa: E731
        else:
            sim = t3_make(cfg)
            s = T3Session(sim)
            mem = lambda: sim.memory()          # noqa: E731
        tag = s.activate()
        f0, x0 = observe(tag)
        try:
            st = _quiet(lambda: tag.format(**fmt))
        except Exception as e:  # noqa
            st = 'exc ' + exc_name(e)
        ck.case((kind + '-history', json.dumps(cfg, sort_keys=True), json.dumps(fmt, sort_keys=True), n), st is True,
                dict(kind=kind + '-history', format=fmt, status=str(st), datalen=n))
        ck.count('%s-history-format-%s' % (kind, st))
        if st is not True:
            continue
        fs, xs = observe(tag)                                        # the same object
        if kind == 't4':
            ff, xf = observe(T4Session(sim).activate())
        else:
            ff, xf = observe(T3Session(sim).activate())
        data = bytes((11 * i + 5) & 255 for i in range(n))
        c = dict(case, datalen=n)
        if xf is None or xs is None:
            if (xf is None) != (xs is None):
                ck.violation(key_of(kind, 'history-ndef-differs'), 'after format the tag object reports %s, a fresh activation %s' % (fs[:30], ff[:30]), c)
            continue
        if pid == 'C01' and (xs['capacity'] != xf['capacity'] or xs['octets'] != xf['octets']):
            ck.violation(key_of(kind, 'history-stale-ndef'),
                         'after format the same tag object reports capacity %d / %d octets, a fresh activation %d / %d'
                         % (xs['capacity'], len(xs['octets']), xf['capacity'], len(xf['octets'])), c)
        cap = xf['capacity']
        before = mem()
        nfr = len(s.frames) if kind != 't4' else len(s.apdus)
        natt = len(sim.attempts) if kind != 't4' else len(s.log)
        try:
            tag.ndef.octets = data
            r = 'ok'
        except Exception as e:  # noqa
            r = 'exc ' + exc_name(e)
        after = mem()
        ncmd = (len(s.frames) if kind != 't4' else len(s.apdus)) - nfr
        if pid == 'C01':
            if n > cap:
                if r != 'exc ValueError' or ncmd != 0 or before != after:
                    ck.violation(key_of(kind, 'history-oversize-not-rejected'),
                                 'after format the capacity is %d, writing %d bytes: %s after %d commands' % (cap, n, r, ncmd), c)
            elif xf['writeable']:
                f1, x1 = observe((T4Session if kind == 't4' else T3Session)(sim).activate())
                if r != 'ok' or x1 is None or x1['octets'] != data or x1['capacity'] != cap:
                    ck.violation(key_of(kind, 'history-readback-differs'),
                                 'after format writing %d bytes (capacity %d): %s, fresh reader %s' % (n, cap, r, f1[:40]), c)
        if pid == 'C03':
            if kind == 't4':
                d = dict(log=s.log[natt:], before=before, after=after)
                mon_c03_t4(ck, cfg, 'history', n, d)
            else:
                a = sim.blocks[0]
                nmaxb = a[3] << 8 | a[4]
                beyond = sorted(set(b for b in t3_write_attempts(sim, natt) if b > nmaxb))
                if beyond:
                    ck.violation(key_of(kind, 'history-write-beyond-nmaxb'),
                                 'after format Nmaxb is %d, writing %d bytes addressed block(s) %s' % (nmaxb, n, beyond[:6]), c)
                lim = 16 * (nmaxb + 1)
                if before[lim:] != after[lim:]:
                    ck.violation(key_of(kind, 'history-bytes-changed-outside'), 'memory beyond block Nmaxb=%d changed' % nmaxb, c)


def histories(ck, pid, quick):
    import random
    rng = random.Random(ck.seed * 7919 + 31)        # own stream: the main generator stays as it was
    body = lambda k: bytes((3 * i + 1) & 255 for i in range(16 * k)).hex()   # noqa: E731
    # generic Type 3 Tag whose attribute block announces more / fewer blocks than format() finds
    for decl, phys in [(12, 6), (6, 12), (4, 4), (20, 3)] + [(rng.randrange(1, 30), rng.randrange(1, 30)) for _ in range(3 if quick else 30)]:
        cfg = dict(ver=0x10, nbr=4, nbw=4, nmaxb=decl, writef=0, rwflag=1, rw=True, maxr=rng.choice([4, 12, 15]),
                   maxw=rng.choice([4, 8, 13]), ln=0, body=body(phys))
        ls = sorted({0, 16 * phys - 1, 16 * phys, 16 * phys + 1, 16 * min(decl, phys) + 1, 16 * max(decl, phys), 150})
        for fmt in ({}, {'wipe': rng.randrange(256)}):
            run_history(ck, pid, 't3', cfg, fmt, ls)
    # FeliCa Lite: format() derives Nmaxb from the read/write permission bits of the MC block
    for decl, k in [(13, 5), (5, 13), (13, 13), (8, 1)] + [(rng.randrange(1, 14), rng.randrange(1, 14)) for _ in range(3 if quick else 20)]:
        rw = (1 << (k + 1)) - 1
        mc = bytes([rw & 255, rw >> 8, 0xFF, rng.choice([0, 1])]) + bytes(12)
        cfg = dict(ver=0x10, nbr=4, nbw=1, nmaxb=decl, writef=0, rwflag=1, rw=True, maxr=4, maxw=1, ln=0, body=body(13),
                   pmm='00f0000000000000', lite=True, mc=mc.hex())
        ls = sorted({0, 1, 16 * k - 1, 16 * k, 16 * k + 1, 16 * decl, 16 * decl + 1})
        for fmt in ({}, {'wipe': rng.randrange(256)}):
            run_history(ck, pid, 't3', cfg, fmt, ls)
    # Type 4
    for _ in range(6 if quick else 60):
        cfg = t4_gen(rng, small=True)
        if not t4_wellformed(cfg):
            continue
        cap = cfg['mfs'] - t4_nlen(cfg)
        for fmt in ({}, {'wipe': rng.randrange(256)}):
            run_history(ck, pid, 't4', cfg, fmt, sorted({0, 1, cap - 1, cap, cap + 1}))


def multisystem(ck, pid, batch, quick):
    """FeliCa cards with several systems (each system has its own IDm, system number in the top nibble): the reader
    finds system 0 with the wildcard system code and has to switch to the NDEF system by Polling(12FCh)"""
    import random
    rng = random.Random(ck.seed * 7919 + 57)
    cut = pid == 'C02'
    variants = [dict(systems=[0x0003, 0x12FC]), dict(systems=[0x0003, 0x12FC], pmm='0120220427674eff'),
                dict(systems=[0x12FC, 0x0003]), dict(systems=[0xFE00, 0x0003, 0x12FC]), dict(nosys=True)]
    for v in variants:
        for nbr, nbw in ((12, 8), (4, 1)):
            cfg = dict(ver=0x10, nbr=nbr, nbw=nbw, nmaxb=20, writef=0, rwflag=1, rw=True, maxr=15, maxw=13,
                       ln=rng.choice([0, 33]), body=rand_bytes(rng, 16 * 20).hex())
            cfg.update(v)
            for n in ([0, 47, 320] if cut else [0, 1, 47, 16 * nbr, 319, 320, 321]):
                run_case(ck, pid, batch, 't3', cfg, rand_bytes(rng, n))
    for _ in range(4 if quick else 60):
        cfg = t3_gen(rng, small=True)
        cfg.update(rng.choice(variants))
        for n in rng.sample(t3_lengths(rng, 16 * cfg['nmaxb'], cfg), 3):
            run_case(ck, pid, batch, 't3', cfg, rand_bytes(rng, n))
    batch.flush()


def replay(ck, pid, mr):
    case = json.load(open(ck.replay)).get('case', {})
    if not isinstance(case, dict) or case.get('kind') not in ('t3', 'emu', 't4'):
        return False
    if case.get('history'):
        run_history(ck, pid, case['kind'], case['cfg'], case.get('format') or {}, [case.get('datalen', 0)])
        return True
    batch = Batch(ck, mr)
    if case.get('what') == 'format':
        run_format(ck, batch, case['cfg'], case.get('arg'))
    else:
        run_case(ck, pid, batch, case['kind'], case['cfg'], bytes.fromhex(case.get('data', '')))
    batch.flush()
    return True


def run(ck, pid, mr):
    rng = ck.rng
    quick = ck.tier == 'quick'
    if ck.replay:
        replay(ck, pid, mr)      # a replay file of another part is not ours: nothing to do here
        return
    batch = Batch(ck, mr)
    cut = pid == 'C02'

    multisystem(ck, pid, batch, quick)
    if not cut:
        histories(ck, pid, quick)

    # commands carrying the maximum number of blocks the tag announces (and the largest a frame can carry):
    # Nbr in {1,2,14,15} x Nbw in {1,2,12..15} x messages of exactly k*16-1, k*16, k*16+1 octets, old message of
    # Nbr*16 octets so that the writer's own first read already asks for Nbr blocks in one command
    for kind in ('emu', 't3'):
        for nbr, nbw in MAXBLOCK_PAIRS:
            cfg = dict(ver=0x10, nbr=nbr, nbw=nbw, nmaxb=20, writef=0, rwflag=1, rw=True, maxr=15, maxw=13,
                       ln=16 * nbr, body=bytes((5 * i + 3) & 255 for i in range(16 * 20)).hex())
            for n in sorted({k * 16 + e for k in (nbr, nbw, min(nbw, 13)) for e in (-1, 0, 1)}):
                run_case(ck, pid, batch, kind, cfg, bytes((7 * i + 1) & 255 for i in range(n)))
    batch.flush()

    # corpus of minimised past failures first
    for cfg, n in CORPUS_T3:
        if not cut or n <= 400:
            run_case(ck, pid, batch, 't3', cfg, bytes((7 * i + 1) & 255 for i in range(n)))
            run_case(ck, pid, batch, 'emu', cfg, bytes((7 * i + 1) & 255 for i in range(n)))
    for cfg, n in CORPUS_T4 + ([] if (quick or cut) else CORPUS_T4_BIG):
        if not cut or n <= 400:
            run_case(ck, pid, batch, 't4', cfg, bytes((7 * i + 1) & 255 for i in range(n)))
    batch.flush()

    # Type 3 passive tag and the emulation
    n3 = (40 if quick else 1500) if cut else (70 if quick else 900)
    for kind, gen, count in (('t3', t3_gen, n3), ('emu', emu_gen, n3 // 2)):
        for _ in range(count):
            cfg = gen(rng, small=cut or rng.random() < 0.7)
            cap = 16 * cfg['nmaxb']
            ls = t3_lengths(rng, cap, cfg)
            if cut:
                ls = rng.sample(ls, min(len(ls), 3 if quick else 5))
            elif quick and cap > 1000:
                ls = rng.sample(ls, 4)
            for n in ls:
                run_case(ck, pid, batch, kind, cfg, rand_bytes(rng, n))
        batch.flush()
        if not quick and not cut:
            # every length 0 .. capacity+1 on 40 small configurations
            for _ in range(40):
                cfg = gen(rng, small=True)
                for n in range(0, 16 * cfg['nmaxb'] + 2):
                    run_case(ck, pid, batch, kind, cfg, rand_bytes(rng, n))
            batch.flush()

    # Type 4
    n4 = (50 if quick else 2000) if cut else (90 if quick else 1200)
    for j in range(n4):
        cfg = t4_gen(rng, small=cut or rng.random() < 0.6, big=(not quick and not cut and j % 40 == 0))
        ns = t4_nlen(cfg)
        cap = max(0, min(cfg['mfs'], 65536) - ns)
        ls = t4_lengths(rng, cfg, cap)
        if cut:
            ls = rng.sample(ls, min(len(ls), 3 if quick else 5))
        elif cap > 1000:
            ls = rng.sample(ls, 3 if quick else 5)
        for n in ls:
            run_case(ck, pid, batch, 't4', cfg, rand_bytes(rng, n))
        if pid == 'C03' and cfg['mfs'] <= 1000:
            for wipe in (None, rng.randrange(0, 256), rng.choice([0, 255, 256 + 0x5A])):
                run_format(ck, batch, cfg, wipe)
        if j % 50 == 49:
            batch.flush()
    batch.flush()
    if not quick and not cut:
        for _ in range(40):
            cfg = t4_gen(rng, small=True)
            cap = max(0, cfg['mfs'] - t4_nlen(cfg))
            for n in range(0, cap + 2):
                run_case(ck, pid, batch, 't4', cfg, rand_bytes(rng, n))
        batch.flush()
