"""Shared machinery of all checks: Coq build, obligations, model runner, evidence,
known findings, VIOLATION / KNOWN-FINDING protocol."""
import fcntl
import hashlib
import json
import os
import random
import re
import subprocess
import sys
import time

VERIF = os.path.dirname(os.path.dirname(os.path.abspath(__file__)))
REPO = os.environ.get('NV_REPO', '/repo')
COQ = os.path.join(VERIF, 'coq')
PY = '/venv/bin/python'
sys.path.insert(0, os.path.join(VERIF, 'translate'))
sys.path.insert(0, os.path.join(VERIF, 'harness'))

STD_AXIOMS_ALLOWED = {
    # standard-library axioms that may appear (named in DESIGN.md section 8)
    'functional_extensionality_dep', 'FunctionalExtensionality.functional_extensionality_dep',
    'Eqdep.Eq_rect_eq.eq_rect_eq', 'eq_rect_eq', 'JMeq_eq', 'JMeq.JMeq_eq',
    'proof_irrelevance', 'ProofIrrelevance.proof_irrelevance', 'classic', 'Classical_Prop.classic',
}

FORBIDDEN = re.compile(r'\b(Admitted|admit|Axiom|Parameter|Conjecture|Admit Obligations|Unset Guard Checking|'
                       r'bypass_check|Unset Positivity Checking|Unset Universe Checking|native_compute)\b')


def sh(cmd, timeout=1200, cwd=None, env=None):
    e = dict(os.environ)
    if env:
        e.update(env)
    try:
        p = subprocess.run(cmd, shell=isinstance(cmd, str), cwd=cwd, env=e, timeout=timeout,
                           stdout=subprocess.PIPE, stderr=subprocess.STDOUT)
        return p.returncode, p.stdout.decode('utf-8', 'replace')
    except subprocess.TimeoutExpired as ex:
        return 124, (ex.stdout or b'').decode('utf-8', 'replace') + '\nTIMEOUT'


class BuildLock:
    """serialise Coq/OCaml builds between concurrently running checks"""

    def __enter__(self):
        self.f = open(os.path.join(VERIF, '.buildlock'), 'w')
        fcntl.flock(self.f, fcntl.LOCK_EX)
        return self

    def __exit__(self, *a):
        fcntl.flock(self.f, fcntl.LOCK_UN)
        self.f.close()


def ensure_makefile():
    mk = os.path.join(COQ, 'Makefile')
    proj = os.path.join(COQ, '_CoqProject')
    vfiles = []
    for d in ('Base', 'Model', 'Proofs', 'Props', 'Gen', 'Bridge', 'Extract', 'Skel'):
        p = os.path.join(COQ, d)
        if os.path.isdir(p):
            vfiles += sorted(os.path.join(d, f) for f in os.listdir(p) if f.endswith('.v'))
    want = open(proj).read().split('\n# files')[0].rstrip('\n') + '\n# files\n' + '\n'.join(vfiles) + '\n'
    if open(proj).read() != want or not os.path.exists(mk):
        open(proj, 'w').write(want)
        rc, out = sh('coq_makefile -f _CoqProject -o Makefile', cwd=COQ)
        if rc:
            raise RuntimeError('coq_makefile failed: ' + out)


def regenerate(names):
    """run the kernel/skeleton translators against REPO; returns list of failure messages"""
    import kernels
    fails = []
    for n in names:
        ok, msg = kernels.generate(n, os.path.join(COQ, 'Gen'))
        if not ok:
            fails.append('translation %s: %s' % (n, msg))
    return fails


def coq_make(targets, timeout=1500):
    """make the given .vo targets (incremental). returns (ok, log)"""
    ensure_makefile()
    rc, out = sh(['make', '-j16'] + targets, cwd=COQ, timeout=timeout)
    return rc == 0, out


def dep_closure(roots):
    """transitive .v dependencies (within the development) of the given .vo targets / Props files,
    from coqdep's output; falls back to every file when the dependency file is missing"""
    dfile = os.path.join(COQ, '.Makefile.d')
    if not os.path.exists(dfile):
        return None
    deps = {}
    for line in open(dfile):
        if '.vo ' not in line.split(':')[0] + ' ' or ':' not in line:
            continue
        lhs, rhs = line.split(':', 1)
        tgt = lhs.split()[0]
        if not tgt.endswith('.vo'):
            continue
        deps[tgt] = [w for w in rhs.split() if w.endswith('.vo')]
    seen, todo = set(), list(roots)
    while todo:
        t = todo.pop()
        if t in seen:
            continue
        seen.add(t)
        todo += deps.get(t, [])
    return {t[:-1] for t in seen}      # X.vo -> X.v


def grep_gate(roots=None):
    """no Admitted/Axiom/... in the development (restricted to the dependency closure of `roots` when
    given, so that another property's file under construction cannot fail this property)"""
    bad = []
    only = dep_closure(roots) if roots else None
    for root, _, files in os.walk(COQ):
        for f in files:
            if f.endswith('.v'):
                p = os.path.join(root, f)
                rel = os.path.relpath(p, COQ)
                if only is not None and rel not in only:
                    continue
                txt = re.sub(r'\(\*.*?\*\)', '', open(p).read(), flags=re.S)
                for m in FORBIDDEN.finditer(txt):
                    bad.append('%s: %s' % (rel, m.group(0)))
    return bad


def props_compile(prop_file, timeout=900):
    """compile Props/<file>.v capturing Print Assumptions output.
    returns (ok, theorems:list of dict(name, axioms), log)"""
    rel = 'Props/%s.v' % prop_file
    rc, out = sh(['coqc', '-Q', '.', 'NV', rel], cwd=COQ, timeout=timeout)
    src = open(os.path.join(COQ, rel)).read()
    names = re.findall(r'^\s*(?:Theorem|Lemma|Corollary)\s+(\w+)', src, flags=re.M)
    printed = re.findall(r'Print Assumptions\s+(\w+)\s*\.', src)
    # split output per Print Assumptions in order
    chunks = re.split(r'(?=Closed under the global context|Axioms:)', out)
    chunks = [c for c in chunks if c.startswith('Closed under') or c.startswith('Axioms:')]
    thms = []
    for i, n in enumerate(printed):
        ax = None
        if i < len(chunks):
            c = chunks[i]
            if c.startswith('Closed under'):
                ax = []
            else:
                ax = re.findall(r'^([\w.]+)\s*:', c[len('Axioms:'):], flags=re.M)
        thms.append({'name': n, 'axioms': ax})
    missing = [n for n in names if n not in printed]
    return rc == 0, thms, out, missing


class ModelRunner:
    """line-oriented access to an extracted OCaml model (extract/bin/<name>)"""

    def __init__(self, name):
        self.exe = os.path.join(VERIF, 'extract', 'bin', name)

    def run(self, lines, timeout=900):
        p = subprocess.run([self.exe], input=('\n'.join(lines) + '\n').encode(), stdout=subprocess.PIPE,
                           stderr=subprocess.PIPE, timeout=timeout)
        if p.returncode != 0:
            raise RuntimeError('modelrun failed: ' + p.stderr.decode()[:2000])
        return p.stdout.decode().split('\n')[:-1]


def build_extraction(name, timeout=900):
    """coq/Extract/<Name>.v -> extract/ml/<name>.ml ; + extract/<name>_run.ml -> extract/bin/<name>"""
    ml = os.path.join(VERIF, 'extract', 'ml')
    bind = os.path.join(VERIF, 'extract', 'bin')
    os.makedirs(ml, exist_ok=True)
    os.makedirs(bind, exist_ok=True)
    if not os.path.exists(os.path.join(ml, name + '.ml')):
        for ext in ('.vo', '.vok', '.vos', '.glob'):
            try:
                os.remove(os.path.join(COQ, 'Extract', name.upper() + ext))
            except OSError:
                pass
    ok, log = coq_make(['Extract/%s.vo' % name.upper()], timeout)
    if not ok:
        return False, log
    exe = os.path.join(bind, name)
    srcs = [os.path.join(ml, name + '.mli'), os.path.join(ml, name + '.ml'), os.path.join(VERIF, 'extract', name + '_run.ml')]
    newest = max(os.path.getmtime(s) for s in srcs)
    if os.path.exists(exe) and os.path.getmtime(exe) >= newest:
        return True, log
    # compile in a private directory so that concurrent builds of other models do not interfere
    bdir = os.path.join(ml, '_b_' + name)
    os.makedirs(bdir, exist_ok=True)
    for s_ in srcs:
        sh(['cp', s_, bdir])
    loc = [os.path.join(bdir, os.path.basename(s_)) for s_ in srcs]
    rc, out = sh(['ocamlfind', 'ocamlopt', '-O2', '-w', '-a', '-I', bdir, '-package', 'str', '-linkpkg'] + loc + ['-o', exe],
                 cwd=bdir, timeout=timeout)
    if rc:
        rc, out = sh(['ocamlfind', 'ocamlopt', '-w', '-a', '-I', bdir, '-package', 'str', '-linkpkg'] + loc + ['-o', exe],
                     cwd=bdir, timeout=timeout)
    return rc == 0, log + out


CURRENT = None


class ImplHang(BaseException):
    """raised in the main thread by the watchdog below when ONE call from the harness into nfcpy has not returned for
    NV_HANG_S seconds (default 150): the implementation loops or blocks for ever on the input at hand.  BaseException so
    that the `except Exception` clauses of nfcpy and of the harnesses do not swallow it; harness/runner.py turns it
    into a reported violation whose replay names the call, its arguments and the spinning stack."""
    def __init__(self, secs, entry, args, stack):
        BaseException.__init__(self, 'implementation call %s has not returned for %d s' % (entry, secs))
        self.secs, self.entry, self.args_repr, self.stack = secs, entry, args, stack


def install_hang_watchdog():
    """a check must give a verdict even when the implementation hangs: every 10 s a SIGALRM handler looks at the main
    thread's stack; the outermost frame inside <repo>/src/nfc is the call the harness made; if that same frame object
    (a reference is kept, so identity is exact) is still there after NV_HANG_S seconds, ImplHang is raised.  Waiting
    for builds, model runners or worker threads (no nfc frame on the main stack) never triggers it."""
    import signal
    import threading
    import traceback
    if threading.current_thread() is not threading.main_thread() or not hasattr(signal, 'setitimer'):
        return
    nfcroot = os.path.join(os.path.realpath(REPO), 'src', 'nfc') + os.sep
    tick = 10
    limit = int(os.environ.get('NV_HANG_S', '150'))
    st = {'frame': None, 'n': 0}

    def on_alarm(signum, frame):
        entry, f = None, frame
        while f is not None:
            if os.path.realpath(f.f_code.co_filename).startswith(nfcroot):
                entry = f
            f = f.f_back
        if entry is None:
            st['frame'], st['n'] = None, 0
            return
        if entry is st['frame']:
            st['n'] += 1
        else:
            st['frame'], st['n'] = entry, 0
        if st['n'] * tick >= limit:
            name = '%s:%s' % (os.path.relpath(entry.f_code.co_filename, os.path.realpath(REPO)), entry.f_code.co_name)
            args = {}
            for k, v in list(entry.f_locals.items())[:12]:
                try:
                    args[k] = (bytes(v).hex() if isinstance(v, (bytes, bytearray, memoryview)) else repr(v))[:600]
                except Exception:   # noqa
                    args[k] = '<unprintable>'
            stack = [ln.strip()[:300] for ln in traceback.format_stack(frame)[-14:]]
            st['frame'], st['n'] = None, 0
            raise ImplHang(limit, name, args, stack)

    signal.signal(signal.SIGALRM, on_alarm)
    signal.setitimer(signal.ITIMER_REAL, tick, tick)


def hx(b):
    return bytes(b).hex()


class Check:
    def __init__(self, pid, argv=None):
        import argparse
        ap = argparse.ArgumentParser()
        ap.add_argument('--tier', default=os.environ.get('VERIF_TIER', 'quick'))
        ap.add_argument('--replay', default=None)
        a = ap.parse_args(argv)
        global CURRENT
        CURRENT = self
        install_hang_watchdog()
        self.pid = pid
        self.tier = a.tier if a.tier in ('quick', 'thorough') else 'quick'
        self.replay = a.replay
        try:
            self.seed = int(os.environ.get('VERIF_SEED', '0'))
        except ValueError:
            self.seed = 0
        self.rng = random.Random(self.seed * 1000003 + int(hashlib.sha1(pid.encode()).hexdigest()[:8], 16))
        self.t0 = time.time()
        self.violations = []      # (key, what, replaydata)
        self.known_hit = {}       # key -> what
        self.obligations = []     # dict(name, kind, ok, axioms/detail)
        self.cov = {'evaluations': 0, 'distinct_nontrivial': 0, 'samples': [], 'rule': ''}
        self._distinct = set()
        self.assumptions = []
        self.trusted = []
        self.notes = []
        self.broken = []          # names of theorems / bridges / correspondences that no longer check
        self.dist = {}
        # findings/<pid>*.json are the per-property sources from which tools/mkmanifest.py assembles
        # the committed known_findings.json; never written at run time
        import glob
        self.known = []
        for fp in sorted(glob.glob(os.path.join(VERIF, 'findings', pid + '*.json'))):
            self.known += [f for f in json.load(open(fp)).get('findings', []) if f['property'] == pid]

    # ---- obligations -----------------------------------------------------
    def coq(self, gen=(), targets=(), props=None):
        """regenerate Gen files, build targets, compile Props file; record obligations"""
        with BuildLock():
            ensure_makefile()
            plist0 = [props] if isinstance(props, str) else list(props or [])
            bad = grep_gate(None if (self.tier == 'thorough' and not os.environ.get('NV_GATE_LOCAL')) else
                            list(targets) + ['Props/%s.vo' % pf for pf in plist0] + ['Extract/%s.vo' % self.pid])
            if bad:
                self.obligations.append({'name': 'grep-gate', 'kind': 'gate', 'ok': False, 'detail': bad[:5]})
                self.broken.append('grep gate: ' + '; '.join(bad[:3]))
            fails = regenerate(gen)
            for g in gen:
                f = [m for m in fails if m.startswith('translation %s:' % g)]
                self.obligations.append({'name': 'translate:' + g, 'kind': 'translation', 'ok': not f, 'detail': f})
                if f:
                    self.broken.append(f[0])
            ok, log = coq_make(list(targets))
            if not ok:
                # find which file failed
                m = re.findall(r'File "\./([^"]+)", line (\d+)[^\n]*\n((?:.*\n){0,6})', log)
                where = ['%s:%s %s' % (a, b, ' '.join(c.split())[:300]) for a, b, c in m][-3:]
                self.broken.append('coq build failed: ' + ' | '.join(where or [log[-400:]]))
            if not ok:
                # build whatever still builds, then ask make which targets are really up to date
                sh(['make', '-j16', '-k'] + list(targets), cwd=COQ, timeout=3000)
            for t in targets:
                built = ok or sh(['make', '-q', t], cwd=COQ, timeout=600)[0] == 0
                self.obligations.append({'name': t, 'kind': 'coq-file', 'ok': built})
            plist = [props] if isinstance(props, str) else list(props or [])
            for pf in plist:
                pok, thms, plog, missing = props_compile(pf)
                if not pok:
                    self.broken.append('Props/%s.v does not compile: %s' % (pf, ' '.join(plog.split())[-300:]))
                for th in thms:
                    axs = th['axioms']
                    good = pok and axs is not None and all(a.split('.')[-1] in {x.split('.')[-1] for x in STD_AXIOMS_ALLOWED} for a in axs)
                    stale = good and not ok and sh(['make', '-q', 'Props/%s.vo' % pf], cwd=COQ, timeout=600)[0] != 0
                    if stale:
                        good = False   # compiled against stale .vo files of a dependency that no longer builds
                    self.obligations.append({'name': th['name'], 'kind': 'theorem', 'ok': good, 'axioms': axs,
                                             **({'detail': 'not re-checked: a dependency failed to build in this run'} if stale else {})})
                    if pok and not good:
                        self.broken.append('theorem %s depends on unexpected axioms %s' % (th['name'], axs))
                for n in missing:
                    self.obligations.append({'name': n, 'kind': 'theorem', 'ok': False, 'detail': 'no Print Assumptions'})
                    self.broken.append('theorem %s has no Print Assumptions' % n)
            if self.tier == 'thorough' and plist and not self.broken and not os.environ.get('NV_NO_COQCHK'):
                # independent re-check of the compiled property files and everything they depend on
                mods = ['NV.Props.' + pf for pf in plist]
                rc, out = sh(['coqchk', '-silent', '-o', '-Q', '.', 'NV'] + mods, cwd=COQ, timeout=3000)
                ax = re.search(r'\* Axioms:(.*?)\n\s*\n\* Constants/Inductives relying on type-in-type:(.*?)\n\s*\n'
                               r'\* Constants/Inductives relying on unsafe \(co\)fixpoints:(.*?)\n\s*\n'
                               r'\* Inductives whose positivity is assumed:(.*?)\n', out, flags=re.S)
                fields = [' '.join(g.split()) for g in ax.groups()] if ax else None
                good = rc == 0 and fields is not None and all(f == '<none>' or all(
                    a.split('.')[-1] in {x.split('.')[-1] for x in STD_AXIOMS_ALLOWED} for a in f.split()) for f in fields[:1]) \
                    and all(f == '<none>' for f in (fields or ['x'])[1:])
                self.obligations.append({'name': 'coqchk -o ' + ' '.join(mods), 'kind': 'coqchk', 'ok': good,
                                         'axioms': fields[0] if fields else None, 'detail': None if good else out[-400:]})
                if not good:
                    self.broken.append('coqchk failed or reports axioms/unsafe features: ' + (str(fields) if fields else out[-300:]))
            self.checker_cmd = 'make -C coq %s && ' % ' '.join(targets) + ' && '.join('coqc -Q coq NV coq/Props/%s.v' % pf for pf in plist)
        return not self.broken

    def model(self, name=None):
        name = name or self.pid.lower()
        with BuildLock():
            ok, log = build_extraction(name)
        if not ok:
            self.broken.append('extraction/model runner build failed (%s): %s' % (name, log[-300:]))
            return None
        return ModelRunner(name)

    # ---- coverage --------------------------------------------------------
    def case(self, canon, nontrivial, sample=None):
        self.cov['evaluations'] += 1
        if nontrivial:
            h = hashlib.sha1(repr(canon).encode()).digest()[:8]
            self._distinct.add(h)
        if sample is not None and len(self.cov['samples']) < 8:
            self.cov['samples'].append(sample)

    def count(self, key, n=1):
        self.dist[key] = self.dist.get(key, 0) + n

    # ---- violations ------------------------------------------------------
    def violation(self, key, what, data):
        """a concrete failure of the property on the implementation. key identifies the
        specific input class / call site (matched against known_findings.json)."""
        for f in self.known:
            if re.fullmatch(f['key'], key):
                self.known_hit.setdefault(f['key'], f['what'])
                return
        self.violations.append((key, what, data))

    def correspondence_mismatch(self, name, data):
        self.broken.append('correspondence %s: model and implementation differ' % name)
        self.mismatch = getattr(self, 'mismatch', [])
        if len(self.mismatch) < 5:
            self.mismatch.append({'correspondence': name, 'case': data})

    # ---- finish ------------------------------------------------------------
    def finish(self, level='proof', rule='', explanation=''):
        os.makedirs(os.path.join(VERIF, 'replays'), exist_ok=True)
        os.makedirs(os.path.join(VERIF, 'evidence'), exist_ok=True)
        lines = []
        rc = 0
        for k, w in sorted(self.known_hit.items()):
            lines.append('KNOWN-FINDING: property=%s %s' % (self.pid, w))
        seen = set()
        for key, what, data in self.violations:
            if key in seen:
                continue
            seen.add(key)
            h = hashlib.sha1((key + json.dumps(data, sort_keys=True, default=str)).encode()).hexdigest()[:10]
            path = os.path.join(VERIF, 'replays', '%s-%s.json' % (self.pid, h))
            json.dump({'property': self.pid, 'key': key, 'what': what, 'seed': self.seed, 'case': data,
                       'replay_cmd': './check %s --replay %s' % (self.pid, path)}, open(path, 'w'), indent=1, default=str)
            lines.append('VIOLATION property=%s replay=%s' % (self.pid, path))
            rc = 1
        if self.broken and not self.violations:
            h = hashlib.sha1(json.dumps(self.broken).encode()).hexdigest()[:10]
            path = os.path.join(VERIF, 'replays', '%s-unproved-%s.json' % (self.pid, h))
            json.dump({'property': self.pid, 'no_longer_checks': self.broken,
                       'first_disagreements': getattr(self, 'mismatch', []), 'seed': self.seed,
                       'note': 'a proof obligation / correspondence broke and the search found no concrete failing input'},
                      open(path, 'w'), indent=1, default=str)
            lines.append('VIOLATION property=%s replay=%s no-failing-input-found' % (self.pid, path))
            rc = 1
        if not self.obligations:
            self.obligations.append({'name': 'coq-obligations-not-reached', 'kind': 'gate', 'ok': False})
        nob = len(self.obligations)
        ndis = sum(1 for o in self.obligations if o['ok'])
        cov = dict(self.cov)
        cov['distinct_nontrivial'] = len(self._distinct)
        cov['rule'] = rule or cov.get('rule', '')
        cov['obligations'] = nob
        cov['discharged'] = max(ndis, 0)
        cov['checker_cmd'] = getattr(self, 'checker_cmd', 'coqc (see ./check)')
        cov['trusted_base'] = self.trusted or ['Coq 8.16.1 kernel (vm_compute used, native_compute not used)']
        cov['obligation_list'] = self.obligations
        cov['distribution'] = self.dist
        cov['explanation'] = explanation
        cov['exhaustive'] = False
        cov['broken'] = self.broken
        cov['known_findings_reported'] = sorted(self.known_hit)
        if cov['evaluations'] == 0:
            cov.pop('evaluations')
            cov.pop('distinct_nontrivial')
            cov.pop('samples')
        ev = {'property_id': self.pid, 'tier': self.tier, 'seed': self.seed, 'level': level, 'coverage': cov,
              'assumptions': self.assumptions, 'wall_s': round(time.time() - self.t0, 2),
              'violations': len(seen) + (1 if (self.broken and not self.violations) else 0)}
        # evidence/<id>.json describes runs against /repo itself; trial runs against another tree (NV_REPO: seeded
        # changes, refactorings, repairs under test) must not overwrite it
        evdir = os.path.join(VERIF, 'evidence') if os.path.realpath(REPO) == '/repo' else os.path.join(VERIF, 'scratch', 'evidence-nvrepo')
        os.makedirs(evdir, exist_ok=True)
        json.dump(ev, open(os.path.join(evdir, self.pid + '.json'), 'w'), indent=1, default=str)
        for ln in lines:
            print(ln)
        print('%s %s tier=%s obligations=%d/%d evaluations=%d distinct_nontrivial=%d wall=%.1fs' % (
            self.pid, 'FAIL' if rc else 'ok', self.tier, ndis, nob, self.cov['evaluations'], len(self._distinct),
            time.time() - self.t0))
        sys.stdout.flush()
        sys.exit(rc)
