"""Runs harness/prop/<cxx>.py as __main__ and turns an unexpected exception of the harness itself (typically the
implementation raising something the harness did not anticipate) into a reported, evidenced VIOLATION instead of a
bare traceback: the property is then no longer shown to hold."""
import os
import runpy
import sys
import traceback

import common


def main():
    path = sys.argv[1]
    sys.argv = [path] + sys.argv[2:]
    sys.path.insert(0, os.path.dirname(os.path.abspath(path)))   # as when run as a script
    try:
        runpy.run_path(path, run_name='__main__')
    except SystemExit:
        raise
    except common.ImplHang as hang:
        ck = common.CURRENT
        sys.stderr.write('%s\n%s\n' % (hang, '\n'.join(hang.stack)))
        ck.violation('impl-hang:' + hang.entry, 'the implementation does not return: %s (stopped by the check after %d s)' % (hang.entry, hang.secs),
                     {'call': hang.entry, 'locals_of_the_call': hang.args_repr, 'stack_when_stopped': hang.stack})
        ck.finish(level='proof', rule='(run stopped: an implementation call did not return)', explanation='implementation hang')
    except BaseException:  # noqa
        tb = traceback.format_exc()
        sys.stderr.write(tb)
        ck = getattr(common, 'CURRENT', None)
        if ck is None:
            pid = os.path.basename(path)[:-3].upper()
            ck = common.Check(pid, argv=[a for a in sys.argv[1:] if a != '--replay'][:2] if False else [])
        last = [l for l in tb.strip().split('\n') if l.strip()][-3:]
        ck.broken.append('check harness raised an unexpected exception while driving the implementation: ' + ' | '.join(last)[:600])
        ck.finish(level='proof', rule='(run aborted by an unexpected exception)', explanation='harness exception')


if __name__ == '__main__':
    main()
