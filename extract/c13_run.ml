(* Line-oriented driver around the extracted C13 models (DrvMap + ExnCheck on the regenerated skeletons).
   input : <command> <arg> ...   output: one line per input line *)
open C13

let rec pos_of_int n = if n = 1 then XH else if n land 1 = 0 then XO (pos_of_int (n lsr 1)) else XI (pos_of_int (n lsr 1))
let z_of_int n = if n = 0 then Z0 else if n > 0 then Zpos (pos_of_int n) else Zneg (pos_of_int (-n))
let rec int_of_pos = function XH -> 1 | XO p -> 2 * int_of_pos p | XI p -> 2 * int_of_pos p + 1
let int_of_z = function Z0 -> 0 | Zpos p -> int_of_pos p | Zneg p -> - (int_of_pos p)
let zi s = z_of_int (int_of_string s)

let bytes_of_hex s =
  if s = "-" then [] else
  let n = String.length s / 2 in
  List.init n (fun i -> z_of_int (int_of_string ("0x" ^ String.sub s (2*i) 2)))

(* Coq strings <-> OCaml strings *)
let char_of_ascii (Ascii (b0, b1, b2, b3, b4, b5, b6, b7)) =
  let b x k = if x then 1 lsl k else 0 in
  Char.chr (b b0 0 + b b1 1 + b b2 2 + b b3 3 + b b4 4 + b b5 5 + b b6 6 + b b7 7)
let ascii_of_char c =
  let n = Char.code c in let t k = (n lsr k) land 1 = 1 in
  Ascii (t 0, t 1, t 2, t 3, t 4, t 5, t 6, t 7)
let rec ocaml_string = function EmptyString -> "" | String (a, s) -> String.make 1 (char_of_ascii a) ^ ocaml_string s
let coq_string s =
  let r = ref EmptyString in
  for i = String.length s - 1 downto 0 do r := String (ascii_of_char s.[i], !r) done; !r

let exc_name = function
  | XTimeout -> "TimeoutError" | XBrokenLink -> "BrokenLinkError" | XTransmission -> "TransmissionError"
  | XProtocol -> "ProtocolError" | XIOError n -> "IOError:" ^ string_of_int (int_of_z n)
  | XChipset n -> "ChipsetError:" ^ string_of_int (int_of_z n)
  | XRcsComm n -> "RcsCommunicationError:" ^ string_of_int (int_of_z n)
  | XRcsStatus n -> "RcsStatusError:" ^ string_of_int (int_of_z n)
  | XIndexError -> "IndexError" | XStructError -> "StructError" | XTypeError -> "TypeError" | XValueError -> "ValueError"
let show_out o =
  (match o with OData -> "data" | ONone -> "none" | ORaise e -> "raise " ^ exc_name e)
  ^ (if allowed o then " documented" else " UNDOCUMENTED")

let dir_of = function "i" -> Initiator | "t" -> Target | _ -> failwith "dir"
let cmd_of = function
  | "thru" -> InCommunicateThru | "dex" -> InDataExchange | "tgget" -> TgGetInitiatorCommand
  | "tgrsp" -> TgResponseToInitiator | "reg533" -> Reg533 | "wreg956" -> WriteReg956 | "nostatus" -> NoStatus
  | _ -> failwith "cmd"

let program d =
  try List.assoc d (List.map (fun (n, p) -> (ocaml_string n, p)) driver_programs)
  with Not_found -> failwith ("driver " ^ d)
let class_name c =
  try ocaml_string (List.assoc (int_of_z c) (List.map (fun (k, n) -> (int_of_z k, n)) class_names))
  with Not_found -> "class" ^ string_of_int (int_of_z c)
let show_classes l = match List.sort compare (List.map class_name l) with [] -> "-" | l -> String.concat "," l

let handle w =
  match w with
  | ["pn53x"; d; c; payload] -> show_out (pn53x_status_outcome (dir_of d) (cmd_of c) (bytes_of_hex payload))
  | ["readreg"; d; ws; n; payload] -> show_out (pn53x_readreg_outcome (dir_of d) (ws = "1") (zi n) (bytes_of_hex payload))
  | ["rcs380p"; d; payload] -> show_out (rcs380_payload_outcome (dir_of d) (bytes_of_hex payload))
  | ["tt3poll"; c; dv; lvl; fifo] ->
      (match tt3_poll (zi c) (zi dv) (zi lvl) (bytes_of_hex fifo) with PollAgain -> "again" | PollOut o -> show_out o)
  | ["tt1fifo"; lvl] ->
      let a = show_out (tt1_fifo_outcome (zi lvl) true) and b = show_out (tt1_fifo_outcome (zi lvl) false) in
      if a = b then a else "crc " ^ a ^ " | " ^ b
  | ["errframe"; d] -> show_out (pn53x_errframe_outcome (dir_of d))
  | ["ioerr"; d; n] -> show_out (ORaise (pn53x_ioerror_map (dir_of d) (zi n)))
  | ["rcs380w"; d; n] -> show_out (rcs380_status_outcome (dir_of d) (zi n))
  | ["rcs380b"; d; b0; b1; b2; b3] -> show_out (rcs380_bytes_outcome (dir_of d) (zi b0) (zi b1) (zi b2) (zi b3))
  | ["rcs380setup"; st] -> show_out (rcs380_setup_outcome (zi st))
  | ["udp"; dg] -> show_out (udp_outcome (bytes_of_hex dg))
  | ["escapes"; d; f] -> show_classes (escapes (program d) (coq_string f))
  | ["closed"; d; f] -> if closedb (program d) (coq_string f) documented_classes then "true" else "false"
  | ["summary_ok"; d] -> if summary_okb (program d) (solution (program d)) then "true" else "false"
  | ["funcs"; d] -> String.concat " " (List.map (fun (n, _) -> ocaml_string n) (program d))
  | ["drivers"] -> String.concat " " (List.map (fun (n, _) -> ocaml_string n) driver_programs)
  | _ -> "?unknown-command"

let () =
  try
    while true do
      let line = input_line stdin in
      let w = List.filter (fun s -> s <> "") (String.split_on_char ' ' line) in
      print_string (try handle w with Stack_overflow -> "?stack-overflow" | Failure m -> "?failure " ^ m);
      print_newline ()
    done
  with End_of_file -> ()
