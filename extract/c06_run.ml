(* Line-oriented driver around the extracted SNEP / handover models (C06).
   byte strings: hex, "-" = empty; lists: comma separated, "." = empty list
   script items: hex | T (poll timeout) | X (peer closed)
   ops: put:<hex> | get:<hex>:<acceptable> | ho:<hex>
   answers: p<code> | gc<code> | gm<hex> | ge | h<hex> *)
open C06

let rec pos_of_int n = if n = 1 then XH else if n land 1 = 0 then XO (pos_of_int (n lsr 1)) else XI (pos_of_int (n lsr 1))
let z_of_int n = if n = 0 then Z0 else if n > 0 then Zpos (pos_of_int n) else Zneg (pos_of_int (-n))
let rec int_of_pos = function XH -> 1 | XO p -> 2 * int_of_pos p | XI p -> 2 * int_of_pos p + 1
let int_of_z = function Z0 -> 0 | Zpos p -> int_of_pos p | Zneg p -> - (int_of_pos p)
let rec nat_of_int n = if n <= 0 then O else S (nat_of_int (n - 1))

let bytes_of_hex s =
  if s = "-" then [] else
  let n = String.length s / 2 in
  List.init n (fun i -> z_of_int (int_of_string ("0x" ^ String.sub s (2*i) 2)))
let hex_of_bytes l =
  if l = [] then "-" else
  let b = Buffer.create (2 * List.length l) in
  List.iter (fun z -> let v = int_of_z z in
    if v < 0 || v > 255 then Buffer.add_string b (Printf.sprintf "<%d>" v) else Buffer.add_string b (Printf.sprintf "%02x" v)) l;
  Buffer.contents b
let zi s = z_of_int (int_of_string s)
let split c s = List.filter (fun x -> x <> "") (String.split_on_char c s)
let plist f s = if s = "." then [] else List.map f (split ',' s)
let slist f l = if l = [] then "." else String.concat "," (List.map f l)

let crash_name = function
  | IndexErr -> "IndexError" | UnpackErr -> "UnpackErr" | NoneSubscript -> "NoneSubscript" | NoneAttr -> "NoneAttr"
  | Unbound -> "UnboundLocalError" | RangeStep0 -> "RangeStep0" | RecursionErr -> "RecursionError"
  | AssertErr -> "AssertionError" | TypeErr -> "TypeError" | ValueErr -> "ValueError" | StructErr -> "struct.error"
  | AttributeErr -> "AttributeError" | KeyErr -> "KeyError"

let p_input s = if s = "T" then ITimeout else if s = "X" then IClosed else IMsg (bytes_of_hex s)
let s_input = function IMsg m -> hex_of_bytes m | ITimeout -> "T" | IClosed -> "X"
let p_op s = match String.split_on_char ':' s with
  | ["put"; h] -> OpPut (bytes_of_hex h)
  | ["get"; h; a] -> OpGet (bytes_of_hex h, zi a)
  | ["ho"; h] -> OpHo (bytes_of_hex h)
  | _ -> failwith "op"
let p_answer s =
  let rest k = String.sub s k (String.length s - k) in
  if s = "ge" then AGet GEncodeError
  else if String.length s >= 2 && String.sub s 0 2 = "gc" then AGet (GCode (zi (rest 2)))
  else if String.length s >= 2 && String.sub s 0 2 = "gm" then AGet (GMsg (bytes_of_hex (rest 2)))
  else if s.[0] = 'p' then APut (zi (rest 1))
  else if s.[0] = 'h' then AHo (bytes_of_hex (rest 1))
  else failwith "answer"
let s_res = function
  | RBool true -> "true" | RBool false -> "false" | RNone -> "none" | ROctets l -> "octets:" ^ hex_of_bytes l
  | RSnepError c -> "sneperror:" ^ string_of_int (int_of_z c) | RSendFailed -> "sendfailed"
  | RCrash c -> "crash:" ^ crash_name c
let s_cst = function
  | CAwaitCont _ -> "wait:cont" | CAwaitResp _ -> "wait:resp" | CMoreResp _ -> "wait:more" | CHoRecv _ -> "wait:ho"
  | CDone r -> s_res r | CIdle -> "idle"
let s_sst = function
  | SPoll -> "poll" | SMore _ -> "more" | SAwaitCont _ -> "cont" | SClosed -> "closed"
  | SCrashed c -> "crashed:" ^ crash_name c
let s_hst = function HAccum _ -> "accum" | HClosed -> "closed"
let s_call = function CallPut o -> "put:" ^ hex_of_bytes o | CallGet o -> "get:" ^ hex_of_bytes o | CallHo o -> "ho:" ^ hex_of_bytes o
let s_outs l = slist hex_of_bytes l
let s_steps l = String.concat "|" (List.map (fun (i, outs) -> s_input i ^ ">" ^ s_outs outs) l)
let s_bool b = if b then "true" else "false"
let s_event = function Ev (toc, x, outs) -> (if toc then "c:" else "s:") ^ s_input x ^ ">" ^ slist s_input outs

let handle (w : string list) : string =
  match w with
  | ["chunks"; miu; d] -> s_outs (chunks (zi miu) (bytes_of_hex d))
  | ["client"; miu; cpl; op; script] ->
      let (st, outs0) = client_start (zi miu) (p_op op) in
      let (steps, fin) = client_script (plist bytes_of_hex cpl) st (plist p_input script) in
      s_outs outs0 ^ (if steps = [] then "" else "|" ^ s_steps steps) ^ "||" ^ s_cst fin
  | ["snepsrv"; miu; maxacc; dec; answers; script] ->
      let s0 = { sv_st = SPoll; sv_app = plist p_answer answers; sv_log = [] } in
      let (steps, fin) = snep_server_script (plist bytes_of_hex dec) (zi maxacc) (zi miu) s0 (plist p_input script) in
      s_steps steps ^ "||" ^ s_sst fin.sv_st ^ "||" ^ slist s_call fin.sv_log
  | ["hosrv"; miu; reset; cpl; hr; answers; script] ->
      let s0 = { hv_st = HAccum []; hv_app = plist p_answer answers; hv_log = [] } in
      let (steps, fin) = ho_server_script (plist bytes_of_hex cpl) (plist bytes_of_hex hr) (zi miu) (reset = "1") s0 (plist p_input script) in
      s_steps steps ^ "||" ^ s_hst fin.hv_st ^ "||" ^ slist s_call fin.hv_log
  | ["snep"; miu_cs; miu_sc; maxacc; dec; answers; ops; fuel] ->
      let ops = plist p_op ops in
      let (_, outs0) = start_ops (zi miu_cs) ops [] in
      let (g, tr) = snep_exec (plist bytes_of_hex dec) (zi miu_cs) (zi miu_sc) (zi maxacc)
                      (plist p_answer answers) ops (nat_of_int (int_of_string fuel)) in
      let quiet = ((Obj.magic g.g_cs : input list) = []) && ((Obj.magic g.g_sc : input list) = []) in
      "init>" ^ slist s_input outs0 ^ (if tr = [] then "" else "|" ^ String.concat "|" (List.map s_event tr))
      ^ "||" ^ slist s_res g.g_c.c_results ^ "||" ^ s_cst g.g_c.c_cur ^ "||" ^ s_sst g.g_s.sv_st ^ "||" ^ slist s_call g.g_s.sv_log
      ^ "||" ^ s_bool quiet ^ "||" ^ s_bool g.g_err
  | ["ho"; miu_cs; miu_sc; reset; cpl; hr; answers; ops; fuel] ->
      let ops = plist p_op ops in
      let (_, outs0) = start_ops (zi miu_cs) ops [] in
      let (g, tr) = ho_exec (plist bytes_of_hex cpl) (plist bytes_of_hex hr) (zi miu_cs) (zi miu_sc) (reset = "1")
                      (plist p_answer answers) ops (nat_of_int (int_of_string fuel)) in
      let quiet = ((Obj.magic g.g_cs : input list) = []) && ((Obj.magic g.g_sc : input list) = []) in
      "init>" ^ slist s_input outs0 ^ (if tr = [] then "" else "|" ^ String.concat "|" (List.map s_event tr))
      ^ "||" ^ slist s_res g.g_c.c_results ^ "||" ^ s_cst g.g_c.c_cur ^ "||" ^ s_hst g.g_s.hv_st ^ "||" ^ slist s_call g.g_s.hv_log
      ^ "||" ^ s_bool quiet ^ "||" ^ s_bool g.g_err
  | ["api"; rel; items] ->
      (* items: c<service> | x | r ; output: C<service> | R | X *)
      let p_api t = if t = "x" then ApiClose else if t = "r" then ApiRequest (OpPut [])
                    else ApiConnect (zi (String.sub t 1 (String.length t - 1))) in
      let (c, acts) = api_run { o_sock = None; o_release = (rel = "1") } (plist p_api items) in
      slist (function ActConnect s0 -> "C" ^ string_of_int (int_of_z s0) | ActRequest _ -> "R" | ActClose -> "X") acts
      ^ "||" ^ (match c.o_sock with None -> "none" | Some s0 -> string_of_int (int_of_z s0))
  | _ -> "?unknown-command"

let () =
  try
    while true do
      let line = input_line stdin in
      let w = List.filter (fun s -> s <> "") (String.split_on_char ' ' line) in
      print_string (try handle w with Stack_overflow -> "crash RecursionError" | Failure m -> "?failure " ^ m
                                    | Invalid_argument m -> "?invalid " ^ m);
      print_newline ()
    done
  with End_of_file -> ()
