(* Line-oriented driver around the extracted ISO-DEP models (C12).
   input : <command> <arg> ...   args: decimal integers or hex byte strings ("-" = empty)
   output: one line per input line
     picc <cfsc> <cmiu> <plan> <blk>...             demo card over a block sequence
     sess <miu> <nnak> <nack> <fff> <mx> <cfsc> <cmiu> <fuel> <item>...     mx = max_extra_blocks or - (no budget)
          (per item: result;pni;blocks;executions;timeouts as multiples of fwt, 0 = default)
          item = T:<apdu>:<script>:<plan> | A<0|1>:<cla>,<ins>,<p1>,<p2>,<mrl>:<data>:<script>:<plan>
          script = DDDLLC.. (pairs) or -, plan = 1,2;-;3 or -
     stream <miu> <nnak> <nack> <fff> <mx> <fuel> <cmd> <rsp>...   reader against a scripted responder
          rsp = hex | T | E | P ; the last one repeats forever
     params a|b <hex> <max_send> <max_recv> *)
open C12

let rec pos_of_int n = if n = 1 then XH else if n land 1 = 0 then XO (pos_of_int (n lsr 1)) else XI (pos_of_int (n lsr 1))
let z_of_int n = if n = 0 then Z0 else if n > 0 then Zpos (pos_of_int n) else Zneg (pos_of_int (-n))
let rec int_of_pos = function XH -> 1 | XO p -> 2 * int_of_pos p | XI p -> 2 * int_of_pos p + 1
let int_of_z = function Z0 -> 0 | Zpos p -> int_of_pos p | Zneg p -> - (int_of_pos p)

let bytes_of_hex s =
  if s = "-" then [] else
  let n = String.length s / 2 in
  List.init n (fun i -> z_of_int (int_of_string ("0x" ^ String.sub s (2*i) 2)))
let hex_of_bytes l =
  if l = [] then "-" else String.concat "" (List.map (fun z -> let v = int_of_z z in
    if v < 0 || v > 255 then Printf.sprintf "<%d>" v else Printf.sprintf "%02x" v) l)
let ints l = String.concat "," (List.map (fun z -> string_of_int (int_of_z z)) l)
let zi s = z_of_int (int_of_string s)

let crash_name = function
  | IndexErr -> "IndexError" | UnpackErr -> "UnpackErr" | NoneSubscript -> "NoneSubscript" | NoneAttr -> "NoneAttr"
  | Unbound -> "UnboundLocalError" | RangeStep0 -> "RangeStep0" | RecursionErr -> "RecursionError"
  | AssertErr -> "AssertionError" | TypeErr -> "TypeError" | ValueErr -> "ValueError" | StructErr -> "struct.error"
  | AttributeErr -> "AttributeError" | KeyErr -> "KeyError"
let err_name = function
  | DecodeError -> "DecodeError" | ProtocolError -> "ProtocolError" | TransmissionError -> "TransmissionError"
  | TimeoutError -> "TimeoutError" | BrokenLinkError -> "BrokenLinkError" | IOErr -> "IOError"
  | TagCommandError e -> "TagCommandError:" ^ string_of_int (int_of_z e)
  | LlcpError e -> "LlcpError:" ^ string_of_int (int_of_z e)
  | ValueError -> "ValueError" | CommunicationError -> "CommunicationError"
  | ChipsetError e -> "ChipsetError:" ^ string_of_int (int_of_z e)
  | UnsupportedTarget -> "UnsupportedTargetError" | RuntimeErr -> "RuntimeError"
let show_res f = function
  | Ok a -> "ok " ^ f a | Err e -> "err " ^ err_name e | Crash c -> "crash " ^ crash_name c | Hang -> "hang"
let show_opt f = function Some a -> "some " ^ f a | None -> "none"
let show_bool b = if b then "true" else "false"


let rec nat_of_int n = if n <= 0 then O else S (nat_of_int (n - 1))
let split c s = String.split_on_char c s
let plan_of s = if s = "-" then [] else
  List.map (fun e -> if e = "-" then [] else List.map zi (split ',' e)) (split ';' s)
let fate_of = function 'D' -> FD | 'L' -> FL | 'C' -> FC | _ -> failwith "fate"
let script_of s = if s = "-" then [] else
  List.init (String.length s / 2) (fun i -> (fate_of s.[2*i], fate_of s.[2*i+1]))
let hexl l = if l = [] then "-" else String.concat "" (List.map (fun z -> Printf.sprintf "%02x" (int_of_z z land 255)) l)
let show_r = function
  | Ok a -> "ok=" ^ hexl a | Err e -> "err=" ^ err_name e | Crash c -> "crash=" ^ crash_name c | Hang -> "hang"
let commas f l = if l = [] then "-" else String.concat "," (List.map f l)
let semis f l = if l = [] then "-" else String.concat ";" (List.map f l)
let zs z = string_of_int (int_of_z z)
let state c =
  let p = match c.pend with None -> "-" | Some ((w, ws), b) -> zs w ^ "/" ^ commas zs ws ^ "/" ^ hexl b in
  Printf.sprintf "bn=%s last=%s rx=%s tx=%s pend=%s plan=%s execs=%s" (zs c.bn) (hexl c.last) (hexl c.rxbuf)
    (hexl c.txrest) p (semis (commas zs) c.plan) (semis hexl c.execs)
let cfg_of miu nnak nack f = { miu = zi miu; n_nak = zi nnak; n_ack = zi nack;
  fix_wtx_try = f.[0] = '1'; fix_wtx_chain = f.[1] = '1'; fix_rack = f.[2] = '1' }
let show_o o = Printf.sprintf "%s;%s;%s;%d;%s" (show_r o.o_res) (zs o.o_pni) (commas hexl o.o_blocks) (List.length o.o_card.execs)
    (commas (fun b -> zs (blk_timeout b)) o.o_blocks)

let handle (w : string list) : string =
  match w with
  | "picc" :: cfsc :: cmiu :: plan :: blks ->
      let kc = { cfsc = zi cfsc; cmiu = zi cmiu } in
      let c = ref (picc_init (plan_of plan)) in
      let outs = List.map (fun b -> let (c', r) = picc_absorb demo_app kc !c (bytes_of_hex b) in c := c';
                             match r with None -> "none" | Some x -> hexl x) blks in
      String.concat " " outs ^ " | " ^ state !c
  | "sess" :: miu :: nnak :: nack :: f :: mxs :: cfsc :: cmiu :: fuel :: items ->
      let k = cfg_of miu nnak nack f in
      let mx = if mxs = "-" then None else Some (zi mxs) in
      let kc = { cfsc = zi cfsc; cmiu = zi cmiu } in
      let fu = nat_of_int (int_of_string fuel) in
      let pn = ref Z0 and c = ref (picc_init []) in
      let outs = List.map (fun it ->
        let o = match split ':' it with
          | ["T"; a; sc; pl] -> fst (exchangex demo_app fu k mx kc (bytes_of_hex a) !pn (set_plan !c (plan_of pl)) (script_of sc))
          | [ak; hdr; d; sc; pl] when ak.[0] = 'A' ->
              (match List.map zi (split ',' hdr) with
               | [cla; ins; p1; p2; mrl] ->
                   send_apdux demo_app fu k mx kc cla ins p1 p2 (bytes_of_hex d) mrl (ak.[1] = '1') !pn
                     (set_plan !c (plan_of pl)) (script_of sc)
               | _ -> failwith "hdr")
          | _ -> failwith "item" in
        pn := o.o_pni; c := o.o_card; show_o o) items in
      String.concat " " outs ^ " | " ^ state !c
  | "stream" :: miu :: nnak :: nack :: f :: mxs :: fuel :: cmd :: rsps ->
      let k = cfg_of miu nnak nack f in
      let mx = if mxs = "-" then None else Some (zi mxs) in
      let arr = Array.of_list (List.map (function "T" -> ATimeout | "E" -> ATxErr | "P" -> AProto
                                                | h -> ARx (bytes_of_hex h)) rsps) in
      let rec int_of_nat = function O -> 0 | S n -> 1 + int_of_nat n in
      let s n = let i = int_of_nat n in if Array.length arr = 0 then ATimeout
                else arr.(min i (Array.length arr - 1)) in
      let command = bytes_of_hex cmd in
      show_r (run_streamx (nat_of_int (int_of_string fuel)) k mx command { xp = pcd_start k command Z0; nx = Z0 } s O)
  | ["params"; ab; h; ms; mr] ->
      let r = if ab = "a" then t4a_params (bytes_of_hex h) (zi ms) (zi mr) else t4b_params (bytes_of_hex h) (zi ms) (zi mr) in
      (match r with
       | Ok p -> Printf.sprintf "ok tail=%s fsc=%s miu=%s retry=%s" (zs p.a_cmd_tail) (zs p.a_fsc) (zs p.a_miu) (zs p.a_retry)
       | Err e -> "err " ^ err_name e | Crash c -> "crash " ^ crash_name c | Hang -> "hang")
  | _ -> "?unknown-command"

let () =
  try
    while true do
      let line = input_line stdin in
      let w = List.filter (fun s -> s <> "") (String.split_on_char ' ' line) in
      print_string (try handle w with Stack_overflow -> "crash RecursionError" | Failure m -> "?failure " ^ m
                                    | Invalid_argument m -> "?invalid " ^ m);
      print_newline ()
    done
  with End_of_file -> ()
