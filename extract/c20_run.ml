(* Line-oriented driver around the extracted C20 models.
   tokens are separated by blanks; byte strings are hex ("-" = empty); lists use ','.
   des_enc KEY BLOCK | des_dec KEY BLOCK | tdes_cbc KEY IV DATA | mac DATA KEY IV FLIP | sk KEY RC
   felica  lite|lites REPAIRED IDM RSPS OP...      RSPS: hex,hex,..  (T/X/P = timeout/transmission/protocol error, "-" = none)
       OP: auth:PW:RC | rmac:B,B,.. | wmac:DATA:BLOCK | prot:PW|none:RP:PF:RC
       -> obs|obs|.. ; auth sk iv ; cmd,cmd,..
   ftag    lite|lites IDM INIT CMDS                INIT: blk=hex,blk=hex,..   CMDS: hex,hex,..
       -> rsp,rsp,..   ("none" = no response)
   ntag    CFG RSPS SENSES OP...                   SENSES: string of 0/1 ("-" = none); OP: auth:PW | prot:PW:RP:PF
   ntagtag CFG INIT CMDS                           CMDS: hex or S (= re-activation) *)
open C20

let rec pos_of_int n = if n = 1 then XH else if n land 1 = 0 then XO (pos_of_int (n lsr 1)) else XI (pos_of_int (n lsr 1))
let z_of_int n = if n = 0 then Z0 else if n > 0 then Zpos (pos_of_int n) else Zneg (pos_of_int (-n))
let rec int_of_pos = function XH -> 1 | XO p -> 2 * int_of_pos p | XI p -> 2 * int_of_pos p + 1
let int_of_z = function Z0 -> 0 | Zpos p -> int_of_pos p | Zneg p -> - (int_of_pos p)

let bytes_of_hex s =
  if s = "-" then [] else
  let n = String.length s / 2 in
  List.init n (fun i -> z_of_int (int_of_string ("0x" ^ String.sub s (2*i) 2)))
let hex_of_bytes l =
  if l = [] then "-" else String.concat "" (List.map (fun z -> let v = int_of_z z in
    if v < 0 || v > 255 then Printf.sprintf "<%d>" v else Printf.sprintf "%02x" v) l)
let zi s = z_of_int (int_of_string s)
let split c s = if s = "-" || s = "" then [] else String.split_on_char c s

let crash_name = function
  | IndexErr -> "IndexError" | UnpackErr -> "UnpackErr" | NoneSubscript -> "NoneSubscript" | NoneAttr -> "NoneAttr"
  | Unbound -> "UnboundLocalError" | RangeStep0 -> "RangeStep0" | RecursionErr -> "RecursionError"
  | AssertErr -> "AssertionError" | TypeErr -> "TypeError" | ValueErr -> "ValueError" | StructErr -> "struct.error"
  | AttributeErr -> "AttributeError" | KeyErr -> "KeyError"
let err_name = function
  | DecodeError -> "DecodeError" | ProtocolError -> "ProtocolError" | TransmissionError -> "TransmissionError"
  | TimeoutError -> "TimeoutError" | BrokenLinkError -> "BrokenLinkError" | IOErr -> "IOError"
  | TagCommandError e -> "TagCommandError:" ^ string_of_int (int_of_z e)
  | LlcpError e -> "LlcpError:" ^ string_of_int (int_of_z e)
  | ValueError -> "ValueError" | CommunicationError -> "CommunicationError"
  | ChipsetError e -> "ChipsetError:" ^ string_of_int (int_of_z e)
  | UnsupportedTarget -> "UnsupportedTargetError" | RuntimeErr -> "RuntimeError"
let show_res f = function
  | Ok a -> "ok " ^ f a | Err e -> "exc " ^ err_name e | Crash c -> "exc " ^ crash_name c | Hang -> "hang"
let show_bool b = if b then "true" else "false"

let xres_of s = match s with
  | "T" -> XTimeout | "X" -> XTransmission | "P" -> XProtocol | "E" -> XRsp [] | h -> XRsp (bytes_of_hex h)
let parse_op s =
  match String.split_on_char ':' s with
  | ["auth"; pw; rc] -> OpAuth (bytes_of_hex pw, bytes_of_hex rc)
  | ["rmac"; bl] -> OpRead (List.map zi (split ',' bl))
  | ["wmac"; d; b] -> OpWrite (bytes_of_hex d, zi b)
  | ["prot"; pw; rp; pf; rc] ->
      OpProtect ((if pw = "none" then None else Some (bytes_of_hex pw)), rp = "1", zi pf, bytes_of_hex rc)
  | _ -> failwith ("bad op " ^ s)
let show_obs = function
  | ObBool r -> show_res show_bool r
  | ObData r -> show_res (function None -> "none" | Some d -> "data " ^ hex_of_bytes d) r
  | ObUnit r -> show_res (fun _ -> "none") r
  | ObProt r -> show_res (function PTrue -> "true" | PFalse -> "false" | PNdefPath -> "ndef-path") r
let show_opt = function None -> "none" | Some b -> hex_of_bytes b
let parse_init s =
  List.map (fun kv -> match String.split_on_char '=' kv with
    | [k; v] -> (zi k, bytes_of_hex v) | _ -> failwith "bad init") (split ',' s)
let parse_nop s =
  match String.split_on_char ':' s with
  | ["auth"; pw] -> NAuth (bytes_of_hex pw)
  | ["prot"; pw; rp; pf] -> NProtect (bytes_of_hex pw, rp = "1", zi pf)
  | _ -> failwith ("bad op " ^ s)

let handle (w : string list) : string =
  match w with
  | ["des_enc"; k; b] -> hex_of_bytes (des_encrypt (bytes_of_hex k) (bytes_of_hex b))
  | ["des_dec"; k; b] -> hex_of_bytes (des_decrypt (bytes_of_hex k) (bytes_of_hex b))
  | ["tdes_cbc"; k; iv; d] -> hex_of_bytes (tdes_cbc_encrypt (bytes_of_hex k) (bytes_of_hex iv) (bytes_of_hex d))
  | ["mac"; d; k; iv; f] -> show_res hex_of_bytes (generate_mac (bytes_of_hex d) (bytes_of_hex k) (bytes_of_hex iv) (f = "1"))
  | ["sk"; k; rc] -> hex_of_bytes (session_key (bytes_of_hex k) (bytes_of_hex rc))
  | "felica" :: kind :: rep :: idm :: rsps :: ops ->
      let ((obs, st), cmds) = felica_run (kind = "lites") (rep = "1") (bytes_of_hex idm)
          (List.map xres_of (split ',' rsps)) (List.map parse_op ops) in
      String.concat "|" (List.map show_obs obs) ^ " ; " ^
      show_bool st.r_auth ^ " " ^ show_opt st.r_sk ^ " " ^ show_opt st.r_iv ^ " ; " ^
      String.concat "," (List.map hex_of_bytes cmds)
  | ["ftag"; kind; idm; init; cmds] ->
      String.concat "," (List.map show_opt
        (ftag_session (kind = "lites") (bytes_of_hex idm) (parse_init init) (List.map bytes_of_hex (split ',' cmds))))
  | "ntag" :: cfg :: rsps :: senses :: ops ->
      let ss = if senses = "-" then [] else List.init (String.length senses) (fun i -> senses.[i] = '1') in
      let ((obs, st), cmds) = ntag_run (zi cfg) (List.map xres_of (split ',' rsps)) ss (List.map parse_nop ops) in
      String.concat "|" (List.map (show_res show_bool) obs) ^ " ; " ^
      show_bool st.n_auth ^ " " ^ show_bool st.n_target ^ " ; " ^
      String.concat "," (List.map hex_of_bytes cmds)
  | ["ntagtag"; cfg; init; cmds] ->
      let evs = List.map (fun c -> if c = "S" then None else Some (bytes_of_hex c)) (split ',' cmds) in
      String.concat "," (List.map2 (fun e o -> if e = None then "sense" else show_opt o) evs
        (ntag_session (zi cfg) (parse_init init) evs))
  | _ -> "?unknown-command"

let () =
  try
    while true do
      let line = input_line stdin in
      let w = List.filter (fun s -> s <> "") (String.split_on_char ' ' line) in
      print_string (try handle w with Stack_overflow -> "exc RecursionError" | Failure m -> "?failure " ^ m);
      print_newline ()
    done
  with End_of_file -> ()
