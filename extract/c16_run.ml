(* Line-oriented driver around the extracted C16 models.
   retry <tt1|tt2|tt3> <fixed3:0|1> <retries> <present:0|1> <script>
        script letters: A answer, t/x/p/o fault before the tag (command lost), T/X/P/O fault after the tag
        (response lost); classes timeout / transmission / protocol / other
        -> "<attempts> <result> <deliveries>"   result: ok | err TagCommandError:<n> | err RuntimeError | crash UnboundLocalError
   present4 <script>       -> Type4Tag.is_present: "<true|false> <attempts>"
   classes                 -> names of the tag classes
   entries <class>         -> entry names
   escapes <class> <entry> <named|any>   -> classes the analysis computes for that public method
   allowed <class> <entry> -> the allowed set of Bridge/C16Skel.v
   activate <named|any>    -> escapes of nfc.tag.activate *)
open C16

let rec pos_of_int n = if n = 1 then XH else if n land 1 = 0 then XO (pos_of_int (n lsr 1)) else XI (pos_of_int (n lsr 1))
let z_of_int n = if n = 0 then Z0 else if n > 0 then Zpos (pos_of_int n) else Zneg (pos_of_int (-n))
let rec int_of_pos = function XH -> 1 | XO p -> 2 * int_of_pos p | XI p -> 2 * int_of_pos p + 1
let int_of_z = function Z0 -> 0 | Zpos p -> int_of_pos p | Zneg p -> - (int_of_pos p)
let rec int_of_nat = function O -> 0 | S n -> 1 + int_of_nat n

let char_of_ascii (Ascii (b0, b1, b2, b3, b4, b5, b6, b7)) =
  let v b i = if b then 1 lsl i else 0 in
  Char.chr (v b0 0 + v b1 1 + v b2 2 + v b3 3 + v b4 4 + v b5 5 + v b6 6 + v b7 7)
let ascii_of_char c =
  let n = Char.code c in let t i = (n lsr i) land 1 = 1 in
  Ascii (t 0, t 1, t 2, t 3, t 4, t 5, t 6, t 7)
let rec ocaml_string = function EmptyString -> "" | String (a, s) -> String.make 1 (char_of_ascii a) ^ ocaml_string s
let coq_string s =
  let r = ref EmptyString in
  for i = String.length s - 1 downto 0 do r := String (ascii_of_char s.[i], !r) done; !r

let crash_name = function
  | IndexErr -> "IndexError" | UnpackErr -> "UnpackErr" | NoneSubscript -> "NoneSubscript" | NoneAttr -> "NoneAttr"
  | Unbound -> "UnboundLocalError" | RangeStep0 -> "RangeStep0" | RecursionErr -> "RecursionError"
  | AssertErr -> "AssertionError" | TypeErr -> "TypeError" | ValueErr -> "ValueError" | StructErr -> "struct.error"
  | AttributeErr -> "AttributeError" | KeyErr -> "KeyError"
let err_name = function
  | TagCommandError e -> "TagCommandError:" ^ string_of_int (int_of_z e)
  | RuntimeErr -> "RuntimeError" | ValueError -> "ValueError"
  | TimeoutError -> "TimeoutError" | TransmissionError -> "TransmissionError" | ProtocolError -> "ProtocolError"
  | CommunicationError -> "CommunicationError" | _ -> "other"
let show_res = function
  | Ok _ -> "ok" | Err e -> "err " ^ err_name e | Crash c -> "crash " ^ crash_name c | Hang -> "hang"

let attempt_of_char c =
  match c with
  | 'A' -> Answer []
  | 't' -> Fault (FTimeout, false) | 'T' -> Fault (FTimeout, true)
  | 'x' -> Fault (FTransmission, false) | 'X' -> Fault (FTransmission, true)
  | 'p' -> Fault (FProtocol, false) | 'P' -> Fault (FProtocol, true)
  | 'o' -> Fault (FOther, false) | 'O' -> Fault (FOther, true)
  | _ -> failwith "script letter"
let script s = if s = "-" then [] else List.init (String.length s) (fun i -> attempt_of_char s.[i])
let ttype = function "tt1" -> TT1 | "tt2" -> TT2 | "tt3" -> TT3 | _ -> failwith "tag type"

let find_class c =
  try List.find (fun (((n, _), _), _) -> ocaml_string n = c) tag_programs
  with Not_found -> failwith ("no such class " ^ c)
let class_name c =
  try ocaml_string (List.assoc (int_of_z c) (List.map (fun (k, n) -> (int_of_z k, n)) class_names))
  with Not_found -> "class" ^ string_of_int (int_of_z c)
let show_classes l = if l = [] then "-" else String.concat "," (List.sort_uniq compare (List.map class_name l))
let exch = function "named" -> exch_named | "any" -> exch_any | _ -> failwith "named|any"

(* solution per (class, exch) is cached: it is the expensive part *)
let cache = Hashtbl.create 64
let sol c which =
  match Hashtbl.find_opt cache (c, which) with
  | Some s -> s
  | None ->
    let (((_, _), pr), _) = find_class c in
    let p = pr (exch which) in
    let s = solution p in
    if not (summary_okb p s) then failwith "summary not inductive";
    Hashtbl.add cache (c, which) s; s

let handle w =
  match w with
  | ["retry"; ty; fx; retries; present; sc] ->
    let l = script sc in
    let (r, k) = run_transceive (ttype ty) (fx = "1") (z_of_int (int_of_string retries)) (present = "1") l in
    let d = deliveries k (script_of l) O in
    Printf.sprintf "%d %s %s" (int_of_nat k) (show_res r)
      (if d = [] then "-" else String.concat "" (List.map (fun b -> if b then "a" else "u") d))
  | ["present4"; sc] ->
    let (b, k) = run_t4_is_present (script sc) in Printf.sprintf "%s %d" (if b then "true" else "false") (int_of_nat k)
  | ["classes"] -> String.concat " " (List.map (fun (((n, _), _), _) -> ocaml_string n) tag_programs)
  | ["entries"; c] -> let (_, ents) = find_class c in String.concat " " (List.map (fun (e, _) -> ocaml_string e) ents)
  | ["escapes"; c; e; which] ->
    let (_, ents) = find_class c in
    let k = (try List.assoc e (List.map (fun (a, b) -> (ocaml_string a, b)) ents) with Not_found -> failwith "no such entry") in
    show_classes (slookup (sol c which) k)
  | ["allowed"; c; e] ->
    let (((_, fam), _), _) = find_class c in show_classes (allowed fam (coq_string e))
  | ["activate"; which] -> show_classes (escapes (prog_activate (exch which)) entry_activate)
  | _ -> "?unknown-command"

let () =
  try
    while true do
      let line = input_line stdin in
      let w = List.filter (fun s -> s <> "") (String.split_on_char ' ' line) in
      print_string (try handle w with Stack_overflow -> "?stack-overflow" | Failure m -> "?failure " ^ m);
      print_newline ()
    done
  with End_of_file -> ()
