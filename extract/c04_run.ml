(* Line-oriented driver around the extracted NFC-DEP model (C04).
   conv <b106> <idid> <inad> <imiu> <tdid> <tmiu> <timeout> <release> <script> <payloads> <app>
        b106: 0/1   did/nad: decimal or "-"   release: - | R | D
        script: "-" or pairs of D/L/C separated by '.'  (DD.LD.CC)
        payloads: "-" or comma separated hex strings ("." = empty payload)
        app: "-" or comma separated rtox:hex, rtox = 0 or RTOX values separated by '.'
   dec_ini <b106> <hex> / dec_tgt <b106> <hex> / enc_frame <b106> <hex> *)
open C04

let rec pos_of_int n = if n = 1 then XH else if n land 1 = 0 then XO (pos_of_int (n lsr 1)) else XI (pos_of_int (n lsr 1))
let z_of_int n = if n = 0 then Z0 else if n > 0 then Zpos (pos_of_int n) else Zneg (pos_of_int (-n))
let rec int_of_pos = function XH -> 1 | XO p -> 2 * int_of_pos p | XI p -> 2 * int_of_pos p + 1
let int_of_z = function Z0 -> 0 | Zpos p -> int_of_pos p | Zneg p -> - (int_of_pos p)
let rec nat_of_int n = if n <= 0 then O else S (nat_of_int (n - 1))

let bytes_of_hex s =
  if s = "-" || s = "." then [] else
  let n = String.length s / 2 in
  List.init n (fun i -> z_of_int (int_of_string ("0x" ^ String.sub s (2*i) 2)))
let hex_of_bytes l =
  if l = [] then "-" else String.concat "" (List.map (fun z -> let v = int_of_z z in
    if v < 0 || v > 255 then Printf.sprintf "<%d>" v else Printf.sprintf "%02x" v) l)
let zi s = z_of_int (int_of_string s)
let zopt s = if s = "-" then None else Some (zi s)
let show_zopt = function None -> "-" | Some z -> string_of_int (int_of_z z)

let crash_name = function
  | IndexErr -> "IndexError" | UnpackErr -> "UnpackErr" | NoneSubscript -> "NoneSubscript" | NoneAttr -> "NoneAttr"
  | Unbound -> "UnboundLocalError" | RangeStep0 -> "RangeStep0" | RecursionErr -> "RecursionError"
  | AssertErr -> "AssertionError" | TypeErr -> "TypeError" | ValueErr -> "ValueError" | StructErr -> "struct.error"
  | AttributeErr -> "AttributeError" | KeyErr -> "KeyError"
let err_name = function
  | DecodeError -> "DecodeError" | ProtocolError -> "ProtocolError" | TransmissionError -> "TransmissionError"
  | TimeoutError -> "TimeoutError" | BrokenLinkError -> "BrokenLinkError" | IOErr -> "IOError"
  | TagCommandError e -> "TagCommandError:" ^ string_of_int (int_of_z e)
  | LlcpError e -> "LlcpError:" ^ string_of_int (int_of_z e)
  | ValueError -> "ValueError" | CommunicationError -> "CommunicationError"
  | ChipsetError e -> "ChipsetError:" ^ string_of_int (int_of_z e)
  | UnsupportedTarget -> "UnsupportedTargetError" | RuntimeErr -> "RuntimeError"
let show_res f = function
  | Ok a -> "ok " ^ f a | Err e -> "err " ^ err_name e | Crash c -> "crash " ^ crash_name c | Hang -> "hang"

let split c s = if s = "-" then [] else String.split_on_char c s
let fate_of = function 'D' -> FD | 'L' -> FL | 'C' -> FC | _ -> failwith "fate"
let fate_ch = function FD -> "D" | FL -> "L" | FC -> "C"
let script_of s = List.map (fun p -> (fate_of p.[0], fate_of p.[1])) (split '.' s)
let payloads_of s = List.map bytes_of_hex (split ',' s)
let app_of s = List.map (fun it -> match String.split_on_char ':' it with
    | [r; h] -> ((if r = "0" || r = "-" then [] else List.map zi (String.split_on_char '.' r)), bytes_of_hex h)
    | _ -> failwith "app") (split ',' s)

let show_dep d = Printf.sprintf "fmt=%d pni=%d did=%s nad=%s data=%s" (int_of_z d.fmt) (int_of_z d.pni)
    (show_zopt d.did) (show_zopt d.nad) (hex_of_bytes d.data)
let zs l = String.concat "," (List.map (fun z -> string_of_int (int_of_z z)) l)
let show_pdu = function
  | PAtrReq (id, did, bs, br, pp, gb) -> Printf.sprintf "ATR_REQ %s %s %s" (hex_of_bytes id) (zs [did; bs; br; pp]) (hex_of_bytes gb)
  | PAtrRes (id, did, bs, br, t_o, pp, gb) -> Printf.sprintf "ATR_RES %s %s %s" (hex_of_bytes id) (zs [did; bs; br; t_o; pp]) (hex_of_bytes gb)
  | PPslReq (did, brs, fsl) -> "PSL_REQ " ^ zs [did; brs; fsl]
  | PPslRes did -> "PSL_RES " ^ zs [did]
  | PDepReq d -> "DEP_REQ " ^ show_dep d
  | PDepRes d -> "DEP_RES " ^ show_dep d
  | PDslReq x -> "DSL_REQ " ^ show_zopt x
  | PDslRes x -> "DSL_RES " ^ show_zopt x
  | PRlsReq x -> "RLS_REQ " ^ show_zopt x
  | PRlsRes x -> "RLS_RES " ^ show_zopt x

let show_ires = function IOk d -> "ok " ^ hex_of_bytes d | IErr e -> "err " ^ err_name e
  | ICrash c -> "crash " ^ crash_name c | IHang -> "hang"
let show_tres = function TOk d -> "ok " ^ hex_of_bytes d | TNone -> "none" | TErr e -> "err " ^ err_name e
  | TCrash c -> "crash " ^ crash_name c
let show_obs o =
  let fr = String.concat ";" (List.map (fun e -> (if e.l_ini then "I:" else "T:") ^ hex_of_bytes e.l_data ^ ":" ^ fate_ch e.l_fate) o.o_frames) in
  Printf.sprintf "frames=%s | ini=%s | tgt=%s | rtx=%s | act=%d" fr
    (String.concat "," (List.map show_ires o.o_ini)) (String.concat "," (List.map show_tres o.o_tgt))
    (String.concat "," (List.map show_tres o.o_rtx)) (if o.o_act then 1 else 0)

let fuel = nat_of_int 20000

let handle (w : string list) : string =
  match w with
  | ["conv"; b; idid; inad; imiu; tdid; tmiu; tmo; rel; sc; ps; app] ->
      let b106 = b = "1" in
      let ic = { ic_106 = b106; ic_miu = zi imiu; ic_did = zopt idid; ic_nad = zopt inad } in
      let tc = { tc_106 = b106; tc_miu = zi tmiu; tc_did = zopt tdid; tc_nad = None } in
      let release = (match rel with "R" -> Some true | "D" -> Some false | _ -> None) in
      show_obs (conversation fuel fuel ic tc (script_of sc) (payloads_of ps) (app_of app) (zi tmo) release)
  | ["dec_ini"; b; h] -> show_res show_pdu (decode_frame_ini (b = "1") (bytes_of_hex h))
  | ["dec_tgt"; b; h] -> show_res show_pdu (decode_frame_tgt (b = "1") (bytes_of_hex h))
  | ["enc_frame"; b; h] -> show_res hex_of_bytes (encode_frame (b = "1") (bytes_of_hex h))
  | _ -> "?unknown-command"

let () =
  try
    while true do
      let line = input_line stdin in
      let w = List.filter (fun s -> s <> "") (String.split_on_char ' ' line) in
      print_string (try handle w with Stack_overflow -> "crash RecursionError" | Failure m -> "?failure " ^ m);
      print_newline ()
    done
  with End_of_file -> ()
