(* Line-oriented driver around the extracted C10 model (coq/Model/Collect.v).
   input : <command> <token> ...   tokens: decimal integers or hex byte strings ("-" = empty)
   output: one line per input line

   pdu   := pt da sa ns nr bodyhex
   sock  := state busy busysent confs rcnt rack rwin scnt sack swin smiu peer addr nq pdu*
   obj   := S kind nsocks sock* nslist pdu*          (kind 0 raw, 1 ldl, 2 dlc)
          | D nres (tid sap)* nreq (tid namehex)* ndm pdu*
   state := nobj obj*                                                                       *)
open C10

let rec pos_of_int n = if n = 1 then XH else if n land 1 = 0 then XO (pos_of_int (n lsr 1)) else XI (pos_of_int (n lsr 1))
let z_of_int n = if n = 0 then Z0 else if n > 0 then Zpos (pos_of_int n) else Zneg (pos_of_int (-n))
let rec int_of_pos = function XH -> 1 | XO p -> 2 * int_of_pos p | XI p -> 2 * int_of_pos p + 1
let int_of_z = function Z0 -> 0 | Zpos p -> int_of_pos p | Zneg p -> - (int_of_pos p)

let bytes_of_hex s =
  if s = "-" then [] else
  let n = String.length s / 2 in
  List.init n (fun i -> z_of_int (int_of_string ("0x" ^ String.sub s (2*i) 2)))
let byte_ok z = let v = int_of_z z in v >= 0 && v <= 255
let hex_of_bytes l =
  if l = [] then "-" else
  let b = Buffer.create (2 * List.length l) in
  List.iter (fun z -> let v = int_of_z z in
    if v < 0 || v > 255 then Buffer.add_string b (Printf.sprintf "<%d>" v) else Buffer.add_string b (Printf.sprintf "%02x" v)) l;
  Buffer.contents b
let zi s = z_of_int (int_of_string s)
let zs z = string_of_int (int_of_z z)
let bs b = if b then "1" else "0"

let crash_name = function
  | IndexErr -> "IndexError" | UnpackErr -> "UnpackErr" | NoneSubscript -> "NoneSubscript" | NoneAttr -> "NoneAttr"
  | Unbound -> "UnboundLocalError" | RangeStep0 -> "RangeStep0" | RecursionErr -> "RecursionError"
  | AssertErr -> "AssertionError" | TypeErr -> "TypeError" | ValueErr -> "ValueError" | StructErr -> "struct.error"
  | AttributeErr -> "AttributeError" | KeyErr -> "KeyError"
let err_name = function
  | DecodeError -> "DecodeError" | ProtocolError -> "ProtocolError" | TransmissionError -> "TransmissionError"
  | TimeoutError -> "TimeoutError" | BrokenLinkError -> "BrokenLinkError" | IOErr -> "IOError"
  | TagCommandError e -> "TagCommandError:" ^ string_of_int (int_of_z e)
  | LlcpError e -> "LlcpError:" ^ string_of_int (int_of_z e)
  | ValueError -> "ValueError" | CommunicationError -> "CommunicationError"
  | ChipsetError e -> "ChipsetError:" ^ string_of_int (int_of_z e)
  | UnsupportedTarget -> "UnsupportedTargetError" | RuntimeErr -> "RuntimeError"
let show_res f = function
  | Ok a -> "ok " ^ f a | Err e -> "err " ^ err_name e | Crash c -> "crash " ^ crash_name c | Hang -> "hang"

(* ---- token stream parser ---- *)
exception Parse of string
let toks : string list ref = ref []
let next () = match !toks with [] -> raise (Parse "eof") | t :: r -> toks := r; t
let nint () = int_of_string (next ())
let nz () = zi (next ())
let nb () = (next ()) <> "0"
let rec rep n f = if n <= 0 then [] else let x = f () in x :: rep (n - 1) f

let p_pdu () =
  let pt = nz () in let da = nz () in let sa = nz () in let ns = nz () in let nr = nz () in
  let body = bytes_of_hex (next ()) in
  { pt = pt; da = da; sa = sa; ns = ns; nr = nr; body = body }
let p_sock () =
  let state = nz () in let busy = nb () in let busy_sent = nb () in let confs = nz () in
  let rcnt = nz () in let rack = nz () in let rwin = nz () in
  let scnt = nz () in let sack = nz () in let swin = nz () in
  let smiu = nz () in let peer = nz () in let addr = nz () in
  let nq = nint () in let q = rep nq p_pdu in
  { sq = q; state = state; busy = busy; busy_sent = busy_sent; confs = confs; rcnt = rcnt; rack = rack; rwin = rwin;
    scnt = scnt; sack = sack; swin = swin; smiu = smiu; peer = peer; addr = addr }
let p_kind () = match nint () with 0 -> Raw | 1 -> Ldl | _ -> Dlc
let p_obj () =
  match next () with
  | "S" ->
    let k = p_kind () in
    let n = nint () in let ss = rep n p_sock in
    let m = nint () in let sl = rep m p_pdu in
    SapN { skd = k; socks = ss; slist = sl }
  | "D" ->
    let n = nint () in let rs = rep n (fun () -> let t = nz () in let s = nz () in (t, s)) in
    let m = nint () in let qs = rep m (fun () -> let t = nz () in let nm = bytes_of_hex (next ()) in (t, nm)) in
    let k = nint () in let dm = rep k p_pdu in
    SapD { sdres = rs; sdreq = qs; dmpdu = dm }
  | t -> raise (Parse ("object tag " ^ t))
let p_state () = let n = nint () in rep n p_obj

(* ---- printers (same grammar) ---- *)
let s_pdu p = String.concat " " [zs p.pt; zs p.da; zs p.sa; zs p.ns; zs p.nr; hex_of_bytes p.body]
let s_list f l = String.concat " " (string_of_int (List.length l) :: List.map f l)
let s_sock s = String.concat " " [zs s.state; bs s.busy; bs s.busy_sent; zs s.confs; zs s.rcnt; zs s.rack; zs s.rwin;
                                  zs s.scnt; zs s.sack; zs s.swin; zs s.smiu; zs s.peer; zs s.addr; s_list s_pdu s.sq]
let s_kind = function Raw -> "0" | Ldl -> "1" | Dlc -> "2"
let s_obj = function
  | SapN a -> String.concat " " ["S"; s_kind a.skd; s_list s_sock a.socks; s_list s_pdu a.slist]
  | SapD d -> String.concat " " ["D"; s_list (fun (t, s) -> zs t ^ " " ^ zs s) d.sdres;
                                 s_list (fun (t, n) -> zs t ^ " " ^ hex_of_bytes n) d.sdreq; s_list s_pdu d.dmpdu]
let s_state st = s_list s_obj st
let s_frame = function
  | FNone -> "none"
  | FOne p -> "one " ^ s_pdu p
  | FAgf l -> "agf " ^ s_list s_pdu l
let s_wire f =
  match f with
  | FNone -> "none"
  | _ -> let b = enc_frame f in if List.for_all byte_ok b then hex_of_bytes b else "encode-error"

let handle (w : string list) : string =
  match w with
  | "collect" :: v :: miu :: agf :: icv :: rest ->
    toks := rest;
    let st = p_state () in
    let var = if v = "orig" then orig else fixed in
    (* the test cipher of the harness: ciphertext = plaintext followed by icv octets EEh *)
    let sec = if icv = "-" then None else
      let n = int_of_string icv in
      Some { icv_size = z_of_int n; encrypt = (fun _ d -> d @ List.init n (fun _ -> z_of_int 238)) } in
    let c = { send_miu = zi miu; send_agf = (agf <> "0"); sec = sec } in
    show_res (fun (st', f) -> String.concat " | " [s_frame f; s_wire f; zs (frame_info f); s_state st']) (collect_v var c st)
  | ["receive"; d] -> show_res (s_list s_pdu) (receive (bytes_of_hex d))
  | "sendto" :: miu :: dest :: msg :: rest ->
    toks := rest; let s = p_sock () in
    show_res s_sock (ldl_sendto (zi miu) s (bytes_of_hex msg) (zi dest))
  | "send" :: msg :: rest ->
    toks := rest; let s = p_sock () in
    show_res s_sock (dlc_send s (bytes_of_hex msg))
  | ["learn"; v] -> zs (learn_miu (if v = "-" then None else Some (zi v)))
  | "learnconn" :: miu :: v :: rest ->
    toks := rest; let s = p_sock () in s_sock (learn_conn_miu (zi miu) (if v = "-" then None else Some (zi v)) s)
  | "clamp" :: miu :: rest ->
    toks := rest; let s = p_sock () in s_sock (llc_clamp_miu (zi miu) s)
  | _ -> "?unknown-command"

let () =
  try
    while true do
      let line = input_line stdin in
      let w = List.filter (fun s -> s <> "") (String.split_on_char ' ' line) in
      print_string (try handle w with Stack_overflow -> "crash RecursionError" | Failure m -> "?failure " ^ m
                                    | Parse m -> "?parse " ^ m);
      print_newline ()
    done
  with End_of_file -> ()
