(* Line-oriented driver around the extracted data link connection model (Model/Dlc.v).
   Stateful: "init" resets the system, every other line applies one op and prints
     <output of the op> | <state of A> | <state of B> | <len wire A->B> <len wire B->A> | <ghost A->B> | <ghost B->A>
   args: decimal integers, hex byte strings ("-" = empty), sides A/B *)
open C05

let rec pos_of_int n = if n = 1 then XH else if n land 1 = 0 then XO (pos_of_int (n lsr 1)) else XI (pos_of_int (n lsr 1))
let z_of_int n = if n = 0 then Z0 else if n > 0 then Zpos (pos_of_int n) else Zneg (pos_of_int (-n))
let rec int_of_pos = function XH -> 1 | XO p -> 2 * int_of_pos p | XI p -> 2 * int_of_pos p + 1
let int_of_z = function Z0 -> 0 | Zpos p -> int_of_pos p | Zneg p -> - (int_of_pos p)

let bytes_of_hex s =
  if s = "-" then [] else
  let n = String.length s / 2 in
  List.init n (fun i -> z_of_int (int_of_string ("0x" ^ String.sub s (2*i) 2)))
let hex_of_bytes l =
  if l = [] then "-" else String.concat "" (List.map (fun z -> let v = int_of_z z in
    if v < 0 || v > 255 then Printf.sprintf "<%d>" v else Printf.sprintf "%02x" v) l)
let zi s = z_of_int (int_of_string s)
let zs z = string_of_int (int_of_z z)

let crash_name = function
  | IndexErr -> "IndexError" | UnpackErr -> "UnpackErr" | NoneSubscript -> "NoneSubscript" | NoneAttr -> "NoneAttr"
  | Unbound -> "UnboundLocalError" | RangeStep0 -> "RangeStep0" | RecursionErr -> "RecursionError"
  | AssertErr -> "AssertionError" | TypeErr -> "TypeError" | ValueErr -> "ValueError" | StructErr -> "struct.error"
  | AttributeErr -> "AttributeError" | KeyErr -> "KeyError"
let err_name = function
  | DecodeError -> "DecodeError" | ProtocolError -> "ProtocolError" | TransmissionError -> "TransmissionError"
  | TimeoutError -> "TimeoutError" | BrokenLinkError -> "BrokenLinkError" | IOErr -> "IOError"
  | TagCommandError e -> "TagCommandError:" ^ string_of_int (int_of_z e)
  | LlcpError e -> "LlcpError:" ^ string_of_int (int_of_z e)
  | ValueError -> "ValueError" | CommunicationError -> "CommunicationError"
  | ChipsetError e -> "ChipsetError:" ^ string_of_int (int_of_z e)
  | UnsupportedTarget -> "UnsupportedTargetError" | RuntimeErr -> "RuntimeError"
let show_res f = function
  | Ok a -> "ok " ^ f a | Err e -> "err " ^ err_name e | Crash c -> "crash " ^ crash_name c | Hang -> "hang"
let show_bool b = if b then "true" else "false"
let b01 b = if b then "1" else "0"

let side_of = function "A" -> A | "B" -> B | s -> failwith ("side " ^ s)

let show_pdu = function
  | PI (ns, nr, d) -> Printf.sprintf "I:%s:%s:%s" (zs ns) (zs nr) (hex_of_bytes d)
  | PRR nr -> "RR:" ^ zs nr
  | PRNR nr -> "RNR:" ^ zs nr
  | PFRMR (f, t, ns, nr, vs, vr, vsa, vra) ->
      "FRMR:" ^ String.concat ":" (List.map zs [f; t; ns; nr; vs; vr; vsa; vra])
let parse_pdu s =
  match String.split_on_char ':' s with
  | ["I"; ns; nr; d] -> PI (zi ns, zi nr, bytes_of_hex d)
  | ["RR"; nr] -> PRR (zi nr)
  | ["RNR"; nr] -> PRNR (zi nr)
  | ["FRMR"; f; t; ns; nr; vs; vr; vsa; vra] -> PFRMR (zi f, zi t, zi ns, zi nr, zi vs, zi vr, zi vsa, zi vra)
  | _ -> failwith ("pdu " ^ s)
let enq_name = function
  | EnqAccepted -> "accepted" | EnqDiscarded -> "discarded" | EnqRejected -> "rejected"
  | EnqAck -> "ack" | EnqShutdown -> "shutdown" | EnqIgnored -> "ignored"

let show_out = function
  | OSend r -> "send " ^ show_res show_bool r
  | ORecv r -> "recv " ^ show_res (function Some d -> "msg " ^ hex_of_bytes d | None -> "none") r
  | OUnit -> "unit"
  | OPoll r -> "poll " ^ show_res show_bool r
  | OPdu None -> "pdu none"
  | OPdu (Some p) -> "pdu " ^ show_pdu p
  | ODeliver None -> "deliver none"
  | ODeliver (Some (p, r)) -> "deliver " ^ show_pdu p ^ " " ^ enq_name r

let show_ep x =
  Printf.sprintf "%s %s %s %s %s %s %s %s%s%s %d %d" (b01 x.est) (zs x.vs) (zs x.vsa) (zs x.vr) (zs x.vra)
    (zs x.confs) (zs x.acks) (b01 x.busy) (b01 x.busy_sent) (b01 x.send_busy) (List.length x.sq) (List.length x.rq)
let show_g g =
  Printf.sprintf "%d %d %s %s %s %s%s%s" (List.length g.sent) (List.length g.dlv) (zs g.gSA) (zs g.gR) (zs g.gRA)
    (b01 g.lost) (b01 g.frmr) (b01 g.rterr)
let show_sys s =
  Printf.sprintf "%s | %s | %d %d | %s | %s" (show_ep s.epa) (show_ep s.epb) (List.length s.wab) (List.length s.wba)
    (show_g s.gab) (show_g s.gba)

let st = ref (init { rw_a = z_of_int 1; miu_a = z_of_int 128; rw_b = z_of_int 1; miu_b = z_of_int 128 })

let apply o = let (s', r) = step_full !st o in st := s'; show_out r ^ " | " ^ show_sys s'

let handle (w : string list) : string =
  match w with
  | ["init"; rwa; miua; rwb; miub] ->
      st := init { rw_a = zi rwa; miu_a = zi miua; rw_b = zi rwb; miu_b = zi miub }; "init | " ^ show_sys !st
  | ["send"; sd; m] -> apply (Send (side_of sd, bytes_of_hex m))
  | ["recv"; sd] -> apply (Recv (side_of sd))
  | ["busy"; sd; b] -> apply (SetBusy (side_of sd, b = "1"))
  | ["pollacks"; sd] -> apply (PollAcks (side_of sd))
  | ["deq"; sd; miu; icv] -> apply (Deq (side_of sd, zi miu, zi icv))
  | ["ack"; sd] -> apply (Ack (side_of sd))
  | ["deliver"; sd] -> apply (Deliver (side_of sd))
  | ["collect"; sd; miu] -> let (s', r) = collect1 !st (side_of sd) (zi miu) in st := s'; show_out r ^ " | " ^ show_sys s'
  | ["inject"; sd; p] -> st := inject !st (side_of sd) (parse_pdu p); "inject | " ^ show_sys !st
  | ["slots"; sd] -> let x = get_ep !st (side_of sd) in zs (send_window_slots x) ^ " " ^ zs (recv_window_slots x)
  | _ -> "?unknown-command"

let () =
  try
    while true do
      let line = input_line stdin in
      let w = List.filter (fun s -> s <> "") (String.split_on_char ' ' line) in
      print_string (try handle w with Stack_overflow -> "crash RecursionError" | Failure m -> "?failure " ^ m);
      print_newline ()
    done
  with End_of_file -> ()
