(* Line-oriented driver around the extracted LLCP PDU model (Model/Pdu.v).
   input : <command> <arg> ...
   PDU syntax (no blanks):  name(arg,...)   arg ::= int | n (None) | x<hex> (bytes) | [item;item;...]
                            item ::= pdu | tid/x<hex> (sdreq) | tid/sap (sdres)
   commands:
     enc <pdu>                  -> ok <hex> | err EncodeError | crash <name>
     len <pdu>                  -> <int>
     valid <pdu>                -> true | false
     norm <pdu>                 -> <pdu>
     dec <hex> <offset> <size>  -> ok <pdu> re=<enc result, ':' for ' '> len=<int> | err DecodeError | crash <name> | hang
     dec3d <b0>                 -> md5 of the 65536 'dec' answers for the strings b0 b1 b2 (offset 0, size 3), '\n'-joined
     dec3 <b0> <b1>             -> the 256 'dec' answers for b0 b1 b2, '|'-joined
     tlvdec <hex> <offset> <size> -> ok <L> <tlv> | err DecodeError | crash ..
     tlvenc <tlv>               -> ok <hex> | err EncodeError | crash .. *)
open C11

let rec pos_of_int n = if n = 1 then XH else if n land 1 = 0 then XO (pos_of_int (n lsr 1)) else XI (pos_of_int (n lsr 1))
let z_of_int n = if n = 0 then Z0 else if n > 0 then Zpos (pos_of_int n) else Zneg (pos_of_int (-n))
let rec int_of_pos = function XH -> 1 | XO p -> 2 * int_of_pos p | XI p -> 2 * int_of_pos p + 1
let int_of_z = function Z0 -> 0 | Zpos p -> int_of_pos p | Zneg p -> - (int_of_pos p)

let bytes_of_hex s =
  if s = "-" then [] else
  let n = String.length s / 2 in
  List.init n (fun i -> z_of_int (int_of_string ("0x" ^ String.sub s (2*i) 2)))
let hex_of_bytes l =
  if l = [] then "-" else String.concat "" (List.map (fun z -> let v = int_of_z z in
    if v < 0 || v > 255 then Printf.sprintf "<%d>" v else Printf.sprintf "%02x" v) l)
let zi s = z_of_int (int_of_string s)
let zs z = string_of_int (int_of_z z)

let crash_name = function
  | IndexErr -> "IndexError" | UnpackErr -> "UnpackErr" | NoneSubscript -> "NoneSubscript" | NoneAttr -> "NoneAttr"
  | Unbound -> "UnboundLocalError" | RangeStep0 -> "RangeStep0" | RecursionErr -> "RecursionError"
  | AssertErr -> "AssertionError" | TypeErr -> "TypeError" | ValueErr -> "ValueError" | StructErr -> "struct.error"
  | AttributeErr -> "AttributeError" | KeyErr -> "KeyError"
let err_name = function
  | DecodeError -> "DecodeError" | ProtocolError -> "ProtocolError" | TransmissionError -> "TransmissionError"
  | TimeoutError -> "TimeoutError" | BrokenLinkError -> "BrokenLinkError" | IOErr -> "IOError"
  | TagCommandError e -> "TagCommandError:" ^ string_of_int (int_of_z e)
  | LlcpError e -> "LlcpError:" ^ string_of_int (int_of_z e)
  | ValueError -> "ValueError" | CommunicationError -> "CommunicationError"
  | ChipsetError e -> "ChipsetError:" ^ string_of_int (int_of_z e)
  | UnsupportedTarget -> "UnsupportedTargetError" | RuntimeErr -> "RuntimeError"
let show_res f = function
  | Ok a -> "ok " ^ f a | Err e -> "err " ^ err_name e | Crash c -> "crash " ^ crash_name c | Hang -> "hang"
let show_eres f = function
  | EOk a -> "ok " ^ f a | EEncodeError -> "err EncodeError" | ECrash c -> "crash " ^ crash_name c

(* ---- printing ---- *)
let xb l = "x" ^ (if l = [] then "" else hex_of_bytes l)
let oz = function None -> "n" | Some v -> zs v
let ob = function None -> "n" | Some b -> xb b
let rec show_pdu p =
  let f name args = name ^ "(" ^ String.concat "," args ^ ")" in
  match p with
  | Symm (d, s) -> f "symm" [zs d; zs s]
  | Pax (d, s, v, m, w, l, o) -> f "pax" [zs d; zs s; oz v; oz m; oz w; oz l; oz o]
  | Agf (d, s, ps) -> f "agf" [zs d; zs s; "[" ^ String.concat ";" (List.map show_pdu ps) ^ "]"]
  | UI (d, s, b) -> f "ui" [zs d; zs s; xb b]
  | Connect (d, s, miu, rw, sn) -> f "connect" [zs d; zs s; zs miu; zs rw; ob sn]
  | Disc (d, s) -> f "disc" [zs d; zs s]
  | CC (d, s, miu, rw) -> f "cc" [zs d; zs s; zs miu; zs rw]
  | DM (d, s, r) -> f "dm" [zs d; zs s; zs r]
  | Frmr (d, s, a, b, c, e, g, h, i, j) -> f "frmr" (List.map zs [d; s; a; b; c; e; g; h; i; j])
  | Snl (d, s, rq, rs) ->
      f "snl" [zs d; zs s; "[" ^ String.concat ";" (List.map (fun (t, n) -> zs t ^ "/" ^ xb n) rq) ^ "]";
               "[" ^ String.concat ";" (List.map (fun (t, a) -> zs t ^ "/" ^ zs a) rs) ^ "]"]
  | Dps (d, s, e, r) -> f "dps" [zs d; zs s; ob e; ob r]
  | Info (d, s, ns, nr, b) -> f "info" [zs d; zs s; zs ns; zs nr; xb b]
  | RR (d, s, nr) -> f "rr" [zs d; zs s; zs nr]
  | RNR (d, s, nr) -> f "rnr" [zs d; zs s; zs nr]
  | Unknown (pt, d, s, b) -> f "unknown" [zs pt; zs d; zs s; xb b]

let show_tlv = function
  | TVersion v -> "version:" ^ zs v | TMiux v -> "miux:" ^ zs v | TWks v -> "wks:" ^ zs v | TLto v -> "lto:" ^ zs v
  | TRw v -> "rw:" ^ zs v | TSn b -> "sn:" ^ xb b | TOpt v -> "opt:" ^ zs v
  | TSdreq (t, b) -> "sdreq:" ^ zs t ^ "/" ^ xb b | TSdres (t, a) -> "sdres:" ^ zs t ^ "/" ^ zs a
  | TEcpk b -> "ecpk:" ^ xb b | TRn b -> "rn:" ^ xb b | TOther (t, b) -> "other:" ^ zs t ^ "/" ^ xb b

(* ---- parsing ---- *)
exception Parse of string
let parse_pdu (s : string) : pdu =
  let pos = ref 0 in
  let n = String.length s in
  let peek () = if !pos < n then s.[!pos] else '\000' in
  let eat c = if peek () = c then incr pos else raise (Parse (Printf.sprintf "expected %c at %d" c !pos)) in
  let token () =
    let st = !pos in
    while !pos < n && (match s.[!pos] with ',' | ')' | ';' | ']' | '/' | '(' | '[' -> false | _ -> true) do incr pos done;
    String.sub s st (!pos - st) in
  let int_ () = zi (token ()) in
  let bytes_ () = let t = token () in
    if String.length t = 0 || t.[0] <> 'x' then raise (Parse "bytes") else
    (let h = String.sub t 1 (String.length t - 1) in if h = "" then [] else bytes_of_hex h) in
  let oint () = if peek () = 'n' then (incr pos; None) else Some (int_ ()) in
  let obytes () = if peek () = 'n' then (incr pos; None) else Some (bytes_ ()) in
  let list_ item =
    eat '[';
    if peek () = ']' then (incr pos; []) else begin
      let acc = ref [item ()] in
      while peek () = ';' do incr pos; acc := item () :: !acc done;
      eat ']'; List.rev !acc end in
  let comma () = eat ',' in
  let rec pdu_ () =
    let name = token () in
    eat '(';
    let r = (match name with
      | "symm" -> let d = int_ () in comma (); let s_ = int_ () in Symm (d, s_)
      | "pax" -> let d = int_ () in comma (); let s_ = int_ () in comma ();
          let v = oint () in comma (); let m = oint () in comma (); let w = oint () in comma ();
          let l = oint () in comma (); let o = oint () in Pax (d, s_, v, m, w, l, o)
      | "agf" -> let d = int_ () in comma (); let s_ = int_ () in comma (); let ps = list_ pdu_ in Agf (d, s_, ps)
      | "ui" -> let d = int_ () in comma (); let s_ = int_ () in comma (); let b = bytes_ () in UI (d, s_, b)
      | "connect" -> let d = int_ () in comma (); let s_ = int_ () in comma (); let miu = int_ () in comma ();
          let rw = int_ () in comma (); let sn = obytes () in Connect (d, s_, miu, rw, sn)
      | "disc" -> let d = int_ () in comma (); let s_ = int_ () in Disc (d, s_)
      | "cc" -> let d = int_ () in comma (); let s_ = int_ () in comma (); let miu = int_ () in comma ();
          let rw = int_ () in CC (d, s_, miu, rw)
      | "dm" -> let d = int_ () in comma (); let s_ = int_ () in comma (); let r = int_ () in DM (d, s_, r)
      | "frmr" -> let a = Array.make 10 Z0 in
          for i = 0 to 9 do (if i > 0 then comma ()); a.(i) <- int_ () done;
          Frmr (a.(0), a.(1), a.(2), a.(3), a.(4), a.(5), a.(6), a.(7), a.(8), a.(9))
      | "snl" -> let d = int_ () in comma (); let s_ = int_ () in comma ();
          let rq = list_ (fun () -> let t = int_ () in eat '/'; let b = bytes_ () in (t, b)) in comma ();
          let rs = list_ (fun () -> let t = int_ () in eat '/'; let a = int_ () in (t, a)) in Snl (d, s_, rq, rs)
      | "dps" -> let d = int_ () in comma (); let s_ = int_ () in comma (); let e = obytes () in comma ();
          let r = obytes () in Dps (d, s_, e, r)
      | "info" -> let d = int_ () in comma (); let s_ = int_ () in comma (); let ns = int_ () in comma ();
          let nr = int_ () in comma (); let b = bytes_ () in Info (d, s_, ns, nr, b)
      | "rr" -> let d = int_ () in comma (); let s_ = int_ () in comma (); let nr = int_ () in RR (d, s_, nr)
      | "rnr" -> let d = int_ () in comma (); let s_ = int_ () in comma (); let nr = int_ () in RNR (d, s_, nr)
      | "unknown" -> let pt = int_ () in comma (); let d = int_ () in comma (); let s_ = int_ () in comma ();
          let b = bytes_ () in Unknown (pt, d, s_, b)
      | _ -> raise (Parse ("pdu name " ^ name))) in
    eat ')'; r in
  let p = pdu_ () in
  if !pos <> n then raise (Parse "trailing") else p

let parse_tlv (s : string) : tlv =
  match String.index_opt s ':' with
  | None -> raise (Parse "tlv")
  | Some i ->
    let name = String.sub s 0 i and rest = String.sub s (i + 1) (String.length s - i - 1) in
    let by t = if t = "x" then [] else bytes_of_hex (String.sub t 1 (String.length t - 1)) in
    let two () = match String.split_on_char '/' rest with [a; b] -> (a, b) | _ -> raise (Parse "tlv pair") in
    (match name with
     | "version" -> TVersion (zi rest) | "miux" -> TMiux (zi rest) | "wks" -> TWks (zi rest) | "lto" -> TLto (zi rest)
     | "rw" -> TRw (zi rest) | "sn" -> TSn (by rest) | "opt" -> TOpt (zi rest)
     | "sdreq" -> let (a, b) = two () in TSdreq (zi a, by b)
     | "sdres" -> let (a, b) = two () in TSdres (zi a, zi b)
     | "ecpk" -> TEcpk (by rest) | "rn" -> TRn (by rest)
     | "other" -> let (a, b) = two () in TOther (zi a, by b)
     | _ -> raise (Parse "tlv name"))

let colon s = String.map (fun c -> if c = ' ' then ':' else c) s
let dec_answer data off size =
  match decode data off size with
  | Ok p -> "ok " ^ show_pdu p ^ " re=" ^ colon (show_eres hex_of_bytes (encode p)) ^ " len=" ^ zs (pdu_len p)
  | r -> show_res show_pdu r

let handle (w : string list) : string =
  match w with
  | ["enc"; p] -> show_eres hex_of_bytes (encode (parse_pdu p))
  | ["len"; p] -> zs (pdu_len (parse_pdu p))
  | ["valid"; p] -> if validb (parse_pdu p) then "true" else "false"
  | ["norm"; p] -> show_pdu (norm (parse_pdu p))
  | ["dec"; d; off; size] -> dec_answer (bytes_of_hex d) (zi off) (zi size)
  | ["dec3d"; b0] ->
      let b = Buffer.create (1 lsl 22) in
      let z0 = zi b0 and z3 = z_of_int 3 in
      for b1 = 0 to 255 do for b2 = 0 to 255 do
        Buffer.add_string b (dec_answer [z0; z_of_int b1; z_of_int b2] Z0 z3); Buffer.add_char b '\n' done done;
      Digest.to_hex (Digest.string (Buffer.contents b))
  | ["dec3"; b0; b1] ->
      let z0 = zi b0 and z1 = zi b1 and z3 = z_of_int 3 in
      String.concat "|" (List.init 256 (fun b2 -> dec_answer [z0; z1; z_of_int b2] Z0 z3))
  | ["tlvdec"; d; off; size] ->
      show_res (fun (l, t) -> zs l ^ " " ^ show_tlv t) (param_decode (bytes_of_hex d) (zi off) (zi size))
  | ["tlvenc"; t] -> show_eres hex_of_bytes (param_encode (parse_tlv t))
  | _ -> "?unknown-command"

let () =
  try
    while true do
      let line = input_line stdin in
      let w = List.filter (fun s -> s <> "") (String.split_on_char ' ' line) in
      print_string (try handle w with Stack_overflow -> "crash RecursionError" | Failure m -> "?failure " ^ m
                                    | Parse m -> "?parse " ^ m);
      print_newline ()
    done
  with End_of_file -> ()
