(* Line-oriented driver around the extracted LLCP address-table model (Model/Addr.v).
   The driver is stateful: "reset" starts a new history, every other line is one operation.
   output: <result>#<digest A>#<digest B> *)
open C17

let rec pos_of_int n = if n = 1 then XH else if n land 1 = 0 then XO (pos_of_int (n lsr 1)) else XI (pos_of_int (n lsr 1))
let z_of_int n = if n = 0 then Z0 else if n > 0 then Zpos (pos_of_int n) else Zneg (pos_of_int (-n))
let rec int_of_pos = function XH -> 1 | XO p -> 2 * int_of_pos p | XI p -> 2 * int_of_pos p + 1
let int_of_z = function Z0 -> 0 | Zpos p -> int_of_pos p | Zneg p -> - (int_of_pos p)
let rec nat_of_int n = if n <= 0 then O else S (nat_of_int (n - 1))
let rec int_of_nat = function O -> 0 | S n -> 1 + int_of_nat n

let bytes_of_hex s =
  if s = "-" then [] else
  let n = String.length s / 2 in
  List.init n (fun i -> z_of_int (int_of_string ("0x" ^ String.sub s (2*i) 2)))
let hex_of_bytes l =
  if l = [] then "-" else String.concat "" (List.map (fun z -> let v = int_of_z z in
    if v < 0 || v > 255 then Printf.sprintf "<%d>" v else Printf.sprintf "%02x" v) l)
let zi s = z_of_int (int_of_string s)
let zs z = string_of_int (int_of_z z)
let ni s = nat_of_int (int_of_string s)

let crash_name = function
  | IndexErr -> "IndexError" | UnpackErr -> "UnpackErr" | NoneSubscript -> "NoneSubscript" | NoneAttr -> "NoneAttr"
  | Unbound -> "UnboundLocalError" | RangeStep0 -> "RangeStep0" | RecursionErr -> "RecursionError"
  | AssertErr -> "AssertionError" | TypeErr -> "TypeError" | ValueErr -> "ValueError" | StructErr -> "struct.error"
  | AttributeErr -> "AttributeError" | KeyErr -> "KeyError"
let err_name = function
  | DecodeError -> "DecodeError" | ProtocolError -> "ProtocolError" | TransmissionError -> "TransmissionError"
  | TimeoutError -> "TimeoutError" | BrokenLinkError -> "BrokenLinkError" | IOErr -> "IOError"
  | TagCommandError e -> "TagCommandError:" ^ zs e
  | LlcpError e -> "LlcpError:" ^ zs e
  | ValueError -> "ValueError" | CommunicationError -> "CommunicationError"
  | ChipsetError e -> "ChipsetError:" ^ zs e
  | UnsupportedTarget -> "UnsupportedTargetError" | RuntimeErr -> "RuntimeError"

let split c s = String.split_on_char c s
let opt_z = function None -> "-" | Some z -> zs z

(* ---- PDUs *)
let show_pdu = function
  | PUI (d, s, data) -> Printf.sprintf "UI,%s,%s,%s" (zs d) (zs s) (hex_of_bytes data)
  | PConnect (d, s, sn) -> Printf.sprintf "CONNECT,%s,%s,%s" (zs d) (zs s) (match sn with None -> "-" | Some n -> hex_of_bytes n)
  | PCC (d, s) -> Printf.sprintf "CC,%s,%s" (zs d) (zs s)
  | PDisc (d, s) -> Printf.sprintf "DISC,%s,%s" (zs d) (zs s)
  | PDM (d, s, r) -> Printf.sprintf "DM,%s,%s,%s" (zs d) (zs s) (zs r)
  | PFrmr (d, s, f, t) -> Printf.sprintf "FRMR,%s,%s,%s,%s" (zs d) (zs s) (zs f) (zs t)
  | PSnl (rq, rs) ->
    let a = String.concat ";" (List.map (fun (t, n) -> zs t ^ ":" ^ hex_of_bytes n) rq) in
    let b = String.concat ";" (List.map (fun (t, v) -> zs t ^ ":" ^ zs v) rs) in
    Printf.sprintf "SNL,%s,%s" (if a = "" then "-" else a) (if b = "" then "-" else b)

let parse_pdu s =
  match split ',' s with
  | ["UI"; d; s; h] -> PUI (zi d, zi s, bytes_of_hex h)
  | ["CONNECT"; d; s; "-"] -> PConnect (zi d, zi s, None)
  | ["CONNECT"; d; s; h] -> PConnect (zi d, zi s, Some (bytes_of_hex h))
  | ["CC"; d; s] -> PCC (zi d, zi s)
  | ["DISC"; d; s] -> PDisc (zi d, zi s)
  | ["DM"; d; s; r] -> PDM (zi d, zi s, zi r)
  | ["FRMR"; d; s; f; t] -> PFrmr (zi d, zi s, zi f, zi t)
  | _ -> failwith ("bad pdu " ^ s)

(* ---- results *)
let show_event = function
  | EvEnq (i, p) -> Printf.sprintf "enq:%d:%s" (int_of_nat i) (show_pdu p)
  | EvConnDone (i, None) -> Printf.sprintf "conn:%d:ok" (int_of_nat i)
  | EvConnDone (i, Some e) -> Printf.sprintf "conn:%d:%s" (int_of_nat i) (zs e)
  | EvCloseDone i -> Printf.sprintf "closed:%d" (int_of_nat i)
  | EvResolved (n, v) -> Printf.sprintf "resolved:%s:%s" (hex_of_bytes n) (zs v)

let show_out = function
  | OUnit -> "unit"
  | OSock i -> Printf.sprintf "sock %d" (int_of_nat i)
  | OBool b -> "bool " ^ (if b then "true" else "false")
  | OVal v -> "val " ^ zs v
  | ODgram (d, s) -> Printf.sprintf "dgram %s %s" (hex_of_bytes d) (zs s)
  | ORaw p -> "raw " ^ show_pdu p
  | ONoneFrom p -> "nonefrom " ^ opt_z p
  | OPending -> "pending"
  | OBlock -> "block"
  | OBusy -> "busy"
  | OUnmodelled -> "unmodelled"
  | OXfer (p, evs) ->
    let es = List.sort compare (List.map show_event evs) in
    Printf.sprintf "xfer %s %s" (match p with None -> "-" | Some p -> show_pdu p)
      (if es = [] then "-" else String.concat "|" es)

let show_res = function
  | Ok a -> "ok " ^ show_out a | Err e -> "err " ^ err_name e | Crash c -> "crash " ^ crash_name c | Hang -> "hang"

(* ---- digest of one controller *)
let tname = function TRaw -> "raw" | TLdl -> "ldl" | TDlc -> "dlc"
let stname = function
  | StShutdown -> "SHUTDOWN" | StClosed -> "CLOSED" | StListen -> "LISTEN" | StConnect -> "CONNECT"
  | StEstablished -> "ESTABLISHED" | StDisconnect -> "DISCONNECT" | StCloseWait -> "CLOSE_WAIT"
let pdname = function PdNone -> "" | PdConnect -> "+c" | PdClose -> "+x"

let digest (c : ctl) : string =
  let listed = Hashtbl.create 16 in
  let saps = List.mapi (fun a e ->
    match e with
    | Sap (l, sl) ->
      List.iter (fun i -> Hashtbl.replace listed (int_of_nat i) true) l;
      if a = 0 && l = [] && sl = [] then "" else
      Printf.sprintf "%d:%s/%d" a (String.concat "." (List.map (fun i -> string_of_int (int_of_nat i)) l)) (List.length sl)
    | _ -> "") c.c_sap in
  let saps = List.filter (fun s -> s <> "") saps in
  let snl = List.sort compare (List.map (fun (n, a) -> hex_of_bytes n ^ "=" ^ zs a) c.c_snl) in
  let socks = List.mapi (fun i s ->
    Printf.sprintf "%d:%s:%s%s:%s:%s:%s:%d:%s" i (tname s.s_type) (stname s.s_state) (pdname s.s_pend)
      (opt_z s.s_addr) (opt_z s.s_peer) (zs s.s_rbuf) (List.length s.s_recvq)
      (if Hashtbl.mem listed i then string_of_int (List.length s.s_sendq) else "-")) c.c_socks in
  let cache = List.sort compare (List.map (fun (n, a) -> hex_of_bytes n ^ "=" ^ zs a) c.sd_cache) in
  let sent = List.sort compare (List.map (fun (t, n) -> zs t ^ "=" ^ hex_of_bytes n) c.sd_sent) in
  let rq = List.map (fun (t, n) -> zs t ^ ":" ^ hex_of_bytes n) c.sd_sdreq in
  let rs = List.map (fun (t, v) -> zs t ^ ":" ^ zs v) c.sd_sdres in
  Printf.sprintf "sap[%s] snl[%s] socks[%s] sd[%s|%d|%s|%s|%s|%d|%s]"
    (String.concat "," saps) (String.concat "," snl) (String.concat "," socks)
    (String.concat "," cache) (List.length c.sd_tids) (String.concat "," sent)
    (String.concat "," rq) (String.concat "," rs) (List.length c.sd_dmpdu)
    (String.concat "," (List.map hex_of_bytes c.sd_wait))

(* ---- operations *)
let side = function "A" -> SA | "B" -> SB | s -> failwith ("bad side " ^ s)
let stype = function "raw" -> TRaw | "ldl" -> TLdl | "dlc" -> TDlc | s -> failwith ("bad type " ^ s)
let bindarg s =
  if s = "none" then BNone else if s = "bad" then BBad
  else if String.length s >= 2 && String.sub s 0 2 = "a:" then BAddr (zi (String.sub s 2 (String.length s - 2)))
  else if String.length s >= 2 && String.sub s 0 2 = "n:" then BName (bytes_of_hex (String.sub s 2 (String.length s - 2)))
  else failwith ("bad bind arg " ^ s)

let parse_op (w : string list) : op =
  match w with
  | ["socket"; s; t] -> XLoc (side s, LSocket (stype t))
  | ["bind"; s; i; a] -> XLoc (side s, LBind (ni i, bindarg a))
  | ["listen"; s; i; b] -> XLoc (side s, LListen (ni i, zi b))
  | ["accept"; s; i] -> XLoc (side s, LAccept (ni i))
  | ["connecta"; s; i; d] -> XLoc (side s, LConnect (ni i, DAddr (zi d)))
  | ["connectn"; s; i; n] -> XLoc (side s, LConnect (ni i, DName (bytes_of_hex n)))
  | ["sendto"; s; i; m; d] -> XLoc (side s, LSendto (ni i, bytes_of_hex m, zi d))
  | ["rawsend"; s; i; p] -> XLoc (side s, LRawsend (ni i, parse_pdu p))
  | ["recvfrom"; s; i] -> XLoc (side s, LRecvfrom (ni i))
  | ["rcvbuf"; s; i; v] -> XLoc (side s, LRcvbuf (ni i, zi v))
  | ["resolve"; s; n; k] -> XLoc (side s, LResolve (bytes_of_hex n, zi k))
  | ["close"; s; i] -> XLoc (side s, LClose (ni i))
  | ["getsockname"; s; i] -> XLoc (side s, LGetsockname (ni i))
  | ["xfer"; s; a; m] -> XXfer (side s, zi a, zi m)
  | _ -> failwith "unknown-command"

let state = ref (init_sys true)

let handle (w : string list) : string =
  match w with
  | ["reset"; "old"] -> state := init_sys true; "reset"     (* DataLinkConnection.enqueue closes in every state *)
  | ["reset"; "new"] -> state := init_sys false; "reset"    (* ... queues only the FRMR in state ESTABLISHED (fixes/c07-7) *)
  | ["name_valid"; n] -> if name_valid (bytes_of_hex n) then "true" else "false"
  | _ ->
    let o = parse_op w in
    let (st', r) = step !state o in
    state := st';
    Printf.sprintf "%s#%s#%s" (show_res r) (digest (fst st')) (digest (snd st'))

let () =
  try
    while true do
      let line = input_line stdin in
      let w = List.filter (fun s -> s <> "") (String.split_on_char ' ' line) in
      print_string (try handle w with Stack_overflow -> "crash RecursionError" | Failure m -> "?failure " ^ m);
      print_newline ()
    done
  with End_of_file -> ()
