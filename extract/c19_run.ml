(* Line-oriented driver around the extracted activation model (C19).
   neg <brty0> <brs> <lri> <did> <nad> <lrt> <rwt> <miuA> <ltoA> <lscA> <secA> <sapsA> <miuB> <ltoB> <lscB> <secB> <sapsB> <id3> <id3t>
       did/nad: decimal or "-"; sec: 0/1; saps: "-" or comma separated decimals; id3: hex
   gb <miu> <lto> <lsc> <sec> <saps>          general bytes announced by an LLC
   takeover <sec> <gbhex>                      cfg entries taken over from the peer's general bytes
   lr <pp> / psl <brs> <fsl> / lto <lto>       kernels *)
open C19

let rec pos_of_int n = if n = 1 then XH else if n land 1 = 0 then XO (pos_of_int (n lsr 1)) else XI (pos_of_int (n lsr 1))
let z_of_int n = if n = 0 then Z0 else if n > 0 then Zpos (pos_of_int n) else Zneg (pos_of_int (-n))
let rec int_of_pos = function XH -> 1 | XO p -> 2 * int_of_pos p | XI p -> 2 * int_of_pos p + 1
let int_of_z = function Z0 -> 0 | Zpos p -> int_of_pos p | Zneg p -> - (int_of_pos p)

let bytes_of_hex s =
  if s = "-" then [] else
  let n = String.length s / 2 in
  List.init n (fun i -> z_of_int (int_of_string ("0x" ^ String.sub s (2*i) 2)))
let hex_of_bytes l =
  if l = [] then "-" else String.concat "" (List.map (fun z -> let v = int_of_z z in
    if v < 0 || v > 255 then Printf.sprintf "<%d>" v else Printf.sprintf "%02x" v) l)
let zi s = z_of_int (int_of_string s)
let zopt s = if s = "-" then None else Some (zi s)
let show_zopt = function None -> "-" | Some z -> string_of_int (int_of_z z)
let zs s = if s = "-" then [] else List.map zi (String.split_on_char ',' s)
let si z = string_of_int (int_of_z z)

let crash_name = function
  | IndexErr -> "IndexError" | UnpackErr -> "UnpackErr" | NoneSubscript -> "NoneSubscript" | NoneAttr -> "NoneAttr"
  | Unbound -> "UnboundLocalError" | RangeStep0 -> "RangeStep0" | RecursionErr -> "RecursionError"
  | AssertErr -> "AssertionError" | TypeErr -> "TypeError" | ValueErr -> "ValueError" | StructErr -> "struct.error"
  | AttributeErr -> "AttributeError" | KeyErr -> "KeyError"
let err_name = function
  | DecodeError -> "DecodeError" | ProtocolError -> "ProtocolError" | TransmissionError -> "TransmissionError"
  | TimeoutError -> "TimeoutError" | BrokenLinkError -> "BrokenLinkError" | IOErr -> "IOError"
  | TagCommandError e -> "TagCommandError:" ^ si e
  | LlcpError e -> "LlcpError:" ^ si e
  | ValueError -> "EncodeError" | CommunicationError -> "CommunicationError"
  | ChipsetError e -> "ChipsetError:" ^ si e
  | UnsupportedTarget -> "UnsupportedTargetError" | RuntimeErr -> "RuntimeError"
let show_res f = function
  | Ok a -> "ok " ^ f a | Err e -> "err " ^ err_name e | Crash c -> "crash " ^ crash_name c | Hang -> "hang"

let lopt miu lto lsc sec saps = { lo_miu = zi miu; lo_lto = zi lto; lo_lsc = zi lsc; lo_sec = (sec = "1"); lo_saps = zs saps }
let show_cfg c = Printf.sprintf "%d %s %s %s %s %s %s" (if c.c_ok then 1 else 0) (si c.c_send_miu) (si c.c_recv_lto)
    (si c.c_send_wks) (si c.c_send_lsc) (si c.c_dpc) (si c.c_ver)
let show_p2p o =
  let d = o.po_dep in
  Printf.sprintf "frames=%s | I: %s %s %s %s %s %s | T: %s | A: %s | B: %s"
    (String.concat ";" (List.map hex_of_bytes d.do_frames))
    (si d.do_i.di_miu) (si d.do_i.di_wt) (show_zopt d.do_i.di_did) (show_zopt d.do_i.di_nad) (si d.do_i.di_brty) (hex_of_bytes d.do_i.di_gb)
    (if d.do_tact then Printf.sprintf "%s %s %s %s %s" (si d.do_t.dt_miu) (si d.do_t.dt_wt) (show_zopt d.do_t.dt_did) (si d.do_t.dt_brty) (hex_of_bytes d.do_t.dt_gb)
     else "-")
    (show_cfg o.po_a) (show_cfg o.po_b)

let handle (w : string list) : string =
  match w with
  | ["neg"; b0; brs; lri; did; nad; lrt; rwt; ma; la; sa; ca; pa; mb; lb; sb; cb; pb; id3; id3t] ->
      let ia = { io_brs = zi brs; io_lri = zi lri; io_did = zopt did; io_nad = zopt nad; io_gbi = [] } in
      let tb = { to_lrt = zi lrt; to_rwt = zi rwt; to_gbt = [] } in
      show_res show_p2p (negotiate (zi b0) ia tb (lopt ma la sa ca pa) (lopt mb lb sb cb pb) (bytes_of_hex id3) (bytes_of_hex id3t))
  | ["gb"; m; l; s; c; p] -> show_res hex_of_bytes (general_bytes (lopt m l s c p))
  | ["takeover"; sec; g] -> show_res show_cfg (llc_takeover (sec = "1") (bytes_of_hex g))
  | ["lr"; pp] -> si (atr_lr (zi pp))
  | ["psl"; brs; fsl] -> Printf.sprintf "%s %s %s" (si (psl_dsi (zi brs))) (si (psl_dri (zi brs))) (si (psl_lr (zi fsl)))
  | ["lto"; l] -> si (l_send_lto (lopt "128" l "0" "0" "-"))
  | _ -> "?unknown-command"

let () =
  try
    while true do
      let line = input_line stdin in
      let w = List.filter (fun s -> s <> "") (String.split_on_char ' ' line) in
      print_string (try handle w with Stack_overflow -> "crash RecursionError" | Failure m -> "?failure " ^ m);
      print_newline ()
    done
  with End_of_file -> ()
