(* Line-oriented driver around the extracted LlcLife model (C09).
   seg <variant> <point> <kind> <state> <bound> <intab> <tabled> <rq> <sq> <rbuf> <sbuf> <slots> <acks> <term> <orc>
       -> <act> | <state> <bound> <intab> <rq> <sq> <rbuf> <sbuf> <slots> <acks> | <notify_all conds>
   close <kind> <state> <bound> <intab> <tabled> <rq> <sq> <rbuf> <sbuf> <slots> <acks>
       -> TransmissionControlObject.close() as the link thread performs it in terminate():
          <state> <bound> <intab> <rq> <sq> | <notify_all conds>
   rq is a comma separated list of item names or "-".  points: PRecv0 PPoll1:recv PSend1:1 PAcc3:0 ... *)
open C09

let rec nat_of_int n = if n <= 0 then O else S (nat_of_int (n - 1))
let rec int_of_nat = function O -> 0 | S n -> 1 + int_of_nat n
let rec int_of_pos = function XH -> 1 | XO p -> 2 * int_of_pos p | XI p -> 2 * int_of_pos p + 1
let int_of_z = function Z0 -> 0 | Zpos p -> int_of_pos p | Zneg p -> - (int_of_pos p)

let kind_of = function "RAW" -> RAW | "LDL" -> LDL | "DLC" -> DLC | "SDP" -> SDP | s -> failwith ("kind " ^ s)
let kind_s = function RAW -> "RAW" | LDL -> "LDL" | DLC -> "DLC" | SDP -> "SDP"
let st_of = function
  | "SHUTDOWN" -> SHUTDOWN | "CLOSED" -> CLOSED | "LISTEN" -> LISTEN | "CONNECT" -> CONNECT
  | "ESTABLISHED" -> ESTABLISHED | "DISCONNECT" -> DISCONNECT | "CLOSE_WAIT" -> CLOSE_WAIT | s -> failwith ("state " ^ s)
let st_s = function
  | SHUTDOWN -> "SHUTDOWN" | CLOSED -> "CLOSED" | LISTEN -> "LISTEN" | CONNECT -> "CONNECT"
  | ESTABLISHED -> "ESTABLISHED" | DISCONNECT -> "DISCONNECT" | CLOSE_WAIT -> "CLOSE_WAIT"
let item_of = function
  | "CONNECT" -> ICONNECT | "CC" -> ICC | "DM" -> IDM | "I" -> II | "DISC" -> IDISC | _ -> IOTHER
let item_s = function ICONNECT -> "CONNECT" | ICC -> "CC" | IDM -> "DM" | II -> "I" | IDISC -> "DISC" | IOTHER -> "OTHER"
let items s = if s = "-" then [] else List.map item_of (String.split_on_char ',' s)
let items_s l = if l = [] then "-" else String.concat "," (List.map item_s l)
let cond_s = function RecvReady -> "recv_ready" | SendReady -> "send_ready" | AcksReady -> "acks_ready"
                    | SendToken -> "send_token" | Resp -> "resp"
let conds_s l = if l = [] then "-" else String.concat "," (List.map cond_s l)
let b_of s = (s = "1")
let b_s b = if b then "1" else "0"
let pev_of = function "recv" -> PollRecv | "send" -> PollSend | "acks" -> PollAcks | s -> failwith ("pev " ^ s)
let pev_s = function PollRecv -> "recv" | PollSend -> "send" | PollAcks -> "acks"

let point_of s =
  let name, arg = match String.index_opt s ':' with
    | Some i -> String.sub s 0 i, String.sub s (i + 1) (String.length s - i - 1)
    | None -> s, "" in
  match name with
  | "PRecv0" -> PRecv0 | "PRecv1" -> PRecv1 | "PRecv2" -> PRecv2
  | "PPoll0" -> PPoll0 (pev_of arg) | "PPoll1" -> PPoll1 (pev_of arg) | "PPoll2" -> PPoll2 (pev_of arg)
  | "PSend0" -> PSend0 (b_of arg) | "PSendBind" -> PSendBind (b_of arg) | "PSend0b" -> PSend0b (b_of arg)
  | "PSend1" -> PSend1 (b_of arg) | "PSend2" -> PSend2 | "PSend3" -> PSend3
  | "PAcc1" -> PAcc1 | "PAcc2" -> PAcc2 | "PAcc3" -> PAcc3 (b_of arg) | "PAcc4" -> PAcc4
  | "PConn0" -> PConn0 | "PConnBind" -> PConnBind | "PConn1" -> PConn1 | "PConn2" -> PConn2
  | "PLis0" -> PLis0 | "PLisBind" -> PLisBind | "PLis1" -> PLis1
  | "PBind0" -> PBind0 | "PBind1" -> PBind1
  | "PClose0" -> PClose0 | "PClose2" -> PClose2 (b_of arg) | "PClose3" -> PClose3 (b_of arg) | "PClose4" -> PClose4
  | "PRes0" -> PRes0 | "PRes1" -> PRes1 | "PRes2" -> PRes2
  | _ -> failwith ("point " ^ s)
let point_s = function
  | PRecv0 -> "PRecv0" | PRecv1 -> "PRecv1" | PRecv2 -> "PRecv2"
  | PPoll0 e -> "PPoll0:" ^ pev_s e | PPoll1 e -> "PPoll1:" ^ pev_s e | PPoll2 e -> "PPoll2:" ^ pev_s e
  | PSend0 d -> "PSend0:" ^ b_s d | PSendBind d -> "PSendBind:" ^ b_s d | PSend0b d -> "PSend0b:" ^ b_s d
  | PSend1 d -> "PSend1:" ^ b_s d | PSend2 -> "PSend2" | PSend3 -> "PSend3"
  | PAcc1 -> "PAcc1" | PAcc2 -> "PAcc2" | PAcc3 c -> "PAcc3:" ^ b_s c | PAcc4 -> "PAcc4"
  | PConn0 -> "PConn0" | PConnBind -> "PConnBind" | PConn1 -> "PConn1" | PConn2 -> "PConn2"
  | PLis0 -> "PLis0" | PLisBind -> "PLisBind" | PLis1 -> "PLis1"
  | PBind0 -> "PBind0" | PBind1 -> "PBind1"
  | PClose0 -> "PClose0" | PClose2 v -> "PClose2:" ^ b_s v | PClose3 v -> "PClose3:" ^ b_s v | PClose4 -> "PClose4"
  | PRes0 -> "PRes0" | PRes1 -> "PRes1" | PRes2 -> "PRes2"

let crash_name = function
  | IndexErr -> "IndexError" | UnpackErr -> "UnpackErr" | NoneSubscript -> "NoneSubscript" | NoneAttr -> "NoneAttr"
  | Unbound -> "UnboundLocalError" | RangeStep0 -> "RangeStep0" | RecursionErr -> "RecursionError"
  | AssertErr -> "AssertionError" | TypeErr -> "TypeError" | ValueErr -> "ValueError" | StructErr -> "struct.error"
  | AttributeErr -> "AttributeError" | KeyErr -> "KeyError"
let res_s = function
  | Ok VNone -> "ok None" | Ok (VBool b) -> "ok " ^ (if b then "True" else "False") | Ok VData -> "ok data"
  | Ok (VSock _) -> "ok socket" | Ok VAddr -> "ok addr"
  | Err (LlcpError e) -> "llcp " ^ string_of_int (int_of_z e)
  | Err RuntimeErr -> "err RuntimeError" | Err _ -> "err other"
  | Crash c -> "crash " ^ crash_name c | Hang -> "hang"
let act_s = function
  | AGoto p -> "goto " ^ point_s p
  | AWait (c, p) -> "wait " ^ cond_s c ^ " " ^ point_s p
  | ARet r -> "ret " ^ res_s r
  | AAlloc _ -> "ret ok socket"

let mk k st b i tb rq sq rb sb sl ak =
  { kd = kind_of k; st = st_of st; bound = b_of b; intab = b_of i; tabled = b_of tb; rq = items rq;
    sq = nat_of_int (int_of_string sq); rbuf = nat_of_int (int_of_string rb); sbuf = nat_of_int (int_of_string sb);
    slots = nat_of_int (int_of_string sl); acks = nat_of_int (int_of_string ak); srv = false }
let sock_s s =
  Printf.sprintf "%s %s %s %s %d %d %d %d %d" (st_s s.st) (b_s s.bound) (b_s s.intab) (items_s s.rq)
    (int_of_nat s.sq) (int_of_nat s.rbuf) (int_of_nat s.sbuf) (int_of_nat s.slots) (int_of_nat s.acks)

let handle (w : string list) : string =
  match w with
  | ["seg"; v; p; k; st; b; i; tb; rq; sq; rb; sb; sl; ak; tm; orc] ->
      let r = seg (if v = "Fixed" then Fixed else Orig) (point_of p) (mk k st b i tb rq sq rb sb sl ak) (b_of tm) (b_of orc) in
      act_s r.o_act ^ " | " ^ sock_s r.o_sock ^ " | " ^ conds_s r.o_nall
  | ["close"; k; st; b; i; tb; rq; sq; rb; sb; sl; ak] ->
      let s = mk k st b i tb rq sq rb sb sl ak in
      sock_s (tco_close s) ^ " | " ^ conds_s (close_conds s.kd)
  | _ -> "?unknown-command"

let () =
  try
    while true do
      let line = input_line stdin in
      let w = List.filter (fun x -> x <> "") (String.split_on_char ' ' line) in
      print_endline (try handle w with Failure m -> "?error " ^ m | Not_found -> "?error")
    done
  with End_of_file -> ()
