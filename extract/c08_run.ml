(* Line-oriented driver around the extracted C08 models.
   input : <command> <arg> ...   args: decimal integers or hex byte strings ("-" = empty)
   output: one line per input line *)
open C08

let rec pos_of_int n = if n = 1 then XH else if n land 1 = 0 then XO (pos_of_int (n lsr 1)) else XI (pos_of_int (n lsr 1))
let z_of_int n = if n = 0 then Z0 else if n > 0 then Zpos (pos_of_int n) else Zneg (pos_of_int (-n))
let rec int_of_pos = function XH -> 1 | XO p -> 2 * int_of_pos p | XI p -> 2 * int_of_pos p + 1
let int_of_z = function Z0 -> 0 | Zpos p -> int_of_pos p | Zneg p -> - (int_of_pos p)
let rec nat_of_int n = if n <= 0 then O else S (nat_of_int (n - 1))

let bytes_of_hex s =
  if s = "-" then [] else
  let n = String.length s / 2 in
  List.init n (fun i -> z_of_int (int_of_string ("0x" ^ String.sub s (2*i) 2)))
let hex_of_bytes l =
  if l = [] then "-" else
  let b = Buffer.create 64 in
  List.iter (fun z -> let v = int_of_z z in
    if v < 0 || v > 255 then Buffer.add_string b (Printf.sprintf "<%d>" v) else Buffer.add_string b (Printf.sprintf "%02x" v)) l;
  Buffer.contents b
let zi s = z_of_int (int_of_string s)
let zs z = string_of_int (int_of_z z)
let sb b = if b then "1" else "0"

let crash_name = function
  | IndexErr -> "IndexError" | UnpackErr -> "UnpackErr" | NoneSubscript -> "NoneSubscript" | NoneAttr -> "NoneAttr"
  | Unbound -> "UnboundLocalError" | RangeStep0 -> "RangeStep0" | RecursionErr -> "RecursionError"
  | AssertErr -> "AssertionError" | TypeErr -> "TypeError" | ValueErr -> "ValueError" | StructErr -> "struct.error"
  | AttributeErr -> "AttributeError" | KeyErr -> "KeyError"
let err_name = function
  | DecodeError -> "DecodeError" | ProtocolError -> "ProtocolError" | TransmissionError -> "TransmissionError"
  | TimeoutError -> "TimeoutError" | BrokenLinkError -> "BrokenLinkError" | IOErr -> "IOError"
  | TagCommandError e -> "TagCommandError:" ^ string_of_int (int_of_z e)
  | LlcpError e -> "LlcpError:" ^ string_of_int (int_of_z e)
  | ValueError -> "ValueError" | CommunicationError -> "CommunicationError"
  | ChipsetError e -> "ChipsetError:" ^ string_of_int (int_of_z e)
  | UnsupportedTarget -> "UnsupportedTargetError" | RuntimeErr -> "RuntimeError"
let show_res f = function
  | Ok a -> f a | Err e -> "err " ^ err_name e | Crash c -> "crash " ^ crash_name c | Hang -> "hang"

let split_on c s = if s = "-" then [] else String.split_on_char c s
(* rx:<hex> | to | tx | pe *)
let aresult_of s =
  if s = "to" then ATimeout else if s = "tx" then ATxErr else if s = "pe" then AProto
  else if String.length s >= 3 && String.sub s 0 3 = "rx:" then ARx (bytes_of_hex (String.sub s 3 (String.length s - 3)))
  else failwith ("aresult " ^ s)
let script_of s = List.map aresult_of (split_on ',' s)
(* ok:<hex> | fail:<errno> *)
let ares_of s =
  if String.length s >= 3 && String.sub s 0 3 = "ok:" then AOk (bytes_of_hex (String.sub s 3 (String.length s - 3)))
  else if String.length s >= 5 && String.sub s 0 5 = "fail:" then AFail (zi (String.sub s 5 (String.length s - 5)))
  else failwith ("ares " ^ s)
let bools_of s = if s = "-" then [] else List.init (String.length s) (fun i -> s.[i] = '1')

let show_params p =
  Printf.sprintf "fsc=%s miu=%s retry=%s fwti=%s tail=%s" (zs p.a_fsc) (zs p.a_miu) (zs p.a_retry) (zs p.a_fwti) (zs p.a_cmd_tail)
let show_oparams = function None -> "none" | Some p -> "some " ^ show_params p
let t1class_name = function Topaz -> "Topaz" | Topaz512 -> "Topaz512" | Type1Tag -> "Type1Tag"
let t2class_name = function
  | Type2Tag -> "Type2Tag" | MifareUltralight -> "MifareUltralight" | MifareUltralightC -> "MifareUltralightC"
  | NTAG203 -> "NTAG203" | MF0UL11 -> "MF0UL11" | MF0ULH11 -> "MF0ULH11" | MF0UL21 -> "MF0UL21" | MF0ULH21 -> "MF0ULH21"
  | NTAG210 -> "NTAG210" | NTAG212 -> "NTAG212" | NTAG213 -> "NTAG213" | NTAG215 -> "NTAG215" | NTAG216 -> "NTAG216"
  | NT3H1101 -> "NT3H1101" | NT3H1201 -> "NT3H1201"
let t3class_name = function
  | Type3Tag -> "Type3Tag" | FelicaStandard -> "FelicaStandard" | FelicaMobile -> "FelicaMobile"
  | FelicaLite -> "FelicaLite" | FelicaLiteS -> "FelicaLiteS" | FelicaPlug -> "FelicaPlug"

(* TLV readers: none | ndef rd wr cap octets ; extras for the monitor's cross-check *)
let show_layout = function
  | None -> "none"
  | Some l -> Printf.sprintf "ndef %s %s %s %s off=%s dend=%s" (sb l.l_rd) (sb l.l_wr) (zs l.l_cap) (hex_of_bytes l.l_val)
                (zs l.l_off) (zs l.l_dend)
let show_fresh = function
  | NoNdef -> "none"
  | Ndef (r, w, c, d) -> Printf.sprintf "ndef %s %s %s %s" (sb r) (sb w) (zs c) (hex_of_bytes d)
let show_second = function None -> "-" | Some r -> show_res show_fresh r
let hexlist l = if l = [] then "-" else String.concat "," (List.map hex_of_bytes l)

let handle (w : string list) : string =
  match w with
  | ["disp"; sens; sel] ->
      show_res (function TT1 -> "TT1" | TT2 -> "TT2" | TT4 -> "TT4" | TNone -> "none") (tag_dispatch_a (bytes_of_hex sens) (bytes_of_hex sel))
  | ["ats"; a] -> show_res (fun (f, w) -> Printf.sprintf "fsci=%s fwi=%s" (zs f) (zs w)) (ats_fsci_fwi (bytes_of_hex a))
  | ["ats_build"; fsci; ta; tb; tc; hist] ->
      let o s = if s = "-" then None else Some (zi s) in
      hex_of_bytes (ats_build (zi fsci) (o ta) (o tb) (o tc) (bytes_of_hex hist))
  | ["t4a"; r; ms; mr] -> show_oparams (t4a_activate (aresult_of r) (zi ms) (zi mr)) ^ " cmd=" ^ hex_of_bytes (rats_cmd (zi mr))
  | ["t4a_legacy"; r; ms; mr] -> show_res show_oparams (t4a_activate_legacy (aresult_of r) (zi ms) (zi mr))
  | ["t4b"; sensb; r; ms; mr] ->
      (match t4b_activate (bytes_of_hex sensb) (aresult_of r) (zi ms) (zi mr) with
       | None -> "nocmd"
       | Some (cmd, p) -> show_oparams p ^ " cmd=" ^ hex_of_bytes cmd)
  | ["t4b_legacy"; sensb; r; ms; mr] -> show_res show_oparams (t4b_activate_legacy (bytes_of_hex sensb) (aresult_of r) (zi ms) (zi mr))
  | ["t1act"; rid] -> let (c, uid) = t1_activate (bytes_of_hex rid) in t1class_name c ^ " uid=" ^ hex_of_bytes uid
  | ["t2act"; sdd0; xs; ss] ->
      let xs = script_of xs and ss = bools_of ss in
      let ((c, xs'), ss') = t2_activate (zi sdd0) xs ss in
      Printf.sprintf "%s x=%d s=%d" (match c with None -> "none" | Some c -> t2class_name c)
        (List.length xs - List.length xs') (List.length ss - List.length ss')
  | ["t3act"; sensf] ->
      show_res (function None -> "none"
                       | Some t -> Printf.sprintf "%s idm=%s pmm=%s sys=%s" (t3class_name t.t3_cls) (hex_of_bytes t.t3_idm)
                                     (hex_of_bytes t.t3_pmm) (zs t.t3_sys)) (t3_activate (bytes_of_hex sensf))
  | ["t3act_legacy"; sensf] ->
      show_res (function None -> "none"
                       | Some t -> Printf.sprintf "%s idm=%s pmm=%s sys=%s" (t3class_name t.t3_cls) (hex_of_bytes t.t3_idm)
                                     (hex_of_bytes t.t3_pmm) (zs t.t3_sys)) (t3_activate_legacy (bytes_of_hex sensf))
  | ["t2read"; em] -> let (r, d) = t2_read_d (bytes_of_hex em) in show_res show_layout r ^ " d=" ^ zs d
  | ["t2read_old"; em] -> show_res show_layout (t2_read (bytes_of_hex em))
  | ["t1read"; hr0; em] -> let (r, d) = t1_read_d (zi hr0) (bytes_of_hex em) in show_res show_layout r ^ " d=" ^ zs d
  | ["t1read_old"; hr0; em] -> show_res show_layout (t1_read (zi hr0) (bytes_of_hex em))
  | ["t2bound"; dend] -> zs (t2_demand_bound (zi dend)) ^ " " ^ zs (t2_wire_max (t2_demand_bound (zi dend)))
  | ["t2resp"; script] ->
      let (r, sent) = t2_read_responses (script_of script) in show_res show_layout r ^ " | sent=" ^ hexlist sent
  | ["t1resp"; uid; script] ->
      let (r, sent) = t1_read_responses (bytes_of_hex uid) (script_of script) in show_res show_layout r ^ " | sent=" ^ hexlist sent
  | ["t1cmds"; d] -> zs (t1_cmds_max (zi d))
  | ["t3sess"; idm; sys; script] ->
      let ((r1, r2), s) = t3_session (bytes_of_hex idm) (zi sys) { a_script = script_of script; a_sent = []; a_blocks = [] } in
      Printf.sprintf "r1=%s | r2=%s | sent=%s" (show_res show_fresh r1) (show_second r2) (hexlist (List.rev s.a_sent))
  | ["t4sess"; script] ->
      let ((r1, r2), c) = t4_session { c_script = List.map ares_of (split_on ',' script); c_apdus = []; c_reads = [] } in
      Printf.sprintf "r1=%s | r2=%s | sent=%s" (show_res show_fresh r1) (show_second r2) (hexlist (List.rev c.c_apdus))
  | ["t3rsp"; code; sendidm; idm; rsp] ->
      show_res hex_of_bytes (t3_rsp_any (zi code) (sendidm = "1") (bytes_of_hex idm) (bytes_of_hex rsp))
  | ["isodep"; miu; retry; pn; cmd; script] ->
      (* IsoDepInitiator.exchange with all repairs against a script of clf.exchange outcomes (past the end: silence):
         result, number of clf.exchange calls, block number afterwards *)
      let k = { miu = zi miu; n_nak = zi retry; n_ack = zi retry; fix_wtx_try = true; fix_wtx_chain = true; fix_rack = true } in
      (* run_script_any is dep_exchange with explicit fuel; one script entry is consumed per round and past the end of the
         script the card is silent, so length + 16 rounds suffice (too little fuel would show as "hang", never as a pass) *)
      let sc = script_of script in
      let c = bytes_of_hex cmd in
      let ((r, n), pn') = run_script_any (nat_of_int (List.length sc + 16)) k c (pcd_start k c (zi pn)) sc (z_of_int 65538) Z0 in
      show_res (fun d -> "ok:" ^ (if d = [] then "" else hex_of_bytes d)) r ^ " n=" ^ zs n ^ " pni=" ^ zs pn'
  | _ -> "?unknown-command"

let () =
  try
    while true do
      let line = input_line stdin in
      let w = List.filter (fun s -> s <> "") (String.split_on_char ' ' line) in
      print_string (try handle w with Stack_overflow -> "crash RecursionError" | Failure m -> "?failure " ^ m);
      print_newline ()
    done
  with End_of_file -> ()
