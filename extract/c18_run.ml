(* Line-oriented driver around the extracted C18 models (connect / sense / listen / exchange).
   connect dev=1 fuel=N inner=N hasterm=1 termd=1 term=0010 cbs=TFN rdwr=SPEC llcp=SPEC card=SPEC
           sense=TABLES listen=.. tagact=.. present=.. llcact=.. llcrun=2r,0k emulate=10 cardstep=ncb
     rdwr SPEC  = targets:startup:discover:connect:release:iters:beep   ("-" = option block absent)
     llcp SPEC  = startup:connect:release:role
     card SPEC  = startup:discover:connect:release
     TABLES     = per sense call "/"-separated, per iteration ","-separated strings of outcome codes
   history dev=1 ops=OP;OP;...   OP = s:<tspecs>:<iters|->:<table> | l:<lspec>:<outcome> | x
   output: "<result> | <events>"  (ghost events - default callbacks, EvRaise - are not printed) *)
open C18

let rec nat_of_int n = if n <= 0 then O else S (nat_of_int (n - 1))
let rec int_of_nat = function O -> 0 | S n -> 1 + int_of_nat n
let rec pos_of_int n = if n = 1 then XH else if n land 1 = 0 then XO (pos_of_int (n lsr 1)) else XI (pos_of_int (n lsr 1))
let z_of_int n = if n = 0 then Z0 else if n > 0 then Zpos (pos_of_int n) else Zneg (pos_of_int (-n))

let chars s = if s = "-" then [] else List.init (String.length s) (String.get s)
let split c s = String.split_on_char c s

let tspec_of = function
  | 'A' -> TsA | 'B' -> TsB | 'F' -> TsF | 'X' -> TsX | 'D' -> TsDep | 'd' -> TsDepShort | 'L' -> TsDepLong
  | 'a' -> TsBadSel | 'Z' -> TsNotRemote | c -> failwith (Printf.sprintf "tspec %c" c)
let lspec_of = function
  | 'A' -> LsA | 'B' -> LsB | 'F' -> LsF | 'P' -> LsDep | 'Q' -> LsBadBrty | 'Z' -> LsNotLocal
  | c -> failwith (Printf.sprintf "lspec %c" c)
let souts_of = function
  | 'f' -> SFound | 'p' -> SFoundP2P | 's' -> SFoundBadSens | 'n' -> SNone | 'u' -> SUnsupported
  | 'c' -> SCommErr | 'i' -> SIOErr | 'k' -> SKbd | c -> failwith (Printf.sprintf "souts %c" c)
let louts_of = function
  | 'f' -> LFound | 'b' -> LFoundShortAtr | 'n' -> LNone | 'u' -> LUnsupported | 'i' -> LIOErr | 'k' -> LKbd
  | c -> failwith (Printf.sprintf "louts %c" c)
let cbval_of = function
  | 'T' -> VTrue | 'F' -> VFalse | 'N' -> VNone | '0' -> VZero | 'x' -> VStr | 'O' -> VObj
  | c -> failwith (Printf.sprintf "cbval %c" c)
let aout_of = function 't' -> ATag | 'n' -> ANone | 'i' -> AIOErr | 'k' -> AKbd | c -> failwith "aout"
let pout_of = function 'y' -> PYes | 'n' -> PNo | 'i' -> PIOErr | 'k' -> PKbd | c -> failwith "pout"
let laout_of = function 't' -> LATrue | 'f' -> LAFalse | 'i' -> LAIOErr | 'k' -> LAKbd | c -> failwith "laout"
let rout_of = function 'r' -> RReturn | 'i' -> RIOErr | 'k' -> RKbd | c -> failwith "rout"
let cout_of = function 'n' -> CNext | 'b' -> CBroken | 'c' -> CCommErr | 'i' -> CIOErr | 'k' -> CKbd | c -> failwith "cout"
let bool_of = function '1' -> true | '0' -> false | c -> failwith "bool"

let table_of s : table = if s = "-" || s = "" then [] else List.map (fun it -> List.map souts_of (chars it)) (split ',' s)
let tables_of s = if s = "-" then [] else List.map table_of (split '/' s)

let tid_str = function
  | RemoteT (c, i, j, _) -> Printf.sprintf "rt:%d:%d:%d" (int_of_nat c) (int_of_nat i) (int_of_nat j)
  | LocalT n -> Printf.sprintf "lt:%d" (int_of_nat n)
let drv_str = function Tta -> "tta" | Ttb -> "ttb" | Ttf -> "ttf" | Dep -> "dep"
let blk_str = function Rdwr -> "rdwr" | Llcp -> "llcp" | Card -> "card"
let cb_str = function VTrue -> "T" | VFalse -> "F" | VNone -> "N" | VZero -> "0" | VStr -> "x" | VObj -> "O"
let exn_str = function
  | XIOError -> "IOError" | XUnsupported -> "UnsupportedTargetError" | XKbd -> "KeyboardInterrupt"
  | XValueError -> "ValueError" | XTypeError -> "TypeError" | XAssertion -> "AssertionError"

let ev_str = function
  | EvStartup (b, true) -> Some ("startup:" ^ blk_str b)
  | EvDiscover (b, true, v) -> Some ("discover:" ^ blk_str b ^ ":" ^ cb_str v)
  | EvConnect (b, true, v) -> Some ("connect:" ^ blk_str b ^ ":" ^ cb_str v)
  | EvRelease (b, true, v) -> Some ("release:" ^ blk_str b ^ ":" ^ cb_str v)
  | EvStartup (_, false) | EvDiscover (_, false, _) | EvConnect (_, false, _) | EvRelease (_, false, _) -> None
  | EvTerm v -> Some (if v then "term:1" else "term:0")
  | EvMute -> Some "mute"
  | EvSense (d, j) -> Some (Printf.sprintf "sense_%s:%d" (drv_str d) (int_of_nat j))
  | EvListen d -> Some ("listen_" ^ drv_str d)
  | EvTagActivate t -> Some ("tag_activate:" ^ tid_str t)
  | EvLlcActivate MacTarget -> Some "llc_activate:target"
  | EvLlcActivate MacInitiator -> Some "llc_activate:initiator"
  | EvEmulate t -> Some ("emulate:" ^ tid_str t)
  | EvBeepOn -> Some "beep_on" | EvBeepOff -> Some "beep_off" | EvPresent -> Some "present?"
  | EvLlcRun -> Some "llc_run" | EvProcess -> Some "process" | EvSendRsp -> Some "send_rsp"
  | EvCmdTo t -> Some ("cmd>" ^ tid_str t) | EvRspTo t -> Some ("rsp>" ^ tid_str t)
  | EvRaise _ -> None
let evs_str l = String.concat " " (List.filter_map ev_str l)

let rv_str = function RNone -> "None" | RFalse -> "False" | RTrue -> "True"
  | RObj Rdwr -> "tag" | RObj Llcp -> "llc" | RObj Card -> "emu"
let out_str f = function Ret a -> "ret " ^ f a | Raise e -> "raise " ^ exn_str e | Hang -> "hang"

let kv w =
  let h = Hashtbl.create 16 in
  List.iter (fun t -> match String.index_opt t '=' with
    | Some i -> Hashtbl.replace h (String.sub t 0 i) (String.sub t (i + 1) (String.length t - i - 1))
    | None -> ()) w;
  fun k d -> match Hashtbl.find_opt h k with Some v -> v | None -> d

let flag s = s = "1"

let rdwr_of s =
  if s = "-" then None else
  match split ':' s with
  | [targets; startup; d; c; r; iters; beep] ->
    Some { r_targets = (if targets = "-" then None else if targets = "." then Some [] else Some (List.map tspec_of (chars targets)));
           r_startup = (match startup with
             | "-" -> RsMissing | "=" -> RsSame | "N" -> RsFalsy | "E" -> RsList [] | "I" -> RsNonIter
             | _ -> RsList (List.map tspec_of (chars (String.sub startup 1 (String.length startup - 1)))));
           r_discover = flag d; r_connect = flag c; r_release = flag r;
           r_iters = (if iters = "-" then None else Some (z_of_int (int_of_string iters)));
           r_beep = (if beep = "-" then None else Some (flag beep)) }
  | _ -> failwith "rdwr spec"
let llcp_of s =
  if s = "-" then None else
  match split ':' s with
  | [startup; c; r; role] ->
    Some { l_startup = (match startup with "-" -> LstMissing | "=" -> LstSame | _ -> LstOther);
           l_connect = flag c; l_release = flag r;
           l_role = (match role with "-" -> RoleNone | "t" -> RoleTarget | "i" -> RoleInitiator | _ -> RoleOther) }
  | _ -> failwith "llcp spec"
let card_of s =
  if s = "-" then None else
  match split ':' s with
  | [startup; d; c; r] ->
    Some { c_startup = (match startup with "-" -> CstMissing | "o" -> CstOther | _ -> CstTarget (lspec_of startup.[0]));
           c_discover = flag d; c_connect = flag c; c_release = flag r }
  | _ -> failwith "card spec"

let llcrun_of s = if s = "-" then [] else
  List.map (fun t -> let n = String.length t in
    (nat_of_int (int_of_string (String.sub t 0 (n - 1))), rout_of t.[n - 1])) (split ',' s)

let do_connect w =
  let g = kv w in
  let opts = { o_rdwr = rdwr_of (g "rdwr" "-"); o_llcp = llcp_of (g "llcp" "-"); o_card = card_of (g "card" "-");
               o_term = flag (g "hasterm" "1") } in
  let s = { s_term = List.map bool_of (chars (g "term" "-")); s_termd = flag (g "termd" "1");
            s_cbs = List.map cbval_of (chars (g "cbs" "-"));
            s_sense = tables_of (g "sense" "-"); s_ncall = O;
            s_listen = List.map louts_of (chars (g "listen" "-")); s_nlisten = O;
            s_tagact = List.map aout_of (chars (g "tagact" "-"));
            s_present = List.map pout_of (chars (g "present" "-"));
            s_llcact = List.map laout_of (chars (g "llcact" "-"));
            s_llcrun = llcrun_of (g "llcrun" "-");
            s_emulate = List.map bool_of (chars (g "emulate" "-"));
            s_card = List.map cout_of (chars (g "cardstep" "-")) } in
  let (r, l) = run_connect (flag (g "dev" "1")) opts (nat_of_int (int_of_string (g "fuel" "50")))
      (nat_of_int (int_of_string (g "inner" "50"))) s in
  out_str rv_str r ^ " | " ^ evs_str l

let op_of s =
  match split ':' s with
  | ["x"] -> OpExchange
  | ["l"; t; o] -> OpListen (lspec_of t.[0], louts_of o.[0])
  | ["s"; ts; iters; tb] -> OpSense ((if ts = "." then [] else List.map tspec_of (chars ts)),
                                    (if iters = "-" then z_of_int 1 else z_of_int (int_of_string iters)), table_of tb)
  | _ -> failwith "op"

let stored_str = function None -> "None" | Some t -> tid_str t
let do_history w =
  let g = kv w in
  let ops = List.map op_of (split ';' (g "ops" "x")) in
  let rs = run_history (flag (g "dev" "1")) h0 ops in
  let res = List.map (function
    | ResTarget (r, _, st) -> out_str (function None -> "None" | Some t -> tid_str t) r ^ " stored=" ^ stored_str st
    | ResData (r, _, st) -> out_str (function None -> "None" | Some _ -> "data") r ^ " stored=" ^ stored_str st) rs in
  let logs = List.map (function ResTarget (_, l, _) | ResData (_, l, _) -> let s = evs_str l in if s = "" then "|" else "| " ^ s) rs in
  String.concat " ; " res ^ " # " ^ String.concat " " logs

let handle (w : string list) : string =
  match w with
  | "connect" :: rest -> do_connect rest
  | "history" :: rest -> do_history rest
  | _ -> "?unknown-command"

let () =
  try
    while true do
      let line = input_line stdin in
      let w = List.filter (fun s -> s <> "") (String.split_on_char ' ' line) in
      print_string (try handle w with Stack_overflow -> "crash RecursionError" | Failure m -> "?failure " ^ m
                                     | Invalid_argument m -> "?invalid " ^ m | Not_found -> "?notfound");
      print_newline ()
    done
  with End_of_file -> ()
