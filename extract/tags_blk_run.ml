(* Line-oriented driver around the extracted Type 3 / Type 4 tag models.
   args: decimal integers or hex byte strings ("-" = empty); one output line per input line *)
open Tags_blk

let rec pos_of_int n = if n = 1 then XH else if n land 1 = 0 then XO (pos_of_int (n lsr 1)) else XI (pos_of_int (n lsr 1))
let z_of_int n = if n = 0 then Z0 else if n > 0 then Zpos (pos_of_int n) else Zneg (pos_of_int (-n))
let rec int_of_pos = function XH -> 1 | XO p -> 2 * int_of_pos p | XI p -> 2 * int_of_pos p + 1
let int_of_z = function Z0 -> 0 | Zpos p -> int_of_pos p | Zneg p -> - (int_of_pos p)

let bytes_of_hex s =
  if s = "-" then [] else
  let n = String.length s / 2 in
  List.init n (fun i -> z_of_int (int_of_string ("0x" ^ String.sub s (2*i) 2)))
let hex_of_bytes l =
  if l = [] then "-" else begin
    let b = Buffer.create 1024 in
    List.iter (fun z -> let v = int_of_z z in
      if v < 0 || v > 255 then Buffer.add_string b (Printf.sprintf "<%d>" v) else Buffer.add_string b (Printf.sprintf "%02x" v)) l;
    Buffer.contents b end
let zi s = z_of_int (int_of_string s)

let crash_name = function
  | IndexErr -> "IndexError" | UnpackErr -> "UnpackErr" | NoneSubscript -> "TypeError" | NoneAttr -> "AttributeError"
  | Unbound -> "UnboundLocalError" | RangeStep0 -> "ValueError" | RecursionErr -> "RecursionError"
  | AssertErr -> "AssertionError" | TypeErr -> "TypeError" | ValueErr -> "ValueError" | StructErr -> "error"
  | AttributeErr -> "AttributeError" | KeyErr -> "KeyError"
let err_name = function
  | TagCommandError _ -> "TagCommandError" | ValueError -> "ValueError" | _ -> "OtherError"
let show_res f = function
  | Ok a -> "ok" ^ f a | Err e -> "exc " ^ err_name e | Crash c -> "exc " ^ crash_name c | Hang -> "hang"
let show_fresh = function
  | NoNdef -> "none"
  | Ndef (r, w, cap, d) -> Printf.sprintf "ndef %d %d %d %s" (if r then 1 else 0) (if w then 1 else 0) (int_of_z cap) (hex_of_bytes d)
let show_fresh_res = function
  | Ok f -> show_fresh f | Err e -> "exc " ^ err_name e | Crash c -> "exc " ^ crash_name c | Hang -> "hang"
let unit_s (_ : unit) = ""

let frame_or_q r = match r with Ok f -> hex_of_bytes f | _ -> "?"

(* ---- Type 3 passive tag: read ndef, then (optionally) assign octets with a power cut budget *)
let t3_case maxr maxw rw cut mem data =
  let t0 = { p_mem = mem; p_maxr = maxr; p_maxw = maxw; p_rw = rw; p_budget = z_of_int (-1); p_log = [] } in
  let (f0, t1) = pt_read_ndef t0 in
  match f0, data with
  | Ok f, Some d ->
    let t1 = { t1 with p_budget = cut } in
    let (r, t2) = pt_set_octets f t1 d in
    let frames = List.rev_map (fun (bl, dd) -> frame_or_q (wr_frame p_idm bl dd)) t2.p_log in
    String.concat " | " [show_fresh f; show_res unit_s r; String.concat "," frames; hex_of_bytes t2.p_mem;
                         show_fresh_res (pt_fresh t2.p_mem maxr maxw rw)]
  | _, _ -> show_fresh_res f0

let t3_cuts maxr maxw rw mem data =
  let t0 = { p_mem = mem; p_maxr = maxr; p_maxw = maxw; p_rw = rw; p_budget = z_of_int (-1); p_log = [] } in
  let (f0, t1) = pt_read_ndef t0 in
  match f0 with
  | Ok f ->
    let (_, tfull) = pt_set_octets f t1 data in
    let n = List.length tfull.p_log in
    let one k =
      let (r, t2) = pt_set_octets f { t1 with p_budget = z_of_int k } data in
      String.concat ";" [show_res unit_s r; hex_of_bytes t2.p_mem; show_fresh_res (pt_fresh t2.p_mem maxr maxw rw)] in
    String.concat " | " (string_of_int n :: List.init (n + 1) one)
  | _ -> show_fresh_res f0

(* ---- the library's Type 3 Tag emulation *)
let emu_case cut mem data =
  let s0 = { e_mem = mem; e_budget = z_of_int (-1); e_log = [] } in
  let (f0, s1) = em_read_ndef s0 in
  match f0, data with
  | Ok f, Some d ->
    let (r, s2) = em_set_octets f { s1 with e_budget = cut } d in
    String.concat " | " [show_fresh f; show_res unit_s r; String.concat "," (List.rev_map hex_of_bytes s2.e_log);
                         hex_of_bytes s2.e_mem; show_fresh_res (em_fresh s2.e_mem)]
  | _, _ -> show_fresh_res f0
let emu_cuts mem data =
  let s0 = { e_mem = mem; e_budget = z_of_int (-1); e_log = [] } in
  let (f0, s1) = em_read_ndef s0 in
  match f0 with
  | Ok f ->
    let (_, sfull) = em_set_octets f s1 data in
    let n = List.length sfull.e_log in
    let one k =
      let (r, s2) = em_set_octets f { s1 with e_budget = z_of_int k } data in
      String.concat ";" [show_res unit_s r; hex_of_bytes s2.e_mem; show_fresh_res (em_fresh s2.e_mem)] in
    String.concat " | " (string_of_int n :: List.init (n + 1) one)
  | _ -> show_fresh_res f0

(* ---- Type 4 *)
let mk_card v2 v1 cc fid file = { c_cc = cc; c_fid = fid; c_file = file; c_v2 = v2; c_v1 = v1; c_app = false; c_sel = Z0;
                                  c_budget = z_of_int (-1); c_log = [] }
let show_log c = String.concat "," (List.rev_map (fun (off, d) -> frame_or_q (apdu_of_op (UpBin (off, d)))) c.c_log)
let t4_case v2 v1 cut cc fid file what =
  let c0 = mk_card v2 v1 cc fid file in
  let (r0, c1) = t4_read_ndef c0 in
  match r0 with
  | Ok (f, oi) ->
    let c1 = { c1 with c_budget = cut } in
    (match what with
     | `Read -> show_fresh f
     | `Write d ->
       let (r, c2) = t4_set_octets f oi c1 d in
       String.concat " | " [show_fresh f; show_res unit_s r; show_log c2; hex_of_bytes c2.c_file; hex_of_bytes c2.c_cc;
                            show_fresh_res (t4_fresh c2)]
     | `Format w ->
       let (r, c2) = t4_format f oi c1 w in
       String.concat " | " [show_fresh f; show_res (fun b -> if b then " true" else " false") r; show_log c2;
                            hex_of_bytes c2.c_file; hex_of_bytes c2.c_cc; show_fresh_res (t4_fresh c2)])
  | Err e -> "exc " ^ err_name e | Crash c -> "exc " ^ crash_name c | Hang -> "hang"
let t4_cuts v2 v1 cc fid file data =
  let c0 = mk_card v2 v1 cc fid file in
  let (r0, c1) = t4_read_ndef c0 in
  match r0 with
  | Ok (f, oi) ->
    let (_, cfull) = t4_set_octets f oi c1 data in
    let n = List.length cfull.c_log in
    let one k =
      let (r, c2) = t4_set_octets f oi { c1 with c_budget = z_of_int k } data in
      String.concat ";" [show_res unit_s r; hex_of_bytes c2.c_file; show_fresh_res (t4_fresh c2)] in
    String.concat " | " (string_of_int n :: List.init (n + 1) one)
  | Err e -> "exc " ^ err_name e | Crash c -> "exc " ^ crash_name c | Hang -> "hang"

let b01 s = s = "1"
let handle (w : string list) : string =
  match w with
  | ["t3"; maxr; maxw; rw; cut; mem; data] ->
    t3_case (zi maxr) (zi maxw) (b01 rw) (zi cut) (bytes_of_hex mem) (if data = "none" then None else Some (bytes_of_hex data))
  | ["t3cuts"; maxr; maxw; rw; mem; data] -> t3_cuts (zi maxr) (zi maxw) (b01 rw) (bytes_of_hex mem) (bytes_of_hex data)
  | ["emu"; cut; mem; data] -> emu_case (zi cut) (bytes_of_hex mem) (if data = "none" then None else Some (bytes_of_hex data))
  | ["emucuts"; mem; data] -> emu_cuts (bytes_of_hex mem) (bytes_of_hex data)
  | ["emucmd"; mem; cmd] ->
    let (r, m1) = emu_process (bytes_of_hex mem) (bytes_of_hex cmd) in
    (match r with Ok None -> "none" | Ok (Some x) -> "rsp " ^ hex_of_bytes x | Err _ -> "err" | Crash c -> "crash " ^ crash_name c | Hang -> "hang")
    ^ " | " ^ hex_of_bytes m1
  | ["t4"; v2; v1; cut; cc; fid; file; "read"] -> t4_case (b01 v2) (b01 v1) (zi cut) (bytes_of_hex cc) (bytes_of_hex fid) (bytes_of_hex file) `Read
  | ["t4"; v2; v1; cut; cc; fid; file; "write"; data] ->
    t4_case (b01 v2) (b01 v1) (zi cut) (bytes_of_hex cc) (bytes_of_hex fid) (bytes_of_hex file) (`Write (bytes_of_hex data))
  | ["t4"; v2; v1; cut; cc; fid; file; "format"; wipe] ->
    t4_case (b01 v2) (b01 v1) (zi cut) (bytes_of_hex cc) (bytes_of_hex fid) (bytes_of_hex file)
      (`Format (if wipe = "none" then None else Some (zi wipe)))
  | ["t4cuts"; v2; v1; cc; fid; file; data] ->
    t4_cuts (b01 v2) (b01 v1) (bytes_of_hex cc) (bytes_of_hex fid) (bytes_of_hex file) (bytes_of_hex data)
  | ["attr_parse"; d] ->
    (match attr_parse (bytes_of_hex d) with
     | None -> "none"
     | Some a -> String.concat " " (List.map (fun z -> string_of_int (int_of_z z))
                   [a.a_ver; a.a_nbr; a.a_nbw; a.a_nmaxb; a.a_writef; a.a_rwflag; a.a_ln]))
  | ["rd_frame"; bl] -> show_res (fun f -> " " ^ hex_of_bytes f)
      (rd_frame p_idm (List.map zi (String.split_on_char ',' bl)))
  | _ -> "?unknown-command"

let () =
  try
    while true do
      let line = input_line stdin in
      let w = List.filter (fun s -> s <> "") (String.split_on_char ' ' line) in
      print_string (try handle w with Stack_overflow -> "crash RecursionError" | Failure m -> "?failure " ^ m);
      print_newline ()
    done
  with End_of_file -> ()
