(* Line-oriented driver around the extracted C07 models.
   input : <command> <arg> ...   args: decimal integers or hex byte strings ("-" = empty)
   commands:
     depdec <i|t> <b106 0|1> <orig 0|1> <hex>     -> ok <pdu> | ok none | err <class> | crash <class>
     rtox <orig 0|1> <hex>                         -> ok <int> | err .. | crash ..
     pax <sec 0|1> <orig 0|1> <hex|none>           -> ok false | ok true ver=a.b miu=.. lto=.. wks=.. lsc=.. dpc=.. | err .. | crash ..
     tt3 <orig 0|1> <idm> <pmm> <sys> <nblocks> <hex>  -> ok none | ok <hex> | crash ..
     pdudec <hex>                                  -> ok <pdu> | err DecodeError | crash ..
     pdumeth <hex>                                 -> ok len=<n> enc=<hex|EncodeError> | err DecodeError
     receive <orig 0|1> <state> <hex>              -> ok <state> | ok disrupted | crash .. | hang *)
open C07

let rec pos_of_int n = if n = 1 then XH else if n land 1 = 0 then XO (pos_of_int (n lsr 1)) else XI (pos_of_int (n lsr 1))
let z_of_int n = if n = 0 then Z0 else if n > 0 then Zpos (pos_of_int n) else Zneg (pos_of_int (-n))
let rec int_of_pos = function XH -> 1 | XO p -> 2 * int_of_pos p | XI p -> 2 * int_of_pos p + 1
let int_of_z = function Z0 -> 0 | Zpos p -> int_of_pos p | Zneg p -> - (int_of_pos p)

let bytes_of_hex s =
  if s = "-" then [] else
  let n = String.length s / 2 in
  List.init n (fun i -> z_of_int (int_of_string ("0x" ^ String.sub s (2*i) 2)))
let hex_of_bytes l =
  if l = [] then "-" else String.concat "" (List.map (fun z -> let v = int_of_z z in
    if v < 0 || v > 255 then Printf.sprintf "<%d>" v else Printf.sprintf "%02x" v) l)
let zi s = z_of_int (int_of_string s)
let zs z = string_of_int (int_of_z z)
let rec len_z = function [] -> 0 | _ :: t -> 1 + len_z t

let crash_name = function
  | IndexErr -> "IndexError" | UnpackErr -> "UnpackErr" | NoneSubscript -> "NoneSubscript" | NoneAttr -> "NoneAttr"
  | Unbound -> "UnboundLocalError" | RangeStep0 -> "RangeStep0" | RecursionErr -> "RecursionError"
  | AssertErr -> "AssertionError" | TypeErr -> "TypeError" | ValueErr -> "ValueError" | StructErr -> "struct.error"
  | AttributeErr -> "AttributeError" | KeyErr -> "KeyError"
let err_name = function
  | DecodeError -> "DecodeError" | ProtocolError -> "ProtocolError" | TransmissionError -> "TransmissionError"
  | TimeoutError -> "TimeoutError" | BrokenLinkError -> "BrokenLinkError" | IOErr -> "IOError"
  | TagCommandError e -> "TagCommandError:" ^ string_of_int (int_of_z e)
  | LlcpError e -> "LlcpError:" ^ string_of_int (int_of_z e)
  | ValueError -> "ValueError" | CommunicationError -> "CommunicationError"
  | ChipsetError e -> "ChipsetError:" ^ string_of_int (int_of_z e)
  | UnsupportedTarget -> "UnsupportedTargetError" | RuntimeErr -> "RuntimeError"
let show_res f = function
  | Ok a -> "ok " ^ f a | Err e -> "err " ^ err_name e | Crash c -> "crash " ^ crash_name c | Hang -> "hang"
let b01 b = if b then "1" else "0"
let oz = function None -> "n" | Some v -> zs v

let show_dpdu = function
  | AtrReq (id, did, bs, br, pp, gb) ->
      Printf.sprintf "ATR-REQ %s %s %s %s %s %s" (hex_of_bytes id) (zs did) (zs bs) (zs br) (zs pp) (hex_of_bytes gb)
  | AtrRes (id, did, bs, br, to_, pp, gb) ->
      Printf.sprintf "ATR-RES %s %s %s %s %s %s %s" (hex_of_bytes id) (zs did) (zs bs) (zs br) (zs to_) (zs pp) (hex_of_bytes gb)
  | PslReq (did, brs, fsl) -> Printf.sprintf "PSL-REQ %s %s %s" (zs did) (zs brs) (zs fsl)
  | PslRes did -> Printf.sprintf "PSL-RES %s" (zs did)
  | DepPdu (req, fmt, nadf, didf, pni, did, nad, data) ->
      Printf.sprintf "DEP-%s %s %s %s %s %s %s %s" (if req then "REQ" else "RES") (zs fmt) (b01 nadf) (b01 didf) (zs pni)
        (oz did) (oz nad) (hex_of_bytes data)
  | DslPdu (req, did) -> Printf.sprintf "DSL-%s %s" (if req then "REQ" else "RES") (oz did)
  | RlsPdu (req, did) -> Printf.sprintf "RLS-%s %s" (if req then "REQ" else "RES") (oz did)
let show_opt f = function None -> "none" | Some x -> f x

(* ---- LLCP PDUs, syntax of extract/c11_run.ml ---- *)
let xb l = "x" ^ (if l = [] then "" else hex_of_bytes l)
let ob = function None -> "n" | Some b -> xb b
let rec show_pdu p =
  let f name args = name ^ "(" ^ String.concat "," args ^ ")" in
  match p with
  | Symm (d, s) -> f "symm" [zs d; zs s]
  | Pax (d, s, v, m, w, l, o) -> f "pax" [zs d; zs s; oz v; oz m; oz w; oz l; oz o]
  | Agf (d, s, ps) -> f "agf" [zs d; zs s; "[" ^ String.concat ";" (List.map show_pdu ps) ^ "]"]
  | UI (d, s, b) -> f "ui" [zs d; zs s; xb b]
  | Connect (d, s, miu, rw, sn) -> f "connect" [zs d; zs s; zs miu; zs rw; ob sn]
  | Disc (d, s) -> f "disc" [zs d; zs s]
  | CC (d, s, miu, rw) -> f "cc" [zs d; zs s; zs miu; zs rw]
  | DM (d, s, r) -> f "dm" [zs d; zs s; zs r]
  | Frmr (d, s, a, b, c, e, g, h, i, j) -> f "frmr" (List.map zs [d; s; a; b; c; e; g; h; i; j])
  | Snl (d, s, rq, rs) ->
      f "snl" [zs d; zs s; "[" ^ String.concat ";" (List.map (fun (t, n) -> zs t ^ "/" ^ xb n) rq) ^ "]";
               "[" ^ String.concat ";" (List.map (fun (t, a) -> zs t ^ "/" ^ zs a) rs) ^ "]"]
  | Dps (d, s, e, r) -> f "dps" [zs d; zs s; ob e; ob r]
  | Info (d, s, ns, nr, b) -> f "info" [zs d; zs s; zs ns; zs nr; xb b]
  | RR (d, s, nr) -> f "rr" [zs d; zs s; zs nr]
  | RNR (d, s, nr) -> f "rnr" [zs d; zs s; zs nr]
  | Unknown (pt, d, s, b) -> f "unknown" [zs pt; zs d; zs s; xb b]

(* ---- parsing ---- *)
exception Parse of string
let parse_pdu (s : string) : pdu =
  let pos = ref 0 in
  let n = String.length s in
  let peek () = if !pos < n then s.[!pos] else '\000' in
  let eat c = if peek () = c then incr pos else raise (Parse (Printf.sprintf "expected %c at %d" c !pos)) in
  let token () =
    let st = !pos in
    while !pos < n && (match s.[!pos] with ',' | ')' | ';' | ']' | '/' | '(' | '[' -> false | _ -> true) do incr pos done;
    String.sub s st (!pos - st) in
  let int_ () = zi (token ()) in
  let bytes_ () = let t = token () in
    if String.length t = 0 || t.[0] <> 'x' then raise (Parse "bytes") else
    (let h = String.sub t 1 (String.length t - 1) in if h = "" then [] else bytes_of_hex h) in
  let oint () = if peek () = 'n' then (incr pos; None) else Some (int_ ()) in
  let obytes () = if peek () = 'n' then (incr pos; None) else Some (bytes_ ()) in
  let list_ item =
    eat '[';
    if peek () = ']' then (incr pos; []) else begin
      let acc = ref [item ()] in
      while peek () = ';' do incr pos; acc := item () :: !acc done;
      eat ']'; List.rev !acc end in
  let comma () = eat ',' in
  let rec pdu_ () =
    let name = token () in
    eat '(';
    let r = (match name with
      | "symm" -> let d = int_ () in comma (); let s_ = int_ () in Symm (d, s_)
      | "pax" -> let d = int_ () in comma (); let s_ = int_ () in comma ();
          let v = oint () in comma (); let m = oint () in comma (); let w = oint () in comma ();
          let l = oint () in comma (); let o = oint () in Pax (d, s_, v, m, w, l, o)
      | "agf" -> let d = int_ () in comma (); let s_ = int_ () in comma (); let ps = list_ pdu_ in Agf (d, s_, ps)
      | "ui" -> let d = int_ () in comma (); let s_ = int_ () in comma (); let b = bytes_ () in UI (d, s_, b)
      | "connect" -> let d = int_ () in comma (); let s_ = int_ () in comma (); let miu = int_ () in comma ();
          let rw = int_ () in comma (); let sn = obytes () in Connect (d, s_, miu, rw, sn)
      | "disc" -> let d = int_ () in comma (); let s_ = int_ () in Disc (d, s_)
      | "cc" -> let d = int_ () in comma (); let s_ = int_ () in comma (); let miu = int_ () in comma ();
          let rw = int_ () in CC (d, s_, miu, rw)
      | "dm" -> let d = int_ () in comma (); let s_ = int_ () in comma (); let r = int_ () in DM (d, s_, r)
      | "frmr" -> let a = Array.make 10 Z0 in
          for i = 0 to 9 do (if i > 0 then comma ()); a.(i) <- int_ () done;
          Frmr (a.(0), a.(1), a.(2), a.(3), a.(4), a.(5), a.(6), a.(7), a.(8), a.(9))
      | "snl" -> let d = int_ () in comma (); let s_ = int_ () in comma ();
          let rq = list_ (fun () -> let t = int_ () in eat '/'; let b = bytes_ () in (t, b)) in comma ();
          let rs = list_ (fun () -> let t = int_ () in eat '/'; let a = int_ () in (t, a)) in Snl (d, s_, rq, rs)
      | "dps" -> let d = int_ () in comma (); let s_ = int_ () in comma (); let e = obytes () in comma ();
          let r = obytes () in Dps (d, s_, e, r)
      | "info" -> let d = int_ () in comma (); let s_ = int_ () in comma (); let ns = int_ () in comma ();
          let nr = int_ () in comma (); let b = bytes_ () in Info (d, s_, ns, nr, b)
      | "rr" -> let d = int_ () in comma (); let s_ = int_ () in comma (); let nr = int_ () in RR (d, s_, nr)
      | "rnr" -> let d = int_ () in comma (); let s_ = int_ () in comma (); let nr = int_ () in RNR (d, s_, nr)
      | "unknown" -> let pt = int_ () in comma (); let d = int_ () in comma (); let s_ = int_ () in comma ();
          let b = bytes_ () in Unknown (pt, d, s_, b)
      | _ -> raise (Parse ("pdu name " ^ name))) in
    eat ')'; r in
  let p = pdu_ () in
  if !pos <> n then raise (Parse "trailing") else p


(* ---- controller state (Model/Dispatch.v llc), syntax:
     state := item ('|' item)*
     item  := 'n' hexname '=' addr                                   llc.snl entry
            | 'd' idx '{' snl '}{' sent '}{' tids '}{' sdres '}{' dmpdu '}'   ServiceDiscovery at sap[idx]
            | 's' idx '{' sock ('^' sock)* '}{' pdus '}'             ServiceAccessPoint: sock_list, send_list
     sock  := K!STATE!addr!peer!pdus!recv_buf!recv_miu!pdus!recv_cnt!recv_ack!send_cnt!send_ack!acks!busy
     pdus  := '' | pdu ('~' pdu)*      snl := 'N' | hexname=addr (+ ...)*    sent := tid=hexname (+ ...)*
   ---- *)
let split c s = if s = "" then [] else String.split_on_char c s
let parse_name h = if h = "-" then [] else bytes_of_hex h
let show_name b = hex_of_bytes b
let parse_pdus s = List.map parse_pdu (split '~' s)
let show_pdus l = String.concat "~" (List.map show_pdu l)
let parse_oz s = if s = "n" then None else Some (zi s)
let kind_of = function "R" -> KRaw | "L" -> KLdl | _ -> KDlc
let kind_name = function KRaw -> "R" | KLdl -> "L" | KDlc -> "D"
let states = [("SHUTDOWN", SShutdown); ("CLOSED", SClosed); ("LISTEN", SListen); ("CONNECT", SConnect);
              ("ESTABLISHED", SEstablished); ("DISCONNECT", SDisconnect); ("CLOSE_WAIT", SCloseWait)]
let state_of s = List.assoc s states
let state_name st = fst (List.find (fun (_, v) -> v = st) states)
let parse_sock s =
  match String.split_on_char '!' s with
  | [k; st; a; p; rq; rb; rm; sq; rc; ra; sc; sa; ak; bz] ->
      { kind = kind_of k; state = state_of st; addr = parse_oz a; peer = parse_oz p; recv_queue = parse_pdus rq;
        recv_buf = zi rb; recv_miu = zi rm; send_queue = parse_pdus sq; recv_cnt = zi rc; recv_ack = zi ra;
        send_cnt = zi sc; send_ack = zi sa; acks_recvd = zi ak; send_busy = (bz = "1") }
  | _ -> failwith "sock"
let show_sock s =
  String.concat "!" [kind_name s.kind; state_name s.state; oz s.addr; oz s.peer; show_pdus s.recv_queue; zs s.recv_buf;
                     zs s.recv_miu; show_pdus s.send_queue; zs s.recv_cnt; zs s.recv_ack; zs s.send_cnt; zs s.send_ack;
                     zs s.acks_recvd; b01 s.send_busy]
let braces s = match String.split_on_char '{' s with
  | _ :: parts -> List.map (fun x -> String.sub x 0 (String.length x - 1)) parts
  | [] -> []
let pair_of f g s = match String.split_on_char '=' s with [a; b] -> (f a, g b) | _ -> failwith "pair"
let parse_state (s : string) : llc =
  let tab = Array.make 64 SapNone in
  let names = ref [] in
  List.iter (fun item ->
    let tag = item.[0] in
    let rest = String.sub item 1 (String.length item - 1) in
    if tag = 'n' then names := pair_of parse_name zi rest :: !names
    else begin
      let b = String.index rest '{' in
      let i = int_of_string (String.sub rest 0 b) in
      let parts = braces (String.sub rest b (String.length rest - b)) in
      match tag, parts with
      | 'd', [snl_; sent; tids; sdres; dm] ->
          tab.(i) <- SapSdp { sd_snl = (if snl_ = "N" then None else Some (List.map (pair_of parse_name zi) (split '+' snl_)));
                              sd_sent = List.map (pair_of zi parse_name) (split '+' sent);
                              sd_tids = List.map zi (split '+' tids);
                              sd_sdres = List.map (pair_of zi zi) (split '+' sdres);
                              sd_dmpdu = parse_pdus dm }
      | 's', [socks; sl] -> tab.(i) <- SapSap (List.map parse_sock (split '^' socks), parse_pdus sl)
      | _ -> failwith "item"
    end) (split '|' s);
  { saps = Array.to_list tab; snl = List.rev !names }
let show_state (st : llc) : string =
  let items = ref [] in
  List.iter (fun (n, a) -> items := ("n" ^ show_name n ^ "=" ^ zs a) :: !items) st.snl;
  List.iteri (fun i e ->
    match e with
    | SapNone -> ()
    | SapSdp sd ->
        let snl_ = (match sd.sd_snl with None -> "N"
                    | Some m -> String.concat "+" (List.map (fun (n, a) -> show_name n ^ "=" ^ zs a) m)) in
        items := (Printf.sprintf "d%d{%s}{%s}{%s}{%s}{%s}" i snl_
                    (String.concat "+" (List.map (fun (t, n) -> zs t ^ "=" ^ show_name n) sd.sd_sent))
                    (String.concat "+" (List.map zs sd.sd_tids))
                    (String.concat "+" (List.map (fun (t, a) -> zs t ^ "=" ^ zs a) sd.sd_sdres))
                    (show_pdus sd.sd_dmpdu)) :: !items
    | SapSap (socks, sl) ->
        items := (Printf.sprintf "s%d{%s}{%s}" i (String.concat "^" (List.map show_sock socks)) (show_pdus sl)) :: !items) st.saps;
  String.concat "|" (List.rev !items)
let show_round = function Dispatched st -> show_state st | LinkDisrupted -> "disrupted"

let show_pax (b, cfg) =
  match cfg with
  | None -> if b then "true" else "false"
  | Some c ->
      let (va, vb) = c.rcvd_ver in
      Printf.sprintf "%s ver=%s.%s miu=%s lto=%s wks=%s lsc=%s dpc=%s" (if b then "true" else "false")
        (zs va) (zs vb) (zs c.send_miu) (zs c.recv_lto) (zs c.send_wks) (zs c.send_lsc) (zs c.llcp_dpc)

(* ---- SNEP / handover (Model/SnepHdr.v): oracle table  m:hex:o,...  (o = o0 | o1 | d | v), script  hex|-|X|T,...  ---- *)
let miss = ref false
let parse_table s =
  if s = "-" then [] else
  List.map (fun e -> match String.split_on_char ':' e with
    | [m; h; o] -> ((zi m, bytes_of_hex h),
                    (match o with "o0" -> NdOk false | "o1" -> NdOk true | "d" -> NdDecodeError | _ -> NdValueError))
    | _ -> failwith "table") (String.split_on_char ',' s)
let nd_of tab = fun m o -> (try List.assoc (m, o) tab with Not_found -> (miss := true; NdDecodeError))
let parse_script s =
  if s = "." then [] else
  List.map (fun a -> if a = "X" then Closed else if a = "T" then Timeout else Frag (bytes_of_hex a)) (String.split_on_char ',' s)
let show_sends l = if l = [] then "-" else String.concat "," (List.map hex_of_bytes l)
let show_outcome = function Ended -> "ended" | Waiting -> "waiting"
let with_miss s = if !miss then (miss := false; s ^ " MISS") else s
let rec client_loop acc st script sends =
  match script with
  | [] -> Ok (sends, "waiting")
  | a :: r ->
      (match client_step acc st a with
       | Ok ((s1, nx), res) ->
           (match nx with
            | Return -> Ok (sends @ s1, (match res with None -> "none" | Some d -> hex_of_bytes d))
            | Continue st' -> client_loop acc st' r (sends @ s1))
       | Err e -> Err e | Crash c -> Crash c | Hang -> Hang)
let rec hc_loop nd orig octets script =
  match script with
  | [] -> Ok "waiting"
  | a :: r ->
      (match hc_step nd orig octets a with
       | Ok (nx, res) ->
           (match nx with
            | Return -> Ok (match res with None -> "none" | Some d -> hex_of_bytes d)
            | Continue o' -> hc_loop nd orig o' r)
       | Err e -> Err e | Crash c -> Crash c | Hang -> Hang)

(* ---- NFC-DEP exchange against an arbitrary answer stream (Model/DepAny.v): answers  hex | - (empty frame) | N (silence) | T<d> (corrupted frame after d time units; T = T1), '.' = none; sent = frame@granted time-out ---- *)
let parse_answers s =
  if s = "." then [] else
  List.map (fun a -> if a = "N" then ATimeout else if a = "T" then ACorrupt (z_of_int 1)
                     else if String.length a > 1 && a.[0] = 'T' then ACorrupt (zi (String.sub a 1 (String.length a - 1)))
                     else AFrame (bytes_of_hex a)) (String.split_on_char ',' s)
let show_sent l = if l = [] then "." else
  String.concat "," (List.map (fun (fr, t) -> (match fr with None -> "N" | Some f -> hex_of_bytes f) ^ "@" ^ zs t) l)
let rec nat_of_int n = if n <= 0 then O else S (nat_of_int (n - 1))
let mkcfg_ orig b106 did nad miu rwt tick =
  { c106 = (b106 = "1"); cdid = parse_oz did; cnad = parse_oz nad; cmiu = zi miu; crwt = zi rwt; ctick = zi tick; corig = (orig = "1") }

let handle (w : string list) : string =
  match w with
  | ["depdec"; r; b106; orig; f] ->
      let r = if r = "i" then Ini else Tgt in
      show_res (show_opt show_dpdu)
        ((if orig = "1" then decode_frame_orig else decode_frame) r (b106 = "1") (bytes_of_hex f))
  | ["rtox"; orig; d] -> show_res zs ((if orig = "1" then rtox_value_orig else rtox_value) (bytes_of_hex d))
  | ["pax"; sec; orig; g] ->
      let gb = if g = "none" then None else Some (bytes_of_hex g) in
      show_res show_pax ((if orig = "1" then activate_gb_orig else activate_gb) (sec = "1") gb)
  | ["tt3"; orig; idm; pmm; sys; nb; cmd] ->
      show_res (show_opt hex_of_bytes)
        (ex_process (bytes_of_hex idm) (bytes_of_hex pmm) (bytes_of_hex sys) (zi nb) (orig = "1") (bytes_of_hex cmd))
  | ["receive"; orig; st; d] -> show_res show_round (receive (orig = "1") (parse_state st) (bytes_of_hex d))
  | ["snepsrv"; orig; maxlen; tab; script] ->
      with_miss (show_res (fun (sends, o) -> show_sends sends ^ " " ^ show_outcome o)
        (snep_serve (nd_of (parse_table tab)) (orig = "1") (zi maxlen) Idle (parse_script script)))
  | ["snepcl"; acc; script] ->
      show_res (fun (sends, r) -> show_sends sends ^ " " ^ r) (client_loop (zi acc) ClFirst (parse_script script) [])
  | ["hosrv"; orig; reset; miu; hs; tab; script] ->
      with_miss (show_res (fun (sends, o) -> show_sends sends ^ " " ^ show_outcome o)
        (ho_serve (nd_of (parse_table tab)) (orig = "1") (bytes_of_hex hs) (zi miu) (reset = "1") [] (parse_script script)))
  | ["hocl"; orig; tab; script] ->
      with_miss (show_res (fun r -> r) (hc_loop (nd_of (parse_table tab)) (orig = "1") [] (parse_script script)))
  | ["iexch"; orig; b106; did; nad; miu; rwt; tick; timeout; pni; payload; answers] ->
      let a = parse_answers answers in
      let (r, s') = i_exchange (nat_of_int (List.length a + 5)) (mkcfg_ orig b106 did nad miu rwt tick)
                      { now = Z0; ans = a; sent = [] } (zi pni) (bytes_of_hex payload) (zi timeout) in
      show_res (fun (d, p) -> hex_of_bytes d ^ " pni=" ^ zs p) r ^ " sent=" ^ show_sent s'.sent
  | ["texch"; orig; b106; did; nad; miu; rwt; tick; timeout; spni; first; payload; answers] ->
      let a = parse_answers answers in
      let (r, s') = t_exchange (nat_of_int (List.length a + 5)) (mkcfg_ orig b106 did nad miu rwt tick)
                      { now = Z0; ans = a; sent = [] } (parse_oz spni) (if first = "n" then None else Some (bytes_of_hex first))
                      (bytes_of_hex payload) (zi timeout) in
      show_res (function None -> "none" | Some (d, p) -> hex_of_bytes d ^ " pni=" ^ zs p) r ^ " sent=" ^ show_sent s'.sent
  | ["tdeact"; b106; did; nad; miu; rwt; tick; grace; data; answers] ->
      let a = parse_answers answers in
      let (r, s') = t_deactivate (nat_of_int (List.length a + 5)) (mkcfg_ "0" b106 did nad miu rwt tick)
                      { now = Z0; ans = a; sent = [] } (bytes_of_hex data) (zi grace) in
      show_res (fun () -> "none") r ^ " sent=" ^ show_sent s'.sent
  | ["pdumeth"; d] ->
      (* what the methods on the hot path give for the decoded PDU: len(pdu), pdu.encode() *)
      let b = bytes_of_hex d in
      (match decode b Z0 (z_of_int (len_z b)) with
       | Ok p -> "ok len=" ^ zs (pdu_len p) ^ " enc=" ^
                 (match encode p with EOk e -> hex_of_bytes e | EEncodeError -> "EncodeError" | ECrash c -> "crash:" ^ crash_name c)
       | r -> show_res show_pdu r)
  | ["pdudec"; d] -> let b = bytes_of_hex d in show_res show_pdu (decode b Z0 (z_of_int (len_z b)))
  | _ -> "?unknown-command"

let () =
  try
    while true do
      let line = input_line stdin in
      let w = List.filter (fun s -> s <> "") (String.split_on_char ' ' line) in
      print_string (try handle w with Stack_overflow -> "crash RecursionError" | Failure m -> "?failure " ^ m
                    | Parse m -> "?parse " ^ m | Not_found -> "?notfound" | Invalid_argument m -> "?invalid " ^ m);
      print_newline ()
    done
  with End_of_file -> ()
