(* Line-oriented driver around the extracted models.
   input : <command> <arg> ...   args: decimal integers or hex byte strings ("-" = empty)
   output: one line per input line *)
open C14

let rec pos_of_int n = if n = 1 then XH else if n land 1 = 0 then XO (pos_of_int (n lsr 1)) else XI (pos_of_int (n lsr 1))
let z_of_int n = if n = 0 then Z0 else if n > 0 then Zpos (pos_of_int n) else Zneg (pos_of_int (-n))
let rec int_of_pos = function XH -> 1 | XO p -> 2 * int_of_pos p | XI p -> 2 * int_of_pos p + 1
let int_of_z = function Z0 -> 0 | Zpos p -> int_of_pos p | Zneg p -> - (int_of_pos p)

let bytes_of_hex s =
  if s = "-" then [] else
  let n = String.length s / 2 in
  List.init n (fun i -> z_of_int (int_of_string ("0x" ^ String.sub s (2*i) 2)))
let hex_of_bytes l =
  if l = [] then "-" else String.concat "" (List.map (fun z -> let v = int_of_z z in
    if v < 0 || v > 255 then Printf.sprintf "<%d>" v else Printf.sprintf "%02x" v) l)
let ints l = String.concat "," (List.map (fun z -> string_of_int (int_of_z z)) l)
let zi s = z_of_int (int_of_string s)

let crash_name = function
  | IndexErr -> "IndexError" | UnpackErr -> "UnpackErr" | NoneSubscript -> "NoneSubscript" | NoneAttr -> "NoneAttr"
  | Unbound -> "UnboundLocalError" | RangeStep0 -> "RangeStep0" | RecursionErr -> "RecursionError"
  | AssertErr -> "AssertionError" | TypeErr -> "TypeError" | ValueErr -> "ValueError" | StructErr -> "struct.error"
  | AttributeErr -> "AttributeError" | KeyErr -> "KeyError"
let err_name = function
  | DecodeError -> "DecodeError" | ProtocolError -> "ProtocolError" | TransmissionError -> "TransmissionError"
  | TimeoutError -> "TimeoutError" | BrokenLinkError -> "BrokenLinkError" | IOErr -> "IOError"
  | TagCommandError e -> "TagCommandError:" ^ string_of_int (int_of_z e)
  | LlcpError e -> "LlcpError:" ^ string_of_int (int_of_z e)
  | ValueError -> "ValueError" | CommunicationError -> "CommunicationError"
  | ChipsetError e -> "ChipsetError:" ^ string_of_int (int_of_z e)
  | UnsupportedTarget -> "UnsupportedTargetError" | RuntimeErr -> "RuntimeError"
let show_res f = function
  | Ok a -> "ok " ^ f a | Err e -> "err " ^ err_name e | Crash c -> "crash " ^ crash_name c | Hang -> "hang"
let show_opt f = function Some a -> "some " ^ f a | None -> "none"
let show_bool b = if b then "true" else "false"

let handle (w : string list) : string =
  match w with
  | ["crc"; d; size; reg] -> string_of_int (int_of_z (calculate_crc (bytes_of_hex d) (zi size) (zi reg)))
  | ["add_crc_a"; d] -> hex_of_bytes (add_crc_a (bytes_of_hex d))
  | ["add_crc_b"; d] -> hex_of_bytes (add_crc_b (bytes_of_hex d))
  | ["check_crc_a"; d] -> show_res show_bool (check_crc_a (bytes_of_hex d))
  | ["check_crc_b"; d] -> show_res show_bool (check_crc_b (bytes_of_hex d))
  | ["iso_crc_a"; d] -> hex_of_bytes (iso_crc_a (bytes_of_hex d))
  | ["iso_crc_b"; d] -> hex_of_bytes (iso_crc_b (bytes_of_hex d))
  | ["pn53x_build"; cmd; d] -> hex_of_bytes (pn53x_build (zi cmd) (bytes_of_hex d))
  | ["pn53x_parse"; cmd; f] -> show_res hex_of_bytes (pn53x_parse (zi cmd) (bytes_of_hex f))
  | ["host_frame_ok"; f] -> show_opt hex_of_bytes (host_frame_ok (bytes_of_hex f))
  | ["pn53x_response"; cmd; d] -> hex_of_bytes (pn53x_response (zi cmd) (bytes_of_hex d))
  | ["acr122_build"; cmd; d] -> show_res hex_of_bytes (acr122_build (zi cmd) (bytes_of_hex d))
  | ["acr122_parse"; cmd; f] -> show_res hex_of_bytes (acr122_parse (zi cmd) (bytes_of_hex f))
  | ["acr122_cmd_ok"; f] -> show_opt hex_of_bytes (acr122_cmd_ok (bytes_of_hex f))
  | ["acr122_rsp_ok"; f] -> show_opt hex_of_bytes (acr122_rsp_ok (bytes_of_hex f))
  | ["rcs380_build"; d] -> hex_of_bytes (rcs380_build (bytes_of_hex d))
  | ["type_a_rsp"; sel; rxm; f] -> show_res hex_of_bytes (type_a_rsp (bytes_of_hex sel) (zi rxm) (bytes_of_hex f))
  | ["rcs380_frame_ok"; f] -> show_opt hex_of_bytes (rcs380_frame_ok (bytes_of_hex f))
  | _ -> "?unknown-command"

let () =
  try
    while true do
      let line = input_line stdin in
      let w = List.filter (fun s -> s <> "") (String.split_on_char ' ' line) in
      print_string (try handle w with Stack_overflow -> "crash RecursionError" | Failure m -> "?failure " ^ m);
      print_newline ()
    done
  with End_of_file -> ()
