(* Line-oriented driver around the extracted Type 1 / Type 2 tag models.
   input : <command> <arg> ...   args: decimal integers or hex byte strings ("-" = empty)
   output: one line per input line *)
open Tags_tlv

let rec pos_of_int n = if n = 1 then XH else if n land 1 = 0 then XO (pos_of_int (n lsr 1)) else XI (pos_of_int (n lsr 1))
let z_of_int n = if n = 0 then Z0 else if n > 0 then Zpos (pos_of_int n) else Zneg (pos_of_int (-n))
let rec int_of_pos = function XH -> 1 | XO p -> 2 * int_of_pos p | XI p -> 2 * int_of_pos p + 1
let int_of_z = function Z0 -> 0 | Zpos p -> int_of_pos p | Zneg p -> - (int_of_pos p)

let bytes_of_hex s =
  if s = "-" then [] else
  let n = String.length s / 2 in
  List.init n (fun i -> z_of_int (int_of_string ("0x" ^ String.sub s (2*i) 2)))
let hex_of_bytes l =
  if l = [] then "-" else String.concat "" (List.map (fun z -> let v = int_of_z z in
    if v < 0 || v > 255 then Printf.sprintf "<%d>" v else Printf.sprintf "%02x" v) l)
let zi s = z_of_int (int_of_string s)
let rec nat_of_int n = if n <= 0 then O else S (nat_of_int (n - 1))
let zs z = string_of_int (int_of_z z)

let crash_name = function
  | IndexErr -> "IndexError" | UnpackErr -> "UnpackErr" | NoneSubscript -> "NoneSubscript" | NoneAttr -> "NoneAttr"
  | Unbound -> "UnboundLocalError" | RangeStep0 -> "RangeStep0" | RecursionErr -> "RecursionError"
  | AssertErr -> "AssertionError" | TypeErr -> "TypeError" | ValueErr -> "ValueError" | StructErr -> "struct.error"
  | AttributeErr -> "AttributeError" | KeyErr -> "KeyError"
let err_name = function
  | TagCommandError _ -> "TagCommandError" | ValueError -> "ValueError" | _ -> "OtherError"
let show_res f = function
  | Ok a -> "ok" ^ f a | Err e -> "err " ^ err_name e | Crash c -> "crash " ^ crash_name c | Hang -> "hang"
let show_bool b = if b then "true" else "false"
let show_cmds ws = if ws = [] then "-" else
  String.concat "," (List.map (fun (a, d) -> zs a ^ ":" ^ hex_of_bytes d) ws)
let show_fresh = function
  | NoNdef -> "nondef" | NotReadable -> "notreadable" | Msg d -> "msg " ^ hex_of_bytes d
  | Failed r -> "failed " ^ show_res (fun _ -> "") r
let show_cap = function Some c -> zs c | None -> "none"
let wipe_arg s = if s = "-" then None else Some (zi s)

let handle (w : string list) : string =
  match w with
  | ["t2_write"; m; d] ->
    let ((((r, ws), m'), f), c) = t2_write_obs (bytes_of_hex m) (bytes_of_hex d) in
    String.concat " | " [show_res (fun _ -> "") r; show_cmds ws; hex_of_bytes m'; show_fresh f; show_cap c]
  | ["t2_retry"; m; d; k1; f] ->
    (match t2_retry_obs (bytes_of_hex m) (bytes_of_hex d) (nat_of_int (int_of_string k1)) (if f = "lost" then Lost else Unanswered) with
     | None -> "none"
     | Some (((((m1, from), cache), r), ws), fs) ->
       String.concat " | " [hex_of_bytes m1; hex_of_bytes from; hex_of_bytes cache; show_res (fun _ -> "") r; show_cmds ws;
                            String.concat ";" (List.map show_fresh fs)])
  | ["t2_rewrite"; m; d1; k1; f; d2] ->
    (match t2_rewrite_obs (bytes_of_hex m) (bytes_of_hex d1) (nat_of_int (int_of_string k1)) (if f = "lost" then Lost else Unanswered) (bytes_of_hex d2) with
     | None -> "none"
     | Some (((m1, r), ws), fs) ->
       String.concat " | " [hex_of_bytes m1; show_res (fun _ -> "") r; show_cmds ws; String.concat ";" (List.map show_fresh fs)])
  | ["t1_rewrite"; hr; m; d1; k1; f; d2] ->
    let hr0 = List.hd (bytes_of_hex hr) in
    (match t1_rewrite_obs hr0 (bytes_of_hex m) (bytes_of_hex d1) (nat_of_int (int_of_string k1)) (if f = "lost" then Lost else Unanswered) (bytes_of_hex d2) with
     | None -> "none"
     | Some (((m1, r), ws), fs) ->
       String.concat " | " [hex_of_bytes m1; show_res (fun _ -> "") r; show_cmds ws; String.concat ";" (List.map show_fresh fs)])
  | ["t2_cut"; m; d] -> String.concat ";" (List.map show_fresh (t2_cut_obs (bytes_of_hex m) (bytes_of_hex d)))
  | ["t2_format"; m; wp] ->
    let ((((r, ws), m'), f), c) = t2_format_obs (bytes_of_hex m) (wipe_arg wp) in
    String.concat " | " [show_res (fun b -> " " ^ show_bool b) r; show_cmds ws; hex_of_bytes m'; show_fresh f; show_cap c]
  | ["t2_fresh"; m] -> let m = bytes_of_hex m in show_fresh (t2_fresh m) ^ " | " ^ show_cap (t2_capacity m)
  | ["t2_info"; m] ->
    let m = bytes_of_hex m in
    (match t2_layout m with
     | None -> "none"
     | Some l -> Printf.sprintf "off=%s cap=%s rd=%s wr=%s dend=%s hw=%s free=%s room=%s wf=%s"
         (zs l.l_off) (zs l.l_cap) (show_bool l.l_rd) (show_bool l.l_wr) (zs l.l_dend) (zs l.l_hw)
         (zs (t2_free_after_tag l)) (zs (room (t2_free_after_tag l))) (show_bool (wf_layoutb m)))
  | ["t1_write"; hr; m; d] ->
    let hr0 = List.hd (bytes_of_hex hr) in
    let ((((r, ws), m'), f), c) = t1_write_obs hr0 (bytes_of_hex m) (bytes_of_hex d) in
    String.concat " | " [show_res (fun _ -> "") r; show_cmds ws; hex_of_bytes m'; show_fresh f; show_cap c]
  | ["t1_format"; hr; m; wp] ->
    let h = bytes_of_hex hr in
    let ((((r, ws), m'), f), c) = t1_format_obs (List.nth h 0) (List.nth h 1) (bytes_of_hex m) (wipe_arg wp) in
    let show_ob = function Some b -> " " ^ show_bool b | None -> " none" in
    String.concat " | " [show_res show_ob r; show_cmds ws; hex_of_bytes m'; show_fresh f; show_cap c]
  | ["t1_retry"; hr; m; d; k1; f] ->
    let hr0 = List.hd (bytes_of_hex hr) in
    (match t1_retry_obs hr0 (bytes_of_hex m) (bytes_of_hex d) (nat_of_int (int_of_string k1)) (if f = "lost" then Lost else Unanswered) with
     | None -> "none"
     | Some (((((m1, from), cache), r), ws), fs) ->
       String.concat " | " [hex_of_bytes m1; hex_of_bytes from; hex_of_bytes cache; show_res (fun _ -> "") r; show_cmds ws;
                            String.concat ";" (List.map show_fresh fs)])
  | ["t1_cut"; hr; m; d] ->
    let hr0 = List.hd (bytes_of_hex hr) in
    String.concat ";" (List.map show_fresh (t1_cut_obs hr0 (bytes_of_hex m) (bytes_of_hex d)))
  | ["t1_fresh"; hr; m] ->
    let hr0 = List.hd (bytes_of_hex hr) in let m = bytes_of_hex m in
    show_fresh (t1_fresh hr0 m) ^ " | " ^ show_cap (t1_capacity hr0 m)
  | ["t1_info"; hr; m] ->
    let hr0 = List.hd (bytes_of_hex hr) in let m = bytes_of_hex m in
    (match t1_layout hr0 m with
     | None -> "none"
     | Some l -> Printf.sprintf "off=%s cap=%s rd=%s wr=%s dend=%s hw=%s free=%s room=%s wf=%s"
         (zs l.l_off) (zs l.l_cap) (show_bool l.l_rd) (show_bool l.l_wr) (zs l.l_dend) (zs l.l_hw)
         (zs (t1_free_after_tag l)) (zs (room (t1_free_after_tag l))) (show_bool (t1_wf_layoutb hr0 m)))
  | ["ss"; lib; tag; target; o] ->
    let oc = (match o with "done" -> SsDone | "p1nak" -> SsP1Nak | "p1err" -> SsP1Err | "p2answer" -> SsP2Answer | _ -> SsP2Err) in
    let ((r, lib'), tag') = sector_select (zi lib) (zi tag) (zi target) oc in
    show_res (fun s -> " " ^ zs s) r ^ " " ^ zs lib' ^ " " ^ zs tag'
  | ["lock_range"; a; b; c] -> let (lo, hi) = lock_byte_range (zi a) (zi b) (zi c) in zs lo ^ " " ^ zs hi
  | ["rsvd_range"; a; b; c] -> let (lo, hi) = rsvd_byte_range (zi a) (zi b) (zi c) in zs lo ^ " " ^ zs hi
  | _ -> "?unknown-command"

let () =
  try
    while true do
      let line = input_line stdin in
      let w = List.filter (fun s -> s <> "") (String.split_on_char ' ' line) in
      print_string (try handle w with Stack_overflow -> "crash RecursionError" | Failure m -> "?failure " ^ m);
      print_newline ()
    done
  with End_of_file -> ()
