(* C18 - syntax of the control skeleton of ContactlessFrontend.connect / _rdwr_connect / _llcp_connect /
   _card_connect / sense / listen / exchange as it is cut out of src/nfc/clf/__init__.py by
   translate/kspec_c18.py (Gen/ConnectSkel.v is a term of these types).  Definitions only. *)
From Coq Require Import ZArith List Bool.
From NV Require Import Model.Connect.
Import ListNotations.

(* ------------------------------------------------------------------ statement skeleton of the methods
   that call out of the frontend (connect main loop, _rdwr_connect, _llcp_connect, _card_connect) *)
Inductive var := XTarget | XTag | XLlc | XResult | XRsp | XCmd | XRole.
Inductive cbk := KDiscover | KConnect | KRelease.
(* exception classes named in except clauses / raise statements *)
Inductive xcls := EcIOError | EcUnsupported | EcKbd | EcSystemExit | EcBrokenLink | EcCommError.

(* calls with an observable effect; the extractor checks callee AND arguments literally *)
Inductive act :=
| ASense                  (* self.sense( *options['targets'], iterations=options['iterations'], interval=options['interval']) *)
| AListen                 (* self.listen(options['target'], timeout) *)
| ATagActivate            (* nfc.tag.activate(self, target) *)
| AEmulate                (* nfc.tag.emulate(self, target) *)
| ALlcActivate            (* llc.activate(mac=DEP(clf=self), **dep_cfg)   with DEP = nfc.dep.<role> *)
| ALlcRun                 (* llc.run(terminate=terminate) *)
| ACallback (k : cbk)     (* options['on-discover'](target) / options['on-connect'](tag|llc) / options['on-release'](tag|llc) *)
| ATerminate              (* terminate() *)
| AIsPresent              (* tag.is_present *)
| ASleep                  (* time.sleep(0.1) *)
| ABeepOn | ABeepOff      (* self.device.turn_on_led_and_buzzer() / turn_off_led_and_buzzer() *)
| AProcess                (* tag.process_command(tag.cmd | tag_cmd) *)
| ASendResponse           (* tag.send_response(tag_rsp, None) *)
| ASub (b : blk).         (* self._rdwr_connect(rdwr_options, terminate) / _llcp_connect / _card_connect *)

Inductive exp :=
| EAct (a : act)
| EVar (x : var)
| ENone | EBool (b : bool)
| EIsNone (e : exp) | EIsNotNone (e : exp)
| ENot (e : exp) | EAnd (a b : exp) | EOr (a b : exp)
| EBoolIsTrue (e : exp)       (* bool(e) is True *)
| EBeepOpt                    (* options['beep-on-connect'] *)
| ELlcOpt                     (* options['llc'] *)
| EBlockOn (b : blk)          (* rdwr_options / llcp_options / card_options used as a condition *)
| EDevNone                    (* self.device is None *)
| ERoleIsNone                 (* options.get('role') is None *)
| ERoleEq                     (* options.get('role') == role *)
| EIsEmulation (e : exp).     (* isinstance(e, nfc.tag.TagEmulation) *)

Inductive stmt :=
| SSkip
| SSeq (a b : stmt)
| SAssign (x : var) (e : exp)
| SExpr (e : exp)
| SIf (c : exp) (a b : stmt)
| SWhile (c : exp) (a : stmt)
| SFor (x : var) (l : list depmac) (a : stmt)      (* for role in ('target', 'initiator') *)
| SReturn (e : exp)
| SBreak
| SRaise (c : xcls)
| STry (a : stmt) (h : handlers)
| SWith (a : stmt)                                 (* with self.lock: *)
with handlers := HNil | HCons (c : xcls) (s : stmt) (h : handlers).

(* ------------------------------------------------------------------ option preparation of connect() *)
(* what the default on-startup returns / what makes a block survive, per block in source order *)
Inductive keep_test :=
| KeepIsLlc                   (* isinstance(llc, nfc.llcp.llc.LogicalLinkController) *)
| KeepTruthyAllRemote         (* targets and all([isinstance(o, RemoteTarget) for o in targets]) *)
| KeepIsLocalTarget.          (* isinstance(target, LocalTarget) *)
Inductive startup_default := DfltIdentity | DfltNone.      (* lambda x: x  /  lambda target: None *)
Record startup_entry := {
  se_blk : blk; se_default : startup_default; se_keep : keep_test;
  se_cb_defaults : list (cbk * bool) }.     (* lambda _: True / False defaults of the other callbacks (on-discover of rdwr: see gen_on_discover) *)

(* ------------------------------------------------------------------ sense() / listen() / exchange() *)
Inductive sstep :=
| StCheckTypes (c : pyexn)    (* for target in targets: if not isinstance(target, RemoteTarget): raise ValueError *)
| StCheckLocal (c : pyexn)    (* assert isinstance(target, LocalTarget) *)
| StCheckDevice (c : pyexn)   (* if self.device is None: raise IOError *)
| StForget                    (* self.target = None *)
| StMute.                     (* self.device.mute() *)
Inductive tech := TechA | TechB | TechF.
Inductive stest :=
| TAtrReqSet                  (* target.atr_req is not None *)
| TBrtyEndswith (c : tech)    (* target.brty.endswith('A') *)
| TAtrResSet                  (* target.atr_res is not None *)
| TBrtyIn (c : tech).         (* target.brty in ('106A', '212A', '424A') ... *)
Inductive swallow := SwAlways | SwUnlessSingle.           (* log only / re-raise if len(targets) == 1 *)
Inductive sexc := SxUnsupported | SxCommunication.
Record sense_skel := {
  ss_prologue : list sstep;
  ss_dispatch : list (stest * drv);        (* if / elif chain: self.target = sense_xxx(target) *)
  ss_else_raises_unsupported : bool;
  ss_except : list (sexc * swallow);       (* except clauses in order *)
  ss_else_returns_target : bool;           (* else: if self.target is not None: return self.target *)
  ss_after_iteration_mute_if_targets : bool;   (* if len(targets) > 0: self.device.mute() *)
  ss_dep_checks_atr_req : bool;            (* sense_dep raises ValueError for len < 16 / > 64 before the driver call *)
  ss_tta_checks_sel_req : bool;            (* sense_tta raises ValueError for a sel_req that is not 4/7/10 byte before the driver call *)
  ss_tta_validates_sens_res : bool }.      (* sense_tta raises ProtocolError for a SENS_RES of the wrong length *)
Record listen_skel := {
  ls_prologue : list sstep;
  ls_dispatch : list (stest * drv);
  ls_else_raises : pyexn;
  ls_returns_target : bool;                (* return self.target *)
  ls_dep_drops_bad_atr_req : bool }.
Inductive xdir := DirCmd | DirRsp.
Inductive xkind := IsRemote | IsLocal.
Record exchange_skel := {
  xs_prologue : list sstep;
  xs_dispatch : list (xkind * xdir);       (* isinstance(self.target, RemoteTarget) -> send_cmd_recv_rsp ... *)
  xs_else_returns_none : bool }.
