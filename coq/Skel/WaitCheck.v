(* Skel/WaitCheck.v - the syntactic WaitCheck analysis (DESIGN.md 6.2) and its soundness.

   chk all s a: abstract interpretation of the skeleton s from the abstract state a.
     a_know = KOpen : the lock is held and a guard evaluated in THIS hold found the object open
              KShut : ... found it closed (or closed it)
     a_w = Some l   : on every path that has written the closed state in this hold, at least the
                      conditions l have been notify_all'ed in this hold (None: no such path)
     a_n = Some l   : the same for the paths that have not written it (None: no such path)
   The check fails (None) when
     (i)   a Wait is reached without KOpen (the state test was made before the lock was taken, or
           before an earlier wait of the same call), or on a condition that is not the object's,
     (ii)  a hold that may have written the closed state ends (wait / release) without having
           notified every condition of the object, or the closed state is written without the lock,
     (iii) is (i) for the code after a wake-up: a wait resets the knowledge to KUnk, so a second
           wait needs a new guard; paths that end in return / raise need nothing.
   Soundness (chk_sound): every hold of every execution satisfies hold_ok. *)
From Coq Require Import List Bool Arith Lia.
From NV Require Import Model.LlcLife Skel.WaitSyntax.
Import ListNotations.

Inductive know := KOpen | KShut | KUnk.
Record ast := mkA { a_depth : nat; a_know : know; a_w : option (list cond); a_n : option (list cond) }.

Definition mem (c : cond) (l : list cond) : bool := existsb (cond_eqb c) l.
Definition incl_b (l m : list cond) : bool := forallb (fun c => mem c m) l.
Definition know_eqb (a b : know) : bool := match a, b with KOpen, KOpen | KShut, KShut | KUnk, KUnk => true | _, _ => false end.
Definition join_set (x y : option (list cond)) : option (list cond) :=
  match x, y with
  | None, z | z, None => z
  | Some l, Some m => Some (filter (fun c => mem c m) l)
  end.
Definition set_eqb (x y : option (list cond)) : bool :=
  match x, y with
  | None, None => true
  | Some l, Some m => incl_b l m && incl_b m l
  | _, _ => false
  end.
Definition join_know (a b : know) : know := if know_eqb a b then a else KUnk.

Definition join (a b : ast) : option ast :=
  if Nat.eqb (a_depth a) (a_depth b) then
    Some (mkA (a_depth a) (join_know (a_know a) (a_know b)) (join_set (a_w a) (a_w b)) (join_set (a_n a) (a_n b)))
  else None.

(* join on "maybe unreachable" states; the outer option is failure *)
Definition join_opt (x y : option ast) : option (option ast) :=
  match x, y with
  | None, _ => Some y
  | _, None => Some x
  | Some a, Some b => match join a b with Some j => Some (Some j) | None => None end
  end.

Definition ast_eqb (a b : ast) : bool :=
  Nat.eqb (a_depth a) (a_depth b) && know_eqb (a_know a) (a_know b) && set_eqb (a_w a) (a_w b) && set_eqb (a_n a) (a_n b).

Definition set_know (a : ast) (k : know) : ast := mkA (a_depth a) k (a_w a) (a_n a).
Definition held (a : ast) : bool := negb (Nat.eqb (a_depth a) 0).

(* refine the abstract state by the outcome of a guard; inner None: infeasible; outer None: failure *)
Fixpoint assume (g : guard) (v : bool) (a : ast) : option (option ast) :=
  match g with
  | GShut => if v then (if held a then (if know_eqb (a_know a) KOpen then Some None else Some (Some (set_know a KShut)))
                        else Some (Some a))
             else (if held a then (if know_eqb (a_know a) KShut then Some None else Some (Some (set_know a KOpen)))
                   else Some (Some a))
  | GOpen => if v then (if held a then (if know_eqb (a_know a) KShut then Some None else Some (Some (set_know a KOpen)))
                        else Some (Some a))
             else Some (Some a)
  | GAny => Some (Some a)
  | GNot x => assume x (negb v) a
  | GAnd x y =>
      if v then match assume x true a with
                | Some (Some a1) => assume y true a1
                | r => r
                end
      else match assume x false a, assume y false a with
           | Some r1, Some r2 => join_opt r1 r2
           | _, _ => None
           end
  | GOr x y =>
      if v then match assume x true a, assume y true a with
                | Some r1, Some r2 => join_opt r1 r2
                | _, _ => None
                end
      else match assume x false a with
           | Some (Some a1) => assume y false a1
           | r => r
           end
  end.

Definition hold_check (all : list cond) (a : ast) : bool :=
  match a_w a with None => true | Some l => incl_b all l end.
Definition fresh_hold (d : nat) : ast := mkA d KUnk None (Some []).
Definition hold_check_opt (all : list cond) (x : option ast) : bool :=
  match x with None => true | Some a => hold_check all a end.

Definition res := option (option ast * option ast).     (* failure | (normal exit, abrupt exit) *)

(* loop invariant by iteration from the entry state *)
Fixpoint iter (k : nat) (body : ast -> res) (g : guard) (inv : ast) : option (ast * option ast) :=
  match k with
  | 0 => None
  | S k' =>
      match assume g true inv with
      | None => None
      | Some None => Some (inv, None)
      | Some (Some bi) =>
          match body bi with
          | None => None
          | Some (None, b) => Some (inv, b)
          | Some (Some an, b) =>
              match join inv an with
              | None => None
              | Some inv' => if ast_eqb inv' inv then Some (inv, b) else iter k' body g inv'
              end
          end
      end
  end.

Fixpoint chk (all : list cond) (s : stmt) (a : ast) : res :=
  match s with
  | Skip => Some (Some a, None)
  | Seq x y =>
      match chk all x a with
      | None => None
      | Some (None, b1) => Some (None, b1)
      | Some (Some a1, b1) =>
          match chk all y a1 with
          | None => None
          | Some (n2, b2) => match join_opt b1 b2 with Some b => Some (n2, b) | None => None end
          end
      end
  | If g x y =>
      let branch (r : option (option ast)) (z : stmt) : res :=
        match r with
        | None => None
        | Some None => Some (None, None)
        | Some (Some a1) => chk all z a1
        end in
      match branch (assume g true a) x, branch (assume g false a) y with
      | Some (n1, b1), Some (n2, b2) =>
          match join_opt n1 n2, join_opt b1 b2 with
          | Some n, Some b => Some (n, b)
          | _, _ => None
          end
      | _, _ => None
      end
  | While g x =>
      match iter 12 (chk all x) g a with
      | None => None
      | Some (inv, b) =>
          match assume g false inv with
          | None => None
          | Some n => Some (n, b)
          end
      end
  | With x =>
      match a_depth a with
      | 0 =>
          match chk all x (fresh_hold 1) with
          | None => None
          | Some (n, b) =>
              if hold_check_opt all n && hold_check_opt all b then
                Some (match n with None => None | Some _ => Some (fresh_hold 0) end,
                      match b with None => None | Some _ => Some (fresh_hold 0) end)
              else None
          end
      | S d =>
          match chk all x (mkA (S (S d)) (a_know a) (a_w a) (a_n a)) with
          | None => None
          | Some (n, b) =>
              let back (r : option ast) :=
                match r with None => None | Some r' => Some (mkA (S d) (a_know r') (a_w r') (a_n r')) end in
              Some (back n, back b)
          end
      end
  | Wait c =>
      if held a && know_eqb (a_know a) KOpen && hold_check all a && mem c all
      then Some (Some (fresh_hold (a_depth a)), None) else None
  | NotifyAll c => Some (Some (mkA (a_depth a) (a_know a) (option_map (cons c) (a_w a)) (option_map (cons c) (a_n a))), None)
  | Notify _ => Some (Some a, None)
  | Shut => if held a then Some (Some (mkA (a_depth a) KShut (join_set (a_w a) (a_n a)) None), None) else None
  | SetOpen => Some (Some (if held a then set_know a KOpen else a), None)
  | Exit => Some (None, Some a)
  | May => Some (Some a, Some a)
  | Try x h =>
      match chk all x a with
      | None => None
      | Some (n1, None) => Some (n1, None)
      | Some (n1, Some ab) =>
          match chk all h ab with
          | None => None
          | Some (n2, b2) => match join_opt n1 n2 with Some n => Some (n, b2) | None => None end
          end
      end
  end.

Definition waitcheck (all : list cond) (s : stmt) : bool :=
  match chk all s (fresh_hold 0) with Some _ => true | None => false end.

(* ---- concretisation ----------------------------------------------------------------------------- *)
Definition covers (x : option (list cond)) (l : list cond) : Prop := exists m, x = Some m /\ incl m l.
Definition gam (a : ast) (c : cst) : Prop :=
  depth c = a_depth a
  /\ (a_depth a <> 0 -> (a_know a = KOpen -> shut c = false) /\ (a_know a = KShut -> shut c = true))
  /\ (if wrote c then covers (a_w a) (nall c) else covers (a_n a) (nall c)).

Definition gam_opt (x : option ast) (c : cst) : Prop := exists a, x = Some a /\ gam a c.

Lemma mem_In c l : mem c l = true <-> In c l.
Proof. unfold mem. rewrite existsb_exists. split.
  - intros (x & Hx & E). destruct c, x; cbn in E; try discriminate; exact Hx.
  - intro H. exists c. split; [exact H|destruct c; reflexivity]. Qed.
Lemma incl_b_incl l m : incl_b l m = true <-> incl l m.
Proof. unfold incl_b, incl. rewrite forallb_forall. split; intros H x Hx; [apply mem_In|apply mem_In]; auto. Qed.

Lemma held_true a : held a = true <-> a_depth a <> 0.
Proof. unfold held. destruct (Nat.eqb_spec (a_depth a) 0); cbn; split; intro; try congruence; auto. Qed.

Lemma know_eqb_eq a b : know_eqb a b = true <-> a = b.
Proof. destruct a, b; cbn; split; intro; try reflexivity; discriminate. Qed.

Lemma covers_join_l x y l : covers x l -> covers (join_set x y) l.
Proof. intros (m & -> & H). destruct y as [m'|]; cbn; [|exists m; auto].
  eexists. split; [reflexivity|]. intros z Hz. apply filter_In in Hz. apply H. tauto. Qed.
Lemma covers_join_r x y l : covers y l -> covers (join_set x y) l.
Proof. intros (m & -> & H). destruct x as [m'|]; cbn; [|exists m; auto].
  eexists. split; [reflexivity|]. intros z Hz. apply filter_In in Hz. destruct Hz as (_ & Hm).
  apply mem_In in Hm. apply H. exact Hm. Qed.
Lemma covers_eqb x y l : set_eqb x y = true -> covers x l -> covers y l.
Proof. intros E (m & -> & H). destruct y as [m'|]; cbn in E; [|discriminate].
  apply andb_true_iff in E. destruct E as (_ & E). apply incl_b_incl in E.
  exists m'. split; [reflexivity|]. intros z Hz. apply H. apply E. exact Hz. Qed.

Lemma join_know_open a b : join_know a b = KOpen -> a = KOpen /\ b = KOpen.
Proof. unfold join_know. destruct (know_eqb a b) eqn:E; [|discriminate]. apply know_eqb_eq in E. subst. auto. Qed.
Lemma join_know_shut a b : join_know a b = KShut -> a = KShut /\ b = KShut.
Proof. unfold join_know. destruct (know_eqb a b) eqn:E; [|discriminate]. apply know_eqb_eq in E. subst. auto. Qed.

Lemma gam_join_l a b j c : join a b = Some j -> gam a c -> gam j c.
Proof. unfold join. destruct (Nat.eqb_spec (a_depth a) (a_depth b)); [|discriminate]. intro H; inversion H; subst; clear H.
  intros (D & K & N). unfold gam. cbn. split; [exact D|]. split.
  - intro Hd. destruct (K Hd) as (K1 & K2). split; intro Hk.
    + apply K1. apply join_know_open in Hk. tauto.
    + apply K2. apply join_know_shut in Hk. tauto.
  - destruct (wrote c); apply covers_join_l; exact N. Qed.
Lemma gam_join_r a b j c : join a b = Some j -> gam b c -> gam j c.
Proof. unfold join. destruct (Nat.eqb_spec (a_depth a) (a_depth b)) as [E|]; [|discriminate]. intro H; inversion H; subst; clear H.
  intros (D & K & N). unfold gam. cbn. split; [congruence|]. split.
  - intro Hd. rewrite E in Hd. destruct (K Hd) as (K1 & K2). split; intro Hk.
    + apply K1. apply join_know_open in Hk. tauto.
    + apply K2. apply join_know_shut in Hk. tauto.
  - destruct (wrote c); apply covers_join_r; exact N. Qed.

Lemma gam_join_opt_l x y r c : join_opt x y = Some r -> gam_opt x c -> gam_opt r c.
Proof. intros H (a & -> & G). destruct y as [b|]; cbn in H.
  - destruct (join a b) eqn:E; [|discriminate]. inversion H; subst. exists a0. split; auto. eapply gam_join_l; eauto.
  - inversion H; subst. exists a. auto. Qed.
Lemma gam_join_opt_r x y r c : join_opt x y = Some r -> gam_opt y c -> gam_opt r c.
Proof. intros H (b & -> & G). destruct x as [a|]; cbn in H.
  - destruct (join a b) eqn:E; [|discriminate]. inversion H; subst. exists a0. split; auto. eapply gam_join_r; eauto.
  - inversion H; subst. exists b. auto. Qed.

Lemma gam_eqb a b c : ast_eqb a b = true -> gam a c -> gam b c.
Proof. unfold ast_eqb. intro H.
  apply andb_true_iff in H. destruct H as (H & Hn). apply andb_true_iff in H. destruct H as (H & Hw).
  apply andb_true_iff in H. destruct H as (Hd & Hk). apply Nat.eqb_eq in Hd. apply know_eqb_eq in Hk.
  intros (D & K & N). unfold gam. split; [congruence|]. split.
  - intro X. rewrite <- Hd in X. rewrite <- Hk. apply K. exact X.
  - destruct (wrote c); eapply covers_eqb; eauto. Qed.

Lemma gam_set_know a c k :
  gam a c -> (a_depth a <> 0 -> (k = KOpen -> shut c = false) /\ (k = KShut -> shut c = true)) -> gam (set_know a k) c.
Proof. intros (D & K & N) H. unfold gam. cbn. auto. Qed.

(* soundness of assume *)
Lemma assume_sound g : forall v a c r, geval c g v -> gam a c -> assume g v a = Some r -> gam_opt r c.
Proof.
  induction g as [| | |x IH|x IHx y IHy|x IHx y IHy]; intros v a c r Hg G Ha; cbn in *.
  - (* GShut *)
    destruct (held a) eqn:Eh; [|destruct v; inversion Ha; subst; exists a; auto].
    apply held_true in Eh. pose proof G as (D & K & N). destruct (K Eh) as (K1 & K2).
    destruct Hg as [Hg|Hg]; [congruence|]. destruct v.
    + destruct (know_eqb (a_know a) KOpen) eqn:E.
      * apply know_eqb_eq in E. rewrite (K1 E) in Hg. discriminate.
      * inversion Ha; subst. eexists. split; [reflexivity|]. apply gam_set_know; auto.
        intros _. split; intro X; [discriminate|auto].
    + destruct (know_eqb (a_know a) KShut) eqn:E.
      * apply know_eqb_eq in E. rewrite (K2 E) in Hg. discriminate.
      * inversion Ha; subst. eexists. split; [reflexivity|]. apply gam_set_know; auto.
        intros _. split; intro X; [auto|discriminate].
  - (* GOpen *)
    destruct v; [|inversion Ha; subst; exists a; auto].
    destruct (held a) eqn:Eh; [|inversion Ha; subst; exists a; auto].
    apply held_true in Eh. pose proof G as (D & K & N). destruct (K Eh) as (K1 & K2).
    destruct Hg as [Hg|[Hg|Hg]]; [congruence| |discriminate].
    destruct (know_eqb (a_know a) KShut) eqn:E.
    + apply know_eqb_eq in E. rewrite (K2 E) in Hg. discriminate.
    + inversion Ha; subst. eexists. split; [reflexivity|]. apply gam_set_know; auto.
      intros _. split; intro X; [auto|discriminate].
  - inversion Ha; subst. exists a; auto.
  - eapply IH; eauto.
  - destruct Hg as (va & vb & Ga & Gb & ->). destruct va, vb; cbn in Ha.
    + destruct (assume x true a) as [[a1|]|] eqn:E1; try discriminate.
      * destruct (IHx _ _ _ _ Ga G E1) as (a1' & X & G1). inversion X; subst. eapply IHy; eauto.
      * destruct (IHx _ _ _ _ Ga G E1) as (a1' & X & _). discriminate.
    + destruct (assume x false a) as [r1|] eqn:E1; [|discriminate]. destruct (assume y false a) as [r2|] eqn:E2; [|discriminate].
      eapply gam_join_opt_r; eauto.
    + destruct (assume x false a) as [r1|] eqn:E1; [|discriminate]. destruct (assume y false a) as [r2|] eqn:E2; [|discriminate].
      eapply gam_join_opt_l; eauto.
    + destruct (assume x false a) as [r1|] eqn:E1; [|discriminate]. destruct (assume y false a) as [r2|] eqn:E2; [|discriminate].
      eapply gam_join_opt_l; eauto.
  - destruct Hg as (va & vb & Ga & Gb & ->). destruct va, vb; cbn in Ha.
    + destruct (assume x true a) as [r1|] eqn:E1; [|discriminate]. destruct (assume y true a) as [r2|] eqn:E2; [|discriminate].
      eapply gam_join_opt_l; eauto.
    + destruct (assume x true a) as [r1|] eqn:E1; [|discriminate]. destruct (assume y true a) as [r2|] eqn:E2; [|discriminate].
      eapply gam_join_opt_l; eauto.
    + destruct (assume x true a) as [r1|] eqn:E1; [|discriminate]. destruct (assume y true a) as [r2|] eqn:E2; [|discriminate].
      eapply gam_join_opt_r; eauto.
    + destruct (assume x false a) as [[a1|]|] eqn:E1; try discriminate.
      * destruct (IHx _ _ _ _ Ga G E1) as (a1' & X & G1). inversion X; subst. eapply IHy; eauto.
      * destruct (IHx _ _ _ _ Ga G E1) as (a1' & X & _). discriminate.
Qed.

(* ---- soundness of chk ------------------------------------------------------------------------------ *)
Definition post (r : option ast * option ast) (o : out) (c : cst) : Prop :=
  match o with Norm => gam_opt (fst r) c | Abr => gam_opt (snd r) c | Blk => True end.

Lemma hold_check_ok all a c e :
  hold_check all a = true -> gam a c ->
  (forall cd, e = Some cd -> shut c = false /\ In cd all) -> hold_ok all (cur_hold c e).
Proof. intros H (D & K & N) He. unfold hold_ok, cur_hold. cbn. split; [exact He|].
  intro Hw. rewrite Hw in N. destruct N as (m & Em & Hm). unfold hold_check in H. rewrite Em in H.
  apply incl_b_incl in H. intros x Hx. apply Hm. apply H. exact Hx. Qed.

Lemma gam_fresh d b : gam (fresh_hold d) (mkC d b b false []).
Proof. unfold gam, fresh_hold. cbn. split; [reflexivity|]. split.
  - intros _. split; discriminate.
  - exists []. split; [reflexivity|]. intros z Hz. destruct Hz. Qed.

Lemma exec_depth s c hs o c' : exec s c hs o c' -> o <> Blk -> depth c' = depth c.
Proof. induction 1; intro Hb; cbn; auto; try congruence.
  - rewrite IHexec2 by assumption. apply IHexec1. discriminate.
  - rewrite IHexec2 by assumption. apply IHexec1. discriminate.
  - rewrite IHexec2 by assumption. apply IHexec1. discriminate.
Qed.

Section sound.
  Variable all : list cond.

  Definition sound_at (s : stmt) : Prop :=
    forall c hs o c', exec s c hs o c' -> forall a r, chk all s a = Some r -> gam a c ->
      Forall (hold_ok all) hs /\ post r o c'.

  (* the loop, given that the body is sound *)
  Lemma while_sound g x : sound_at x ->
    forall c hs o c', exec (While g x) c hs o c' ->
    forall inv b, (forall bi, assume g true inv = Some (Some bi) ->
                     exists n, chk all x bi = Some (n, b) /\ (forall c1, gam_opt n c1 -> gam inv c1)) ->
                  (assume g true inv <> None) ->
    gam inv c ->
    Forall (hold_ok all) hs /\
    match o with
    | Norm => gam inv c' /\ geval c' g false
    | Abr => gam_opt b c'
    | Blk => True
    end.
  Proof.
    intros Hx c hs o c' He. remember (While g x) as w eqn:Ew. revert Ew.
    induction He; intro Ew; inversion Ew; subst; intros inv b0 Hbody Hne G.
    - split; [constructor|]. auto.
    - destruct (assume g true inv) as [[bi|]|] eqn:Ea; [| |congruence].
      + destruct (assume_sound _ _ _ _ _ H G Ea) as (bi' & X & Gb). inversion X; subst.
        destruct (Hbody _ eq_refl) as (n & Hc & Hinv).
        destruct (Hx _ _ _ _ He1 _ _ Hc Gb) as (F1 & P1). cbn in P1.
        assert (Gi1 : gam inv c1) by (apply Hinv; exact P1).
        assert (Hbody' : forall bi, assume g true inv = Some (Some bi) ->
                  exists n, chk all x bi = Some (n, b0) /\ (forall c1, gam_opt n c1 -> gam inv c1))
          by (intros bi2 E2; apply Hbody; congruence).
        assert (Hne' : assume g true inv <> None) by congruence.
        destruct (IHHe2 eq_refl inv b0 Hbody' Hne' Gi1) as (F2 & P2).
        split; [apply Forall_app; auto|exact P2].
      + destruct (assume_sound _ _ _ _ _ H G Ea) as (bi' & X & _). discriminate.
    - destruct (assume g true inv) as [[bi|]|] eqn:Ea; [| |congruence].
      + destruct (assume_sound _ _ _ _ _ H G Ea) as (bi' & X & Gb). inversion X; subst.
        destruct (Hbody _ eq_refl) as (n & Hc & Hinv).
        destruct (Hx _ _ _ _ He _ _ Hc Gb) as (F1 & P1).
        split; [exact F1|]. destruct o; try contradiction; auto; try exact I; try (exfalso; apply H0; reflexivity).
      + destruct (assume_sound _ _ _ _ _ H G Ea) as (bi' & X & _). discriminate.
  Qed.

  Lemma iter_spec k body g : forall a inv b, iter k body g a = Some (inv, b) ->
    (forall c, gam a c -> gam inv c) /\
    (assume g true inv <> None) /\
    (forall bi, assume g true inv = Some (Some bi) ->
       exists n, body bi = Some (n, b) /\ (forall c1, gam_opt n c1 -> gam inv c1)).
  Proof.
    induction k as [|k IH]; intros a inv b H; cbn in H; [discriminate|].
    destruct (assume g true a) as [[bi|]|] eqn:Ea; [| |discriminate].
    - destruct (body bi) as [[[an|] bb]|] eqn:Eb; [| |discriminate].
      + destruct (join a an) as [inv'|] eqn:Ej; [|discriminate].
        destruct (ast_eqb inv' a) eqn:Ee.
        * inversion H; subst. split; [auto|]. split; [congruence|].
          intros bi2 E2. rewrite Ea in E2. inversion E2; subst. exists (Some an). split; [auto|].
          intros c1 (an' & X & G1). inversion X; subst. eapply gam_eqb; eauto. eapply gam_join_r; eauto.
        * destruct (IH _ _ _ H) as (A & B & C). split; [|split; auto].
          intros c G. apply A. eapply gam_join_l; eauto.
      + inversion H; subst. split; [auto|]. split; [congruence|].
        intros bi2 E2. rewrite Ea in E2. inversion E2; subst. exists None. split; [auto|].
        intros c1 (an' & X & _). discriminate.
    - inversion H; subst. split; [auto|]. split; [congruence|]. intros bi2 E2. congruence.
  Qed.

  Ltac ex_of z := match goal with H : exec z _ _ _ _ |- _ => H end.

  Theorem chk_sound_all : forall s, sound_at s.
  Proof.
    induction s as [|x IHx y IHy|g x IHx y IHy|g x IHx|x IHx|cd|cd|cd| | | | |x IHx h IHh]; unfold sound_at.
    - (* Skip *) intros c hs o c' He a r Hc G. inversion He; subst. cbn in Hc. inversion Hc; subst.
      split; [constructor|]. exists a. auto.
    - (* Seq *) intros c hs o c' He a r Hc G. cbn in Hc.
      destruct (chk all x a) as [[[a1|] b1]|] eqn:E1; [| |discriminate].
      + destruct (chk all y a1) as [[n2 b2]|] eqn:E2; [|discriminate].
        destruct (join_opt b1 b2) as [b|] eqn:Ej; [|discriminate]. inversion Hc; subst.
        inversion He; subst.
        * let Hx := ex_of x in destruct (IHx _ _ _ _ Hx _ _ E1 G) as (F1 & (a1' & X & G1)). cbn in X. inversion X; subst.
          let Hy := ex_of y in destruct (IHy _ _ _ _ Hy _ _ E2 G1) as (F2 & P2).
          split; [apply Forall_app; auto|]. destruct o; cbn in *; auto. eapply gam_join_opt_r; eauto.
        * let Hx := ex_of x in destruct (IHx _ _ _ _ Hx _ _ E1 G) as (F1 & P1). split; [exact F1|].
          destruct o; try contradiction; cbn in *; auto. eapply gam_join_opt_l; eauto.
      + inversion Hc; subst. inversion He; subst.
        * let Hx := ex_of x in destruct (IHx _ _ _ _ Hx _ _ E1 G) as (_ & (a1' & X & _)). discriminate.
        * let Hx := ex_of x in destruct (IHx _ _ _ _ Hx _ _ E1 G) as (F1 & P1). split; [exact F1|].
          destruct o; try contradiction; cbn in *; auto.
    - (* If *) intros c hs o c' He a r Hc G. cbn in Hc.
      inversion He; subst.
      + match goal with Hg : geval c g true |- _ =>
          destruct (assume g true a) as [[a1|]|] eqn:Ea;
          [destruct (assume_sound _ _ _ _ _ Hg G Ea) as (a1' & X & G1); inversion X; subst
          |destruct (assume_sound _ _ _ _ _ Hg G Ea) as (a1' & X & _); discriminate
          |discriminate] end.
        destruct (chk all x a1') as [[n1 b1]|] eqn:E1; [|discriminate].
        destruct (match assume g false a with None => None | Some None => Some (None, None) | Some (Some a2) => chk all y a2 end)
          as [[n2 b2]|] eqn:E2; [|discriminate].
        destruct (join_opt n1 n2) as [n|] eqn:Ejn; [|discriminate]. destruct (join_opt b1 b2) as [b|] eqn:Ejb; [|discriminate].
        inversion Hc; subst. let Hx := ex_of x in destruct (IHx _ _ _ _ Hx _ _ E1 G1) as (F & P). split; [exact F|].
        destruct o; cbn in *; auto; [eapply gam_join_opt_l; eauto|eapply gam_join_opt_l; eauto].
      + match goal with Hg : geval c g false |- _ =>
          destruct (assume g false a) as [[a2|]|] eqn:Ea;
          [destruct (assume_sound _ _ _ _ _ Hg G Ea) as (a2' & X & G2); inversion X; subst
          |destruct (assume_sound _ _ _ _ _ Hg G Ea) as (a2' & X & _); discriminate
          |] end.
        * destruct (match assume g true a with None => None | Some None => Some (None, None) | Some (Some a1) => chk all x a1 end)
            as [[n1 b1]|] eqn:E1; [|discriminate].
          destruct (chk all y a2') as [[n2 b2]|] eqn:E2; [|discriminate].
          destruct (join_opt n1 n2) as [n|] eqn:Ejn; [|discriminate]. destruct (join_opt b1 b2) as [b|] eqn:Ejb; [|discriminate].
          inversion Hc; subst. let Hy := ex_of y in destruct (IHy _ _ _ _ Hy _ _ E2 G2) as (F & P). split; [exact F|].
          destruct o; cbn in *; auto; [eapply gam_join_opt_r; eauto|eapply gam_join_opt_r; eauto].
        * destruct (match assume g true a with None => None | Some None => Some (None, None) | Some (Some a1) => chk all x a1 end)
            as [[n1 b1]|]; discriminate.
    - (* While *) intros c hs o c' He a r Hc G. cbn [chk] in Hc.
      destruct (iter 12 (chk all x) g a) as [[inv b]|] eqn:Ei; [|discriminate].
      destruct (assume g false inv) as [n|] eqn:Ef; [|discriminate]. inversion Hc; subst.
      destruct (iter_spec _ _ _ _ _ _ Ei) as (A & B & C).
      destruct (while_sound g x IHx _ _ _ _ He inv b C B (A _ G)) as (F & P).
      split; [exact F|]. destruct o; cbn; auto.
      destruct P as (Gi & Gf). eapply assume_sound; eauto.
    - (* With *) intros c hs o c' He a r Hc G. cbn in Hc.
      destruct (a_depth a) as [|d] eqn:Ed.
      + destruct (chk all x (fresh_hold 1)) as [[n b]|] eqn:E1; [|discriminate].
        destruct (hold_check_opt all n && hold_check_opt all b) eqn:Eh; [|discriminate].
        apply andb_true_iff in Eh. destruct Eh as (Hn & Hb). inversion Hc; subst.
        inversion He; subst.
        * let Hx := ex_of x in destruct (IHx _ _ _ _ Hx _ _ E1 (gam_fresh 1 _)) as (F & P).
          assert (Hlast : hold_ok all (cur_hold c1 None)).
          { destruct o; try contradiction; cbn in P; destruct P as (ax & X & Gx); cbn in X; subst.
            - eapply hold_check_ok; eauto. intros; discriminate.
            - eapply hold_check_ok; eauto. intros; discriminate. }
          split; [apply Forall_app; split; [exact F|constructor; [exact Hlast|constructor]]|].
          destruct o; try contradiction; cbn in *; destruct P as (ax & X & Gx); subst;
            eexists; (split; [reflexivity|]); apply (gam_fresh 0).
        * let Hx := ex_of x in destruct (IHx _ _ _ _ Hx _ _ E1 (gam_fresh 1 _)) as (F & P). split; [exact F|exact I].
        * destruct G as (D & _). congruence.
      + destruct (chk all x (mkA (S (S d)) (a_know a) (a_w a) (a_n a))) as [[n b]|] eqn:E1; [|discriminate].
        inversion Hc; subst. destruct G as (D & K & N).
        inversion He; subst; try (rewrite Ed in D; congruence).
        match goal with Hd : depth c = S ?d0 |- _ => assert (d0 = d) by congruence; subst d0 end.
        assert (G1 : gam (mkA (S (S d)) (a_know a) (a_w a) (a_n a)) (set_depth c (S (S d)))).
        { unfold gam. cbn. split; [reflexivity|]. split; [|exact N]. intros _. apply K. rewrite Ed. discriminate. }
        let Hx := ex_of x in destruct (IHx _ _ _ _ Hx _ _ E1 G1) as (F & P). split; [exact F|].
        let Hx := ex_of x in pose proof (exec_depth _ _ _ _ _ Hx) as Hdep. cbn in Hdep.
        destruct o; cbn in *; auto; destruct P as (ax & X & (Dx & Kx & Nx)); subst;
          eexists; (split; [reflexivity|]); unfold gam; cbn; (split; [reflexivity|]); (split; [|exact Nx]);
          intros _; apply Kx; rewrite <- Dx; rewrite Hdep by discriminate; discriminate.
    - (* Wait *) intros c hs o c' He a r Hc G. cbn in Hc.
      destruct (held a && know_eqb (a_know a) KOpen && hold_check all a && mem cd all) eqn:E; [|discriminate].
      apply andb_true_iff in E. destruct E as (E & Hm). apply andb_true_iff in E. destruct E as (E & Hh').
      apply andb_true_iff in E. destruct E as (Hheld & Hkn). inversion Hc; subst.
      apply held_true in Hheld. apply mem_In in Hm. apply know_eqb_eq in Hkn.
      pose proof G as (D & K & N). destruct (K Hheld) as (K1 & _).
      assert (Hh : hold_ok all (cur_hold c (Some cd))).
      { eapply hold_check_ok; eauto. intros cd' X. inversion X; subst. split; auto. }
      inversion He; subst.
      + split; [constructor; [exact Hh|constructor]|]. cbn. eexists. split; [reflexivity|].
        rewrite D. apply gam_fresh.
      + split; [constructor; [exact Hh|constructor]|exact I].
      + congruence.
    - (* NotifyAll *) intros c hs o c' He a r Hc G. cbn in Hc. inversion Hc; subst. inversion He; subst.
      split; [constructor|]. cbn. eexists. split; [reflexivity|]. destruct G as (D & K & N).
      unfold gam. cbn. split; [exact D|]. split; [exact K|].
      destruct (wrote c); destruct N as (m & Em & Hm); rewrite Em; cbn; eexists; (split; [reflexivity|]);
        intros z [->|Hz]; try (left; reflexivity); right; apply Hm; exact Hz.
    - (* Notify *) intros c hs o c' He a r Hc G. cbn in Hc. inversion Hc; subst. inversion He; subst.
      split; [constructor|]. cbn. exists a. auto.
    - (* Shut *) intros c hs o c' He a r Hc G. cbn in Hc. destruct (held a) eqn:E; [|discriminate].
      inversion Hc; subst. inversion He; subst. split; [constructor|]. cbn. eexists. split; [reflexivity|].
      destruct G as (D & K & N). unfold gam. cbn. split; [exact D|]. split.
      * intros _. split; intro X; [discriminate|reflexivity].
      * destruct (wrote c); [apply covers_join_l|apply covers_join_r]; exact N.
    - (* SetOpen *) intros c hs o c' He a r Hc G. cbn in Hc. inversion Hc; subst. inversion He; subst.
      split; [constructor|]. cbn. eexists. split; [reflexivity|]. destruct G as (D & K & N).
      destruct (held a) eqn:E; unfold gam; cbn; (split; [exact D|]); (split; [|exact N]).
      * intros _. split; intro X; [reflexivity|discriminate].
      * intro X. apply held_true in X. congruence.
    - (* Exit *) intros c hs o c' He a r Hc G. cbn in Hc. inversion Hc; subst. inversion He; subst.
      split; [constructor|]. cbn. exists a. auto.
    - (* May *) intros c hs o c' He a r Hc G. cbn in Hc. inversion Hc; subst.
      inversion He; subst; (split; [constructor|]); cbn; exists a; auto.
    - (* Try *) intros c hs o c' He a r Hc G. cbn in Hc.
      destruct (chk all x a) as [[n1 [ab|]]|] eqn:E1; [| |discriminate].
      + destruct (chk all h ab) as [[n2 b2]|] eqn:E2; [|discriminate].
        destruct (join_opt n1 n2) as [n|] eqn:Ej; [|discriminate]. inversion Hc; subst.
        inversion He; subst.
        * let Hx := ex_of x in destruct (IHx _ _ _ _ Hx _ _ E1 G) as (F & P). split; [exact F|].
          destruct o; try contradiction; cbn in *; auto; try (exfalso; auto; fail). eapply gam_join_opt_l; eauto.
        * let Hx := ex_of x in destruct (IHx _ _ _ _ Hx _ _ E1 G) as (F1 & (ab' & X & G1)). cbn in X. inversion X; subst.
          let Hh := ex_of h in destruct (IHh _ _ _ _ Hh _ _ E2 G1) as (F2 & P2). split; [apply Forall_app; auto|].
          destruct o; cbn in *; auto. eapply gam_join_opt_r; eauto.
      + inversion Hc; subst. inversion He; subst.
        * let Hx := ex_of x in destruct (IHx _ _ _ _ Hx _ _ E1 G) as (F & P). split; [exact F|].
          destruct o; try contradiction; cbn in *; auto; try (exfalso; auto; fail).
        * let Hx := ex_of x in destruct (IHx _ _ _ _ Hx _ _ E1 G) as (_ & (ab' & X & _)). cbn in X. discriminate.
  Qed.
End sound.

(* waitcheck_sound: a method that passes the check, started without the lock, only produces holds
   that (i) wait on an open object and on its own conditions, (ii) notify everything when closing *)
Theorem waitcheck_sound all s :
  waitcheck all s = true ->
  forall b hs o c', exec s (mkC 0 b b false []) hs o c' -> Forall (hold_ok all) hs.
Proof.
  unfold waitcheck. intro H. destruct (chk all s (fresh_hold 0)) as [r|] eqn:E; [|discriminate].
  intros b hs o c' He.
  exact (proj1 (chk_sound_all all s _ hs o c' He (fresh_hold 0) r E (gam_fresh 0 b))).
Qed.
