(* Skel/WaitSyntax.v - control skeletons for the wait/notify discipline of the LLCP sockets (C09).

   A skeleton is what is left of a method of nfc.llcp.tco (or of ServiceDiscovery in nfc.llcp.llc)
   after everything that does not touch the object's lock, its condition variables or its
   "closed" state (state.SHUTDOWN / snl is None) has been erased; super() calls and calls of other
   methods of the same object are inlined.  translate/skel_c09.py produces Gen/TcoSkel.v in this
   language from the source on every run (fail closed).

   Semantics: one thread executes one method on one object.  The object's lock is re-entrant; only
   the outermost `with` acquires and releases it.  wait() releases it completely and ends the
   current HOLD; the code after the wake-up is the next hold.  While the thread does not hold the
   lock other threads may change the object arbitrarily: on every outermost acquire and on every
   wake-up the flag `shut` takes an arbitrary value.  An execution yields the list of its holds
   ([hold]: closed on entry, closed on exit, did it write the closed state, which conditions did
   it notify_all, did it end in wait(c) or in a release).  Every statement can exit abruptly where
   Python can raise or return ([Exit], [May]); `with` releases on abrupt exit; [Blk] is a thread that
   is never resumed after a wait (the run may stop there). *)
From Coq Require Import List Bool Arith.
From NV Require Import Model.LlcLife.
Import ListNotations.

Inductive guard :=
| GShut                      (* self.state.SHUTDOWN / self.snl is None: true iff the object is closed *)
| GOpen                      (* a test that is false when the object is closed: state.ESTABLISHED,
                                LISTEN, CLOSED, CONNECT, CLOSE_WAIT, DISCONNECT, snl is not None *)
| GAny                       (* anything else *)
| GNot (g : guard) | GAnd (a b : guard) | GOr (a b : guard).

Inductive stmt :=
| Skip
| Seq (a b : stmt)
| If (g : guard) (a b : stmt)
| While (g : guard) (a : stmt)
| With (a : stmt)            (* with self.lock / with self.<condition>: *)
| Wait (c : cond) | NotifyAll (c : cond) | Notify (c : cond)
| Shut                       (* self.state.SHUTDOWN = True / self.snl = None *)
| SetOpen                    (* self.state.<any other> = True *)
| Exit                       (* return / raise *)
| May                        (* an operation that may raise (popleft -> IndexError, ...) *)
| Try (a h : stmt).          (* try: a  except ...: h *)

Record hold := mkHold { h_in : bool; h_out : bool; h_wrote : bool; h_nall : list cond; h_end : option cond }.
Inductive out := Norm | Abr | Blk.

(* depth: nesting of `with` on the object's lock; shut: the object is closed (meaningful while the
   lock is held); sin / wrote / nall: the current hold so far *)
Record cst := mkC { depth : nat; shut : bool; sin : bool; wrote : bool; nall : list cond }.

Fixpoint geval (c : cst) (g : guard) (v : bool) : Prop :=
  match g with
  | GShut => depth c = 0 \/ v = shut c
  | GOpen => depth c = 0 \/ shut c = false \/ v = false
  | GAny => True
  | GNot a => geval c a (negb v)
  | GAnd a b => exists va vb, geval c a va /\ geval c b vb /\ v = va && vb
  | GOr a b => exists va vb, geval c a va /\ geval c b vb /\ v = va || vb
  end.

Definition cur_hold (c : cst) (e : option cond) : hold := mkHold (sin c) (shut c) (wrote c) (nall c) e.
Definition set_depth (c : cst) (d : nat) : cst := mkC d (shut c) (sin c) (wrote c) (nall c).

Inductive exec : stmt -> cst -> list hold -> out -> cst -> Prop :=
| XSkip c : exec Skip c [] Norm c
| XSeqN a b c h1 c1 h2 o c2 : exec a c h1 Norm c1 -> exec b c1 h2 o c2 -> exec (Seq a b) c (h1 ++ h2) o c2
| XSeqA a b c h1 o c1 : exec a c h1 o c1 -> o <> Norm -> exec (Seq a b) c h1 o c1
| XIfT g a b c h o c1 : geval c g true -> exec a c h o c1 -> exec (If g a b) c h o c1
| XIfF g a b c h o c1 : geval c g false -> exec b c h o c1 -> exec (If g a b) c h o c1
| XWhileF g a c : geval c g false -> exec (While g a) c [] Norm c
| XWhileT g a c h1 c1 h2 o c2 : geval c g true -> exec a c h1 Norm c1 -> exec (While g a) c1 h2 o c2 ->
    exec (While g a) c (h1 ++ h2) o c2
| XWhileA g a c h1 o c1 : geval c g true -> exec a c h1 o c1 -> o <> Norm -> exec (While g a) c h1 o c1
| XWithOuter a c b h o c1 : depth c = 0 -> exec a (mkC 1 b b false []) h o c1 -> o <> Blk ->
    exec (With a) c (h ++ [cur_hold c1 None]) o (mkC 0 (shut c1) (shut c1) false [])
| XWithOuterBlk a c b h c1 : depth c = 0 -> exec a (mkC 1 b b false []) h Blk c1 -> exec (With a) c h Blk c1
| XWithInner a c d h o c1 : depth c = S d -> exec a (set_depth c (S (S d))) h o c1 ->
    exec (With a) c h o (set_depth c1 (S d))
| XWait cd c b : depth c <> 0 -> exec (Wait cd) c [cur_hold c (Some cd)] Norm (mkC (depth c) b b false [])
| XWaitBlk cd c : depth c <> 0 -> exec (Wait cd) c [cur_hold c (Some cd)] Blk c
| XWaitUnlocked cd c : depth c = 0 -> exec (Wait cd) c [] Abr c          (* RuntimeError: un-acquired lock *)
| XNotifyAll cd c : exec (NotifyAll cd) c [] Norm (mkC (depth c) (shut c) (sin c) (wrote c) (cd :: nall c))
| XNotify cd c : exec (Notify cd) c [] Norm c
| XShut c : exec Shut c [] Norm (mkC (depth c) true (sin c) true (nall c))
| XSetOpen c : exec SetOpen c [] Norm (mkC (depth c) false (sin c) (wrote c) (nall c))
| XExit c : exec Exit c [] Abr c
| XMayN c : exec May c [] Norm c
| XMayA c : exec May c [] Abr c
| XTryN a hd c h o c1 : exec a c h o c1 -> o <> Abr -> exec (Try a hd) c h o c1
| XTryA a hd c h1 c1 h2 o c2 : exec a c h1 Abr c1 -> exec hd c1 h2 o c2 -> exec (Try a hd) c (h1 ++ h2) o c2.

(* what WaitCheck guarantees for every hold (all: the condition variables of the object) *)
Definition hold_ok (all : list cond) (h : hold) : Prop :=
  (forall c, h_end h = Some c -> h_out h = false /\ In c all)       (* (i) wait only on an open object *)
  /\ (h_wrote h = true -> incl all (h_nall h)).                      (* (ii) closing notifies everything *)

(* the closed flag only changes by a write (a fact of the semantics, not of the check) *)
Definition hold_coh (h : hold) : Prop := h_in h = false -> h_out h = true -> h_wrote h = true.
Definition coh (c : cst) : Prop := sin c = false -> shut c = true -> wrote c = true.

Lemma exec_coherent s c hs o c' : exec s c hs o c' -> coh c -> Forall hold_coh hs /\ (o <> Blk -> coh c').
Proof.
  induction 1; intro Hc; try solve [split; [constructor|intros _; exact Hc]].
  - destruct (IHexec1 Hc) as (F1 & C1). destruct (IHexec2 (C1 ltac:(discriminate))) as (F2 & C2).
    split; [apply Forall_app; auto|exact C2].
  - apply IHexec; exact Hc.
  - apply IHexec; exact Hc.
  - apply IHexec; exact Hc.
  - destruct (IHexec1 Hc) as (F1 & C1). destruct (IHexec2 (C1 ltac:(discriminate))) as (F2 & C2).
    split; [apply Forall_app; auto|exact C2].
  - apply IHexec; exact Hc.
  - assert (C0 : coh (mkC 1 b b false [])) by (unfold coh; cbn; congruence).
    destruct (IHexec C0) as (F & C1). specialize (C1 H1).
    split; [apply Forall_app; split; [exact F|constructor; [unfold hold_coh, cur_hold; cbn; exact C1|constructor]]|].
    intros _. unfold coh. cbn. congruence.
  - assert (C0 : coh (mkC 1 b b false [])) by (unfold coh; cbn; congruence).
    destruct (IHexec C0) as (F & _). split; [exact F|intro X; contradiction].
  - assert (C0 : coh (set_depth c (S (S d)))) by exact Hc.
    destruct (IHexec C0) as (F & C1). split; [exact F|]. intro Hb. apply (C1 Hb).
  - split; [constructor; [unfold hold_coh, cur_hold; cbn; exact Hc|constructor]|]. intros _. unfold coh. cbn. congruence.
  - split; [constructor; [unfold hold_coh, cur_hold; cbn; exact Hc|constructor]|]. intro X. contradiction.
  - split; [constructor|]. intros _. unfold coh. cbn. reflexivity.
  - split; [constructor|]. intros _. unfold coh. cbn. discriminate.
  - apply IHexec; exact Hc.
  - destruct (IHexec1 Hc) as (F1 & C1). destruct (IHexec2 (C1 ltac:(discriminate))) as (F2 & C2).
    split; [apply Forall_app; auto|exact C2].
Qed.
