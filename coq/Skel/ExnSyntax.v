(* Exception-flow skeletons (C13): a small statement language extracted from the Python
   source of the drivers, and an inductive semantics of which exception can leave a statement.

   Only *explicit* exception flow is represented: `raise`, the raise-sets of primitives
   (transport / socket operations), `try/except/finally`, calls.  Exceptions that Python
   primitives raise implicitly (IndexError of a subscript ...) are outside this language;
   they are the business of the fault-injection runs. *)
From Coq Require Import ZArith List Bool String.
Import ListNotations.
Open Scope Z_scope.

Definition cls := Z.                                  (* exception class identifier *)
Record exn := mkExn { ecls : cls; eno : Z }.          (* class and its errno attribute *)

(* tests on the errno of the exception being handled, as the drivers write them *)
Inductive etest :=
| EIn (ns : list Z)          (* error.errno == n / error.errno in (...) *)
| EMask (m : Z).             (* rcs380: error == "NAME", i.e. errno & mask *)
Definition etest_holds (t : etest) (no : Z) : bool :=
  match t with
  | EIn ns => existsb (Z.eqb no) ns
  | EMask m => negb (Z.land no m =? 0)
  end.

Inductive stmt :=
| Skip | Return | Break                               (* Break: break / continue *)
| Seq (a b : stmt) | Choice (a b : stmt) | Loop (b : stmt)
| Prim (name : string) (raises : list cls)            (* primitive with a raise-set *)
| Raise (c : cls) (no : option Z)                     (* raise C(errno) ; None: errno not a literal *)
| Reraise                                             (* raise / raise error inside a handler *)
| IfErrno (t : etest) (a b : stmt)                    (* errno-dependent branch inside a handler *)
| Try (b : stmt) (hs : handlers)
| Finally (b f : stmt)
| Call (f : string)
with handlers :=
| HNil
| HCons (pat : list cls) (h : stmt) (tl : handlers).  (* except (classes in pat) [as error]: h *)

Definition program := list (string * stmt).

Fixpoint lookup (P : program) (f : string) : option stmt :=
  match P with
  | [] => None
  | (g, b) :: t => if String.eqb g f then Some b else lookup t f
  end.

Definition mem (c : cls) (l : list cls) : bool := existsb (Z.eqb c) l.

Fixpoint find_handler (hs : handlers) (c : cls) : option stmt :=
  match hs with
  | HNil => None
  | HCons pat h tl => if mem c pat then Some h else find_handler tl c
  end.

Inductive outcome := ONormal | OReturn | OBreak | OExc (e : exn).

Definition after_call (o : outcome) : outcome :=
  match o with OReturn | OBreak => ONormal | x => x end.

(* exec P cur s o: statement s, run while `cur` is the exception being handled (if any),
   can end with outcome o.  Derivations are finite, every rule is closed under abrupt exit:
   an exception / return / break raised anywhere cuts the enclosing Seq, Loop, Try body,
   Finally body and Call at that point. *)
Inductive exec (P : program) : option exn -> stmt -> outcome -> Prop :=
| E_Skip cur : exec P cur Skip ONormal
| E_Return cur : exec P cur Return OReturn
| E_Break cur : exec P cur Break OBreak
| E_SeqN cur a b o : exec P cur a ONormal -> exec P cur b o -> exec P cur (Seq a b) o
| E_SeqA cur a b o : exec P cur a o -> o <> ONormal -> exec P cur (Seq a b) o
| E_ChoiceL cur a b o : exec P cur a o -> exec P cur (Choice a b) o
| E_ChoiceR cur a b o : exec P cur b o -> exec P cur (Choice a b) o
| E_LoopEnd cur b : exec P cur (Loop b) ONormal
| E_LoopStep cur b o o' : exec P cur b o -> o = ONormal \/ o = OBreak ->
    exec P cur (Loop b) o' -> exec P cur (Loop b) o'
| E_LoopAbrupt cur b o : exec P cur b o -> o <> ONormal -> o <> OBreak -> exec P cur (Loop b) o
| E_PrimOk cur n r : exec P cur (Prim n r) ONormal
| E_PrimExc cur n r c no : In c r -> exec P cur (Prim n r) (OExc (mkExn c no))
| E_Raise cur c no : exec P cur (Raise c (Some no)) (OExc (mkExn c no))
| E_RaiseAny cur c no : exec P cur (Raise c None) (OExc (mkExn c no))
| E_Reraise e : exec P (Some e) Reraise (OExc e)
| E_IfErrnoT e t a b o : etest_holds t (eno e) = true -> exec P (Some e) a o ->
    exec P (Some e) (IfErrno t a b) o
| E_IfErrnoF e t a b o : etest_holds t (eno e) = false -> exec P (Some e) b o ->
    exec P (Some e) (IfErrno t a b) o
| E_TryPass cur b hs o : exec P cur b o -> (forall e, o <> OExc e) -> exec P cur (Try b hs) o
| E_TryCaught cur b hs e h o : exec P cur b (OExc e) -> find_handler hs (ecls e) = Some h ->
    exec P (Some e) h o -> exec P cur (Try b hs) o
| E_TryUncaught cur b hs e : exec P cur b (OExc e) -> find_handler hs (ecls e) = None ->
    exec P cur (Try b hs) (OExc e)
| E_FinallyN cur b f o : exec P cur b o -> exec P cur f ONormal -> exec P cur (Finally b f) o
| E_FinallyA cur b f o o' : exec P cur b o -> exec P cur f o' -> o' <> ONormal ->
    exec P cur (Finally b f) o'
| E_Call cur f body o : lookup P f = Some body -> exec P None body o ->
    exec P cur (Call f) (after_call o).

(* an exception class can escape from function f of program P *)
Definition can_escape (P : program) (f : string) (c : cls) : Prop :=
  exists body e, lookup P f = Some body /\ exec P None body (OExc e) /\ ecls e = c.
