(* Skel/LockSyntax.v - control skeletons for the lock discipline of ContactlessFrontend (C15).

   A skeleton is what is left of a Python method after everything that does not touch the
   frontend lock, the `device` attribute, the driver, or code outside the frontend has been
   erased.  translate/skel_c15.py produces `Gen/FrontendSkel.v` in this language from
   src/nfc/clf/__init__.py on every run (fail closed).

   Semantics: single-thread executions `exec E entry s t o` (trace t, outcome o), closed under
   abrupt exit: every statement can raise before its next event (XAbr), every execution can be
   observed at any point (outcome Part), `with` releases the lock on normal and on abrupt exit,
   `return` is an abrupt exit caught at the call boundary, `break`/`continue` are abrupt exits
   caught by the loop, `try` handlers catch abrupt exits.  All of these are over-approximations
   (a `return` may also be "caught" by a handler): the trace set of the skeleton is a superset of
   the event traces of the Python code, which is the right direction for a safety theorem. *)
From Coq Require Import List String Bool.
Import ListNotations.

Inductive stmt :=
| Skip
| Ret                              (* return / raise / break / continue: only abrupt exit *)
| Dev (m : string)                 (* self.device.<m>(...) : a call that drives the device *)
| Connect                          (* device.connect(path): driver factory, opens the hardware *)
| DevSet (b : bool)                (* self.device = <non-None> (true) / None (false) *)
| IfDev (a b : stmt)               (* if self.device is not None: a else: b *)
| Ext (x : string)                 (* code outside the frontend: callbacks, terminate(), nfc.tag.*,
                                      tag.*, llc.* ...; may call any public frontend method *)
| Seq (a b : stmt)
| Choice (a b : stmt)
| Loop (a : stmt)
| Try (a h : stmt)
| WithLock (a : stmt)              (* with self.lock: a      (threading.Lock, not re-entrant) *)
| Call (f : string).               (* another frontend method / nested function *)

Inductive ev :=
| Acq | Rel
| DevBegin (m : string) | DevEnd (m : string)
| ConnectCall
| EvSet (b : bool)                 (* self.device written; b = "not None" *)
| EvTest (b : bool)                (* self.device tested; b = "not None" *)
| ExtCall (x : string).

Definition program := list (string * stmt).
Definition env := string -> option stmt.

Fixpoint lookup (p : program) (f : string) : option stmt :=
  match p with
  | [] => None
  | (g, s) :: r => if String.eqb f g then Some s else lookup r f
  end.

(* the statement "some public entry point is called" *)
Fixpoint any_call (pub : list string) : stmt :=
  match pub with
  | [] => Ret
  | f :: r => Choice (Call f) (any_call r)
  end.

Inductive out := Norm | Abr | Part.

Section Sem.
  Variable E : env.
  Variable entry : stmt.   (* what code outside the frontend can do with it: any_call pub *)

  Inductive exec : stmt -> list ev -> out -> Prop :=
  | XPart s : exec s [] Part
  | XAbr s : exec s [] Abr
  | XSkip : exec Skip [] Norm
  | XDev m : exec (Dev m) [DevBegin m; DevEnd m] Norm
  | XDevExn m : exec (Dev m) [DevBegin m; DevEnd m] Abr
  | XDevIn m : exec (Dev m) [DevBegin m] Part
  | XConnect : exec Connect [ConnectCall] Norm
  | XConnectExn : exec Connect [ConnectCall] Abr
  | XSet b : exec (DevSet b) [EvSet b] Norm
  | XIfT a b t o : exec a t o -> exec (IfDev a b) (EvTest true :: t) o
  | XIfF a b t o : exec b t o -> exec (IfDev a b) (EvTest false :: t) o
  | XExt x t o : exec (Loop entry) t o -> exec (Ext x) (ExtCall x :: t) o
  | XSeq a b t1 t2 o : exec a t1 Norm -> exec b t2 o -> exec (Seq a b) (t1 ++ t2) o
  | XSeqStop a b t1 o : exec a t1 o -> o <> Norm -> exec (Seq a b) t1 o
  | XChL a b t o : exec a t o -> exec (Choice a b) t o
  | XChR a b t o : exec b t o -> exec (Choice a b) t o
  | XLoop0 a : exec (Loop a) [] Norm
  | XLoopS a t1 t2 o1 o : exec a t1 o1 -> o1 <> Part -> exec (Loop a) t2 o ->
                          exec (Loop a) (t1 ++ t2) o        (* next iteration / continue / break *)
  | XLoopStop a t1 : exec a t1 Part -> exec (Loop a) t1 Part
  | XTry a hd t o : exec a t o -> exec (Try a hd) t o
  | XTryH a hd t1 t2 o : exec a t1 Abr -> exec hd t2 o -> exec (Try a hd) (t1 ++ t2) o
  | XWith a t o : exec a t o -> o <> Part -> exec (WithLock a) (Acq :: t ++ [Rel]) o
  | XWithIn a t : exec a t Part -> exec (WithLock a) (Acq :: t) Part
  | XCall f s t o : E f = Some s -> exec s t o -> exec (Call f) t o
  | XCallRet f s t : E f = Some s -> exec s t Abr -> exec (Call f) t Norm.

  (* everything one application thread can ever do with the frontend *)
  Definition thread_trace (t : list ev) : Prop := exists o, exec (Loop entry) t o.
End Sem.
