(* Skel/WaitSys.v - any number of threads executing checked methods on any number of objects.

   A step of the system is one HOLD of one thread on one object (the unit that runs atomically
   because all conditions of an object are built on its single lock): the hold starts from the
   object's current closed flag, satisfies hold_ok (what WaitCheck guarantees), notifies the
   conditions in h_nall, leaves the closed flag h_out and ends in wait(c) - the thread is then
   blocked on (o, c) - or in a release.  A blocked thread can only take a step after it has been
   notified (by notify_all of a hold, or by a single notify / time-out: SNotify).

   wait_sys_invariant: "blocked and not notified => the object is not closed" holds in every
   reachable state, for all schedules.  Hence: once an object is closed no thread stays blocked on
   it without a pending notification, and no thread can newly block on it. *)
From Coq Require Import List Bool Arith Lia.
From NV Require Import Model.LlcLife Skel.WaitSyntax.
Import ListNotations.

Record sys := mkSys {
  oshut : nat -> bool;                              (* object -> closed *)
  tblk : nat -> option (nat * cond * bool)          (* thread -> blocked on (object, condition, notified) *)
}.

Section Sys.
  Variable conds : nat -> list cond.                (* the condition variables of each object *)

  Definition wake (f : nat -> option (nat * cond * bool)) (o : nat) (cs : list cond) : nat -> option (nat * cond * bool) :=
    fun t => match f t with
             | Some (o', c, false) => if Nat.eqb o' o && existsb (cond_eqb c) cs then Some (o', c, true) else f t
             | x => x
             end.

  Inductive sstep : sys -> sys -> Prop :=
  | SHold s t o h :
      (tblk s t = None \/ exists c, tblk s t = Some (o, c, true)) ->
      h_in h = oshut s o -> hold_ok (conds o) h -> hold_coh h ->
      sstep s (mkSys (upd (oshut s) o (h_out h))
                     (upd (wake (tblk s) o (h_nall h)) t
                          (match h_end h with Some c => Some (o, c, false) | None => None end)))
  | SNotify s t o c :
      tblk s t = Some (o, c, false) ->
      sstep s (mkSys (oshut s) (upd (tblk s) t (Some (o, c, true)))).

  Definition sinv (s : sys) : Prop :=
    forall t o c b, tblk s t = Some (o, c, b) -> In c (conds o) /\ (b = false -> oshut s o = false).

  Lemma existsb_cond c cs : existsb (cond_eqb c) cs = true <-> In c cs.
  Proof. rewrite existsb_exists. split.
    - intros (x & Hx & E). destruct c, x; cbn in E; try discriminate; exact Hx.
    - intro H. exists c. split; [exact H|destruct c; reflexivity]. Qed.

  Lemma sstep_inv s s' : sinv s -> sstep s s' -> sinv s'.
  Proof.
    intros HI Hs. destruct Hs as [s t o h Hrun Hin (Hw & Hn) Hcoh|s t o c Hb].
    - intros t' o' c' b' E. cbn in E. unfold upd in E. cbn.
      destruct (Nat.eqb_spec t' t) as [->|Nt].
      + (* the thread that ran the hold *)
        destruct (h_end h) as [ce|] eqn:Ee; [|discriminate]. inversion E; subst.
        destruct (Hw _ eq_refl) as (Ho & Hc). split; [exact Hc|]. intros _. unfold upd. rewrite Nat.eqb_refl. exact Ho.
      + (* another thread *)
        unfold wake in E. destruct (tblk s t') as [[[o2 c2] b2]|] eqn:Et; [|discriminate].
        destruct (HI _ _ _ _ Et) as (Hc2 & Hopen).
        destruct b2.
        * inversion E; subst. split; [exact Hc2|discriminate].
        * destruct (Nat.eqb o2 o && existsb (cond_eqb c2) (h_nall h)) eqn:Ew; inversion E; subst; (split; [exact Hc2|]); try discriminate.
          intros _. unfold upd. destruct (Nat.eqb_spec o' o) as [->|No]; [|apply Hopen; reflexivity].
          (* the object of this hold: if the hold closed it, it notified all conditions *)
          destruct (h_out h) eqn:Eo; [|reflexivity]. exfalso.
          try rewrite Nat.eqb_refl in Ew. cbn in Ew.
          assert (Hwr : h_wrote h = true \/ h_in h = true).
          { destruct (h_in h) eqn:Ei; [right; reflexivity|left]. apply Hcoh; auto. }
          destruct Hwr as [Hwr|Hi].
          -- apply Hn in Hwr. assert (In c' (h_nall h)) by (apply Hwr; exact Hc2).
             apply existsb_cond in H. congruence.
          -- rewrite Hin in Hi. rewrite (Hopen eq_refl) in Hi. discriminate.
    - intros t' o' c' b' E. cbn in E. unfold upd in E.
      destruct (Nat.eqb_spec t' t) as [->|Nt].
      + inversion E; subst. destruct (HI _ _ _ _ Hb) as (Hc & _). split; [exact Hc|discriminate].
      + cbn. apply (HI _ _ _ _ E).
  Qed.
End Sys.

(* reachability and the theorem over all schedules *)
Inductive sreach (conds : nat -> list cond) (s0 : sys) : sys -> Prop :=
| SR0 : sreach conds s0 s0
| SRS s s' : sreach conds s0 s -> sstep conds s s' -> sreach conds s0 s'.

Theorem wait_sys_invariant conds s0 s :
  (forall t, tblk s0 t = None) -> sreach conds s0 s ->
  forall t o c, tblk s t = Some (o, c, false) -> oshut s o = false.
Proof.
  intros H0 Hr. assert (HI : sinv conds s).
  { induction Hr; [|eapply sstep_inv; eauto]. intros t o c b E. rewrite H0 in E. discriminate. }
  intros t o c E. destruct (HI _ _ _ _ E) as (_ & X). apply X. reflexivity.
Qed.
