(* Skel/LockCheck.v - the verified lock-discipline analysis for C15.

   chk E n h k s      : checks statement s, entered with the lock held (h) or not and with the
                        knowledge k "this thread has seen self.device to be non-None during the
                        present hold of the lock".  Result None = rejected.  Some (nrm, abr):
                        nrm = knowledge after normal completion (None: never completes normally),
                        abr = knowledge that survives every abrupt exit.
   chk_sound          : every execution (normal, abrupt or partial, hence every prefix of every
                        run, also non-terminating ones) of an accepted statement passes the
                        per-thread monitor `run`: device calls only while holding the lock and
                        after a positive device test in the same hold; device writes and
                        device.connect only while holding the lock; no acquire while holding
                        (the lock is not re-entrant), no outside code while holding.
   threads_safe       : any number of threads, any interleaving that a non-re-entrant mutex and a
                        shared attribute allow (mutex_ok, dev_ok): if every thread's projection
                        passes the monitor, then (excl) every driver call is made by the lock
                        owner on an open device, no driver call / device write / connect happens
                        while another driver call is in progress.
   frontend_safe      : the two combined for threads that use the frontend only through its
                        entry points.  *)
From Coq Require Import List String Bool Arith Lia.
From NV Require Import Skel.LockSyntax.
Import ListNotations.

(* ------------------------------------------------------------------ per-thread monitor *)
Inductive lst := Out | Hold (k : bool) | Busy.

Definition step (s : lst) (e : ev) : option lst :=
  match s with
  | Out => match e with
           | Acq => Some (Hold false)
           | ExtCall _ => Some Out
           | EvTest _ => Some Out
           | _ => None
           end
  | Hold k => match e with
            | Rel => Some Out
            | EvTest b => Some (Hold (b || k))
            | EvSet b => Some (Hold b)
            | ConnectCall => Some (Hold k)
            | DevBegin _ => if k then Some Busy else None
            | _ => None
            end
  | Busy => match e with
            | DevEnd _ => Some (Hold true)
            | _ => None
            end
  end.

Fixpoint run (s : lst) (t : list ev) : option lst :=
  match t with
  | [] => Some s
  | e :: r => match step s e with Some s' => run s' r | None => None end
  end.

Lemma run_app s t1 t2 :
  run s (t1 ++ t2) = match run s t1 with Some s' => run s' t2 | None => None end.
Proof.
  revert s; induction t1 as [|e t1 IH]; intro s; cbn; [reflexivity|].
  destruct (step s e); [apply IH|reflexivity].
Qed.

(* abstract state (h,k) is a lower bound of the concrete monitor state *)
Definition able (h k : bool) (st : lst) : bool :=
  match h, st with
  | false, Out => true
  | true, Hold k' => implb k k'
  | _, _ => false
  end.

Lemma able_mono h k k' st : able h k st = true -> implb k' k = true -> able h k' st = true.
Proof. destruct h, st as [|x|], k, k'; try destruct x; cbn; congruence. Qed.

(* ------------------------------------------------------------------ the checker *)
Definition res := (option bool * bool)%type.
Definition joinn (a b : option bool) : option bool :=
  match a, b with
  | None, x => x
  | x, None => x
  | Some x, Some y => Some (x && y)
  end.
Definition nle (k : bool) (n : option bool) : bool :=
  match n with Some x => implb k x | None => true end.

Fixpoint chk (E : env) (n : nat) (h k : bool) (s : stmt) : option res :=
  match n with
  | O => None
  | S n' =>
    match s with
    | Skip => Some (Some k, k)
    | Ret => Some (None, k)
    | Dev _ => if h && k then Some (Some true, true) else None
    | Connect => if h then Some (Some k, k) else None
    | DevSet b => if h then Some (Some b, k && b) else None
    | IfDev a b =>
        match chk E n' h h a, chk E n' h k b with
        | Some (na, qa), Some (nb, qb) => Some (joinn na nb, k && qa && qb)
        | _, _ => None
        end
    | Ext _ => if h then None else Some (Some false, false)
    | Seq a b =>
        match chk E n' h k a with
        | Some (Some ka, qa) =>
            match chk E n' h ka b with
            | Some (nb, qb) => Some (nb, qa && qb)
            | None => None
            end
        | Some (None, qa) => Some (None, qa)
        | None => None
        end
    | Choice a b =>
        match chk E n' h k a, chk E n' h k b with
        | Some (na, qa), Some (nb, qb) => Some (joinn na nb, qa && qb)
        | _, _ => None
        end
    | Loop a =>
        match chk E n' h k a with
        | Some (n1, q1) =>
            let k0 := k && q1 && match n1 with Some x => x | None => true end in
            if Bool.eqb k0 k then Some (Some k0, k0)
            else match chk E n' h false a with
                 | Some _ => Some (Some false, false)
                 | None => None
                 end
        | None => None
        end
    | Try a hd =>
        match chk E n' h k a with
        | Some (na, qa) =>
            match chk E n' h qa hd with
            | Some (nh, qh) => Some (joinn na nh, qa && qh)
            | None => None
            end
        | None => None
        end
    | WithLock a =>
        if h then None
        else match chk E n' true false a with
             | Some _ => Some (Some false, false)
             | None => None
             end
    | Call f =>
        match E f with
        | Some s' =>
            match chk E n' h k s' with
            | Some (nb, qb) => Some (joinn nb (Some qb), qb)
            | None => None
            end
        | None => None
        end
    end
  end.

Definition post_ok (h : bool) (r : res) (o : out) (st' : lst) : Prop :=
  match o with
  | Norm => exists kn, fst r = Some kn /\ able h kn st' = true
  | Abr => able h (snd r) st' = true
  | Part => True
  end.

Lemma joinn_l a b x : joinn a b = Some x -> forall y, a = Some y -> implb x y = true.
Proof. intros H y ->. destruct b as [z|]; cbn in H; injection H as <-; [destruct y, z|destruct y]; reflexivity. Qed.
Lemma joinn_r a b x : joinn a b = Some x -> forall y, b = Some y -> implb x y = true.
Proof. intros H y ->. destruct a as [z|]; cbn in H; injection H as <-; [destruct y, z|destruct y]; reflexivity. Qed.
Lemma joinn_some_l a b y : a = Some y -> exists x, joinn a b = Some x.
Proof. intros ->. destruct b; cbn; eauto. Qed.
Lemma joinn_some_r a b y : b = Some y -> exists x, joinn a b = Some x.
Proof. intros ->. destruct a; cbn; eauto. Qed.

Lemma chk_loop_inv E n h k a r :
  chk E (S n) h k (Loop a) = Some r ->
  exists k0 n1 q1, r = (Some k0, k0) /\ implb k0 k = true /\
    chk E n h k0 a = Some (n1, q1) /\ implb k0 q1 = true /\ nle k0 n1 = true /\
    chk E (S n) h k0 (Loop a) = Some (Some k0, k0).
Proof.
  intro H. pose proof H as H'. cbn [chk] in H.
  destruct (chk E n h k a) as [[n1 q1]|] eqn:Ea; [|discriminate].
  remember (k && q1 && match n1 with Some x => x | None => true end) as k0 eqn:Hk0.
  destruct (Bool.eqb k0 k) eqn:Ek.
  - apply Bool.eqb_prop in Ek. inversion H; subst r. rewrite Ek in H'. rewrite Ek.
    exists k, n1, q1.
    split; [reflexivity|]. split; [destruct k; reflexivity|]. split; [exact Ea|].
    split; [destruct k, q1, n1 as [[|]|]; cbn in *; congruence|].
    split; [destruct k, q1, n1 as [[|]|]; cbn in *; congruence|exact H'].
  - destruct (chk E n h false a) as [[n2 q2]|] eqn:Ef; [|discriminate].
    inversion H; subst r. exists false, n2, q2.
    split; [reflexivity|]. split; [reflexivity|]. split; [exact Ef|].
    split; [reflexivity|]. split; [destruct n2; reflexivity|].
    cbn [chk]. rewrite Ef. cbn [andb Bool.eqb]. reflexivity.
Qed.

Ltac inv_some :=
  repeat match goal with
  | H : Some _ = Some _ |- _ => inversion H; clear H; subst
  | H : None = Some _ |- _ => discriminate H
  | H : (if ?b then _ else _) = Some _ |- _ => destruct b eqn:?; [|try discriminate H]; try discriminate H
  end.

(* the knowledge surviving abrupt exits never exceeds the entry knowledge (an exception can
   happen before the first event) *)
Lemma chk_abr_le E n : forall s h k r, chk E n h k s = Some r -> implb (snd r) k = true.
Proof.
  induction n as [|n IHn]; intros s h k r Hc; [discriminate|].
  destruct s; cbn [chk] in Hc.
  - inv_some. cbn. destruct k; reflexivity.
  - inv_some. cbn. destruct k; reflexivity.
  - inv_some. cbn. apply andb_true_iff in Heqb. destruct Heqb; subst. reflexivity.
  - inv_some. cbn. destruct k; reflexivity.
  - inv_some. cbn. destruct k, b; reflexivity.
  - destruct (chk E n h h s1) as [[na qa]|]; [|discriminate].
    destruct (chk E n h k s2) as [[nb qb]|]; [|discriminate]. inv_some. cbn.
    destruct k, qa, qb; reflexivity.
  - inv_some. reflexivity.
  - destruct (chk E n h k s1) as [[[ka|] qa]|] eqn:E1; [| |discriminate].
    + destruct (chk E n h ka s2) as [[nb qb]|] eqn:E2; [|discriminate]. inv_some. cbn.
      apply IHn in E1. cbn in E1. destruct qa, qb, k; cbn in *; congruence.
    + inv_some. apply IHn in E1. exact E1.
  - destruct (chk E n h k s1) as [[na qa]|] eqn:E1; [|discriminate].
    destruct (chk E n h k s2) as [[nb qb]|] eqn:E2; [|discriminate]. inv_some. cbn.
    apply IHn in E1. apply IHn in E2. cbn in *. destruct qa, qb, k; cbn in *; congruence.
  - apply chk_loop_inv in Hc. destruct Hc as (k0 & n1 & q1 & -> & Hk & _). exact Hk.
  - destruct (chk E n h k s1) as [[na qa]|] eqn:E1; [|discriminate].
    destruct (chk E n h qa s2) as [[nh qh]|] eqn:E2; [|discriminate]. inv_some. cbn.
    apply IHn in E1. cbn in E1. destruct qa, qh, k; cbn in *; congruence.
  - destruct h; [discriminate|]. destruct (chk E n true false s); [|discriminate]. inv_some. reflexivity.
  - destruct (E f) as [s'|]; [|discriminate].
    destruct (chk E n h k s') as [[nb qb]|] eqn:E1; [|discriminate]. inv_some. cbn.
    apply IHn in E1. exact E1.
Qed.

Section Sound.
  Variable E : env.
  Variable entry : stmt.
  Variable n0 : nat.
  Variable r0 : res.
  Hypothesis Hentry : chk E n0 false false entry = Some r0.

  Lemma chk_loop_entry : chk E (S n0) false false (Loop entry) = Some (Some false, false).
  Proof. cbn [chk]. rewrite Hentry. destruct r0 as [n1 q1]. reflexivity. Qed.

  Theorem chk_sound s t o : exec E entry s t o ->
    forall n h k r st, chk E n h k s = Some r -> able h k st = true ->
    exists st', run st t = Some st' /\ post_ok h r o st'.
  Proof.
    induction 1; intros n h k r st Hc Ha.
    - (* XPart *) exists st. split; [reflexivity|exact I].
    - (* XAbr: the abrupt knowledge never exceeds the entry knowledge *)
      exists st. split; [reflexivity|]. cbn.
      apply able_mono with (k := k); [exact Ha|]. eapply chk_abr_le; eauto.
    - (* XSkip *) destruct n; [discriminate|]. cbn in Hc. inv_some.
      exists st. split; [reflexivity|]. cbn. eauto.
    - (* XDev *) destruct n; [discriminate|]. cbn in Hc. inv_some.
      apply andb_true_iff in Heqb. destruct Heqb; subst.
      destruct st as [|[|]|]; try discriminate. cbn. exists (Hold true). split; [reflexivity|].
      exists true. split; reflexivity.
    - (* XDevExn *) destruct n; [discriminate|]. cbn in Hc. inv_some.
      apply andb_true_iff in Heqb. destruct Heqb; subst.
      destruct st as [|[|]|]; try discriminate. cbn. exists (Hold true). split; reflexivity.
    - (* XDevIn *) destruct n; [discriminate|]. cbn in Hc. inv_some.
      apply andb_true_iff in Heqb. destruct Heqb; subst.
      destruct st as [|[|]|]; try discriminate. cbn. exists Busy. split; [reflexivity|exact I].
    - (* XConnect *) destruct n; [discriminate|]. cbn in Hc. inv_some.
      destruct st as [|k'|]; try discriminate. exists (Hold k'). split; [destruct k'; reflexivity|].
      exists k. split; [reflexivity|exact Ha].
    - (* XConnectExn *) destruct n; [discriminate|]. cbn in Hc. inv_some.
      destruct st as [|k'|]; try discriminate. exists (Hold k'). split; [destruct k'; reflexivity|exact Ha].
    - (* XSet *) destruct n; [discriminate|]. cbn in Hc. inv_some.
      destruct st as [|k'|]; try discriminate. exists (Hold b). split; [destruct k'; reflexivity|].
      exists b. split; [reflexivity|]. destruct b; reflexivity.
    - (* XIfT *) destruct n; [discriminate|]. cbn [chk] in Hc.
      destruct (chk E n h h a) as [[na qa]|] eqn:E1; [|discriminate].
      destruct (chk E n h k b) as [[nb qb]|] eqn:E2; [|discriminate]. inv_some.
      assert (Hst : exists st1, step st (EvTest true) = Some st1 /\ able h h st1 = true).
      { destruct h, st as [|[|]|]; try discriminate; cbn; eauto. }
      destruct Hst as (st1 & Hs & Ha1). destruct (IHexec _ _ _ _ _ E1 Ha1) as (st' & Hr & Hp).
      exists st'. cbn [run]. rewrite Hs. split; [exact Hr|].
      destruct o; cbn in *; auto.
      + destruct Hp as (kn & Hn & Hk). destruct (joinn_some_l na nb kn Hn) as (x & Hx).
        exists x. split; [exact Hx|]. eapply able_mono; [exact Hk|]. eapply joinn_l; eauto.
      + eapply able_mono; [exact Hp|]. destruct k, qa, qb; reflexivity.
    - (* XIfF *) destruct n; [discriminate|]. cbn [chk] in Hc.
      destruct (chk E n h h a) as [[na qa]|] eqn:E1; [|discriminate].
      destruct (chk E n h k b) as [[nb qb]|] eqn:E2; [|discriminate]. inv_some.
      assert (Hs : step st (EvTest false) = Some st).
      { destruct h, st as [|[|]|]; try discriminate; cbn; eauto. }
      destruct (IHexec _ _ _ _ _ E2 Ha) as (st' & Hr & Hp).
      exists st'. cbn [run]. rewrite Hs. split; [exact Hr|].
      destruct o; cbn in *; auto.
      + destruct Hp as (kn & Hn & Hk). destruct (joinn_some_r na nb kn Hn) as (x & Hx).
        exists x. split; [exact Hx|]. eapply able_mono; [exact Hk|]. eapply joinn_r; eauto.
      + eapply able_mono; [exact Hp|]. destruct k, qa, qb; reflexivity.
    - (* XExt *) destruct n; [discriminate|]. cbn in Hc. inv_some.
      destruct st; try discriminate. cbn [run step].
      destruct (IHexec _ _ _ _ Out chk_loop_entry eq_refl) as (st' & Hr & Hp).
      exists st'. split; [exact Hr|]. destruct o; cbn in *; auto.
    - (* XSeq *) destruct n; [discriminate|]. cbn [chk] in Hc.
      destruct (chk E n h k a) as [[[ka|] qa]|] eqn:E1; [| |discriminate].
      + destruct (chk E n h ka b) as [[nb qb]|] eqn:E2; [|discriminate]. inv_some.
        destruct (IHexec1 _ _ _ _ _ E1 Ha) as (st1 & Hr1 & (kn & Hn & Hk)). cbn in Hn. inv_some.
        destruct (IHexec2 _ _ _ _ _ E2 Hk) as (st' & Hr2 & Hp).
        exists st'. rewrite run_app, Hr1. split; [exact Hr2|].
        destruct o; cbn in *; auto.
        eapply able_mono; [exact Hp|]. destruct qa, qb; reflexivity.
      + inv_some. destruct (IHexec1 _ _ _ _ _ E1 Ha) as (st1 & Hr1 & (kn & Hn & Hk)). discriminate.
    - (* XSeqStop *) destruct n; [discriminate|]. cbn [chk] in Hc.
      destruct (chk E n h k a) as [[[ka|] qa]|] eqn:E1; [| |discriminate].
      + destruct (chk E n h ka b) as [[nb qb]|] eqn:E2; [|discriminate]. inv_some.
        destruct (IHexec _ _ _ _ _ E1 Ha) as (st1 & Hr1 & Hp).
        exists st1. split; [exact Hr1|]. destruct o; cbn in *; auto; [congruence|].
        eapply able_mono; [exact Hp|]. destruct qa, qb; reflexivity.
      + inv_some. destruct (IHexec _ _ _ _ _ E1 Ha) as (st1 & Hr1 & Hp).
        exists st1. split; [exact Hr1|]. destruct o; cbn in *; auto; congruence.
    - (* XChL *) destruct n; [discriminate|]. cbn [chk] in Hc.
      destruct (chk E n h k a) as [[na qa]|] eqn:E1; [|discriminate].
      destruct (chk E n h k b) as [[nb qb]|] eqn:E2; [|discriminate]. inv_some.
      destruct (IHexec _ _ _ _ _ E1 Ha) as (st' & Hr & Hp). exists st'. split; [exact Hr|].
      destruct o; cbn in *; auto.
      + destruct Hp as (kn & Hn & Hk). destruct (joinn_some_l na nb kn Hn) as (x & Hx).
        exists x. split; [exact Hx|]. eapply able_mono; [exact Hk|]. eapply joinn_l; eauto.
      + eapply able_mono; [exact Hp|]. destruct qa, qb; reflexivity.
    - (* XChR *) destruct n; [discriminate|]. cbn [chk] in Hc.
      destruct (chk E n h k a) as [[na qa]|] eqn:E1; [|discriminate].
      destruct (chk E n h k b) as [[nb qb]|] eqn:E2; [|discriminate]. inv_some.
      destruct (IHexec _ _ _ _ _ E2 Ha) as (st' & Hr & Hp). exists st'. split; [exact Hr|].
      destruct o; cbn in *; auto.
      + destruct Hp as (kn & Hn & Hk). destruct (joinn_some_r na nb kn Hn) as (x & Hx).
        exists x. split; [exact Hx|]. eapply able_mono; [exact Hk|]. eapply joinn_r; eauto.
      + eapply able_mono; [exact Hp|]. destruct qa, qb; reflexivity.
    - (* XLoop0 *) destruct n; [discriminate|].
      apply chk_loop_inv in Hc. destruct Hc as (k0 & n1 & q1 & -> & Hk & _).
      exists st. split; [reflexivity|]. exists k0. split; [reflexivity|].
      eapply able_mono; eauto.
    - (* XLoopS *) destruct n; [discriminate|].
      apply chk_loop_inv in Hc. destruct Hc as (k0 & n1 & q1 & -> & Hk & Ea & Hq & Hn & Hl).
      assert (Ha0 : able h k0 st = true) by (eapply able_mono; eauto).
      destruct (IHexec1 _ _ _ _ _ Ea Ha0) as (st1 & Hr1 & Hp1).
      assert (Ha1 : able h k0 st1 = true).
      { destruct o1; cbn in Hp1.
        - destruct Hp1 as (kn & Hkn & Hab). cbn in Hkn. subst n1. eapply able_mono; [exact Hab|exact Hn].
        - eapply able_mono; [exact Hp1|exact Hq].
        - congruence. }
      destruct (IHexec2 _ _ _ _ _ Hl Ha1) as (st' & Hr2 & Hp2).
      exists st'. rewrite run_app, Hr1. split; [exact Hr2|exact Hp2].
    - (* XLoopStop *) destruct n; [discriminate|].
      apply chk_loop_inv in Hc. destruct Hc as (k0 & n1 & q1 & -> & Hk & Ea & Hq & Hn & Hl).
      assert (Ha0 : able h k0 st = true) by (eapply able_mono; eauto).
      destruct (IHexec _ _ _ _ _ Ea Ha0) as (st1 & Hr1 & Hp1).
      exists st1. split; [exact Hr1|exact I].
    - (* XTry *) destruct n; [discriminate|]. cbn [chk] in Hc.
      destruct (chk E n h k a) as [[na qa]|] eqn:E1; [|discriminate].
      destruct (chk E n h qa hd) as [[nh qh]|] eqn:E2; [|discriminate]. inv_some.
      destruct (IHexec _ _ _ _ _ E1 Ha) as (st' & Hr & Hp). exists st'. split; [exact Hr|].
      destruct o; cbn in *; auto.
      + destruct Hp as (kn & Hn & Hk). destruct (joinn_some_l na nh kn Hn) as (x & Hx).
        exists x. split; [exact Hx|]. eapply able_mono; [exact Hk|]. eapply joinn_l; eauto.
      + eapply able_mono; [exact Hp|]. destruct qa, qh; reflexivity.
    - (* XTryH *) destruct n; [discriminate|]. cbn [chk] in Hc.
      destruct (chk E n h k a) as [[na qa]|] eqn:E1; [|discriminate].
      destruct (chk E n h qa hd) as [[nh qh]|] eqn:E2; [|discriminate]. inv_some.
      destruct (IHexec1 _ _ _ _ _ E1 Ha) as (st1 & Hr1 & Hp1). cbn in Hp1.
      destruct (IHexec2 _ _ _ _ _ E2 Hp1) as (st' & Hr2 & Hp).
      exists st'. rewrite run_app, Hr1. split; [exact Hr2|].
      destruct o; cbn in *; auto.
      + destruct Hp as (kn & Hn & Hk). destruct (joinn_some_r na nh kn Hn) as (x & Hx).
        exists x. split; [exact Hx|]. eapply able_mono; [exact Hk|]. eapply joinn_r; eauto.
      + eapply able_mono; [exact Hp|]. destruct qa, qh; reflexivity.
    - (* XWith *) destruct n; [discriminate|]. cbn [chk] in Hc.
      destruct h; [discriminate|]. destruct (chk E n true false a) as [ra|] eqn:E1; [|discriminate]. inv_some.
      destruct st; try discriminate.
      destruct (IHexec _ _ _ _ (Hold false) E1 eq_refl) as (st1 & Hr1 & Hp1).
      assert (Hin : exists k1, st1 = Hold k1).
      { destruct o; cbn in Hp1.
        - destruct Hp1 as (kn & _ & Hab). destruct st1; try discriminate. eauto.
        - destruct st1; try discriminate. eauto.
        - congruence. }
      destruct Hin as (k1 & ->).
      exists Out. cbn [run step]. rewrite run_app, Hr1. split; [destruct k1; reflexivity|].
      destruct o; cbn; auto. exists false. split; reflexivity.
    - (* XWithIn *) destruct n; [discriminate|]. cbn [chk] in Hc.
      destruct h; [discriminate|]. destruct (chk E n true false a) as [ra|] eqn:E1; [|discriminate]. inv_some.
      destruct st; try discriminate.
      destruct (IHexec _ _ _ _ (Hold false) E1 eq_refl) as (st1 & Hr1 & Hp1).
      exists st1. cbn [run step]. split; [exact Hr1|exact I].
    - (* XCall *) destruct n; [discriminate|]. cbn [chk] in Hc. rewrite H in Hc.
      destruct (chk E n h k s) as [[nb qb]|] eqn:E1; [|discriminate]. inv_some.
      destruct (IHexec _ _ _ _ _ E1 Ha) as (st' & Hr & Hp). exists st'. split; [exact Hr|].
      destruct o; cbn in *; auto.
      destruct Hp as (kn & Hn & Hk). subst nb. exists (kn && qb). split; [reflexivity|].
      eapply able_mono; [exact Hk|]. destruct kn, qb; reflexivity.
    - (* XCallRet *) destruct n; [discriminate|]. cbn [chk] in Hc. rewrite H in Hc.
      destruct (chk E n h k s) as [[nb qb]|] eqn:E1; [|discriminate]. inv_some.
      destruct (IHexec _ _ _ _ _ E1 Ha) as (st' & Hr & Hp). exists st'. split; [exact Hr|].
      cbn in *. destruct nb as [x|]; cbn.
      + exists (x && qb). split; [reflexivity|]. eapply able_mono; [exact Hp|]. destruct x, qb; reflexivity.
      + exists qb. split; [reflexivity|exact Hp].
  Qed.

  (* a thread that uses the frontend only through its entry points passes the monitor *)
  Corollary thread_monitored t : thread_trace E entry t -> run Out t <> None.
  Proof.
    intros (o & Hx). destruct (chk_sound _ _ _ Hx _ _ _ _ Out chk_loop_entry eq_refl) as (st' & Hr & _).
    congruence.
  Qed.
End Sound.

(* ------------------------------------------------------------------ any number of threads *)
Definition tid := nat.
Definition owner := option tid.
Definition held_by (o : owner) (t : tid) : bool :=
  match o with Some t' => Nat.eqb t t' | None => false end.

(* what a non-re-entrant mutex allows *)
Fixpoint mutex_ok (o : owner) (g : list (tid * ev)) : bool :=
  match g with
  | [] => true
  | (t, Acq) :: r => match o with None => mutex_ok (Some t) r | Some _ => false end
  | (t, Rel) :: r => held_by o t && mutex_ok None r
  | _ :: r => mutex_ok o r
  end.

(* what a shared attribute allows: a test sees the last value written *)
Fixpoint dev_ok (d : bool) (g : list (tid * ev)) : bool :=
  match g with
  | [] => true
  | (_, EvTest b) :: r => Bool.eqb b d && dev_ok d r
  | (_, EvSet b) :: r => dev_ok b r
  | _ :: r => dev_ok d r
  end.

Definition proj (t : tid) (g : list (tid * ev)) : list ev :=
  map snd (filter (fun p => Nat.eqb (fst p) t) g).

(* the safety property: o = lock owner, bz = a driver call is in progress, d = device open *)
Fixpoint excl (o : owner) (bz d : bool) (g : list (tid * ev)) : bool :=
  match g with
  | [] => true
  | (t, e) :: r =>
    match e with
    | Acq => negb bz && excl (Some t) bz d r
    | Rel => negb bz && excl None bz d r
    | DevBegin _ => held_by o t && negb bz && d && excl o true d r
    | DevEnd _ => held_by o t && bz && excl o false d r
    | ConnectCall => held_by o t && negb bz && excl o bz d r
    | EvSet b => held_by o t && negb bz && excl o bz b r
    | EvTest _ | ExtCall _ => excl o bz d r
    end
  end.

Definition lst_of (o : owner) (bz kn : bool) (t : tid) : lst :=
  if held_by o t then (if bz then Busy else Hold kn) else Out.

Lemma proj_self t e r : proj t ((t, e) :: r) = e :: proj t r.
Proof. unfold proj. cbn. rewrite Nat.eqb_refl. reflexivity. Qed.
Lemma proj_other t u e r : Nat.eqb t u = false -> proj u ((t, e) :: r) = proj u r.
Proof. intro H. unfold proj. cbn. rewrite H. reflexivity. Qed.

Lemma lst_of_other o t u bz kn :
  held_by o t = true -> Nat.eqb t u = false -> lst_of o bz kn u = Out.
Proof.
  intros Ho Hu. unfold lst_of. destruct o as [t'|]; [|discriminate]. cbn in *.
  apply Nat.eqb_eq in Ho. subst t'. rewrite Nat.eqb_sym, Hu. reflexivity.
Qed.

Theorem threads_safe g : forall o bz kn d,
  mutex_ok o g = true -> dev_ok d g = true ->
  (kn = true -> d = true) -> (bz = true -> kn = true /\ o <> None) ->
  (forall t, run (lst_of o bz kn t) (proj t g) <> None) ->
  excl o bz d g = true.
Proof.
  induction g as [|[t e] r IH]; intros o bz kn d Hm Hd Hk Hb Hw; [reflexivity|].
  pose proof (Hw t) as Ht. rewrite proj_self in Ht. cbn [run] in Ht.
  destruct (step (lst_of o bz kn t) e) as [s'|] eqn:Hs; [|congruence].
  (* all other threads: projection and local state unchanged when the step keeps (o) or t owns the lock *)
  assert (Hoth : forall u, Nat.eqb t u = false -> run (lst_of o bz kn u) (proj u r) <> None).
  { intros u Hu. specialize (Hw u). rewrite proj_other in Hw by exact Hu. exact Hw. }
  unfold lst_of in Hs.
  destruct e; cbn [mutex_ok dev_ok excl] in *.
  - (* Acq *) destruct o as [t'|]; [discriminate|]. cbn in Hs. inversion Hs; try subst s'.
    assert (bz = false) by (destruct bz; [destruct (Hb eq_refl) as [_ Hn]; congruence|reflexivity]). subst bz.
    cbn. apply (IH (Some t) false false d Hm Hd); [discriminate|discriminate|].
    intro u. unfold lst_of. cbn. destruct (Nat.eqb u t) eqn:Eut.
    + apply Nat.eqb_eq in Eut. subst u. exact Ht.
    + apply (Hoth u). rewrite Nat.eqb_sym. exact Eut.
  - (* Rel *) apply andb_true_iff in Hm. destruct Hm as [Ho Hm]. rewrite Ho in Hs.
    destruct bz; [discriminate|]. inversion Hs; try subst s'. cbn.
    apply (IH None false false d Hm Hd); [discriminate|discriminate|].
    intro u. unfold lst_of. cbn. destruct (Nat.eqb t u) eqn:Etu.
    + apply Nat.eqb_eq in Etu. subst u. exact Ht.
    + pose proof (Hoth u Etu) as Hq. rewrite (lst_of_other o t u _ _ Ho Etu) in Hq. exact Hq.
  - (* DevBegin *) destruct (held_by o t) eqn:Ho; [|discriminate]. destruct bz; [discriminate|].
    destruct kn; [|discriminate]. inversion Hs; try subst s'. assert (Hdt : d = true) by (apply Hk; reflexivity). subst d. cbn.
    apply (IH o true true true Hm Hd); [auto| |].
    + intros _. split; [reflexivity|]. destruct o; [discriminate|discriminate].
    + intro u. destruct (Nat.eqb t u) eqn:Etu.
      * apply Nat.eqb_eq in Etu. subst u. unfold lst_of. rewrite Ho. exact Ht.
      * rewrite (lst_of_other o t u _ _ Ho Etu). pose proof (Hoth u Etu) as Hq. rewrite (lst_of_other o t u _ _ Ho Etu) in Hq. exact Hq.
  - (* DevEnd *) destruct (held_by o t) eqn:Ho; [|discriminate]. destruct bz; [|discriminate].
    inversion Hs; try subst s'. cbn. destruct (Hb eq_refl) as [Hkn _]. subst kn.
    apply (IH o false true d Hm Hd); [auto|discriminate|].
    intro u. destruct (Nat.eqb t u) eqn:Etu.
    + apply Nat.eqb_eq in Etu. subst u. unfold lst_of. rewrite Ho. exact Ht.
    + rewrite (lst_of_other o t u _ _ Ho Etu). pose proof (Hoth u Etu) as Hq. rewrite (lst_of_other o t u _ _ Ho Etu) in Hq. exact Hq.
  - (* ConnectCall *) destruct (held_by o t) eqn:Ho; [|discriminate]. destruct bz; [discriminate|].
    inversion Hs; try subst s'. cbn.
    apply (IH o false kn d Hm Hd Hk Hb).
    intro u. destruct (Nat.eqb t u) eqn:Etu.
    + apply Nat.eqb_eq in Etu. subst u. unfold lst_of. rewrite Ho. exact Ht.
    + apply Hoth. exact Etu.
  - (* EvSet *) destruct (held_by o t) eqn:Ho; [|discriminate]. destruct bz; [discriminate|].
    inversion Hs; try subst s'. cbn.
    apply (IH o false b b Hm Hd); [auto|discriminate|].
    intro u. destruct (Nat.eqb t u) eqn:Etu.
    + apply Nat.eqb_eq in Etu. subst u. unfold lst_of. rewrite Ho. exact Ht.
    + rewrite (lst_of_other o t u _ _ Ho Etu). pose proof (Hoth u Etu) as Hq. rewrite (lst_of_other o t u _ _ Ho Etu) in Hq. exact Hq.
  - (* EvTest *) apply andb_true_iff in Hd. destruct Hd as [Eb Hd]. apply Bool.eqb_prop in Eb. subst b.
    destruct (held_by o t) eqn:Ho.
    + destruct bz; [discriminate|]. destruct d.
      * inversion Hs; try subst s'.
        apply (IH o false true true Hm Hd); [auto|discriminate|].
        intro u. destruct (Nat.eqb t u) eqn:Etu.
        -- apply Nat.eqb_eq in Etu. subst u. unfold lst_of. rewrite Ho. exact Ht.
        -- rewrite (lst_of_other o t u _ _ Ho Etu). pose proof (Hoth u Etu) as Hq. rewrite (lst_of_other o t u _ _ Ho Etu) in Hq. exact Hq.
      * inversion Hs; try subst s'.
        apply (IH o false kn false Hm Hd Hk Hb).
        intro u. destruct (Nat.eqb t u) eqn:Etu.
        -- apply Nat.eqb_eq in Etu. subst u. unfold lst_of. rewrite Ho. exact Ht.
        -- apply Hoth. exact Etu.
    + inversion Hs; try subst s'.
      apply (IH o bz kn d Hm Hd Hk Hb).
      intro u. destruct (Nat.eqb t u) eqn:Etu.
      * apply Nat.eqb_eq in Etu. subst u. unfold lst_of. rewrite Ho. exact Ht.
      * apply Hoth. exact Etu.
  - (* ExtCall *) destruct (held_by o t) eqn:Ho.
    + destruct bz; discriminate.
    + inversion Hs; try subst s'.
      apply (IH o bz kn d Hm Hd Hk Hb).
      intro u. destruct (Nat.eqb t u) eqn:Etu.
      * apply Nat.eqb_eq in Etu. subst u. unfold lst_of. rewrite Ho. exact Ht.
      * apply Hoth. exact Etu.
Qed.

(* ------------------------------------------------------------------ readable consequences of excl *)
(* events that need the device for themselves *)
Definition exclusive_ev (e : ev) : bool :=
  match e with DevBegin _ | EvSet _ | ConnectCall => true | _ => false end.

Lemma excl_busy_until_end g2 : forall o d t' e g3 u,
  excl o true d (g2 ++ (t', e) :: g3) = true -> exclusive_ev e = true -> o = Some u ->
  exists m, In (u, DevEnd m) g2.
Proof.
  induction g2 as [|[v a] g2 IH]; intros o d t' e g3 u Hx He Ho.
  - cbn in Hx. destruct e; try discriminate; cbn in Hx;
      rewrite ?andb_false_r in Hx; cbn in Hx; discriminate.
  - cbn [app excl] in Hx. destruct a; cbn in Hx; try discriminate;
      repeat (rewrite ?andb_false_r in Hx; cbn in Hx); try discriminate.
    + (* DevEnd *) apply andb_true_iff in Hx. destruct Hx as [Hh _]. apply andb_true_iff in Hh. destruct Hh as [Hh _].
      subst o. cbn in Hh. apply Nat.eqb_eq in Hh. subst v. exists m. left. reflexivity.
    + destruct (IH _ _ _ _ _ _ Hx He Ho) as (m & Hin). exists m. right. exact Hin.
    + destruct (IH _ _ _ _ _ _ Hx He Ho) as (m & Hin). exists m. right. exact Hin.
Qed.

Lemma excl_app g1 : forall o bz d g2, excl o bz d (g1 ++ g2) = true ->
  exists o' bz' d', excl o' bz' d' g2 = true.
Proof.
  induction g1 as [|[t e] g1 IH]; intros o bz d g2 H; [eauto|].
  cbn [app excl] in H. destruct e; repeat (apply andb_true_iff in H; destruct H as [? H]); eauto.
Qed.

(* no driver call, device write or device.connect of any thread falls between the begin and the
   end of a driver call *)
Theorem excl_no_overlap g o bz d : excl o bz d g = true ->
  forall g1 t m g2 t' e g3, g = g1 ++ (t, DevBegin m) :: g2 ++ (t', e) :: g3 ->
  exclusive_ev e = true -> exists m', In (t, DevEnd m') g2.
Proof.
  intros H g1 t m g2 t' e g3 -> He.
  destruct (excl_app _ _ _ _ _ H) as (o' & bz' & d' & H'). cbn [excl] in H'.
  apply andb_true_iff in H'. destruct H' as [H1 H2].
  apply andb_true_iff in H1. destruct H1 as [H1 _]. apply andb_true_iff in H1. destruct H1 as [Ho _].
  destruct o' as [u|]; [|discriminate]. cbn in Ho. apply Nat.eqb_eq in Ho. subst u.
  eapply excl_busy_until_end; eauto.
Qed.

(* the value of self.device ("not None") after a schedule prefix *)
Fixpoint dev_after (d : bool) (g : list (tid * ev)) : bool :=
  match g with
  | [] => d
  | (_, EvSet b) :: r => dev_after b r
  | _ :: r => dev_after d r
  end.
Fixpoint owner_after (o : owner) (g : list (tid * ev)) : owner :=
  match g with
  | [] => o
  | (t, Acq) :: r => owner_after (Some t) r
  | (_, Rel) :: r => owner_after None r
  | _ :: r => owner_after o r
  end.

(* every driver call is made by the thread that owns the lock, on an open device *)
Theorem excl_owner_open g1 : forall o bz d t m g3, excl o bz d (g1 ++ (t, DevBegin m) :: g3) = true ->
  owner_after o g1 = Some t /\ dev_after d g1 = true.
Proof.
  induction g1 as [|[u e] g1 IH]; intros o bz d t m g3 H.
  - cbn in H. repeat (apply andb_true_iff in H; destruct H as [H ?]).
    cbn. split; [|assumption]. destruct o as [t'|]; [|discriminate]. cbn in H. apply Nat.eqb_eq in H. congruence.
  - cbn [app excl] in H. destruct e; cbn [owner_after dev_after];
      repeat (apply andb_true_iff in H; destruct H as [? H]); eauto.
Qed.

(* ------------------------------------------------------------------ the end-to-end statement *)
Section Frontend.
  Variable E : env.
  Variable entry : stmt.
  Variable n0 : nat.
  Variable r0 : res.
  Hypothesis Hentry : chk E n0 false false entry = Some r0.

  Theorem frontend_safe g :
    mutex_ok None g = true -> dev_ok false g = true ->
    (forall t, thread_trace E entry (proj t g)) ->
    excl None false false g = true.
  Proof.
    intros Hm Hd Ht. apply (threads_safe g None false false false Hm Hd); [discriminate|discriminate|].
    intro t. unfold lst_of. cbn. eapply thread_monitored; eauto.
  Qed.
End Frontend.
