(* ExnCheck (C13): a finite-set analysis of the exception classes that can leave a statement,
   proved sound once against the semantics of Skel/ExnSyntax.v. *)
From Coq Require Import ZArith List Bool String Lia.
From NV Require Import Skel.ExnSyntax.
Import ListNotations.
Open Scope Z_scope.

Lemma mem_In c l : mem c l = true <-> In c l.
Proof. unfold mem. rewrite existsb_exists. split.
  - intros [x [Hx E]]. apply Z.eqb_eq in E. subst. exact Hx.
  - intro H. exists c. split; [exact H|apply Z.eqb_refl]. Qed.

(* ---------------------------------------------------------------- the analysis *)
Section Esc.
  Variable S : string -> list cls.            (* summary: classes that can escape from each function *)

  Fixpoint esc (cur : list cls) (s : stmt) : list cls :=
    match s with
    | Skip | Return | Break => []
    | Seq a b | Choice a b => esc cur a ++ esc cur b
    | Loop b => esc cur b
    | Prim _ r => r
    | Raise c _ => [c]
    | Reraise => cur
    | IfErrno _ a b => esc cur a ++ esc cur b
    | Try b hs => esc_h (esc cur b) hs
    | Finally b f => esc cur b ++ esc cur f
    | Call f => S f
    end
  with esc_h (pending : list cls) (hs : handlers) : list cls :=
    match hs with
    | HNil => pending
    | HCons pat h tl =>
        let caught := filter (fun c => mem c pat) pending in
        let rest := filter (fun c => negb (mem c pat)) pending in
        (match caught with [] => [] | _ => esc caught h end) ++ esc_h rest tl
    end.

  Lemma esc_h_caught : forall hs pending c h, In c pending -> find_handler hs c = Some h ->
    exists caught, In c caught /\ incl (esc caught h) (esc_h pending hs).
  Proof.
    induction hs as [|pat h0 tl IH]; intros pending c h Hin Hf; cbn in Hf; [discriminate|].
    cbn [esc_h]. destruct (mem c pat) eqn:M.
    - inversion Hf; subst h0. exists (filter (fun c => mem c pat) pending).
      assert (Hc : In c (filter (fun c => mem c pat) pending)) by (apply filter_In; split; assumption).
      split; [exact Hc|].
      destruct (filter (fun c => mem c pat) pending) eqn:F; [destruct Hc|].
      apply incl_appl, incl_refl.
    - assert (Hr : In c (filter (fun c => negb (mem c pat)) pending)).
      { apply filter_In. split; [assumption|]. rewrite M. reflexivity. }
      destruct (IH _ c h Hr Hf) as [caught [H1 H2]]. exists caught. split; [exact H1|].
      apply incl_appr, H2.
  Qed.

  Lemma esc_h_uncaught : forall hs pending c, In c pending -> find_handler hs c = None ->
    In c (esc_h pending hs).
  Proof.
    induction hs as [|pat h0 tl IH]; intros pending c Hin Hf; cbn in *; [exact Hin|].
    destruct (mem c pat) eqn:M; [discriminate|].
    apply in_or_app. right. apply IH; [|exact Hf].
    apply filter_In. split; [assumption|]. rewrite M. reflexivity.
  Qed.

  Definition ok_summary (P : program) : Prop :=
    forall f body, lookup P f = Some body -> incl (esc [] body) (S f).

  (* soundness: every exception that escapes in the semantics is in the computed set *)
  Theorem esc_sound P (HS : ok_summary P) : forall cur s o, exec P cur s o ->
    forall e, o = OExc e -> forall curset, (forall c, cur = Some c -> In (ecls c) curset) ->
    In (ecls e) (esc curset s).
  Proof.
    induction 1; intros ex Ho curset Hcur; cbn [esc]; try discriminate.
    - (* SeqN *) apply in_or_app. right. eapply IHexec2; eauto.
    - (* SeqA *) apply in_or_app. left. eapply IHexec; eauto.
    - apply in_or_app. left. eapply IHexec; eauto.
    - apply in_or_app. right. eapply IHexec; eauto.
    - (* LoopStep *) eapply IHexec2; eauto.
    - (* LoopAbrupt *) eapply IHexec; eauto.
    - (* PrimExc *) inversion Ho; subst. cbn. assumption.
    - inversion Ho; subst. cbn. left. reflexivity.
    - inversion Ho; subst. cbn. left. reflexivity.
    - (* Reraise *) inversion Ho; subst. apply Hcur. reflexivity.
    - apply in_or_app. left. eapply IHexec; eauto.
    - apply in_or_app. right. eapply IHexec; eauto.
    - (* TryPass *) subst o. exfalso. eapply H0. reflexivity.
    - (* TryCaught *)
      assert (Hb : In (ecls e) (esc curset b)) by (eapply IHexec1; eauto).
      destruct (esc_h_caught hs _ _ _ Hb H0) as [caught [Hc Hincl]].
      apply Hincl. eapply IHexec2; [exact Ho|]. intros c Ec. inversion Ec; subst. exact Hc.
    - (* TryUncaught *) inversion Ho; subst.
      apply esc_h_uncaught; [|assumption]. eapply IHexec; eauto.
    - (* FinallyN *) apply in_or_app. left. eapply IHexec1; eauto.
    - (* FinallyA *) apply in_or_app. right. eapply IHexec2; eauto.
    - (* Call *) destruct o; cbn in Ho; try discriminate. inversion Ho; subst.
      apply (HS _ _ H). eapply IHexec; [reflexivity|]. intros c Ec. discriminate.
  Qed.
End Esc.

(* ---------------------------------------------------------------- computing a summary *)
Definition summary := list (string * list cls).
Definition slookup (S : summary) (f : string) : list cls :=
  match find (fun p => String.eqb (fst p) f) S with Some p => snd p | None => [] end.
Definition subsetb (a b : list cls) : bool := forallb (fun x => mem x b) a.

Lemma subsetb_incl a b : subsetb a b = true -> incl a b.
Proof. unfold subsetb. rewrite forallb_forall. intros H x Hx. apply mem_In, H, Hx. Qed.

Definition summary_okb (P : program) (S : summary) : bool :=
  forallb (fun p => subsetb (esc (slookup S) [] (snd p)) (slookup S (fst p))) P.

Lemma lookup_In P : forall f body, lookup P f = Some body -> exists g, String.eqb g f = true /\ In (g, body) P.
Proof. induction P as [|[g b] t IH]; intros f body H; cbn in H; [discriminate|].
  destruct (String.eqb g f) eqn:E.
  - inversion H; subst. exists g. split; [exact E|left; reflexivity].
  - destruct (IH _ _ H) as [g' [E' I']]. exists g'. split; [exact E'|right; exact I']. Qed.

Lemma summary_okb_sound P S : summary_okb P S = true -> ok_summary (slookup S) P.
Proof. unfold summary_okb, ok_summary. rewrite forallb_forall. intros H f body L.
  destruct (lookup_In _ _ _ L) as [g [E I]]. apply String.eqb_eq in E. subst g.
  apply subsetb_incl. exact (H _ I). Qed.

Fixpoint dedup (l : list cls) : list cls :=
  match l with [] => [] | x :: t => if mem x t then dedup t else x :: dedup t end.

Definition step (P : program) (S : summary) : summary :=
  map (fun p => (fst p, dedup (slookup S (fst p) ++ esc (slookup S) [] (snd p)))) P.
Fixpoint solve (fuel : nat) (P : program) (S : summary) : summary :=
  match fuel with
  | O => S
  | Datatypes.S n => if summary_okb P S then S else solve n P (step P S)
  end.
Definition init (P : program) : summary := map (fun p => (fst p, [])) P.
Definition solution (P : program) : summary := solve 64 P (init P).

(* the set of classes that can escape from function f *)
Definition escapes (P : program) (f : string) : list cls := slookup (solution P) f.
(* ... is a subset of `allowed`, and the summary it comes from is inductive *)
Definition closedb (P : program) (f : string) (allowed : list cls) : bool :=
  summary_okb P (solution P) && subsetb (escapes P f) allowed.

Theorem exncheck_sound : forall P f allowed, closedb P f allowed = true ->
  forall c, can_escape P f c -> In c allowed.
Proof.
  intros P f allowed H c [body [e [L [X E]]]]. unfold closedb in H. apply andb_true_iff in H as [H1 H2].
  apply subsetb_incl in H2. apply H2. unfold escapes.
  pose proof (summary_okb_sound _ _ H1) as OK.
  apply (OK _ _ L). subst c.
  eapply esc_sound; [exact OK|exact X|reflexivity|]. intros c0 Ec. discriminate.
Qed.

(* every escaping exception is in the computed set (no reference to an allowed set) *)
Theorem escapes_sound : forall P f, summary_okb P (solution P) = true ->
  forall c, can_escape P f c -> In c (escapes P f).
Proof.
  intros P f H c Hc. apply (exncheck_sound P f (escapes P f)); [|exact Hc].
  unfold closedb. rewrite H. cbn. unfold subsetb. apply forallb_forall. intros x Hx. apply mem_In, Hx.
Qed.
