(* C18 - interpreter of the control skeleton (Skel/ConnectSyntax.v) over the oracle monad of
   Model/Connect.v.  Every action is given the meaning of the corresponding model primitive; control
   flow (sequencing, if, while with fuel, for, return, break, raise, try/except, with) is generic.
   Definitions only; Bridge/Connect.v proves the model functions equal to this interpreter applied
   to the skeleton regenerated from the source. *)
From Coq Require Import ZArith List Bool.
From NV Require Import Model.Connect Skel.ConnectSyntax.
Import ListNotations.

Inductive value :=
| UNone | UBool (b : bool) | UCb (v : cbval) | UTgt (t : tid) | UObj (b : blk) | URole (m : depmac).
(* Python truth value *)
Definition vtruth (v : value) : bool :=
  match v with UNone => false | UBool b => b | UCb c => truthy c | UTgt _ | UObj _ | URole _ => true end.

(* exceptions in flight: the model's, plus the two that never leave _card_connect *)
Inductive sexn := XE (e : pyexn) | XBrokenLink | XCommError.
(* "except C" catches e *)
Definition catches (c : xcls) (e : sexn) : bool :=
  match c, e with
  | EcIOError, XE XIOError => true
  | EcUnsupported, XE XUnsupported => true
  | EcKbd, XE XKbd => true
  | EcBrokenLink, XBrokenLink => true
  | EcCommError, XBrokenLink => true        (* BrokenLinkError is a CommunicationError *)
  | EcCommError, XCommError => true
  | _, _ => false
  end.
Definition raise_of (c : xcls) : sexn :=
  match c with
  | EcIOError => XE XIOError | EcUnsupported => XE XUnsupported | EcKbd => XE XKbd
  | EcSystemExit => XE XAssertion        (* never raised by a skeleton *)
  | EcBrokenLink => XBrokenLink | EcCommError => XCommError
  end.

Definition env := var -> value.
Definition var_eqb (a b : var) : bool :=
  match a, b with
  | XTarget, XTarget | XTag, XTag | XLlc, XLlc | XResult, XResult | XRsp, XRsp | XCmd, XCmd | XRole, XRole => true
  | _, _ => false
  end.
Definition upd (r : env) (x : var) (v : value) : env := fun y => if var_eqb x y then v else r y.
Definition env0 : env := fun _ => UNone.

Inductive eres := EVal (v : value) | EExn (e : sexn) | EHang.
Inductive outcome := ONormal (r : env) | OBreak (r : env) | OReturn (v : value) | ORaise (e : sexn) | OHang.

(* what the skeleton is run against *)
Record ctx := {
  cx_blk : blk;                   (* block whose callbacks are meant *)
  cx_has_term : bool;
  cx_inner : nat;                 (* fuel of the inner loops of the blocks called by the main loop *)
  cx_user : cbk -> bool;          (* callback supplied by the caller of connect()? *)
  cx_targets : list tspec; cx_iters : Z; cx_beep : bool;
  cx_role : roleopt;
  cx_ltarget : lspec;
  cx_active : active }.

Definition eres_of_out (r : out (option tid)) : eres :=
  match r with Ret None => EVal UNone | Ret (Some t) => EVal (UTgt t) | Raise e => EExn (XE e) | Hang => EHang end.
Definition eres_of_bres (r : bres) : eres :=
  match r with
  | BNone => EVal UNone
  | BRet RNone => EVal UNone | BRet RFalse => EVal (UBool false) | BRet RTrue => EVal (UBool true)
  | BRet (RObj b) => EVal (UObj b)
  | BRaise e => EExn (XE e)
  | BHang => EHang
  end.

Definition raising (e : pyexn) : M eres := emit (EvRaise e) ;;; ret (EExn (XE e)).

Definition do_action (cx : ctx) (a : act) (r : env) : M eres :=
  match a with
  | ASense => let* x := do_sense (cx_targets cx) (cx_iters cx) in ret (eres_of_out x)
  | AListen => let* x := do_listen (cx_ltarget cx) in ret (eres_of_out x)
  | ACallback KDiscover =>
    let p2p := match cx_blk cx, r XTarget with Rdwr, UTgt (RemoteT _ _ _ p) => p | _, _ => false end in
    let* v := cb_value (cx_user cx KDiscover) (if p2p then VFalse else VTrue) in
    emit (EvDiscover (cx_blk cx) (cx_user cx KDiscover) v) ;;; ret (EVal (UCb v))
  | ACallback KConnect =>
    let* v := cb_value (cx_user cx KConnect) VTrue in
    emit (EvConnect (cx_blk cx) (cx_user cx KConnect) v) ;;; ret (EVal (UCb v))
  | ACallback KRelease =>
    let* v := cb_value (cx_user cx KRelease) VTrue in
    emit (EvRelease (cx_blk cx) (cx_user cx KRelease) v) ;;; ret (EVal (UCb v))
  | ATagActivate =>
    match r XTarget with
    | UTgt t =>
      emit (EvTagActivate t) ;;;
      let* x := pop_tagact in
      match x with
      | AIOErr => raising XIOError | AKbd => raising XKbd
      | ANone => ret (EVal UNone) | ATag => ret (EVal (UObj Rdwr))
      end
    | _ => ret EHang
    end
  | AEmulate =>
    match r XTarget with
    | UTgt t =>
      emit (EvEmulate t) ;;;
      let* x := pop_emulate in
      ret (EVal (if x then UObj Card else UNone))
    | _ => ret EHang
    end
  | ALlcActivate =>
    match r XRole with
    | URole m =>
      emit (EvLlcActivate m) ;;;
      let* x := pop_llcact in
      match x with
      | LAIOErr => raising XIOError | LAKbd => raising XKbd
      | LAFalse => ret (EVal (UBool false)) | LATrue => ret (EVal (UBool true))
      end
    | _ => ret EHang
    end
  | ALlcRun =>
    emit EvLlcRun ;;;
    let* pr := pop_llcrun in
    let* stopped := run_polls (fst pr) (cx_has_term cx) in
    match (if stopped then RReturn else snd pr) with
    | RReturn => ret (EVal UNone) | RIOErr => raising XIOError | RKbd => raising XKbd
    end
  | ATerminate => let* t := poll_term (cx_has_term cx) in ret (EVal (UBool t))
  | AIsPresent =>
    emit EvPresent ;;;
    let* p := pop_present in
    match p with
    | PYes => ret (EVal (UBool true)) | PNo => ret (EVal (UBool false))
    | PIOErr => raising XIOError | PKbd => raising XKbd
    end
  | ASleep => ret (EVal UNone)
  | ABeepOn => emit EvBeepOn ;;; ret (EVal UNone)
  | ABeepOff => emit EvBeepOff ;;; ret (EVal UNone)
  | AProcess => emit EvProcess ;;; ret (EVal UNone)
  | ASendResponse =>
    emit EvSendRsp ;;;
    let* c := pop_card in
    match c with
    | CNext => ret (EVal UNone)
    | CBroken => ret (EExn XBrokenLink)
    | CCommErr => ret (EExn XCommError)
    | CIOErr => raising XIOError | CKbd => raising XKbd
    end
  | ASub Rdwr =>
    let* x := run_block (option_map (rdwr_connect (cx_inner cx) (cx_has_term cx)) (a_rdwr (cx_active cx))) in ret (eres_of_bres x)
  | ASub Llcp =>
    let* x := run_block (option_map (llcp_connect (cx_has_term cx)) (a_llcp (cx_active cx))) in ret (eres_of_bres x)
  | ASub Card =>
    let* x := run_block (option_map (card_connect (cx_inner cx) (cx_has_term cx)) (a_card (cx_active cx))) in ret (eres_of_bres x)
  end.

Definition block_on (a : active) (b : blk) : bool :=
  match b with
  | Rdwr => match a_rdwr a with Some _ => true | None => false end
  | Llcp => match a_llcp a with Some _ => true | None => false end
  | Card => match a_card a with Some _ => true | None => false end
  end.

Fixpoint eval (cx : ctx) (e : exp) (r : env) : M eres :=
  match e with
  | EAct a => do_action cx a r
  | EVar x => ret (EVal (r x))
  | ENone => ret (EVal UNone)
  | EBool b => ret (EVal (UBool b))
  | EIsNone e1 =>
    let* v := eval cx e1 r in
    ret (match v with EVal UNone => EVal (UBool true) | EVal _ => EVal (UBool false) | x => x end)
  | EIsNotNone e1 =>
    let* v := eval cx e1 r in
    ret (match v with EVal UNone => EVal (UBool false) | EVal _ => EVal (UBool true) | x => x end)
  | ENot e1 =>
    let* v := eval cx e1 r in
    ret (match v with EVal u => EVal (UBool (negb (vtruth u))) | x => x end)
  | EAnd a b =>
    let* v := eval cx a r in
    match v with EVal u => if vtruth u then eval cx b r else ret (EVal u) | x => ret x end
  | EOr a b =>
    let* v := eval cx a r in
    match v with EVal u => if vtruth u then ret (EVal u) else eval cx b r | x => ret x end
  | EBoolIsTrue e1 =>
    let* v := eval cx e1 r in
    ret (match v with EVal u => EVal (UBool (vtruth u)) | x => x end)
  | EBeepOpt => ret (EVal (UBool (cx_beep cx)))
  | ELlcOpt => ret (EVal (UObj Llcp))
  | EBlockOn b => ret (EVal (UBool (block_on (cx_active cx) b)))
  | EDevNone => ret (EVal (UBool false))        (* connect() has checked that a device is open *)
  | ERoleIsNone => ret (EVal (UBool (match cx_role cx with RoleNone => true | _ => false end)))
  | ERoleEq =>
    ret (EVal (UBool (match cx_role cx, r XRole with
                      | RoleTarget, URole MacTarget | RoleInitiator, URole MacInitiator => true
                      | _, _ => false end)))
  | EIsEmulation e1 =>
    let* v := eval cx e1 r in
    ret (match v with EVal (UObj Card) => EVal (UBool true) | EVal _ => EVal (UBool false) | x => x end)
  end.

(* while cond: body  -- one terminate()-style poll per pass, bounded by fuel *)
Fixpoint wloop (cond : env -> M eres) (body : env -> M outcome) (fuel : nat) (r : env) : M outcome :=
  match fuel with
  | O => ret OHang
  | S f =>
    let* c := cond r in
    match c with
    | EHang => ret OHang
    | EExn e => ret (ORaise e)
    | EVal v =>
      if vtruth v then
        let* o := body r in
        match o with
        | ONormal r' => wloop cond body f r'
        | OBreak r' => ret (ONormal r')
        | x => ret x
        end
      else ret (ONormal r)
    end
  end.

Fixpoint floop (x : var) (body : env -> M outcome) (l : list depmac) (r : env) : M outcome :=
  match l with
  | [] => ret (ONormal r)
  | m :: rest =>
    let* o := body (upd r x (URole m)) in
    match o with
    | ONormal r' => floop x body rest r'
    | OBreak r' => ret (ONormal r')
    | y => ret y
    end
  end.

Fixpoint exec (cx : ctx) (fuel : nat) (s : stmt) (r : env) : M outcome :=
  match s with
  | SSkip => ret (ONormal r)
  | SSeq a b =>
    let* o := exec cx fuel a r in
    match o with ONormal r' => exec cx fuel b r' | x => ret x end
  | SAssign x e =>
    let* v := eval cx e r in
    ret (match v with EVal u => ONormal (upd r x u) | EExn ex => ORaise ex | EHang => OHang end)
  | SExpr e =>
    let* v := eval cx e r in
    ret (match v with EVal _ => ONormal r | EExn ex => ORaise ex | EHang => OHang end)
  | SIf c a b =>
    let* v := eval cx c r in
    match v with
    | EVal u => if vtruth u then exec cx fuel a r else exec cx fuel b r
    | EExn ex => ret (ORaise ex) | EHang => ret OHang
    end
  | SWhile c a => wloop (eval cx c) (exec cx fuel a) fuel r
  | SFor x l a => floop x (exec cx fuel a) l r
  | SReturn e =>
    let* v := eval cx e r in
    ret (match v with EVal u => OReturn u | EExn ex => ORaise ex | EHang => OHang end)
  | SBreak => ret (OBreak r)
  | SRaise c => ret (ORaise (raise_of c))
  | STry a h =>
    let* o := exec cx fuel a r in
    match o with
    | ORaise ex => handle_exn cx fuel h ex r
    | x => ret x
    end
  | SWith a => exec cx fuel a r
  end
with handle_exn (cx : ctx) (fuel : nat) (h : handlers) (ex : sexn) (r : env) : M outcome :=
  match h with
  | HNil => ret (ORaise ex)
  | HCons c s rest => if catches c ex then exec cx fuel s r else handle_exn cx fuel rest ex r
  end.

(* result of a method body: falling off the end returns None *)
Definition bres_of (o : outcome) : bres :=
  match o with
  | ONormal _ | OBreak _ => BNone
  | OReturn UNone => BNone
  | OReturn (UBool true) => BRet RTrue
  | OReturn (UBool false) => BRet RFalse
  | OReturn (UObj b) => BRet (RObj b)
  | OReturn _ => BHang
  | ORaise (XE e) => BRaise e
  | ORaise _ => BHang
  | OHang => BHang
  end.
Definition out_of (o : outcome) : out rv :=
  match o with
  | ONormal _ | OBreak _ => Ret RNone
  | OReturn UNone => Ret RNone
  | OReturn (UBool true) => Ret RTrue
  | OReturn (UBool false) => Ret RFalse
  | OReturn (UObj b) => Ret (RObj b)
  | OReturn _ => Hang
  | ORaise (XE e) => Raise e
  | ORaise _ => Hang
  | OHang => Hang
  end.

Definition run_body (cx : ctx) (fuel : nat) (s : stmt) : M bres :=
  let* o := exec cx fuel s env0 in ret (bres_of o).
Definition run_main (cx : ctx) (fuel : nat) (s : stmt) : M (out rv) :=
  let* o := exec cx fuel s env0 in ret (out_of o).

(* contexts of the three blocks and of the main loop *)
Definition no_active : active := {| a_rdwr := None; a_llcp := None; a_card := None |}.
Definition cx_rdwr (fuel : nat) (has : bool) (rr : rdwr_run) : ctx :=
  let o := rr_opts rr in
  {| cx_blk := Rdwr; cx_has_term := has; cx_inner := fuel;
     cx_user := fun k => match k with KDiscover => r_discover o | KConnect => r_connect o | KRelease => r_release o end;
     cx_targets := rr_targets rr; cx_iters := opt_default (r_iters o) 5%Z; cx_beep := opt_default (r_beep o) true;
     cx_role := RoleNone; cx_ltarget := LsA; cx_active := no_active |}.
Definition cx_llcp (has : bool) (o : llcp_opts) : ctx :=
  {| cx_blk := Llcp; cx_has_term := has; cx_inner := O;
     cx_user := fun k => match k with KDiscover => false | KConnect => l_connect o | KRelease => l_release o end;
     cx_targets := []; cx_iters := 1%Z; cx_beep := true;
     cx_role := l_role o; cx_ltarget := LsA; cx_active := no_active |}.
Definition cx_card (fuel : nat) (has : bool) (cr : card_run) : ctx :=
  let o := cr_opts cr in
  {| cx_blk := Card; cx_has_term := has; cx_inner := fuel;
     cx_user := fun k => match k with KDiscover => c_discover o | KConnect => c_connect o | KRelease => c_release o end;
     cx_targets := []; cx_iters := 1%Z; cx_beep := true;
     cx_role := RoleNone; cx_ltarget := cr_target cr; cx_active := no_active |}.
Definition cx_main (inner : nat) (has : bool) (a : active) : ctx :=
  {| cx_blk := Rdwr; cx_has_term := has; cx_inner := inner; cx_user := fun _ => false;
     cx_targets := []; cx_iters := 1%Z; cx_beep := true; cx_role := RoleNone; cx_ltarget := LsA; cx_active := a |}.

(* ================================================================== sense / listen / exchange from their tables *)
(* the statements before the discovery proper, in source order.
   types_ok: the arguments have the required class; result: exception raised?, log, self.target *)
Fixpoint run_prologue (p : list sstep) (types_ok dev : bool) (stored : option tid)
  : option pyexn * list ev * option tid :=
  match p with
  | [] => (None, [], stored)
  | st :: rest =>
    match st with
    | StCheckTypes c | StCheckLocal c =>
      if types_ok then run_prologue rest types_ok dev stored else (Some c, [EvRaise c], stored)
    | StCheckDevice c =>
      if dev then run_prologue rest types_ok dev stored else (Some c, [EvRaise c], stored)
    | StForget => run_prologue rest types_ok dev None
    | StMute => let '(r, l, s) := run_prologue rest types_ok dev stored in (r, EvMute :: l, s)
    end
  end.

(* ---- sense: classification of a RemoteTarget argument by the if/elif chain *)
Definition ttest (t : tspec) (c : stest) : bool :=
  match c, t with
  | TAtrReqSet, (TsDep | TsDepShort | TsDepLong) => true
  | TBrtyEndswith TechA, (TsA | TsBadSel) => true
  | TBrtyEndswith TechB, TsB => true
  | TBrtyEndswith TechF, TsF => true
  | _, _ => false
  end.
Fixpoint first_drv {T} (test : T -> stest -> bool) (t : T) (d : list (stest * drv)) : option drv :=
  match d with [] => None | (c, x) :: rest => if test t c then Some x else first_drv test t rest end.

Definition dispatch_i (sk : sense_skel) (t : tspec) : dispatch :=
  match first_drv ttest t (ss_dispatch sk) with
  | None => if ss_else_raises_unsupported sk then DUnknownTech else DValueError
  | Some Dep =>
    if ss_dep_checks_atr_req sk && match t with TsDepShort | TsDepLong => true | _ => false end then DValueError else DCall Dep
  | Some Tta =>
    if ss_tta_checks_sel_req sk && match t with TsBadSel => true | _ => false end then DValueError else DCall Tta
  | Some d => DCall d
  end.
Definition accepted_i (sk : sense_skel) (d : drv) (o : souts) : option bool :=
  match o with
  | SFound => Some false
  | SFoundP2P => Some true
  | SFoundBadSens => match d with Tta => if ss_tta_validates_sens_res sk then None else Some false | _ => Some false end
  | _ => None
  end.
(* is the exception class swallowed by the except clauses (first matching clause decides)? *)
Fixpoint swallowed (x : list (sexc * swallow)) (c : sexc) (single : bool) : bool :=
  match x with
  | [] => false
  | (c', w) :: rest =>
    let same := match c, c' with SxUnsupported, SxUnsupported | SxCommunication, SxCommunication => true | _, _ => false end in
    if same then match w with SwAlways => true | SwUnlessSingle => negb single end else swallowed rest c single
  end.

(* the inner loop; self.target is assigned the result of every driver call that returns *)
Fixpoint scan_i (sk : sense_skel) (single : bool) (call i : nat) (tb : table) (ts : list tspec) (j : nat) (stored : option tid)
  : scan_res * list ev * option tid :=
  match ts with
  | [] => (Continue, [], stored)
  | t :: rest =>
    match dispatch_i sk t with
    | DValueError => (Raised XValueError, [EvRaise XValueError], stored)
    | DUnknownTech =>
      if swallowed (ss_except sk) SxUnsupported single then scan_i sk single call i tb rest (S j) stored
      else (Raised XUnsupported, [EvRaise XUnsupported], stored)
    | DCall d =>
      let o := lookup tb i j in
      match accepted_i sk d o with
      | Some p =>
        if ss_else_returns_target sk then (Found (RemoteT call i j p), [EvSense d j], Some (RemoteT call i j p))
        else let '(r, l, s) := scan_i sk single call i tb rest (S j) (Some (RemoteT call i j p)) in (r, EvSense d j :: l, s)
      | None =>
        match o with
        | SIOErr => (Raised XIOError, [EvSense d j; EvRaise XIOError], stored)
        | SKbd => (Raised XKbd, [EvSense d j; EvRaise XKbd], stored)
        | SUnsupported =>
          if swallowed (ss_except sk) SxUnsupported single
          then let '(r, l, s) := scan_i sk single call i tb rest (S j) stored in (r, EvSense d j :: l, s)
          else (Raised XUnsupported, [EvSense d j; EvRaise XUnsupported], stored)
        | SCommErr | SFoundBadSens =>
          if swallowed (ss_except sk) SxCommunication single
          then let '(r, l, s) := scan_i sk single call i tb rest (S j) stored in (r, EvSense d j :: l, s)
          else (Raised XAssertion, [EvSense d j; EvRaise XAssertion], stored)
        | _ => let '(r, l, s) := scan_i sk single call i tb rest (S j) None in (r, EvSense d j :: l, s)
        end
      end
    end
  end.

Fixpoint iterate_i (sk : sense_skel) (single nonempty : bool) (call : nat) (tb : table) (ts : list tspec) (n i : nat)
  (stored : option tid) : out (option tid) * list ev * option tid :=
  match n with
  | O => (Ret None, [], stored)
  | S n' =>
    match scan_i sk single call i tb ts 0 stored with
    | (Found t, l, s) => (Ret (Some t), l, s)
    | (Raised e, l, s) => (Raise e, l, s)
    | (Continue, l, s) =>
      let '(r, l', s') := iterate_i sk single nonempty call tb ts n' (S i) s in
      (r, l ++ (if ss_after_iteration_mute_if_targets sk && nonempty then [EvMute] else []) ++ l', s')
    end
  end.

Definition sense_i (sk : sense_skel) (niter_k : Z -> nat) (dev : bool) (call : nat) (ts : list tspec) (iters : Z) (tb : table)
  (stored : option tid) : out (option tid) * list ev * option tid :=
  match run_prologue (ss_prologue sk) (forallb is_remote ts) dev stored with
  | (Some e, l, s) => (Raise e, l, s)
  | (None, l0, s0) =>
    let '(r, l, s) := iterate_i sk (is_single ts) (is_nonempty ts) call tb ts (niter_k iters) 0 s0 in
    (r, l0 ++ l, s)
  end.

(* ---- listen *)
Definition ltest (t : lspec) (c : stest) : bool :=
  match c, t with
  | TAtrResSet, LsDep => true
  | TBrtyIn TechA, LsA => true
  | TBrtyIn TechB, LsB => true
  | TBrtyIn TechF, LsF => true
  | _, _ => false
  end.
Definition listen_i (sk : listen_skel) (dev : bool) (n : nat) (t : lspec) (o : louts) (stored : option tid)
  : out (option tid) * list ev * option tid :=
  match run_prologue (ls_prologue sk) (match t with LsNotLocal => false | _ => true end) dev stored with
  | (Some e, l, s) => (Raise e, l, s)
  | (None, l0, s0) =>
    match first_drv ltest t (ls_dispatch sk) with
    | None => (Raise (ls_else_raises sk), l0 ++ [EvRaise (ls_else_raises sk)], s0)
    | Some d =>
      let found := (Ret (if ls_returns_target sk then Some (LocalT n) else None), l0 ++ [EvListen d], Some (LocalT n)) in
      match o with
      | LFound => found
      | LFoundShortAtr =>
        match d with
        | Dep => if ls_dep_drops_bad_atr_req sk then (Ret None, l0 ++ [EvListen d], None) else found
        | _ => found
        end
      | LNone => (Ret None, l0 ++ [EvListen d], None)
      | LUnsupported => (Raise XUnsupported, l0 ++ [EvListen d; EvRaise XUnsupported], s0)
      | LIOErr => (Raise XIOError, l0 ++ [EvListen d; EvRaise XIOError], s0)
      | LKbd => (Raise XKbd, l0 ++ [EvListen d; EvRaise XKbd], s0)
      end
    end
  end.

(* ---- exchange *)
Fixpoint first_dir (stored : option tid) (d : list (xkind * xdir)) : option xdir :=
  match d with
  | [] => None
  | (k, x) :: rest =>
    match k, stored with
    | IsRemote, Some (RemoteT _ _ _ _) | IsLocal, Some (LocalT _) => Some x
    | _, _ => first_dir stored rest
    end
  end.
Definition exchange_i (sk : exchange_skel) (dev : bool) (stored : option tid) : out (option unit) * list ev :=
  match run_prologue (xs_prologue sk) true dev stored with
  | (Some e, l, _) => (Raise e, l)
  | (None, l0, _) =>
    match first_dir stored (xs_dispatch sk), stored with
    | Some DirCmd, Some t => (Ret (Some tt), l0 ++ [EvCmdTo t])
    | Some DirRsp, Some t => (Ret (Some tt), l0 ++ [EvRspTo t])
    | _, _ => if xs_else_returns_none sk then (Ret None, l0) else (Hang, l0)
    end
  end.

(* ================================================================== option preparation of connect() *)
(* does the value returned by on-startup keep the option block? None = the test itself raises TypeError *)
Definition keep_llcp (k : keep_test) (s : lstart) : bool :=
  match k, s with KeepIsLlc, (LstMissing | LstSame) => true | _, _ => false end.
Definition keep_rdwr (k : keep_test) (dflt : startup_default) (given : list tspec) (s : rstart) : out (option (list tspec)) :=
  let check l := match k with
                 | KeepTruthyAllRemote => if is_nonempty l && forallb is_remote l then Some l else None
                 | _ => None end in
  match s with
  | RsMissing => match dflt with DfltIdentity => Ret (check given) | DfltNone => Ret None end
  | RsSame => Ret (check given)
  | RsList l => Ret (check l)
  | RsFalsy => Ret None
  | RsNonIter => match k with KeepTruthyAllRemote => Raise XTypeError | _ => Ret None end
  end.
Definition keep_card (k : keep_test) (dflt : startup_default) (s : cstart) : option lspec :=
  match k, s with
  | KeepIsLocalTarget, CstTarget LsNotLocal => None
  | KeepIsLocalTarget, CstTarget t => Some t
  | _, _ => None            (* CstMissing: the default returns None (DfltNone) *)
  end.

Definition user_startup_llcp (s : lstart) : bool := match s with LstMissing => false | _ => true end.
Definition user_startup_rdwr (s : rstart) : bool := match s with RsMissing => false | _ => true end.
Definition user_startup_card (s : cstart) : bool := match s with CstMissing => false | _ => true end.

(* one entry of the preparation; acc = blocks kept so far *)
Definition startup_entry_run (dflt_targets : list tspec) (e : startup_entry) (o : options) (acc : active) : M (out active) :=
  match se_blk e with
  | Llcp =>
    match o_llcp o with
    | None => ret (Ret acc)
    | Some lo =>
      emit (EvStartup Llcp (user_startup_llcp (l_startup lo))) ;;;
      ret (Ret {| a_rdwr := a_rdwr acc; a_card := a_card acc;
                  a_llcp := if keep_llcp (se_keep e) (l_startup lo) then Some lo else None |})
    end
  | Rdwr =>
    match o_rdwr o with
    | None => ret (Ret acc)
    | Some ro =>
      emit (EvStartup Rdwr (user_startup_rdwr (r_startup ro))) ;;;
      match keep_rdwr (se_keep e) (se_default e) (opt_default (r_targets ro) dflt_targets) (r_startup ro) with
      | Raise x => emit (EvRaise x) ;;; ret (Raise x)
      | Hang => ret Hang
      | Ret l => ret (Ret {| a_llcp := a_llcp acc; a_card := a_card acc;
                             a_rdwr := option_map (fun l' => {| rr_targets := l'; rr_opts := ro |}) l |})
      end
    end
  | Card =>
    match o_card o with
    | None => ret (Ret acc)
    | Some co =>
      emit (EvStartup Card (user_startup_card (c_startup co))) ;;;
      ret (Ret {| a_rdwr := a_rdwr acc; a_llcp := a_llcp acc;
                  a_card := option_map (fun t => {| cr_target := t; cr_opts := co |}) (keep_card (se_keep e) (se_default e) (c_startup co)) |})
    end
  end.
Fixpoint startup_run (dflt_targets : list tspec) (es : list startup_entry) (o : options) (acc : active) : M (out active) :=
  match es with
  | [] => ret (Ret acc)
  | e :: rest =>
    let* r := startup_entry_run dflt_targets e o acc in
    match r with Ret acc' => startup_run dflt_targets rest o acc' | x => ret x end
  end.

(* connect() as a whole: device test, option preparation in source order, "no options" test, main loop *)
Definition connect_i (es : list startup_entry) (dflt_targets : list tspec) (main : stmt)
  (dev : bool) (o : options) (fuel inner : nat) : M (out rv) :=
  if negb dev then emit (EvRaise XIOError) ;;; ret (Raise XIOError) else
  let* r := startup_run dflt_targets es o no_active in
  match r with
  | Raise e => ret (Raise e)
  | Hang => ret Hang
  | Ret a => if no_options a then ret (Ret RNone) else run_main (cx_main inner (o_term o) a) fuel main
  end.
