(* Skel/DriverPolicy.v - what the driver modules under src/nfc/clf/ may do so that "a driver call
   happens in the calling thread, between DevBegin and DevEnd" (the reading of `Dev m` in
   LockSyntax.v) is true of them: no threads, timers, executors, event loops, signal handlers,
   exit hooks or finalisers of their own that could reach the driver / transport outside the
   frontend lock.

   The FACTS come from translate/skel_c15.py (scan_drivers) as Gen/DriverScan.v:
     driver_modules  - the files scanned (every *.py of the package except the frontend)
     driver_imports  - (file, imported module), every import statement at any nesting depth
     driver_flags    - (file, line, what): every occurrence of an identifier or construct on the
                       scanner's list of asynchronous mechanisms (threading.Thread/Timer, _thread,
                       concurrent.futures, multiprocessing, asyncio and its call_later/create_task/...,
                       signal/setitimer/alarm, atexit, sched, weakref.finalize, gc, sys.settrace/
                       setprofile/excepthook, libusb1 asynchronous transfers and pollers, pyserial
                       threaded readers, socketserver, async def/await, eval/exec/compile/__import__/
                       globals/vars, sys.modules, importlib.import_module of anything but
                       "nfc.clf."+name, a __del__ doing more than self.close()/self.context.exit())
   The POLICY is here: imports only from the whitelist (fail closed: a new import has to be
   classified by a person), no flag at all, and all known driver files were scanned. *)
From Coq Require Import List String Bool.
Import ListNotations.
Open Scope string_scope.

Definition allowed_imports : list string :=
  [ "os"; "sys"; "errno"; "struct"; "time"; "logging"; "binascii"; "functools"; "operator"; "re";
    "platform"; "select"; "socket"; "importlib"; "termios";
    "serial"; "serial.tools.list_ports"; "usb1";
    "nfc.clf"; "nfc.clf.device"; "nfc.clf.transport"; "nfc.clf.pn53x"; "nfc.clf.pn531"; "nfc.clf.pn532";
    "nfc.clf.pn533"; "nfc.clf.rcs956"; "nfc.clf.rcs380"; "nfc.clf.acr122"; "nfc.clf.arygon"; "nfc.clf.udp" ].

Definition expected_modules : list string :=
  [ "acr122.py"; "arygon.py"; "device.py"; "pn531.py"; "pn532.py"; "pn533.py"; "pn53x.py";
    "rcs380.py"; "rcs956.py"; "transport.py"; "udp.py" ].

Definition mem (x : string) (l : list string) : bool := existsb (String.eqb x) l.

Definition bad_imports (imports : list (string * string)) : list (string * string) :=
  filter (fun p => negb (mem (snd p) allowed_imports)) imports.

Definition missing_modules (mods : list string) : list string :=
  filter (fun m => negb (mem m mods)) expected_modules.

Definition drivers_ok (mods : list string) (imports : list (string * string))
                      (flags : list (string * string * string)) : bool :=
  match missing_modules mods, bad_imports imports, flags with
  | [], [], [] => true
  | _, _, _ => false
  end.
