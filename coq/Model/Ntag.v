(* NTAG21x password authentication and password provisioning, as written in
   src/nfc/tag/tt2_nxp.py (NTAG21x._authenticate, _protect_with_password), src/nfc/tag/tt2.py
   (transceive, read, write) and src/nfc/tag/__init__.py (Tag.authenticate/protect); the tag side
   as a page memory with PWD / PACK / AUTH0 configuration pages.  Definitions only. *)
From Coq Require Import ZArith List Bool.
From NV Require Import Base.Result Base.Bytes Base.PyPrims Model.FelicaMac.
Import ListNotations.
Open Scope Z_scope.

(* reader object state: self.target is not None, self._authenticated *)
Record nstate := mkN { n_target : bool; n_auth : bool }.
Definition nstate0 : nstate := mkN true false.

Definition ntag_key (pw : list Z) : res (list Z) :=
  if (0 <? len pw) && (len pw <? 6) then Err ValueError else
  Ok (if len pw =? 0 then [255; 255; 255; 255; 0; 0] else firstn 6 pw).

Section NReader.
  Context {T : Type}.
  Variable xchg : T -> list Z -> T * xres.   (* clf.exchange *)
  Variable sense : T -> T * bool.            (* clf.sense(target) is not None *)
  Variable cfgpage : Z.                      (* first configuration page of the product *)

  Definition NSt : Type := (T * nstate)%type.
  Definition NM (A : Type) : Type := NSt -> NSt * res A.
  Definition nret {A} (a : A) : NM A := fun s => (s, Ok a).
  Definition nlift {A} (r : res A) : NM A := fun s => (s, r).
  Definition nbind {A B} (m : NM A) (f : A -> NM B) : NM B :=
    fun s => let '(s', r) := m s in
             match r with
             | Ok a => f a s' | Err e => (s', Err e) | Crash c => (s', Crash c) | Hang => (s', Hang)
             end.
  Notation "'mdo' x <- m ; k" := (nbind m (fun x => k)) (at level 200, x pattern, m at level 100, k at level 200).

  Fixpoint nexchange_retry (n : nat) (t : T) (cmd : list Z) (last : res (list Z)) : T * res (list Z) :=
    match n with
    | O => (t, last)
    | S n' =>
        let '(t', r) := xchg t cmd in
        match r with
        | XRsp b => (t', Ok b)
        | XTimeout => nexchange_retry n' t' cmd (terr 0)
        | XTransmission => nexchange_retry n' t' cmd (terr (-1))
        | XProtocol => nexchange_retry n' t' cmd (terr (-2))
        end
    end.

  (* Type2Tag.transceive (retries = 2) *)
  Definition transceive (cmd : list Z) : NM (list Z) :=
    fun s => if negb (n_target (snd s)) then (s, terr 0) else
             let '(t', r) := nexchange_retry 3 (fst s) cmd (Crash Unbound) in ((t', snd s), r).

  Definition do_sense : NM bool :=
    fun s => let '(t', b) := sense (fst s) in ((t', mkN b (n_auth (snd s))), Ok b).

  (* Type2Tag.read *)
  Definition nread (page : Z) : NM (list Z) :=
    mdo data <- transceive [48; page mod 256] ;
    if (len data =? 1) && (Z.land (nth 0 data 0) 250 =? 0) then
      (mdo present <- do_sense ; nlift (terr (if present then 2 else -1)))
    else if negb (len data =? 16) then nlift (terr 3) else nret data.

  (* Type2Tag.write *)
  Definition nwrite (page : Z) (data : list Z) : NM bool :=
    if negb (len data =? 4) then nlift (Err ValueError) else
    mdo rsp <- transceive ([162; page mod 256] ++ data) ;
    if negb (len rsp =? 1) then nlift (terr 3) else
    if negb (nth 0 rsp 0 =? 10) then nlift (terr 2) else nret true.

  (* NTAG21x._authenticate; a Type2TagCommandError means False *)
  Definition ntag_authenticate_inner (pw : list Z) : NM bool :=
    mdo key <- nlift (ntag_key pw) ;
    fun s => let '(s', r) := transceive (27 :: firstn 4 key) s in
             match r with
             | Ok rsp => (s', Ok (list_eqb rsp (slice key 4 6)))
             | Err (TagCommandError _) => (s', Ok false)
             | Err e => (s', Err e) | Crash c => (s', Crash c) | Hang => (s', Hang)
             end.

  Definition set_nauth (b : bool) : NM unit := fun s => ((fst s, mkN (n_target (snd s)) b), Ok tt).

  (* Tag.authenticate *)
  Definition ntag_authenticate (pw : list Z) : NM bool :=
    mdo b <- ntag_authenticate_inner pw ; mdo _ <- set_nauth b ; nret b.

  Definition set_byte (l : list Z) (i : Z) (v : Z) : list Z := take i l ++ [v] ++ drop (i + 1) l.

  (* cfg[8:14] = key; cfg[3] = max(3, min(protect_from, 255)); cfg[4] = cfg[4] | 0x80 or cfg[4] & 0x7F *)
  Definition ntag_cfg_edit (cfg key : list Z) (read_protect : bool) (protect_from : Z) : list Z :=
    let cfg1 := take 8 cfg ++ key ++ drop 14 cfg in
    let cfg2 := set_byte cfg1 3 (Z.max 3 (Z.min protect_from 255)) in
    let c4 := nth 4 cfg2 0 in
    set_byte cfg2 4 (if read_protect then Z.lor c4 128 else Z.land c4 127).
  (* ndef_cc[3] |= 0x88 / 0x08 *)
  Definition ntag_cc_test (cc : list Z) : bool := (nth 0 cc 0 =? 225) && (Z.land (nth 1 cc 0) 240 =? 16).
  Definition ntag_cc_edit (cc : list Z) (read_protect : bool) : list Z :=
    set_byte cc 3 (Z.lor (nth 3 cc 0) (if read_protect then 136 else 8)).

  (* NTAG21x._protect_with_password (password is not None) *)
  Definition ntag_protect (pw : list Z) (read_protect : bool) (protect_from : Z) : NM bool :=
    mdo key <- nlift (ntag_key pw) ;
    mdo cfg <- nread cfgpage ;
    let cfg3 := ntag_cfg_edit cfg key read_protect protect_from in
    mdo _ <- nwrite cfgpage (slice cfg3 0 4) ;
    mdo _ <- nwrite (cfgpage + 1) (slice cfg3 4 8) ;
    mdo _ <- nwrite (cfgpage + 2) (slice cfg3 8 12) ;
    mdo _ <- nwrite (cfgpage + 3) (slice cfg3 12 16) ;
    mdo _ <- (if protect_from <=? 3 then
               mdo p3 <- nread 3 ;
               let cc := slice p3 0 4 in
               if ntag_cc_test cc
               then (mdo _ <- nwrite 3 (ntag_cc_edit cc read_protect) ; nret tt)
               else nret tt
             else nret tt) ;
    mdo present <- do_sense ;
    if present then ntag_authenticate key else nret false.
End NReader.

(* ---- the tag side --------------------------------------------------------------------------- *)
(* The configuration that governs access (AUTH0, PROT, PWD, PACK) is the one read from the EEPROM
   when the tag is activated; configuration pages written during a session take effect at the
   next activation (this is why _protect_with_password re-senses the tag before it authenticates). *)
Record ntag := mkNT {
  nt_cfg : Z;                 (* configuration page: CFG0 at cfg, CFG1 at cfg+1, PWD at cfg+2, PACK at cfg+3 *)
  nt_mem : Z -> list Z;       (* page -> 4 bytes, pages 0 .. cfg+3 *)
  nt_eff : Z -> list Z;       (* memory as it was at activation (only the configuration pages are used) *)
  nt_authed : bool
}.

Definition nt_npages (tg : ntag) : Z := nt_cfg tg + 4.
Definition nt_auth0 (tg : ntag) : Z := nth 3 (nt_eff tg (nt_cfg tg)) 255.
Definition nt_prot (tg : ntag) : bool := Z.testbit (nth 0 (nt_eff tg (nt_cfg tg + 1)) 0) 7.
Definition nt_pwd (tg : ntag) : list Z := nt_eff tg (nt_cfg tg + 2).
Definition nt_pack (tg : ntag) : list Z := firstn 2 (nt_eff tg (nt_cfg tg + 3)).

(* what READ shows of one page: PWD and PACK always read as zero; pages roll over after the last *)
Definition nt_read_page (tg : ntag) (p : Z) : list Z :=
  let q := p mod nt_npages tg in
  if (q =? nt_cfg tg + 2) then [0; 0; 0; 0] else
  if (q =? nt_cfg tg + 3) then [0; 0] ++ skipn 2 (nt_mem tg q) else nt_mem tg q.

Definition NAK : list Z := [0].
Definition ACK : list Z := [10].

Definition ntag_step (tg : ntag) (cmd : list Z) : ntag * option (list Z) :=
  match cmd with
  | [48; p] =>
      if (p <? 0) || (nt_npages tg <=? p) then (tg, Some NAK) else
      if nt_prot tg && negb (nt_authed tg) && (nt_auth0 tg <=? p) then (tg, Some NAK) else
      (tg, Some (nt_read_page tg p ++ nt_read_page tg (p + 1) ++ nt_read_page tg (p + 2) ++ nt_read_page tg (p + 3)))
  | [162; p; a; b; c; d] =>
      if (p <? 2) || (nt_npages tg <=? p) then (tg, Some NAK) else
      if negb (nt_authed tg) && (nt_auth0 tg <=? p) then (tg, Some NAK) else
      (mkNT (nt_cfg tg) (mem_set (nt_mem tg) p [a; b; c; d]) (nt_eff tg) (nt_authed tg), Some ACK)
  | [27; a; b; c; d] =>
      if list_eqb [a; b; c; d] (nt_pwd tg)
      then (mkNT (nt_cfg tg) (nt_mem tg) (nt_eff tg) true, Some (nt_pack tg))
      else (mkNT (nt_cfg tg) (nt_mem tg) (nt_eff tg) false, Some NAK)
  | _ => (tg, None)
  end.

(* (re)activation *)
Definition ntag_reselect (tg : ntag) : ntag := mkNT (nt_cfg tg) (nt_mem tg) (nt_mem tg) false.

Definition nhonest (tg : ntag) (cmd : list Z) : ntag * xres :=
  match ntag_step tg cmd with
  | (tg', Some r) => (tg', XRsp r)
  | (tg', None) => (tg', XTimeout)
  end.
Definition nsense_present (tg : ntag) : ntag * bool := (ntag_reselect tg, true).

(* factory state: AUTH0 = FFh (protection disabled), PWD = FFFFFFFFh, PACK = 0000h *)
Definition ntag_blank_mem (cfg : Z) : Z -> list Z :=
  fun p => if p =? cfg then [4; 0; 0; 255] else
           if p =? cfg + 2 then [255; 255; 255; 255] else
           if p =? 3 then [225; 16; 18; 0] else [0; 0; 0; 0].
Definition ntag_blank (cfg : Z) : ntag := mkNT cfg (ntag_blank_mem cfg) (ntag_blank_mem cfg) false.

(* scripted channel for the correspondence run *)
Definition nscript : Type := (list xres * list bool * list (list Z))%type.
Definition nscripted (t : nscript) (cmd : list Z) : nscript * xres :=
  let '(rs, ss, log) := t in
  match rs with
  | [] => (([], ss, cmd :: log), XTimeout)
  | r :: rest => ((rest, ss, cmd :: log), r)
  end.
Definition nscripted_sense (t : nscript) : nscript * bool :=
  let '(rs, ss, log) := t in
  match ss with
  | [] => (t, true)
  | b :: rest => ((rs, rest, log), b)
  end.
