(* Tag activation (src/nfc/tag/__init__.py activate and the activate functions / constructors of
   tt1.py, tt1_broadcom.py, tt2.py, tt2_nxp.py, tt3.py, tt3_sony.py, tt4.py): what the reader makes
   of the responses a discovered tag gives while it is activated.

     tech A dispatch on SENS_RES / SEL_RES            tag_dispatch_a
     Type 4A: answer to RATS (ATS)                    ats_fsci_fwi, t4a_activate   (repaired,
                                                      fixes/c08-01-tt4-ats-optional-bytes.diff;
                                                      the code as pinned is IsoDep.t4a_params)
     Type 4B: SENSB_RES and the answer to ATTRIB      t4b_activate                  (repaired,
                                                      fixes/c08-02-tt4-sensb-res-length.diff)
     Type 1: RID response (HR0, HR1, UID)             t1_activate
     Type 2: Ultralight-C probing and GET_VERSION     nxp_activate, t2_activate
     Type 3: SENSF_RES with or without system code    t3_activate                   (repaired,
                                                      fixes/c08-11-tt3-sensf-res-length.diff)

   A response of clf.exchange() is an [aresult] of Model/IsoDep.v: data, or one of the
   CommunicationError classes.  nfc.tag.activate() turns every CommunicationError raised by a
   constructor into the return value None.  Results: [Ok (Some x)] a tag object, [Ok None] the
   return value None, [Crash c] an exception that leaves nfc.tag.activate().
   Definitions only. *)
From Coq Require Import ZArith List Bool.
From NV Require Import Base.Result Base.Bytes Model.IsoDep.
Import ListNotations.
Open Scope Z_scope.

Definition nth_opt (l : list Z) (i : Z) : option Z :=
  if i <? 0 then None else nth_error l (Z.to_nat i).
Fixpoint beq_list (a b : list Z) : bool :=
  match a, b with
  | [], [] => true
  | x :: a', y :: b' => (x =? y) && beq_list a' b'
  | _, _ => false
  end.

(* ------------------------------------------------------------ nfc.tag.activate, technology A *)
Inductive tech_a := TT1 | TT2 | TT4 | TNone.
(* target.sens_res[1] & 0x0F == 0x0C ; target.sel_res[0] >> 5 & 3 == 0 ; target.sel_res[0] >> 5 & 1 == 1 *)
Definition tag_dispatch_a (sens_res sel_res : list Z) : res tech_a :=
  do s1 <- idx sens_res 1;
  if Z.land s1 15 =? 12 then Ok TT1 else
  do r0 <- idx sel_res 0;
  if Z.land (Z.shiftr r0 5) 3 =? 0 then Ok TT2
  else if Z.land (Z.shiftr r0 5) 1 =? 1 then Ok TT4
  else Ok TNone.

(* ------------------------------------------------------------ Type 4A: the answer to select *)
(* ATS = TL, T0 (if TL > 1), TA(1) TB(1) TC(1) as announced by T0 bits 5..7, historical bytes.
   FSCI = T0 & 15, FWI = TB(1) >> 4; defaults FSCI 2 and FWI 4.  An empty answer or one that ends
   before an announced TB(1) is a ProtocolError. *)
Definition ats_fsci_fwi (ats : list Z) : res (Z * Z) :=
  match ats with
  | [] => Err ProtocolError
  | [_] => Ok (2, 4)
  | _ :: t0 :: _ =>
    if Z.land t0 32 =? 0 then Ok (Z.land t0 15, 4)
    else match nth_opt ats (if Z.land t0 16 =? 0 then 2 else 3) with
         | Some tb => Ok (Z.land t0 15, Z.shiftr tb 4)
         | None => Err ProtocolError
         end
  end.

(* an answer to select as ISO/IEC 14443-4 5.2 defines it *)
Definition opt_byte (o : option Z) : list Z := match o with Some b => [b] | None => [] end.
Definition flag (o : option Z) (v : Z) : Z := match o with Some _ => v | None => 0 end.
Definition ats_build (fsci : Z) (ta tb tc : option Z) (hist : list Z) : list Z :=
  let body := (fsci + flag ta 16 + flag tb 32 + flag tc 64) :: opt_byte ta ++ opt_byte tb ++ opt_byte tc ++ hist in
  (1 + len body) :: body.

(* RATS command: E0 80 (FSDI 8) or E0 70 when the device receives less than 256 bytes *)
Definition rats_cmd (max_recv : Z) : list Z := [224; if max_recv <? 256 then 112 else 128].

(* Type4ATag(clf, target) inside nfc.tag.activate: parameters of the ISO-DEP layer, or None *)
Definition t4a_activate (rats : aresult) (max_send max_recv : Z) : option t4params :=
  match rats with
  | ARx ats => match ats_fsci_fwi ats with
               | Ok (fsci, fwi) => Some (t4_params fsci fwi max_send max_recv)
               | _ => None
               end
  | _ => None
  end.
(* the code as pinned: TA(1) and TB(1) taken to be always present *)
Definition t4a_activate_legacy (rats : aresult) (max_send max_recv : Z) : res (option t4params) :=
  match rats with
  | ARx ats => do p <- t4a_params ats max_send max_recv; Ok (Some p)
  | _ => Ok None
  end.

(* ------------------------------------------------------------ Type 4B: SENSB_RES and ATTRIB *)
(* ATTRIB: 1D, NFCID0 = SENSB_RES[1:5], Param 1 = 00, Param 2 = 08 / 07, Param 3 = 01, Param 4 = 00 *)
Definition attrib_cmd (sensb : list Z) (max_recv : Z) : list Z :=
  29 :: slice sensb 1 5 ++ [0; if max_recv <? 256 then 7 else 8; 1; 0].
(* Some (command sent, parameters or None when the ATTRIB exchange fails) | None = no command sent *)
Definition t4b_activate (sensb : list Z) (attrib : aresult) (max_send max_recv : Z)
  : option (list Z * option t4params) :=
  if len sensb <? 12 then None else
  Some (attrib_cmd sensb max_recv,
        match attrib with
        | ARx _ => Some (t4_params (Z.shiftr (nth 10 sensb 0) 4) (Z.shiftr (nth 11 sensb 0) 4) max_send max_recv)
        | _ => None
        end).
Definition t4b_activate_legacy (sensb : list Z) (attrib : aresult) (max_send max_recv : Z) : res (option t4params) :=
  match attrib with
  | ARx _ => do p <- t4b_params sensb max_send max_recv; Ok (Some p)
  | _ => Ok None
  end.

(* ------------------------------------------------------------ Type 1: RID response *)
Inductive t1class := Topaz | Topaz512 | Type1Tag.
(* hrom = rid_res[0:2]; uid = rid_res[2:6] *)
Definition t1_activate (rid : list Z) : t1class * list Z :=
  (if beq_list (slice rid 0 2) [17; 72] then Topaz
   else if beq_list (slice rid 0 2) [18; 76] then Topaz512 else Type1Tag,
   slice rid 2 6).

(* ------------------------------------------------------------ Type 2: vendor probing *)
Inductive t2class :=
| Type2Tag | MifareUltralight | MifareUltralightC | NTAG203
| MF0UL11 | MF0ULH11 | MF0UL21 | MF0ULH21 | NTAG210 | NTAG212 | NTAG213 | NTAG215 | NTAG216 | NT3H1101 | NT3H1201.

Definition version_map : list (list Z * t2class) :=
  [([0; 4; 3; 1; 1; 0; 11; 3], MF0UL11); ([0; 4; 3; 2; 1; 0; 11; 3], MF0ULH11);
   ([0; 4; 3; 1; 1; 0; 14; 3], MF0UL21); ([0; 4; 3; 2; 1; 0; 14; 3], MF0ULH21);
   ([0; 4; 4; 1; 1; 0; 11; 3], NTAG210); ([0; 4; 4; 1; 1; 0; 14; 3], NTAG212);
   ([0; 4; 4; 2; 1; 0; 15; 3], NTAG213); ([0; 4; 4; 2; 1; 0; 17; 3], NTAG215);
   ([0; 4; 4; 2; 1; 0; 19; 3], NTAG216); ([0; 4; 4; 5; 2; 1; 19; 3], NT3H1101);
   ([0; 4; 4; 5; 2; 1; 21; 3], NT3H1201)].
Fixpoint version_lookup (m : list (list Z * t2class)) (v : list Z) : option t2class :=
  match m with
  | [] => None
  | (k, c) :: r => if beq_list k v then Some c else version_lookup r v
  end.

(* The environment of the probing: the answers to the exchange() calls in the order they are made
   and the results of the sense() calls (true = the tag is found again) in the order they are made;
   past the end of a script: no answer / not found. *)
Definition hd_x (xs : list aresult) : aresult := match xs with x :: _ => x | [] => ATimeout end.
Definition hd_s (ss : list bool) : bool := match ss with s :: _ => s | [] => false end.

(* tt2_nxp.activate: result (Some class | None), exchange() answers and sense() results left over *)
Definition nxp_version (xs : list aresult) (ss : list bool) : option t2class * list aresult * list bool :=
  match hd_x xs with
  | ARx v =>
    match version_lookup version_map v with
    | Some c => (Some c, tl xs, ss)
    | None => if beq_list v [0] then ((if hd_s ss then Some NTAG203 else None), tl xs, tl ss)
              else (None, tl xs, ss)
    end
  | ATimeout => ((if hd_s ss then Some MifareUltralight else None), tl xs, tl ss)
  | _ => (None, tl xs, ss)
  end.
Definition nxp_activate (xs : list aresult) (ss : list bool) : option t2class * list aresult * list bool :=
  match hd_x xs with
  | ARx a =>
    if negb (hd_s ss) then (None, tl xs, tl ss)
    else if match a with 175 :: _ => true | _ => false end then (Some MifareUltralightC, tl xs, tl ss)
    else nxp_version (tl xs) (tl ss)
  | ATimeout => if negb (hd_s ss) then (None, tl xs, tl ss) else nxp_version (tl xs) (tl ss)
  | _ => (None, tl xs, ss)
  end.
(* tt2.activate: the commands sent are 1A 00 and 60, in this order *)
Definition t2_activate (sdd0 : Z) (xs : list aresult) (ss : list bool) : option t2class * list aresult * list bool :=
  if sdd0 =? 4 then
    match nxp_activate xs ss with
    | (Some c, xs', ss') => (Some c, xs', ss')
    | (None, xs', ss') => ((if hd_s ss' then Some Type2Tag else None), xs', tl ss')
    end
  else (Some Type2Tag, xs, ss).

(* ------------------------------------------------------------ Type 3: SENSF_RES *)
Inductive t3class := Type3Tag | FelicaStandard | FelicaMobile | FelicaLite | FelicaLiteS | FelicaPlug.
Definition mem_z (x : Z) (l : list Z) : bool := existsb (Z.eqb x) l.
Definition t3_class_of (ic : Z) : t3class :=
  if mem_z ic [240] then FelicaLite
  else if mem_z ic [241; 242] then FelicaLiteS
  else if mem_z ic [0; 1; 2; 8; 9; 11; 12; 13; 32; 50; 53] then FelicaStandard
  else if mem_z ic [6; 7; 16; 17; 18; 19; 20; 21; 22; 23; 24; 25; 26; 27; 28; 29; 30; 31] then FelicaMobile
  else if mem_z ic [224; 225] then FelicaPlug
  else Type3Tag.
Record t3tag := { t3_cls : t3class; t3_idm : list Z; t3_pmm : list Z; t3_sys : Z }.
(* tt3.activate: None for an NFC-DEP target (NFCID2 starts with 01 FE); IDm = [1:9], PMm = [9:17],
   system code from [17:19] when present, else FFFFh *)
Definition t3_activate (sensf : list Z) : res (option t3tag) :=
  if beq_list (slice sensf 1 3) [1; 254] then Ok None else
  do ic <- idx sensf 10;
  Ok (Some {| t3_cls := t3_class_of ic; t3_idm := slice sensf 1 9; t3_pmm := slice sensf 9 17;
              t3_sys := if 19 <=? len sensf then nth 17 sensf 0 * 256 + nth 18 sensf 0 else 65535 |}).
(* the code as pinned: unpack(">H", sensf_res[17:19]) whenever there are more than 17 bytes *)
Definition t3_activate_legacy (sensf : list Z) : res (option t3tag) :=
  if beq_list (slice sensf 1 3) [1; 254] then Ok None else
  do ic <- idx sensf 10;
  if (17 <? len sensf) && (len sensf <? 19) then Crash StructErr else
  Ok (Some {| t3_cls := t3_class_of ic; t3_idm := slice sensf 1 9; t3_pmm := slice sensf 9 17;
              t3_sys := if 17 <? len sensf then nth 17 sensf 0 * 256 + nth 18 sensf 0 else 65535 |}).
