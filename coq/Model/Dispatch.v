(* C07: what the LLCP link thread does with a decoded PDU: LogicalLinkController.dispatch,
   ServiceAccessPoint.enqueue, ServiceDiscovery.enqueue (src/nfc/llcp/llc.py:115-135,194-217,651-687) and the
   enqueue methods of the three socket classes (src/nfc/llcp/tco.py:148-157,247-248,323-330,597-676), as total
   functions over decoded PDUs (Model/Pdu.v pdu) and an explicit controller state.  Definitions only.

   What is a value here:
     Crash c   an exception other than the documented ones would leave dispatch() (and kill the link thread)
     Hang      the link thread would call Condition.wait() without timeout on something only the link thread itself
               can deliver (DataLinkConnection.close() waiting for the DM answer to its DISC)
   Condition.notify / logging have no effect on the state and are not modelled; locks are re-entrant and taken
   by the one thread that runs dispatch.  Encryption (llc.sec) is off (no OpenSSL in the verified configuration).

   The model is of the REPAIRED code (fixes/c07-7-dlc-enqueue-must-not-block.diff): a PDU that is not a connection
   mode PDU arriving for an ESTABLISHED data link connection queues the FRMR without calling close().
   `orig = true` gives the code as it was. *)
From Coq Require Import ZArith List Bool.
From NV Require Import Base.Result Base.Bytes Base.PyPrims Model.Pdu.
Import ListNotations.
Open Scope Z_scope.

Inductive skind := KRaw | KLdl | KDlc.
Inductive sstate := SShutdown | SClosed | SListen | SConnect | SEstablished | SDisconnect | SCloseWait.
Definition sstate_eqb (a b : sstate) : bool :=
  match a, b with
  | SShutdown, SShutdown | SClosed, SClosed | SListen, SListen | SConnect, SConnect
  | SEstablished, SEstablished | SDisconnect, SDisconnect | SCloseWait, SCloseWait => true
  | _, _ => false
  end.

Record sock := mksock {
  kind : skind; state : sstate; addr : option Z; peer : option Z;
  recv_queue : list pdu; recv_buf : Z; recv_miu : Z; send_queue : list pdu;
  recv_cnt : Z; recv_ack : Z; send_cnt : Z; send_ack : Z; acks_recvd : Z; send_busy : bool }.

Definition set_state (s : sock) (st : sstate) : sock :=
  mksock (kind s) st (addr s) (peer s) (recv_queue s) (recv_buf s) (recv_miu s) (send_queue s)
         (recv_cnt s) (recv_ack s) (send_cnt s) (send_ack s) (acks_recvd s) (send_busy s).
Definition set_rq (s : sock) (q : list pdu) : sock :=
  mksock (kind s) (state s) (addr s) (peer s) q (recv_buf s) (recv_miu s) (send_queue s)
         (recv_cnt s) (recv_ack s) (send_cnt s) (send_ack s) (acks_recvd s) (send_busy s).
Definition set_sq (s : sock) (q : list pdu) : sock :=
  mksock (kind s) (state s) (addr s) (peer s) (recv_queue s) (recv_buf s) (recv_miu s) q
         (recv_cnt s) (recv_ack s) (send_cnt s) (send_ack s) (acks_recvd s) (send_busy s).
Definition set_acks (s : sock) (sack ar : Z) (busy : bool) : sock :=
  mksock (kind s) (state s) (addr s) (peer s) (recv_queue s) (recv_buf s) (recv_miu s) (send_queue s)
         (recv_cnt s) (recv_ack s) (send_cnt s) sack ar busy.
Definition set_recv_cnt (s : sock) (v : Z) : sock :=
  mksock (kind s) (state s) (addr s) (peer s) (recv_queue s) (recv_buf s) (recv_miu s) (send_queue s)
         v (recv_ack s) (send_cnt s) (send_ack s) (acks_recvd s) (send_busy s).

Record sdp := mksdp {
  sd_snl : option (list (list Z * Z));        (* None after shutdown *)
  sd_sent : list (Z * list Z); sd_tids : list Z; sd_sdres : list (Z * Z); sd_dmpdu : list pdu }.

Inductive sapent :=
| SapNone
| SapSdp (sd : sdp)
| SapSap (socks : list sock) (send_list : list pdu).

Record llc := mkllc { saps : list sapent; snl : list (list Z * Z) }.

(* ---------------------------------------------------------------- PDU attributes *)
Definition p_dsap (p : pdu) : Z :=
  match p with
  | Symm d _ | Pax d _ _ _ _ _ _ | Agf d _ _ | UI d _ _ | Connect d _ _ _ _ | Disc d _ | CC d _ _ _ | DM d _ _
  | Frmr d _ _ _ _ _ _ _ _ _ | Snl d _ _ _ | Dps d _ _ _ | Info d _ _ _ _ | RR d _ _ | RNR d _ _ | Unknown _ d _ _ => d
  end.
Definition p_ssap (p : pdu) : Z :=
  match p with
  | Symm _ s | Pax _ s _ _ _ _ _ | Agf _ s _ | UI _ s _ | Connect _ s _ _ _ | Disc _ s | CC _ s _ _ | DM _ s _
  | Frmr _ s _ _ _ _ _ _ _ _ | Snl _ s _ _ | Dps _ s _ _ | Info _ s _ _ _ | RR _ s _ | RNR _ s _ | Unknown _ _ s _ => s
  end.
Definition p_ptype (p : pdu) : Z :=
  match p with
  | Symm _ _ => 0 | Pax _ _ _ _ _ _ _ => 1 | Agf _ _ _ => 2 | UI _ _ _ => 3 | Connect _ _ _ _ _ => 4 | Disc _ _ => 5
  | CC _ _ _ _ => 6 | DM _ _ _ => 7 | Frmr _ _ _ _ _ _ _ _ _ _ => 8 | Snl _ _ _ _ => 9 | Dps _ _ _ _ => 10
  | Info _ _ _ _ _ => 12 | RR _ _ _ => 13 | RNR _ _ _ => 14 | Unknown t _ _ _ => t
  end.
(* rcvd_pdu.name in DataLinkConnection.DLC_PDU_NAMES *)
Definition is_dlc_pdu (p : pdu) : bool :=
  match p with
  | Connect _ _ _ _ _ | Disc _ _ | CC _ _ _ _ | DM _ _ _ | Frmr _ _ _ _ _ _ _ _ _ _ | Info _ _ _ _ _ | RR _ _ _ | RNR _ _ _ => true
  | _ => false
  end.
Definition is_connect (p : pdu) : bool := match p with Connect _ _ _ _ _ => true | _ => false end.

(* pdu.FrameReject.from_pdu(pdu, flags, dlc) *)
Definition frmr_from (p : pdu) (flags : Z) (s : sock) : pdu :=
  let ns := match p with Info _ _ ns _ _ => ns | _ => 0 end in
  let nr := match p with Info _ _ _ nr _ | RR _ _ nr | RNR _ _ nr => nr | _ => 0 end in
  Frmr (p_ssap p) (p_dsap p) flags (p_ptype p) ns nr (send_cnt s) (recv_cnt s) (send_ack s) (recv_ack s).

(* ---------------------------------------------------------------- sockets *)
(* TransmissionControlObject.enqueue *)
Definition base_enqueue (s : sock) (p : pdu) : sock * bool :=
  if len (recv_queue s) <? recv_buf s then (set_rq s (recv_queue s ++ [p]), true) else (s, false).

Definition is_bound (s : sock) : bool := match addr s with Some _ => true | None => false end.

(* TransmissionControlObject.close *)
Definition base_close (s : sock) : sock := set_state (set_rq (set_sq s []) []) SShutdown.

(* DataLinkConnection.close() executed by the link thread *)
Definition dlc_close (s : sock) : res sock :=
  if sstate_eqb (state s) SEstablished && is_bound s then
    (* state := DISCONNECT; send_queue.append(DISC); recv(): pop, or wait for the DM that only this thread could deliver *)
    match recv_queue s with
    | [] => Hang
    | _ :: q => Ok (base_close (set_rq (set_state s SDisconnect) q))
    end
  else Ok (base_close s).

Definition dlc_established (s : sock) (p : pdu) : res sock :=
  let frmr :=
    match p with
    | Info _ _ ns _ data =>
        if len data >? recv_miu s then Some (frmr_from p 4 s)
        else if negb (ns =? recv_cnt s) then Some (frmr_from p 1 s) else None
    | _ => None
    end in
  match frmr with
  | Some f => Ok (set_sq s [f])
  | None =>
      match p with
      | Frmr _ _ _ _ _ _ _ _ _ _ => dlc_close (set_state s SShutdown)
      | Disc _ _ =>
          Ok (set_sq (set_state s SCloseWait)
                     [DM (match peer s with Some x => x | None => 0 end) (match addr s with Some x => x | None => 0 end) 0])
      | Info _ _ _ nr _ | RR _ _ nr | RNR _ _ nr =>
          let acks := (nr - send_ack s) mod 16 in
          let busy := match p with RNR _ _ _ => true | RR _ _ _ => false | _ => send_busy s end in
          let s1 := if acks =? 0 then set_acks s (send_ack s) (acks_recvd s) busy
                    else set_acks s nr (acks_recvd s + acks) busy in
          match p with
          | Info _ _ _ _ _ => Ok (fst (base_enqueue (set_recv_cnt s1 ((recv_cnt s1 + 1) mod 16)) p))
          | _ => Ok s1
          end
      | _ => Ok s
      end
  end.

Definition dlc_enqueue (orig : bool) (s : sock) (p : pdu) : res sock :=
  if negb (is_dlc_pdu p) then
    let f := frmr_from p 8 s in
    if orig then (do s' <- dlc_close s; Ok (set_sq s' (send_queue s' ++ [f])))
    else if sstate_eqb (state s) SEstablished then Ok (set_sq s [f])
    else (do s' <- dlc_close s; Ok (set_sq s' (send_queue s' ++ [f])))
  else
  match state s with
  | SClosed => Ok (set_sq s (send_queue s ++ [DM (p_ssap p) (p_dsap p) 1]))
  | SListen =>
      if is_connect p then
        let (s', ok) := base_enqueue s p in
        if ok then Ok s' else Ok (set_sq s' (send_queue s' ++ [DM (p_ssap p) (p_dsap p) 32]))
      else Ok s
  | SConnect => match p with CC _ _ _ _ | DM _ _ _ => Ok (set_rq s (recv_queue s ++ [p])) | _ => Ok s end
  | SDisconnect => match p with DM _ _ _ => Ok (set_rq s (recv_queue s ++ [p])) | _ => Ok s end
  | SEstablished => dlc_established s p
  | _ => Ok s
  end.

Definition ldl_enqueue (s : sock) (p : pdu) : sock :=
  match p with
  | UI _ _ data => if len data >? recv_miu s then s else fst (base_enqueue s p)
  | _ => s
  end.

Definition sock_enqueue (orig : bool) (s : sock) (p : pdu) : res sock :=
  match kind s with
  | KRaw => Ok (fst (base_enqueue s p))
  | KLdl => Ok (ldl_enqueue s p)
  | KDlc => dlc_enqueue orig s p
  end.

(* ---------------------------------------------------------------- ServiceAccessPoint.enqueue *)
(* for socket in self.sock_list: if <test>: socket.enqueue(rcvd_pdu); break   else: <nobody> *)
Fixpoint first_sock (test : sock -> bool) (f : sock -> res sock) (l : list sock) : res (option (list sock)) :=
  match l with
  | [] => Ok None
  | s :: r => if test s then (do s' <- f s; Ok (Some (s' :: r)))
              else (do r' <- first_sock test f r; Ok (match r' with Some r'' => Some (s :: r'') | None => None end))
  end.

Definition peer_matches (p : pdu) (s : sock) : bool :=
  match peer s with None => true | Some x => p_ssap p =? x end.

Definition sap_enqueue (orig : bool) (socks : list sock) (sl : list pdu) (p : pdu) : res (list sock * list pdu) :=
  if is_connect p then
    do r <- first_sock (fun s => sstate_eqb (state s) SListen) (fun s => sock_enqueue orig s p) socks;
    match r with
    | Some socks' => Ok (socks', sl)
    | None => Ok (socks, sl ++ [DM (p_ssap p) (p_dsap p) 2])
    end
  else
    do r <- first_sock (peer_matches p) (fun s => sock_enqueue orig s p) socks;
    match r with
    | Some socks' => Ok (socks', sl)
    | None => if is_dlc_pdu p then Ok (socks, sl ++ [DM (p_ssap p) (p_dsap p) 1]) else Ok (socks, sl)
    end.

(* ---------------------------------------------------------------- ServiceDiscovery.enqueue *)
Fixpoint alist_get {A} (k : Z) (l : list (Z * A)) : option A :=
  match l with [] => None | (a, v) :: r => if a =? k then Some v else alist_get k r end.
Fixpoint name_get (k : list Z) (l : list (list Z * Z)) : option Z :=
  match l with [] => None | (a, v) :: r => if list_eqb a k then Some v else name_get k r end.
Fixpoint name_set (k : list Z) (v : Z) (l : list (list Z * Z)) : list (list Z * Z) :=
  match l with [] => [(k, v)] | (a, w) :: r => if list_eqb a k then (a, v) :: r else (a, w) :: name_set k v r end.

Definition sdres_step (sd : sdp) (e : Z * Z) : sdp :=
  match sd_snl sd with
  | None => sd
  | Some m =>
      match alist_get (fst e) (sd_sent sd) with
      | None => sd
      | Some name =>
          let sap := snd e in
          let sap' := if Z.land (Z.shiftr sap 6) 1 =? 1 then 1 else Z.land sap 63 in
          mksdp (Some (name_set name sap' m)) (sd_sent sd) (sd_tids sd ++ [fst e]) (sd_sdres sd) (sd_dmpdu sd)
      end
  end.
Definition sdreq_step (names : list (list Z * Z)) (sd : sdp) (e : Z * list Z) : sdp :=
  let sap := match name_get (snd e) names with Some a => a | None => 0 end in
  mksdp (sd_snl sd) (sd_sent sd) (sd_tids sd) (sd_sdres sd ++ [(fst e, sap)]) (sd_dmpdu sd).

Definition sdp_enqueue (names : list (list Z * Z)) (sd : sdp) (p : pdu) : sdp :=
  match p, sd_snl sd with
  | Snl _ _ rq rs, Some _ => fold_left (sdreq_step names) rq (fold_left sdres_step rs sd)
  | _, _ => sd
  end.

(* ---------------------------------------------------------------- LogicalLinkController.dispatch *)
Definition sap_at (st : llc) (i : Z) : res sapent :=
  if i <? 0 then Crash IndexErr else
  match nth_error (saps st) (Z.to_nat i) with Some e => Ok e | None => Crash IndexErr end.
Fixpoint set_at {A} (n : nat) (x : A) (l : list A) : list A :=
  match l, n with [], _ => [] | _ :: t, O => x :: t | h :: t, S n' => h :: set_at n' x t end.
Definition with_sap (st : llc) (i : Z) (e : sapent) : llc := mkllc (set_at (Z.to_nat i) e (saps st)) (snl st).

(* with self.lock: sap = self.sap[rcvd_pdu.dsap]; if sap: sap.enqueue(rcvd_pdu) *)
Definition deliver (orig : bool) (st : llc) (p : pdu) : res llc :=
  do e <- sap_at st (p_dsap p);
  match e with
  | SapNone => Ok st
  | SapSdp sd => Ok (with_sap st (p_dsap p) (SapSdp (sdp_enqueue (snl st) sd p)))
  | SapSap socks sl =>
      do (socks', sl') <- sap_enqueue orig socks sl p; Ok (with_sap st (p_dsap p) (SapSap socks' sl'))
  end.

(* connect-by-name: the CONNECT addressed to SAP 1 is rewritten or answered with DM through sap[1].dmpdu *)
Definition connect_by_name (orig : bool) (st : llc) (ssap miu rw : Z) (sn : option (list Z)) : res llc :=
  let addr := match sn with Some n => name_get n (snl st) | None => None end in
  do known <- match addr with
              | None => Ok false
              | Some a => if a =? 0 then Ok false else
                          (do e <- sap_at st a; Ok (match e with SapNone => false | _ => true end))
              end;
  if negb known then
    do e1 <- sap_at st 1;
    match e1 with
    | SapSdp sd =>
        let reason := match sn with None => 16 | Some _ => 2 end in
        Ok (with_sap st 1 (SapSdp (mksdp (sd_snl sd) (sd_sent sd) (sd_tids sd) (sd_sdres sd)
                                         (sd_dmpdu sd ++ [DM ssap 1 reason]))))
    | _ => Crash AttributeErr                    (* self.sap[1].dmpdu on something that is no ServiceDiscovery *)
    end
  else deliver orig st (Connect (match addr with Some a => a | None => 0 end) ssap miu rw None).

Fixpoint dispatch (orig : bool) (st : llc) (p : pdu) {struct p} : res llc :=
  match p with
  | Symm _ _ => Ok st
  | Agf d s l =>
      if (d =? 0) && (s =? 0) then
        (fix go (st : llc) (l : list pdu) {struct l} : res llc :=
           match l with [] => Ok st | q :: r => do st' <- dispatch orig st q; go st' r end) st l
      else Ok st
  | Connect d s miu rw sn => if d =? 1 then connect_by_name orig st s miu rw sn else deliver orig st p
  | _ => deliver orig st p
  end.

(* one round of the run loop on raw bytes: pdu.decode then dispatch (what llc.exchange + dispatch do with the
   peer's bytes; a DecodeError is logged inside exchange and ends the link in an orderly way) *)
Inductive round_result := Dispatched (st : llc) | LinkDisrupted.
Definition receive (orig : bool) (st : llc) (data : list Z) : res round_result :=
  match decode data 0 (len data) with
  | Ok p => do st' <- dispatch orig st p; Ok (Dispatched st')
  | Err DecodeError => Ok LinkDisrupted
  | Err e => Err e
  | Crash c => Crash c
  | Hang => Hang
  end.
