(* C09 - life cycle of LLCP sockets as a multi-thread transition system (hand model).

   Sources: src/nfc/llcp/tco.py (TransmissionControlObject, RawAccessPoint, LogicalDataLink,
   DataLinkConnection: poll/send/recv/accept/connect/listen/close, enqueue/dequeue),
   src/nfc/llcp/llc.py (ServiceAccessPoint.shutdown/remove_socket, ServiceDiscovery.resolve/shutdown,
   LogicalLinkController.terminate/resolve/bind/connect/listen/accept/sendto/recvfrom/poll/close),
   src/nfc/snep/server.py, src/nfc/handover/server.py (thread bodies).

   Conventions (DESIGN.md section 5, Threads):
   * every socket has ONE re-entrant lock and all its condition variables are built on it; the
     service discovery object uses llc.lock.  The code a thread executes during one continuous hold
     of that lock is an atomic SEGMENT ([seg] below: socket state in, socket state + notifications +
     what the thread does next out).  A wait() ends a segment (the lock is released completely) and
     the thread stays Blocked until a notification (or time-out) arrives; the code after the wait
     is the next segment.  Reads of shared state made OUTSIDE the lock (llc-level pre-checks such as
     "socket.addr and self.sap[socket.addr]", "self.sap[1]", and - in the unrepaired code - the
     state.SHUTDOWN tests of RawAccessPoint/LogicalDataLink/DataLinkConnection.poll) are separate
     steps.
   * threads: any number of application threads (ids are nat) + the link thread.  A schedule is a
     list of labels; all theorems quantify over all schedules.
   * the link thread's enqueue of a PDU ([LEnq]) is ONE step (state test and append under the socket
     lock).  For DataLinkConnection.enqueue this is true only after fixes/c09-8 (before it the state
     was tested outside the lock, a close() by another thread could fall between test and append,
     and a CC queued to the closed socket made connect() revive it: see revive_needs_empty_queue in
     Proofs/LlcLife.v and the invariant "a closed DLC has an empty receive queue" it motivates; the
     harness checks that invariant on every observed segment).
   * variant Fixed is the code after fixes/c09-1..8 (the code the theorems are about); variant Orig
     keeps the unrepaired behaviour where it differs (used for the refutation witnesses only).
   * abstractions (stated, not hidden): PDUs are reduced to their kind ([item]); the send queue to
     its length; names/addresses to an oracle bit carried by the label (address free, name already
     resolved, service access point still alive); sequence numbers and recv_confs are left to C05;
     EMSGSIZE/EDESTADDRREQ argument errors are not modelled (arguments are assumed valid);
     timeouts are a spurious notification ([LTimeout]). *)
From Coq Require Import ZArith List Bool Arith.
From NV Require Import Base.Result.
Import ListNotations.

Inductive sstate := SHUTDOWN | CLOSED | LISTEN | CONNECT | ESTABLISHED | DISCONNECT | CLOSE_WAIT.
Inductive kind := RAW | LDL | DLC | SDP.            (* SDP: the ServiceDiscovery object, state SHUTDOWN <-> snl is None *)
Inductive item := ICONNECT | ICC | IDM | II | IDISC | IOTHER.
Inductive cond := RecvReady | SendReady | AcksReady | SendToken | Resp.
Inductive variant := Orig | Fixed.
Inductive pev := PollRecv | PollSend | PollAcks.

Definition sstate_eqb (a b : sstate) : bool :=
  match a, b with
  | SHUTDOWN, SHUTDOWN | CLOSED, CLOSED | LISTEN, LISTEN | CONNECT, CONNECT
  | ESTABLISHED, ESTABLISHED | DISCONNECT, DISCONNECT | CLOSE_WAIT, CLOSE_WAIT => true
  | _, _ => false
  end.
Definition cond_eqb (a b : cond) : bool :=
  match a, b with
  | RecvReady, RecvReady | SendReady, SendReady | AcksReady, AcksReady | SendToken, SendToken | Resp, Resp => true
  | _, _ => false
  end.

Record sock := mkSock {
  kd : kind; st : sstate;
  bound : bool;          (* socket.addr is not None *)
  intab : bool;          (* member of llc.sap[addr].sock_list (for SDP: llc.sap[1] is this object) *)
  tabled : bool;         (* ghost: has been in the table at some time *)
  rq : list item;        (* recv_queue *)
  sq : nat;              (* len(send_queue) / len(sdreq) *)
  rbuf : nat; sbuf : nat;
  slots : nat;           (* send_window_slots *)
  acks : nat;            (* acks_recvd *)
  srv : bool             (* ghost: accepted by a server's accept loop, i.e. referenced only by that
                            loop and then by the one serve thread it starts (snep/handover server.py) *)
}.

Definition set_st (s : sock) (x : sstate) : sock :=
  mkSock (kd s) x (bound s) (intab s) (tabled s) (rq s) (sq s) (rbuf s) (sbuf s) (slots s) (acks s) (srv s).
Definition set_rq (s : sock) (q : list item) : sock :=
  mkSock (kd s) (st s) (bound s) (intab s) (tabled s) q (sq s) (rbuf s) (sbuf s) (slots s) (acks s) (srv s).
Definition set_sq (s : sock) (n : nat) : sock :=
  mkSock (kd s) (st s) (bound s) (intab s) (tabled s) (rq s) n (rbuf s) (sbuf s) (slots s) (acks s) (srv s).
Definition set_rbuf (s : sock) (n : nat) : sock :=
  mkSock (kd s) (st s) (bound s) (intab s) (tabled s) (rq s) (sq s) n (sbuf s) (slots s) (acks s) (srv s).
Definition set_slots (s : sock) (n : nat) : sock :=
  mkSock (kd s) (st s) (bound s) (intab s) (tabled s) (rq s) (sq s) (rbuf s) (sbuf s) n (acks s) (srv s).
Definition set_acks (s : sock) (n : nat) : sock :=
  mkSock (kd s) (st s) (bound s) (intab s) (tabled s) (rq s) (sq s) (rbuf s) (sbuf s) (slots s) n (srv s).
(* socket.bind(addr) + sap.insert_socket(socket) *)
Definition set_bind (s : sock) : sock :=
  mkSock (kd s) (st s) true true true (rq s) (sq s) (rbuf s) (sbuf s) (slots s) (acks s) (srv s).
(* sock_list.pop(); socket.bind(None)   (ServiceAccessPoint.shutdown) *)
Definition set_popped (s : sock) : sock :=
  mkSock (kd s) (st s) false false (tabled s) (rq s) (sq s) (rbuf s) (sbuf s) (slots s) (acks s) (srv s).
(* sock_list.remove(socket)   (ServiceAccessPoint.remove_socket; the address stays) *)
Definition set_removed (s : sock) : sock :=
  mkSock (kd s) (st s) (bound s) false (tabled s) (rq s) (sq s) (rbuf s) (sbuf s) (slots s) (acks s) (srv s).

Definition set_srv (s : sock) (b : bool) : sock :=
  mkSock (kd s) (st s) (bound s) (intab s) (tabled s) (rq s) (sq s) (rbuf s) (sbuf s) (slots s) (acks s) b.

Definition fresh (k : kind) : sock :=
  mkSock k (match k with DLC => CLOSED | _ => ESTABLISHED end) false false false [] 0 1 1 0 0 false.
Definition client_sock : sock :=          (* the socket DataLinkConnection.accept() builds, once inserted *)
  mkSock DLC ESTABLISHED true true true [] 0 1 1 1 0 false.
Definition sdp_sock : sock := mkSock SDP ESTABLISHED true true true [] 0 1 1 0 0 false.

(* errno values *)
Definition EBADF := 9%Z.      Definition EWOULDBLOCK := 11%Z.  Definition EINVAL := 22%Z.
Definition EPIPE := 32%Z.     Definition ENOTSUP := 95%Z.      Definition EADDRINUSE := 98%Z.
Definition EISCONN := 106%Z.  Definition ENOTCONN := 107%Z.    Definition ESHUTDOWN := 108%Z.
Definition ECONNREFUSED := 111%Z.  Definition EALREADY := 114%Z.
Inductive rv := VNone | VBool (b : bool) | VData | VSock (o : nat) | VAddr.
Definition eret (e : Z) : res rv := Err (LlcpError e).

(* program points: where a thread is between two segments of a socket call *)
Inductive point :=
| PRecv0 | PRecv1 | PRecv2
| PPoll0 (e : pev) | PPoll1 (e : pev) | PPoll2 (e : pev)
| PSend0 (dw : bool) | PSendBind (dw : bool) | PSend0b (dw : bool) | PSend1 (dw : bool) | PSend2 | PSend3
| PAcc1 | PAcc2 | PAcc3 (cb : bool) | PAcc4
| PConn0 | PConnBind | PConn1 | PConn2
| PLis0 | PLisBind | PLis1
| PBind0 | PBind1
| PClose0 | PClose2 (via : bool) | PClose3 (via : bool) | PClose4
| PRes0 | PRes1 | PRes2.

Definition kind_eqb (a b : kind) : bool :=
  match a, b with RAW, RAW | LDL, LDL | DLC, DLC | SDP, SDP => true | _, _ => false end.

(* which kind of object a call at point p works on (resolve() works on the service discovery
   object, everything else on sockets; accept/listen/connect continuations only exist for DLC;
   connect() is not defined for raw access points - AttributeError in nfcpy, a programming error) *)
Definition pk (p : point) (k : kind) : bool :=
  match p with
  | PRes0 | PRes1 | PRes2 => kind_eqb k SDP
  | PAcc2 | PAcc3 _ | PAcc4 | PConn1 | PConn2 | PLis1 | PLisBind | PSend2 | PClose3 _ => kind_eqb k DLC
  | PConn0 | PConnBind => kind_eqb k DLC || kind_eqb k LDL
  | _ => negb (kind_eqb k SDP)
  end.

Inductive act :=
| AGoto (p : point)                    (* segment over, lock released, the call continues at p *)
| AWait (c : cond) (p : point)         (* c.wait(): release the lock, block; continue at p when woken *)
| ARet (r : res rv)                    (* the call returns / raises *)
| AAlloc (s : sock).                   (* a new socket object becomes visible; the call returns it *)

Record segout := mkOut { o_sock : sock; o_nall : list cond; o_act : act }.
Definition out (s : sock) (a : act) : segout := mkOut s [] a.

(* does the segment at p run under llc.lock?  (it cannot run while terminate() holds that lock) *)
Definition needs_llc_lock (p : point) : bool :=
  match p with
  | PSendBind _ | PConnBind | PLisBind | PBind1 | PClose4 | PRes1 | PRes2 | PAcc4 => true
  | PAcc3 _ => true
  | _ => false
  end.

(* TransmissionControlObject.close() and the notifications DataLinkConnection.close() adds *)
Definition tco_close (s : sock) : sock := set_st (set_rq (set_sq s 0) []) SHUTDOWN.
Definition close_conds (k : kind) : list cond :=
  match k with DLC => [SendReady; RecvReady; AcksReady; SendToken] | SDP => [Resp] | _ => [SendReady; RecvReady] end.

Definition is_shut (s : sock) : bool := sstate_eqb (st s) SHUTDOWN.
Definition est_or_cw (s : sock) : bool := sstate_eqb (st s) ESTABLISHED || sstate_eqb (st s) CLOSE_WAIT.
Definition is_est (s : sock) : bool := sstate_eqb (st s) ESTABLISHED.

(* what DataLinkConnection.recv() does with the PDU it took from the queue (s: queue already popped) *)
Definition dlc_recv_item (s : sock) (x : item) : segout :=
  match x with
  | II => out s (ARet (Ok VData))
  | IDISC => mkOut (tco_close s) (close_conds DLC) (ARet (Ok VNone))     (* self.close(); return None *)
  | _ => out s (ARet (Err RuntimeErr))
  end.

Definition recv_tail (s : sock) (x : item) (r : list item) : segout :=
  match kd s with
  | DLC => dlc_recv_item (set_rq s r) x
  | _ => out (set_rq s r) (ARet (Ok VData))
  end.

(* DataLinkConnection.accept() after the CONNECT was taken from the queue *)
Definition accept_item (s : sock) (x : item) (r : list item) : segout :=
  match x with
  | ICONNECT => out (set_sq (set_rbuf (set_rq s r) (pred (rbuf s))) (S (sq s))) (AGoto (PAcc3 (bound s)))
  | _ => out (set_rq s r) (ARet (Err RuntimeErr))
  end.

Definition connect_item (s : sock) (x : item) (r : list item) : segout :=
  match x with
  | IDM => out (set_st (set_rq s r) CLOSED) (ARet (eret ECONNREFUSED))
  | ICC => out (set_slots (set_st (set_rq s r) ESTABLISHED) 1) (ARet (Ok VNone))    (* send_win := RW of the CC, taken as the default 1 *)
  | _ => out (set_rq s r) (ARet (Err RuntimeErr))
  end.

(* the common tail of close(): TransmissionControlObject.close() + notify_all on every condition *)
Definition close_tail (s : sock) (via : bool) : segout :=
  mkOut (tco_close s) (close_conds (kd s)) (if via then AGoto PClose4 else ARet (Ok VNone)).

Definition dlc_send_body (s : sock) (dw : bool) : segout :=
  (* inside "with self.send_token", state ESTABLISHED already tested by the caller of this helper *)
  if Nat.eqb (slots s) 0 then
    (if dw then out s (ARet (eret EWOULDBLOCK)) else out s (AWait SendToken PSend2))
  else
    let s' := set_slots (set_sq s (S (sq s))) (pred (slots s)) in
    if dw then out s' (ARet (Ok (VBool true))) else out s' (AWait SendReady PSend3).

(* One segment.  v: code variant; p: where the thread is; s: the socket the call works on;
   term: "self.sap[1] is None" (terminate() has removed the service discovery access point);
   orc: oracle bit for abstracted data (see header). *)
Definition seg (v : variant) (p : point) (s : sock) (term : bool) (orc : bool) : segout :=
  match p with
  (* ---- llc.recv / llc.recvfrom -> socket.recv / recvfrom --------------------------------- *)
  | PRecv0 =>
      if negb (bound s && intab s) then out s (ARet (eret EBADF))
      else match v, kd s with
           | Orig, RAW | Orig, LDL => if is_shut s then out s (ARet (eret ESHUTDOWN)) else out s (AGoto PRecv1)
           | _, _ => out s (AGoto PRecv1)
           end
  | PRecv1 =>
      match kd s with
      | DLC => if negb (est_or_cw s) then out s (ARet (eret ENOTCONN))
               else match rq s with x :: r => recv_tail s x r | [] => out s (AWait RecvReady PRecv2) end
      | _ => if (match v with Fixed => is_shut s | Orig => false end) then out s (ARet (eret ESHUTDOWN))
             else match rq s with x :: r => recv_tail s x r | [] => out s (AWait RecvReady PRecv2) end
      end
  | PRecv2 =>
      match rq s with
      | x :: r => recv_tail s x r
      | [] => match kd s with DLC => out s (ARet (Ok VNone)) | _ => out s (ARet (eret EPIPE)) end
      end
  (* ---- llc.poll -> socket.poll -------------------------------------------------------------- *)
  | PPoll0 e =>
      if negb (bound s && intab s) then out s (ARet (eret EBADF))
      else match v with
           | Fixed => out s (AGoto (PPoll1 e))
           | Orig => if is_shut s then out s (ARet (eret ESHUTDOWN))
                     else match kd s, e with
                          | DLC, PollRecv => if est_or_cw s then out s (AGoto (PPoll1 e)) else out s (ARet (Ok VNone))
                          | DLC, PollSend => if is_est s then out s (AGoto (PPoll1 e)) else out s (ARet (Ok VNone))
                          | DLC, PollAcks => out s (AGoto (PPoll1 e))
                          | _, PollAcks => out s (ARet (eret EINVAL))
                          | _, _ => out s (AGoto (PPoll1 e))
                          end
           end
  | PPoll1 e =>
      if (match v with Fixed => is_shut s | Orig => false end) then out s (ARet (eret ESHUTDOWN))
      else match kd s, e with
           | DLC, PollRecv =>
               if (match v with Fixed => est_or_cw s | Orig => true end) then
                 match rq s with
                 | [] => out s (AWait RecvReady (PPoll2 e))
                 | x :: _ => if est_or_cw s then out s (ARet (Ok (VBool (match x with II => true | _ => false end))))
                             else out s (ARet (Ok VNone))
                 end
               else out s (ARet (Ok VNone))
           | DLC, PollSend =>
               if (match v with Fixed => is_est s | Orig => true end) then
                 (if Nat.leb (sbuf s) (sq s) then out s (AWait SendReady (PPoll2 e))
                  else out s (ARet (Ok (VBool (is_est s)))))
               else out s (ARet (Ok VNone))
           | DLC, PollAcks =>
               if Nat.eqb (acks s) 0 then out s (AWait AcksReady (PPoll2 e))
               else out (set_acks s (pred (acks s))) (ARet (Ok (VBool true)))
           | _, PollAcks => out s (ARet (eret EINVAL))
           | _, PollRecv =>
               match rq s with [] => out s (AWait RecvReady (PPoll2 e)) | _ :: _ => out s (ARet (Ok (VBool true))) end
           | _, PollSend =>
               if Nat.leb (sbuf s) (sq s) then out s (AWait SendReady (PPoll2 e)) else out s (ARet (Ok (VBool true)))
           end
  | PPoll2 e =>
      match kd s, e with
      | DLC, PollRecv =>
          if est_or_cw s then out s (ARet (Ok (VBool (match rq s with II :: _ => true | _ => false end))))
          else out s (ARet (Ok VNone))
      | DLC, PollSend =>
          if Nat.ltb (sq s) (sbuf s) then out s (ARet (Ok (VBool (is_est s)))) else out s (ARet (Ok (VBool false)))
      | DLC, PollAcks =>
          if Nat.eqb (acks s) 0 then out s (ARet (Ok (VBool false)))
          else out (set_acks s (pred (acks s))) (ARet (Ok (VBool true)))
      | _, PollRecv => out s (ARet (Ok (VBool (match rq s with [] => false | _ => true end))))
      | _, _ => out s (ARet (Ok (VBool true)))
      end
  (* ---- llc.send / llc.sendto -> socket.send / sendto ------------------------------------------ *)
  | PSend0 dw =>
      match kd s with
      | DLC => out s (AGoto (PSend1 dw))
      | _ => if bound s then out s (AGoto (PSend0b dw)) else out s (AGoto (PSendBind dw))
      end
  | PSendBind dw =>
      if (match v with Fixed => term | Orig => false end) then out s (ARet (eret ESHUTDOWN))
      else out (set_bind s) (AGoto (PSend0b dw))
  | PSend0b dw =>
      match v with
      | Orig => if is_shut s then out s (ARet (eret ESHUTDOWN)) else out s (AGoto (PSend1 dw))
      | Fixed => out s (AGoto (PSend1 dw))
      end
  | PSend1 dw =>
      match kd s with
      | DLC => if negb (is_est s) then
                 out s (ARet (eret (if sstate_eqb (st s) CLOSE_WAIT then EPIPE else ENOTCONN)))
               else dlc_send_body s dw
      | _ => if (match v with Fixed => is_shut s | Orig => false end) then out s (ARet (eret ESHUTDOWN))
             else let s' := set_sq s (S (sq s)) in
                  if dw then out s' (ARet (Ok (VBool (is_est s)))) else out s' (AWait SendReady PSend3)
      end
  | PSend2 =>        (* woken on send_token: "while send_window_slots == 0 and ESTABLISHED" is re-evaluated *)
      if is_est s then dlc_send_body s false else out s (ARet (Ok (VBool false)))
  | PSend3 => out s (ARet (Ok (VBool (is_est s))))
  (* ---- llc.accept -> DataLinkConnection.accept ------------------------------------------------- *)
  | PAcc1 =>
      match kd s with
      | DLC =>
          if is_shut s then out s (ARet (eret ESHUTDOWN))
          else if negb (sstate_eqb (st s) LISTEN) then out s (ARet (eret EINVAL))
          else let s1 := set_rbuf s (S (rbuf s)) in
               match rq s with x :: r => accept_item s1 x r | [] => out s1 (AWait RecvReady PAcc2) end
      | _ => out s (ARet (eret ENOTSUP))
      end
  | PAcc2 => match rq s with x :: r => accept_item s x r | [] => out s (ARet (eret EPIPE)) end
  | PAcc3 cb =>
      (* self.sap[client.addr].insert_socket(client).  alive: that access point still exists *)
      let alive := intab s || (negb term && orc) in
      match v with
      | Fixed => if cb && alive then out s (AAlloc client_sock) else out s (ARet (eret EPIPE))
      | Orig => if negb cb then out s (ARet (Crash TypeErr))
                else if negb alive then out s (ARet (Crash AttributeErr))
                else out s (AGoto PAcc4)       (* the object was read, insert_socket takes llc.lock later *)
      end
  | PAcc4 =>
      (* Orig only: insert into the ServiceAccessPoint object read before; if terminate() ran in
         between, that object is no longer in llc.sap and the client is never shut down *)
      match v with
      | Orig => out s (AAlloc (if term then mkSock DLC ESTABLISHED true false true [] 0 1 1 1 0 false else client_sock))
      | Fixed => out s (ARet (eret EPIPE))       (* not reached: PAcc3 does the insertion under llc.lock *)
      end
  (* ---- llc.connect -> socket.connect --------------------------------------------------------------- *)
  | PConn0 =>
      match kd s with
      | DLC => if bound s then out s (AGoto PConn1) else out s (AGoto PConnBind)
      | LDL => if bound s then
                 (if is_shut s then out s (ARet (eret ESHUTDOWN)) else out s (ARet (Ok VNone)))
               else out s (AGoto PConnBind)
      | _ => out s (ARet (Crash AttributeErr))
      end
  | PConnBind =>
      if (match v with Fixed => term | Orig => false end) then out s (ARet (eret ESHUTDOWN))
      else match kd s with
           | DLC => out (set_bind s) (AGoto PConn1)
           | _ => out (set_bind s) (ARet (Ok VNone))
           end
  | PConn1 =>
      if negb (sstate_eqb (st s) CLOSED) then
        out s (ARet (eret (match st s with ESTABLISHED => EISCONN | CONNECT => EALREADY | _ => EPIPE end)))
      else let s1 := set_sq (set_st s CONNECT) (S (sq s)) in
           match rq s with x :: r => connect_item s1 x r | [] => out s1 (AWait RecvReady PConn2) end
  | PConn2 => match rq s with x :: r => connect_item s x r | [] => out s (ARet (eret EPIPE)) end
  (* ---- llc.listen ------------------------------------------------------------------------------------ *)
  | PLis0 =>
      match kd s with
      | DLC => if bound s then out s (AGoto PLis1) else out s (AGoto PLisBind)
      | _ => out s (ARet (eret ENOTSUP))
      end
  | PLisBind =>
      if (match v with Fixed => term | Orig => false end) then out s (ARet (eret ESHUTDOWN))
      else out (set_bind s) (AGoto PLis1)
  | PLis1 =>
      if is_shut s then out s (ARet (eret ESHUTDOWN))
      else if negb (sstate_eqb (st s) CLOSED) then out s (ARet (eret ENOTSUP))
      else out (set_st s LISTEN) (ARet (Ok VNone))
  (* ---- llc.bind ---------------------------------------------------------------------------------------- *)
  | PBind0 => if bound s then out s (ARet (eret EINVAL)) else out s (AGoto PBind1)
  | PBind1 =>
      if (match v with Fixed => term | Orig => false end) then out s (ARet (eret ESHUTDOWN))
      else if orc then out (set_bind s) (ARet (Ok VNone)) else out s (ARet (eret EADDRINUSE))
  (* ---- llc.close -> sap.remove_socket / socket.close ----------------------------------------------------- *)
  | PClose0 =>
      (* sap = self.sap[socket.addr]: alive while this socket, or (oracle) another one, is in it *)
      let alive := intab s || (negb term && orc) in
      if bound s then
        (if alive then out s (AGoto (PClose2 true))
         else match v with Fixed => out s (AGoto (PClose2 false)) | Orig => out s (ARet (Crash AttributeErr)) end)
      else out s (AGoto (PClose2 false))
  | PClose2 via =>
      match kd s with
      | DLC =>
          if is_est s && bound s then
            (* state DISCONNECT, DISC queued, wait for the DM *)
            let s1 := set_sq (set_st s DISCONNECT) (S (sq s)) in
            match rq s with
            | _ :: r => close_tail (set_rq s1 r) via
            | [] => mkOut s1 [SendToken; AcksReady] (AWait RecvReady (PClose3 via))
            end
          else close_tail s via
      | _ => close_tail s via
      end
  | PClose3 via => close_tail s via
  | PClose4 => out (set_removed s) (ARet (Ok VNone))
  (* ---- llc.resolve -> ServiceDiscovery.resolve (s is the service discovery object) ------------------------ *)
  | PRes0 =>
      if term then out s (ARet (match v with Fixed => Ok VNone | Orig => Crash AttributeErr end))
      else out s (AGoto PRes1)
  | PRes1 =>
      if is_shut s then out s (ARet (Ok VNone))
      else if orc then out s (ARet (Ok VAddr))
      else out (set_sq s (S (sq s))) (AWait Resp PRes2)
  | PRes2 =>
      if is_shut s then out s (ARet (Ok VNone))
      else if orc then out s (ARet (Ok VAddr))
      else out s (AWait Resp PRes2)
  end.

(* ------------------------------------------------------------------------------------------------ *)
(* threads *)
Inductive tstate :=
| Idle
| At (o : nat) (p : point)
| Blocked (o : nat) (c : cond) (p : point) (notified : bool)
| Done (r : res rv).

Inductive exitkind := ExHandler | ExNormal | ExCrash.
Inductive tmode :=
| MApp                                  (* application thread: issues any calls *)
| MListen (ls : nat)                    (* SnepServer._listen / HandoverServer.listen: accept loop *)
| MServe (c : nat) (ph : nat)           (* _serve / serve: poll('recv'), recv, send, ... *)
| MClosing (o : nat) (how : exitkind)   (* the "finally: socket.close()" of a server thread *)
| MExit (how : exitkind).

Record thread := mkThread { ts : tstate; mode : tmode }.

Inductive opr :=
| ORecv (o : nat) | OPoll (o : nat) (e : pev) | OSend (o : nat) (dw : bool) | OAccept (o : nat)
| OConnect (o : nat) | OListen (o : nat) | OBind (o : nat) | OClose (o : nat) | OResolve | ONew (k : kind)
| OServer (ls : nat).                   (* SnepServer(llc).start() on a listening socket *)

Definition entry (op : opr) : option (nat * point) :=
  match op with
  | ORecv o => Some (o, PRecv0) | OPoll o e => Some (o, PPoll0 e) | OSend o dw => Some (o, PSend0 dw)
  | OAccept o => Some (o, PAcc1) | OConnect o => Some (o, PConn0) | OListen o => Some (o, PLis0)
  | OBind o => Some (o, PBind0) | OClose o => Some (o, PClose0) | OResolve => Some (0, PRes0)
  | ONew _ | OServer _ => None
  end.

Inductive lstate := LRun | LTerm | LClosing (o : nat) | LDone.
Inductive deqkind := DqData | DqDM | DqOther | DqFrmr.

Inductive label :=
| TIssue (t : nat) (op : opr)
| TRun (t : nat) (orc : bool)
| TNext (t : nat) (w : nat)             (* a finished call is consumed: back to Idle / next call of a server
                                           thread (w: id of the thread an accept loop starts for the client) *)
| LEnq (o : nat) (x : item) (w : nat)   (* dispatch(): a PDU for socket o; notify() wakes thread w *)
| LDeq (o : nat) (d : deqkind) (w : nat)(* collect(): a PDU of socket o is sent *)
| LAck (o : nat) (n : nat) (w : nat)    (* acknowledgements arrive *)
| LFrmr (o : nat)                       (* FRMR received: state SHUTDOWN, close() *)
| LSdRes                                (* an SNL response arrives: resp.notify_all() *)
| LTimeout (t : nat)                    (* the timeout of a wait(timeout) expires *)
| LTermBegin | LTermPop (o : nat) | LTermClose | LTermSd | LTermEnd.

Record gstate := mkG {
  var : variant;
  sk : nat -> sock;  nsk : nat;
  thr : nat -> thread;
  term : bool;                               (* llc.sap[1] is None *)
  llc_held : bool;                           (* terminate() holds llc.lock (Fixed) *)
  lpc : lstate
}.

Definition upd {A} (f : nat -> A) (i : nat) (x : A) : nat -> A := fun j => if Nat.eqb j i then x else f j.

Definition set_ts (th : thread) (x : tstate) : thread := mkThread x (mode th).

(* c.notify_all() for every c in cs of object o *)
Definition wake_all (thr : nat -> thread) (o : nat) (cs : list cond) : nat -> thread :=
  fun t => match ts (thr t) with
           | Blocked o' c p false =>
               if Nat.eqb o' o && existsb (cond_eqb c) cs then set_ts (thr t) (Blocked o' c p true) else thr t
           | _ => thr t
           end.
(* c.notify(): thread w if it waits on c of o (CPython wakes the longest waiter; any one is allowed here) *)
Definition wake_one (thr : nat -> thread) (o : nat) (c : cond) (w : nat) : nat -> thread :=
  match ts (thr w) with
  | Blocked o' c' p false => if Nat.eqb o' o && cond_eqb c' c then upd thr w (set_ts (thr w) (Blocked o' c' p true)) else thr
  | _ => thr
  end.

Definition init (v : variant) : gstate :=
  mkG v (fun o => if Nat.eqb o 0 then sdp_sock else fresh RAW) 1 (fun _ => mkThread Idle MApp) false false LRun.

Definition all_out_of_table (g : gstate) : bool :=
  forallb (fun o => negb (intab (sk g o))) (seq 1 (pred (nsk g))).

(* a thread executes the segment at point p on object o *)
Definition run_seg (g : gstate) (t : nat) (o : nat) (p : point) (orc : bool) : gstate :=
  let r := seg (var g) p (sk g o) (term g) orc in
  let sk1 := upd (sk g) o (o_sock r) in
  let thr1 := wake_all (thr g) o (o_nall r) in
  let me := thr1 t in
  match o_act r with
  | AGoto q => mkG (var g) sk1 (nsk g) (upd thr1 t (set_ts me (At o q))) (term g) (llc_held g) (lpc g)
  | AWait c q => mkG (var g) sk1 (nsk g) (upd thr1 t (set_ts me (Blocked o c q false))) (term g) (llc_held g) (lpc g)
  | ARet x => mkG (var g) sk1 (nsk g) (upd thr1 t (set_ts me (Done x))) (term g) (llc_held g) (lpc g)
  | AAlloc s => mkG (var g) (upd sk1 (nsk g) (set_srv s (match mode me with MListen _ => true | _ => false end)))
                    (S (nsk g)) (upd thr1 t (set_ts me (Done (Ok (VSock (nsk g))))))
                    (term g) (llc_held g) (lpc g)
  end.

Definition runnable_point (g : gstate) (p : point) : bool := negb (needs_llc_lock p && llc_held g).

(* a thread may only be pointed at an existing object of the right kind *)
Definition ref_ok (g : gstate) (o : nat) (p : point) : bool := Nat.ltb o (nsk g) && pk p (kd (sk g o)).

Definition with_thr (g : gstate) (f : nat -> thread) : gstate :=
  mkG (var g) (sk g) (nsk g) f (term g) (llc_held g) (lpc g).
Definition goto_call (g : gstate) (t : nat) (o : nat) (p : point) (md : tmode) (r : res rv) : gstate :=
  if ref_ok g o p then with_thr g (upd (thr g) t (mkThread (At o p) md))
  else with_thr g (upd (thr g) t (mkThread (Done r) (MExit ExCrash))).
Definition is_free (g : gstate) (w t : nat) : bool :=
  negb (Nat.eqb w t) && match ts (thr g w), mode (thr g w) with Idle, MApp => true | _, _ => false end.

(* what a thread does with the result of its call *)
Definition next_of (g : gstate) (t w : nat) (m : tmode) (r : res rv) : gstate :=
  match m with
  | MApp => with_thr g (upd (thr g) t (mkThread Idle MApp))
  | MListen ls =>
      match r with
      | Ok (VSock c) =>      (* threading.Thread(target=self._serve, args=(client,)).start(); loop *)
          if is_free g w t then
            if ref_ok g c (PPoll0 PollRecv) && ref_ok g ls PAcc1 then
              with_thr g (upd (upd (thr g) t (mkThread (At ls PAcc1) (MListen ls))) w
                              (mkThread (At c (PPoll0 PollRecv)) (MServe c 0)))
            else with_thr g (upd (thr g) t (mkThread (Done r) (MExit ExCrash)))
          else g
      | Err (LlcpError _) => goto_call g t ls PClose0 (MClosing ls ExHandler) r
      | _ => goto_call g t ls PClose0 (MClosing ls ExCrash) r
      end
  | MServe c ph =>
      match r with
      | Err (LlcpError _) => goto_call g t c PClose0 (MClosing c ExHandler) r
      | Ok (VBool true) =>
          match ph with
          | 0 => goto_call g t c PRecv0 (MServe c 1) r                 (* poll('recv') -> recv() *)
          | _ => goto_call g t c (PPoll0 PollRecv) (MServe c 0) r      (* send() done -> poll again *)
          end
      | Ok VData => goto_call g t c (PSend0 false) (MServe c 2) r      (* recv() -> send(response) *)
      | Ok (VBool false) | Ok VNone =>
          match ph with
          | 1 => goto_call g t c PClose0 (MClosing c ExCrash) r        (* bytearray(None) / request += None *)
          | _ => goto_call g t c PClose0 (MClosing c ExNormal) r       (* loop condition false / send failed *)
          end
      | _ => goto_call g t c PClose0 (MClosing c ExCrash) r
      end
  | MClosing o how => with_thr g (upd (thr g) t (mkThread (Done r) (MExit how)))
  | MExit how => g
  end.

Definition on_sock (g : gstate) (o : nat) (s : sock) (thr' : nat -> thread) : gstate :=
  mkG (var g) (upd (sk g) o s) (nsk g) thr' (term g) (llc_held g) (lpc g).

Definition is_run (l : lstate) : bool := match l with LRun => true | _ => false end.

Definition step (g : gstate) (l : label) : gstate :=
  match l with
  | TIssue t op =>
      match ts (thr g t), mode (thr g t) with
      | Idle, MApp =>
          match op with
          | ONew SDP => g
          | ONew k => mkG (var g) (upd (sk g) (nsk g) (fresh k)) (S (nsk g))
                          (upd (thr g) t (set_ts (thr g t) (Done (Ok (VSock (nsk g)))))) (term g) (llc_held g) (lpc g)
          | OServer ls =>      (* the thread becomes the accept loop of a SNEP / handover server *)
              if ref_ok g ls PAcc1 && negb (srv (sk g ls)) then with_thr g (upd (thr g) t (mkThread (At ls PAcc1) (MListen ls))) else g
          | _ => match entry op with
                 | Some (o, p) =>
                     (* a socket accepted by a server loop is not known to any other thread *)
                     if ref_ok g o p && negb (srv (sk g o))
                     then with_thr g (upd (thr g) t (set_ts (thr g t) (At o p))) else g
                 | None => g
                 end
          end
      | _, _ => g
      end
  | TRun t orc =>
      match ts (thr g t) with
      | At o p => if runnable_point g p then run_seg g t o p orc else g
      | Blocked o c p true => if runnable_point g p then run_seg g t o p orc else g
      | _ => g
      end
  | TNext t w =>
      match ts (thr g t) with
      | Done r => next_of g t w (mode (thr g t)) r
      | _ => g
      end
  | LTimeout t =>
      match ts (thr g t) with
      | Blocked o c p false => mkG (var g) (sk g) (nsk g) (upd (thr g) t (set_ts (thr g t) (Blocked o c p true)))
                                   (term g) (llc_held g) (lpc g)
      | _ => g
      end
  | LEnq o x w =>
      let s := sk g o in
      if is_run (lpc g) && intab s && Nat.ltb o (nsk g) then
        match kd s with
        | RAW | LDL =>
            if Nat.ltb (length (rq s)) (rbuf s)
            then on_sock g o (set_rq s (rq s ++ [x])) (wake_one (thr g) o RecvReady w) else g
        | DLC =>
            match st s, x with
            | ESTABLISHED, IOTHER =>      (* not a connection-mode PDU: send_queue.clear(); append(FRMR) *)
                on_sock g o (set_sq s 1) (thr g)
            | _, IOTHER =>                (* ... in any other state: self.close(); append(FRMR) *)
                on_sock g o (set_sq (tco_close s) 1) (wake_all (thr g) o (close_conds DLC))
            | CLOSED, _ => on_sock g o (set_sq s (S (sq s))) (thr g)
            | LISTEN, ICONNECT =>
                if Nat.ltb (length (rq s)) (rbuf s)
                then on_sock g o (set_rq s (rq s ++ [x])) (wake_one (thr g) o RecvReady w)
                else on_sock g o (set_sq s (S (sq s))) (thr g)
            | CONNECT, ICC | CONNECT, IDM | DISCONNECT, IDM =>
                on_sock g o (set_rq s (rq s ++ [x])) (wake_one (thr g) o RecvReady w)
            | ESTABLISHED, II =>
                if Nat.ltb (length (rq s)) (rbuf s)
                then on_sock g o (set_rq s (rq s ++ [x])) (wake_one (thr g) o RecvReady w) else g
            | ESTABLISHED, IDISC => on_sock g o (set_sq (set_st s CLOSE_WAIT) 1) (thr g)
            | _, _ => g
            end
        | SDP => g
        end
      else g
  | LDeq o d w =>
      let s := sk g o in
      if is_run (lpc g) && intab s && Nat.ltb o (nsk g) && Nat.ltb 0 (sq s) then
        let s1 := set_sq s (pred (sq s)) in
        match kd s, d with
        | RAW, _ | LDL, _ => on_sock g o s1 (wake_one (thr g) o SendReady w)
        | DLC, DqData => if is_est s then on_sock g o s1 (wake_one (thr g) o SendReady w) else on_sock g o s1 (thr g)
        | DLC, DqDM =>
            if sstate_eqb (st s) CLOSE_WAIT
            then on_sock g o (set_rq s1 (rq s1 ++ [IDISC])) (wake_all (wake_one (thr g) o RecvReady w) o [SendToken])
            else on_sock g o s1 (thr g)
        | DLC, DqOther => on_sock g o s1 (thr g)
        | DLC, DqFrmr =>      (* dequeue(): the FRMR leaves: state SHUTDOWN, close() *)
            on_sock g o (tco_close s) (wake_all (thr g) o (close_conds DLC))
        | SDP, _ => on_sock g o s1 (thr g)
        end
      else g
  | LAck o n w =>
      let s := sk g o in
      if is_run (lpc g) && intab s && Nat.ltb o (nsk g) && is_est s && Nat.ltb 0 n then
        match kd s with
        | DLC => on_sock g o (set_slots (set_acks s (acks s + n)) (slots s + n))
                         (wake_one (wake_all (thr g) o [AcksReady]) o SendToken w)
        | _ => g
        end
      else g
  | LFrmr o =>
      let s := sk g o in
      if is_run (lpc g) && intab s && Nat.ltb o (nsk g) && is_est s then
        match kd s with
        | DLC => on_sock g o (tco_close s) (wake_all (thr g) o (close_conds DLC))
        | _ => g
        end
      else g
  | LSdRes =>
      if is_run (lpc g) && negb (is_shut (sk g 0)) then
        mkG (var g) (sk g) (nsk g) (wake_all (thr g) 0 [Resp]) (term g) (llc_held g) (lpc g)
      else g
  | LTermBegin =>
      if is_run (lpc g) then
        mkG (var g) (sk g) (nsk g) (thr g) (term g) (match var g with Fixed => true | Orig => false end) LTerm
      else g
  | LTermPop o =>
      match lpc g with
      | LTerm =>
          if intab (sk g o) && Nat.ltb 0 o && Nat.ltb o (nsk g) then
            mkG (var g) (upd (sk g) o (set_popped (sk g o))) (nsk g) (thr g) (term g) (llc_held g) (LClosing o)
          else g
      | _ => g
      end
  | LTermClose =>
      match lpc g with
      | LClosing o =>
          mkG (var g) (upd (sk g) o (tco_close (sk g o))) (nsk g) (wake_all (thr g) o (close_conds (kd (sk g o))))
              (term g) (llc_held g) LTerm
      | _ => g
      end
  | LTermSd =>
      match lpc g with
      | LTerm =>
          if term g then g else
          mkG (var g) (upd (sk g) 0 (tco_close (set_popped (sk g 0)))) (nsk g)
              (wake_all (thr g) 0 (close_conds (kd (set_popped (sk g 0)))))
              true (llc_held g) LTerm
      | _ => g
      end
  | LTermEnd =>
      match lpc g with
      | LTerm => if term g && all_out_of_table g
                 then mkG (var g) (sk g) (nsk g) (thr g) (term g) false LDone else g
      | _ => g
      end
  end.

Definition run (g : gstate) (sched : list label) : gstate := fold_left step sched g.

(* ------------------------------------------------------------------------------------------------ *)
(* observations used by the theorems and by the correspondence driver *)
Definition waiting (g : gstate) (t : nat) : bool :=
  match ts (thr g t) with Blocked _ _ _ false => true | _ => false end.
Definition good (r : res rv) : bool :=
  match r with Ok _ => true | Err (LlcpError _) => true | _ => false end.
