(* NFC-DEP (src/nfc/dep.py): PDUs, frame codec, Initiator.exchange over
   send_dep_req_recv_dep_res, Target.exchange / send_dep_res_recv_dep_req, and the air
   with a fault script.  Definitions only.

   The model is of /repo HEAD with the committed repairs b836295, 7efe465, 0d645cb, 2786f8b, d00e425 (C04) and
   6c4ecdb, 8087fdd, 46c0c37 (C07: empty / truncated frames and PDUs raise ProtocolError):
     - Target.activate: miu = lr - 3 - [did] - [nad]
     - Initiator ATN carries DID/NAD like the other supervisory PDUs
     - Target answers a repeated RTOX request by retransmission unless it is itself waiting for it
     - Target.exchange(None) returns None when released before the first information PDU
     - Target.activate resets the packet number (fixes/c04-target-reactivate-pni.diff)
     - request_retransmission accepts a retransmitted ACK when the pending request was a chained information PDU
       (an ACK answered to a NAK for a last information PDU stays "unrecoverable NFC-DEP transmission error",
       as tests/test_dep.py::test_exchange_retransmission_invalid_response demands)

   Conventions: bytes are list Z; time is counted in units of the initiator's RWT (the
   harness runs conversations with RWT = 1/16 s of virtual time, so that all deadline
   arithmetic is exact); a time-out advances the clock by the time-out value, nothing else
   costs time (the "deadline oracle" is therefore the pair (exchange time-out, script)).
   The decode functions are crash-explicit (checked accessors; with the C07 repairs no input crashes them). *)
From Coq Require Import ZArith List Bool.
From NV Require Import Base.Result Base.Bytes.
Import ListNotations.
Open Scope Z_scope.

(* ------------------------------------------------------------------ PDUs *)
Record deppdu := mkdep { fmt : Z; pni : Z; did : option Z; nad : option Z; data : list Z }.

Definition F_INF := 0.   (* LastInformation *)
Definition F_MORE := 1.  (* MoreInformation *)
Definition F_ACK := 4.
Definition F_NAK := 5.
Definition F_ATN := 8.
Definition F_RTOX := 9.

Inductive pdu :=
| PAtrReq (nfcid3 : list Z) (did bs br pp : Z) (gb : list Z)
| PAtrRes (nfcid3 : list Z) (did bs br to pp : Z) (gb : list Z)
| PPslReq (did brs fsl : Z)
| PPslRes (did : Z)
| PDepReq (d : deppdu)
| PDepRes (d : deppdu)
| PDslReq (did : option Z)
| PDslRes (did : option Z)
| PRlsReq (did : option Z)
| PRlsRes (did : option Z).

(* PDU_NAME[0:3] *)
Definition pdu_name (p : pdu) : Z :=
  match p with
  | PAtrReq _ _ _ _ _ _ | PAtrRes _ _ _ _ _ _ _ => 0
  | PPslReq _ _ _ | PPslRes _ => 1
  | PDepReq _ | PDepRes _ => 2
  | PDslReq _ | PDslRes _ => 3
  | PRlsReq _ | PRlsRes _ => 4
  end.

Definition b2z (b : bool) : Z := if b then 1 else 0.
Definition is_some {A} (o : option A) : bool := match o with Some _ => true | None => false end.
Definition opt_list (o : option Z) : list Z := match o with Some x => [x] | None => [] end.
Definition opt_eqb (a b : option Z) : bool :=
  match a, b with Some x, Some y => x =? y | None, None => true | _, _ => false end.
Definition nonempty {A} (l : list A) : bool := match l with [] => false | _ => true end.

(* (fmt << 4) | (nad << 3) | (did << 2) | pni   -- the fields never overlap (pni is always & 3) *)
Definition pfb_byte (d : deppdu) : Z :=
  fmt d * 16 + b2z (is_some (nad d)) * 8 + b2z (is_some (did d)) * 4 + pni d.

Definition enc_dep (code : list Z) (d : deppdu) : list Z :=
  code ++ [pfb_byte d] ++ opt_list (did d) ++ opt_list (nad d) ++ data d.

Definition enc_pdu (p : pdu) : list Z :=
  match p with
  | PAtrReq id did bs br pp gb => [212; 0] ++ id ++ [did; bs; br; pp] ++ gb
  | PAtrRes id did bs br to pp gb => [213; 1] ++ id ++ [did; bs; br; to; pp] ++ gb
  | PPslReq did brs fsl => [212; 4; did; brs; fsl]
  | PPslRes did => [213; 5; did]
  | PDepReq d => enc_dep [212; 6] d
  | PDepRes d => enc_dep [213; 7] d
  | PDslReq did => [212; 8] ++ opt_list did
  | PDslRes did => [213; 9] ++ opt_list did
  | PRlsReq did => [212; 10] ++ opt_list did
  | PRlsRes did => [213; 11] ++ opt_list did
  end.

(* encode_frame: struct.pack("B", len(frame) + 1) + frame, F0 start byte at 106A *)
Definition encode_frame (b106 : bool) (body : list Z) : res (list Z) :=
  if 255 <? len body + 1 then Crash StructErr
  else Ok ((if b106 then [240] else []) ++ [len body + 1] ++ body).

(* ------------------------------------------------------------------ decode_frame *)
(* common prefix of Initiator.decode_frame and Target.decode_frame: start byte, length byte *)
Definition strip_frame (b106 : bool) (frame : list Z) : res (list Z) :=
  do f1 <- (if b106 then
              match frame with
              | [] => Err ProtocolError                               (* len(frame) == 0 *)
              | x :: r => if x =? 240 then Ok r else Err ProtocolError
              end
            else Ok frame);
  match f1 with
  | [] => Err ProtocolError                                           (* len(frame) == 0 *)
  | l :: r => if len f1 =? l then (if len r <? 2 then Err TransmissionError else Ok r)
              else Err ProtocolError
  end.

(* DEP_REQ_RES.decode after the two code bytes *)
Definition dec_dep (b : list Z) : res deppdu :=
  match b with
  | [] => Err ProtocolError
  | p :: r =>
      let didf := (p / 4) mod 2 =? 1 in
      let nadf := (p / 8) mod 2 =? 1 in
      do x1 <- (if didf then match r with [] => Err ProtocolError | x :: r' => Ok (Some x, r') end
                else Ok (None, r));
      do x2 <- (if nadf then match snd x1 with [] => Err ProtocolError | x :: r' => Ok (Some x, r') end
                else Ok (None, snd x1));
      Ok (mkdep (p / 16) (p mod 4) (fst x1) (fst x2) (snd x2))
  end.

(* nfcid3, (did, bs, br, pp) = data[2:12], data[12:16] *)
Definition dec_atr_req (d : list Z) : res pdu :=
  match slice d 12 16 with
  | [did; bs; br; pp] => Ok (PAtrReq (slice d 2 12) did bs br pp (if (pp / 2) mod 2 =? 1 then drop 16 d else []))
  | _ => Err ProtocolError                        (* len(data) < 16 *)
  end.
Definition dec_atr_res (d : list Z) : res pdu :=
  match slice d 12 17 with
  | [did; bs; br; to; pp] => Ok (PAtrRes (slice d 2 12) did bs br to pp (if (pp / 2) mod 2 =? 1 then drop 17 d else []))
  | _ => Err ProtocolError                        (* len(data) < 17 *)
  end.
(* cls( *data[2:] ) with a wrong number of bytes: TypeError -> ProtocolError *)
Definition dec_psl_req (d : list Z) : res pdu :=
  match drop 2 d with [did; brs; fsl] => Ok (PPslReq did brs fsl) | _ => Err ProtocolError end.
Definition dec_psl_res (d : list Z) : res pdu :=
  match drop 2 d with [did] => Ok (PPslRes did) | _ => Err ProtocolError end.
Definition dec_dsl (d : list Z) : res (option Z) :=
  if 3 <? len d then Err ProtocolError
  else match drop 2 d with [x] => Ok (Some x) | _ => Ok None end.

Definition decode_frame_ini (b106 : bool) (frame : list Z) : res pdu :=
  do f <- strip_frame b106 frame;
  match f with
  | c0 :: c1 :: _ =>
      if negb (c0 =? 213) then Err ProtocolError
      else if c1 =? 1 then dec_atr_res f
      else if c1 =? 5 then dec_psl_res f
      else if c1 =? 7 then (do d <- dec_dep (drop 2 f); Ok (PDepRes d))
      else if c1 =? 9 then (do x <- dec_dsl f; Ok (PDslRes x))
      else if c1 =? 11 then (do x <- dec_dsl f; Ok (PRlsRes x))
      else Err ProtocolError
  | _ => Err TransmissionError       (* unreachable: strip_frame guarantees two bytes *)
  end.

Definition decode_frame_tgt (b106 : bool) (frame : list Z) : res pdu :=
  do f <- strip_frame b106 frame;
  match f with
  | c0 :: c1 :: _ =>
      if negb (c0 =? 212) then Err ProtocolError
      else if c1 =? 0 then dec_atr_req f
      else if c1 =? 4 then dec_psl_req f
      else if c1 =? 6 then (do d <- dec_dep (drop 2 f); Ok (PDepReq d))
      else if c1 =? 8 then (do x <- dec_dsl f; Ok (PDslReq x))
      else if c1 =? 10 then (do x <- dec_dsl f; Ok (PRlsReq x))
      else Err ProtocolError
  | _ => Err TransmissionError
  end.

(* ------------------------------------------------------------------ the Target *)
(* configuration after activation *)
Record tcfg := mktcfg { tc_106 : bool; tc_miu : Z; tc_did : option Z; tc_nad : option Z }.

(* what the target application saw: return values of exchange() / send_timeout_extension() *)
Inductive tres := TOk (p : list Z) | TNone | TErr (e : err) | TCrash (c : crash).

(* where the Target code is blocked in clf.exchange, i.e. which call of
   send_dep_res_recv_dep_req is pending *)
Inductive tpos :=
| TListen                       (* still inside clf.listen (driver), no DEP_REQ seen yet *)
| TFirst                        (* exchange(None): the first call *)
| TSend (sd : list Z)           (* exchange: send loop, sd = send_data including the chunk on the air *)
| TRecv (acc : list Z)          (* exchange: receive loop after an ACK, acc = recv_data *)
| TRtox                         (* send_timeout_extension *)
| TStop.                        (* the application has ended *)

Record tgt := mktgt {
  t_pni : option Z;
  t_pos : tpos;
  t_res : option deppdu;            (* dep_res of the pending call *)
  t_app : list (list Z * list Z);   (* application script per received payload: (RTOX values requested one after the
                                       other with send_timeout_extension before answering, response) *)
  t_out : list tres;                (* results of exchange() so far *)
  t_rtx : list tres;                (* results of send_timeout_extension() so far *)
  t_act : bool }.                   (* Target.activate returned the general bytes *)

Definition tgt_init (app : list (list Z * list Z)) : tgt := mktgt None TListen None app [] [] false.

Definition t_stop (t : tgt) (r : tres) : tgt * option pdu :=
  (mktgt (t_pni t) TStop (t_res t) (t_app t) (t_out t ++ [r]) (t_rtx t) (t_act t), None).
Definition t_stop_rtx (t : tgt) (r : tres) : tgt * option pdu :=
  (mktgt (t_pni t) TStop (t_res t) (t_app t) (t_out t) (t_rtx t ++ [r]) (t_act t), None).

(* INF / ACK / ATN / RTOX responses; self.pni = None would be a TypeError in encode *)
Definition t_emit (t : tgt) (pos : tpos) (r : deppdu) : tgt * option pdu :=
  (mktgt (t_pni t) pos (Some r) (t_app t) (t_out t) (t_rtx t) (t_act t), Some (PDepRes r)).

(* application calls exchange(resp): first iteration of the send loop *)
Definition t_start_send (c : tcfg) (t : tgt) (resp : list Z) : tgt * option pdu :=
  match resp with
  | [] => t_stop t (TCrash ValueErr)                 (* ValueError("send_data must not be empty") *)
  | _ => match t_pni t with
         | None => t_stop t (TCrash TypeErr)
         | Some p => let more := tc_miu c <? len resp in
                     t_emit t (TSend resp) (mkdep (if more then F_MORE else F_INF) p (tc_did c) (tc_nad c)
                                                  (take (tc_miu c) resp))
         end
  end.

(* the application goes on: the next send_timeout_extension(x), or exchange(resp) *)
Definition t_app_continue (c : tcfg) (t : tgt) : tgt * option pdu :=
  match t_app t with
  | [] => (mktgt (t_pni t) TStop (t_res t) [] (t_out t) (t_rtx t) (t_act t), None)
  | (x :: rt, resp) :: rest =>
      (* send_timeout_extension(x) *)
      t_emit (mktgt (t_pni t) (t_pos t) (t_res t) ((rt, resp) :: rest) (t_out t) (t_rtx t) (t_act t))
             TRtox (mkdep F_RTOX 0 (tc_did c) (tc_nad c) [x])
  | ([], resp) :: rest =>
      t_start_send c (mktgt (t_pni t) (t_pos t) (t_res t) rest (t_out t) (t_rtx t) (t_act t)) resp
  end.

(* exchange() returned payload to the application; the application answers *)
Definition t_app_step (c : tcfg) (t : tgt) (payload : list Z) : tgt * option pdu :=
  t_app_continue c (mktgt (t_pni t) (t_pos t) (t_res t) (t_app t) (t_out t ++ [TOk payload]) (t_rtx t) (t_act t)).

(* while req.pfb.fmt == MoreInformation: recv_data += req.data; res = ACK(...) ...; recv_data += req.data *)
Definition t_recv_chain (c : tcfg) (t : tgt) (req : deppdu) (acc : list Z) : tgt * option pdu :=
  if fmt req =? F_MORE then
    match t_pni t with
    | None => t_stop t (TCrash TypeErr)
    | Some p => t_emit t (TRecv (acc ++ data req)) (mkdep F_ACK p (tc_did c) (tc_nad c) [])
    end
  else t_app_step c t (acc ++ data req).

Definition t_set_pni (t : tgt) (p : Z) : tgt :=
  mktgt (Some p) (t_pos t) (t_res t) (t_app t) (t_out t) (t_rtx t) (t_act t).

(* send_dep_res_recv_dep_req returned req: continue in exchange() / send_timeout_extension() *)
Definition t_accept (c : tcfg) (t : tgt) (req : deppdu) : tgt * option pdu :=
  match t_pos t with
  | TListen | TFirst =>
      t_recv_chain c (mktgt (Some 0) TFirst (t_res t) (t_app t) (t_out t) (t_rtx t) true) req []
  | TSend sd =>
      let more := tc_miu c <? len sd in
      if more && negb (fmt req =? F_ACK) then t_stop t (TErr ProtocolError) else
      match t_pni t with
      | None => t_stop t (TCrash TypeErr)
      | Some p =>
          let p' := (p + 1) mod 4 in
          let t1 := t_set_pni t p' in
          if negb (pni req =? p') then t_stop t1 (TErr ProtocolError) else
          let sd' := drop (tc_miu c) sd in
          match sd' with
          | [] => t_recv_chain c t1 req []
          | _ => let more' := tc_miu c <? len sd' in
                 t_emit t1 (TSend sd') (mkdep (if more' then F_MORE else F_INF) p' (tc_did c) (tc_nad c)
                                              (take (tc_miu c) sd'))
          end
      end
  | TRecv acc =>
      match t_pni t with
      | None => t_stop t (TCrash TypeErr)
      | Some p =>
          let p' := (p + 1) mod 4 in
          let t1 := t_set_pni t p' in
          if negb (pni req =? p') then t_stop t1 (TErr ProtocolError) else
          t_recv_chain c t1 req acc
      end
  | TRtox =>
      if fmt req =? F_RTOX then
        match data req with
        | [] => t_stop_rtx t TNone                  (* send_timeout_extension returns None *)
        | x :: _ =>
            t_app_continue c (mktgt (t_pni t) (t_pos t) (t_res t) (t_app t) (t_out t) (t_rtx t ++ [TOk [Z.land x 63]]) (t_act t))
        end
      else t_stop_rtx t TNone       (* send_timeout_extension returns None; the harness application ends *)
  | TStop => (t, None)
  end.

(* req.did as compared with self.did *)
Definition pdu_did (p : pdu) : option Z :=
  match p with
  | PAtrReq _ did _ _ _ _ => Some did
  | PAtrRes _ did _ _ _ _ _ => Some did
  | PPslReq did _ _ => Some did
  | PPslRes did => Some did
  | PDepReq d | PDepRes d => did d
  | PDslReq x | PDslRes x | PRlsReq x | PRlsRes x => x
  end.

Definition t_resend (t : tgt) : tgt * option pdu :=
  (t, match t_res t with Some r => Some (PDepRes r) | None => None end).

(* DSL_REQ / RLS_REQ: answer and return None (exchange() returns None; the driver's listen returns None) *)
Definition t_release (t : tgt) (rsp : pdu) : tgt * option pdu :=
  match t_pos t with
  | TListen => (mktgt (t_pni t) TStop (t_res t) (t_app t) (t_out t) (t_rtx t) false, Some rsp)
  | TRtox => (fst (t_stop_rtx t TNone), Some rsp)
  | _ => (fst (t_stop t TNone), Some rsp)
  end.

(* one pass through the loop of send_dep_res_recv_dep_req with a decoded request *)
Definition tgt_step (c : tcfg) (t : tgt) (req : pdu) : tgt * option pdu :=
  match t_pos t with
  | TStop => (t, None)
  | _ =>
    if negb (opt_eqb (pdu_did req) (tc_did c)) then (t, None) else
    match req with
    | PDslReq _ => t_release t (PDslRes (tc_did c))
    | PRlsReq _ => t_release t (PRlsRes (tc_did c))
    | PDepReq d =>
        if fmt d =? F_ATN then (mktgt (t_pni t) (match t_pos t with TListen => TFirst | p => p end) (t_res t) (t_app t) (t_out t) (t_rtx t)
                                      (match t_pos t with TListen => true | _ => t_act t end),
                                Some (PDepRes (mkdep F_ATN 0 (tc_did c) (tc_nad c) [])))
        else if fmt d =? F_NAK then t_resend (mktgt (t_pni t) (match t_pos t with TListen => TFirst | p => p end) (t_res t) (t_app t) (t_out t) (t_rtx t)
                                      (match t_pos t with TListen => true | _ => t_act t end))
        else if fmt d =? F_RTOX then
          match t_res t with
          | Some r => if fmt r =? F_RTOX then t_accept c t d else t_resend t
          | None => t_resend (mktgt (t_pni t) (match t_pos t with TListen => TFirst | p => p end) (t_res t) (t_app t) (t_out t) (t_rtx t)
                                      (match t_pos t with TListen => true | _ => t_act t end))
          end
        else if opt_eqb (Some (pni d)) (t_pni t) then t_resend t
        else t_accept c t d
    | _ => (t, None)                 (* "invalid command in data exchange context" *)
    end
  end.

(* a frame arrives intact at the target *)
Definition tgt_absorb (c : tcfg) (t : tgt) (frame : list Z) : tgt * option (list Z) :=
  match t_pos t with
  | TStop => (t, None)
  | _ =>
    match decode_frame_tgt (tc_106 c) frame with
    | Ok req =>
        let '(t1, o) := tgt_step c t req in
        match o with
        | None => (t1, None)
        | Some rsp =>
            match encode_frame (tc_106 c) (enc_pdu rsp) with
            | Ok f => (t1, Some f)
            | Crash x => (fst (t_stop t1 (TCrash x)), None)
            | Err e => (fst (t_stop t1 (TErr e)), None)
            | Hang => (fst (t_stop t1 (TCrash RecursionErr)), None)
            end
        end
    | Err e => match t_pos t with TListen => (t, None) | TRtox => (fst (t_stop_rtx t (TErr e)), None) | _ => (fst (t_stop t (TErr e)), None) end
    | Crash x => match t_pos t with TListen => (t, None) | TRtox => (fst (t_stop_rtx t (TCrash x)), None) | _ => (fst (t_stop t (TCrash x)), None) end
    | Hang => (t, None)
    end
  end.

(* the link is closed while the target still waits: nfc.clf.TimeoutError out of exchange() *)
Definition tgt_close (t : tgt) : tgt :=
  match t_pos t with
  | TStop => t
  | TListen => mktgt (t_pni t) TStop (t_res t) (t_app t) (t_out t) (t_rtx t) false
  | TRtox => fst (t_stop_rtx t (TErr TimeoutError))
  | _ => fst (t_stop t (TErr TimeoutError))
  end.

(* ------------------------------------------------------------------ the air *)
Inductive fate := FD | FL | FC.
Record logent := mklog { l_ini : bool; l_data : list Z; l_fate : fate }.
Record world := mkw { w_t : tgt; w_script : list (fate * fate); w_now : Z; w_log : list logent }.
Inductive outcome := OFrame (f : list Z) | OTimeout | OTransErr.

(* clf.exchange(frame, timeout) of the initiator: one round *)
Definition air (c : tcfg) (frame : list Z) (timeout : Z) (w : world) : outcome * world :=
  let ff := hd (FD, FD) (w_script w) in
  let sc := tl (w_script w) in
  let lg := mklog true frame (fst ff) :: w_log w in
  match fst ff with
  | FL => (OTimeout, mkw (w_t w) sc (w_now w + timeout) lg)
  | FC => (OTimeout, mkw (w_t w) sc (w_now w + timeout) lg)   (* target: TransmissionError, keeps listening *)
  | FD =>
      let '(t1, o) := tgt_absorb c (w_t w) frame in
      match o with
      | None => (OTimeout, mkw t1 sc (w_now w + timeout) lg)
      | Some rsp =>
          let lg1 := mklog false rsp (snd ff) :: lg in
          match snd ff with
          | FD => (OFrame rsp, mkw t1 sc (w_now w) lg1)
          | FL => (OTimeout, mkw t1 sc (w_now w + timeout) lg1)
          | FC => (OTransErr, mkw t1 sc (w_now w) lg1)
          end
      end
  end.

(* ------------------------------------------------------------------ the Initiator *)
Record icfg := mkicfg { ic_106 : bool; ic_miu : Z; ic_did : option Z; ic_nad : option Z }.

(* send_req_recv_res *)
Definition srr1 (ic : icfg) (tc : tcfg) (req : pdu) (timeout : Z) (w : world) : res pdu * world :=
  match encode_frame (ic_106 ic) (enc_pdu req) with
  | Ok cmd =>
      let '(o, w1) := air tc cmd timeout w in
      match o with
      | OTimeout => (Err TimeoutError, w1)
      | OTransErr => (Err TransmissionError, w1)
      | OFrame rsp =>
          match decode_frame_ini (ic_106 ic) rsp with
          | Ok r => if pdu_name r =? pdu_name req then (Ok r, w1) else (Err ProtocolError, w1)
          | Err e => (Err e, w1)
          | Crash x => (Crash x, w1)
          | Hang => (Hang, w1)
          end
      end
  | Err e => (Err e, w)
  | Crash x => (Crash x, w)
  | Hang => (Hang, w)
  end.

Definition i_dep (ic : icfg) (f p : Z) (d : list Z) : deppdu := mkdep f p (ic_did ic) (ic_nad ic) d.

(* request_attention(n_retry_atn, rwt, deadline) *)
Fixpoint req_atn (n : nat) (ic : icfg) (tc : tcfg) (rwt deadline : Z) (w : world) : res unit * world :=
  match n with
  | O => (Err ProtocolError, w)
  | S n' =>
      let timeout := Z.min rwt (deadline - w_now w) in
      if timeout <=? 0 then (Err TimeoutError, w) else
      match srr1 ic tc (PDepReq (i_dep ic F_ATN 0 [])) timeout w with
      | (Err _, w1) => req_atn n' ic tc rwt deadline w1          (* except CommunicationError: continue *)
      | (Ok (PDepRes d), w1) =>
          if fmt d =? F_RTOX then (Err ProtocolError, w1)
          else if negb (fmt d =? F_ATN) then (Err ProtocolError, w1)
          else (Ok tt, w1)
      | (Ok _, w1) => (Crash AttributeErr, w1)
      | (Crash x, w1) => (Crash x, w1)
      | (Hang, w1) => (Hang, w1)
      end
  end.

(* request_retransmission(n_retry_nak, rwt, deadline, chained): a retransmitted ACK is accepted only when the
   pending request was a chained information PDU *)
Fixpoint req_nak (n : nat) (ic : icfg) (tc : tcfg) (p : Z) (chained : bool) (rwt deadline : Z) (w : world) : res pdu * world :=
  match n with
  | O => (Err ProtocolError, w)
  | S n' =>
      let timeout := Z.min rwt (deadline - w_now w) in
      if timeout <=? 0 then (Err TimeoutError, w) else
      match srr1 ic tc (PDepReq (i_dep ic F_NAK p [])) timeout w with
      | (Err _, w1) => req_nak n' ic tc p chained rwt deadline w1
      | (Ok (PDepRes d), w1) =>
          if fmt d =? F_RTOX then (Err ProtocolError, w1)
          else if negb ((fmt d =? F_INF) || (fmt d =? F_MORE) || (chained && (fmt d =? F_ACK))) then (Err ProtocolError, w1)
          else (Ok (PDepRes d), w1)
      | (Ok _, w1) => (Crash AttributeErr, w1)
      | (Crash x, w1) => (Crash x, w1)
      | (Hang, w1) => (Hang, w1)
      end
  end.

(* chained = req.pfb.fmt == DEP_REQ.MoreInformation *)
Definition is_chained (req : pdu) : bool := match req with PDepReq d => fmt d =? F_MORE | _ => false end.

(* the while True loop of send_dep_req_recv_dep_res *)
Fixpoint srr_loop (fuel : nat) (ic : icfg) (tc : tcfg) (p : Z) (req : pdu) (rwt deadline : Z) (w : world)
  : res pdu * world :=
  match fuel with
  | O => (Hang, w)
  | S f =>
      let timeout := Z.min rwt (deadline - w_now w) in
      if timeout <=? 0 then (Err TimeoutError, w) else
      match srr1 ic tc req timeout w with
      | (Ok r, w1) => (Ok r, w1)
      | (Err TimeoutError, w1) =>
          match req_atn 2 ic tc rwt deadline w1 with
          | (Ok _, w2) => srr_loop f ic tc p req rwt deadline w2
          | (Err e, w2) => (Err e, w2)
          | (Crash x, w2) => (Crash x, w2)
          | (Hang, w2) => (Hang, w2)
          end
      | (Err TransmissionError, w1) => req_nak 2 ic tc p (is_chained req) rwt deadline w1
      | (Err e, w1) => (Err e, w1)
      | (Crash x, w1) => (Crash x, w1)
      | (Hang, w1) => (Hang, w1)
      end
  end.

(* send_dep_req_recv_dep_res(req, rwt, timeout) *)
Definition srr (fuel : nat) (ic : icfg) (tc : tcfg) (p : Z) (req : deppdu) (rwt timeout : Z) (w : world)
  : res deppdu * world :=
  match srr_loop fuel ic tc p (PDepReq req) rwt (w_now w + timeout) w with
  | (Ok (PDepRes d), w1) => if fmt d =? F_NAK then (Err ProtocolError, w1) else (Ok d, w1)
  | (Ok _, w1) => (Crash AttributeErr, w1)
  | (Err e, w1) => (Err e, w1)
  | (Crash x, w1) => (Crash x, w1)
  | (Hang, w1) => (Hang, w1)
  end.

(* the RTOX branch shared by both loops of exchange(): for i in range(3): ... else: raise TimeoutError *)
Fixpoint rtox_loop (n : nat) (fuel : nat) (ic : icfg) (tc : tcfg) (p : Z) (r : deppdu) (timeout : Z) (w : world)
  : res deppdu * world :=
  match n with
  | O => (Err TimeoutError, w)
  | S n' =>
      match data r with
      | [] => (Err ProtocolError, w)             (* "NFC-DEP RTOX PDU without RTOX value" *)
      | x :: _ =>
          if negb ((0 <? x) && (x <? 60)) then (Err ProtocolError, w) else
          match srr fuel ic tc p (i_dep ic F_RTOX 0 [x]) (x * 1) timeout w with
          | (Ok r1, w1) => if fmt r1 =? F_RTOX then rtox_loop n' fuel ic tc p r1 timeout w1 else (Ok r1, w1)
          | (Err e, w1) => (Err e, w1)
          | (Crash c, w1) => (Crash c, w1)
          | (Hang, w1) => (Hang, w1)
          end
      end
  end.
Definition after_rtox (fuel : nat) (ic : icfg) (tc : tcfg) (p : Z) (r : deppdu) (timeout : Z) (w : world)
  : res deppdu * world :=
  if fmt r =? F_RTOX then rtox_loop 3 fuel ic tc p r timeout w else (Ok r, w).

(* while send_data: ...   returns (pni, last res) *)
Fixpoint send_loop (n fuel : nat) (ic : icfg) (tc : tcfg) (p : Z) (sd : list Z) (last : option deppdu)
  (timeout : Z) (w : world) : res (Z * deppdu) * world :=
  match sd with
  | [] => match last with Some r => (Ok (p, r), w) | None => (Crash Unbound, w) end
  | _ =>
    match n with
    | O => (Hang, w)
    | S n' =>
        let chunk := take (ic_miu ic) sd in
        let sd' := drop (ic_miu ic) sd in
        let req := i_dep ic (if nonempty sd' then F_MORE else F_INF) p chunk in
        match srr fuel ic tc p req 1 timeout w with
        | (Ok r0, w1) =>
            match after_rtox fuel ic tc p r0 timeout w1 with
            | (Ok r, w2) =>
                if (fmt r =? F_ACK) && negb (nonempty sd') then (Err ProtocolError, w2)
                else if negb (pni r =? p) then (Err ProtocolError, w2)
                else send_loop n' fuel ic tc ((p + 1) mod 4) sd' (Some r) timeout w2
            | (Err e, w2) => (Err e, w2)
            | (Crash c, w2) => (Crash c, w2)
            | (Hang, w2) => (Hang, w2)
            end
        | (Err e, w1) => (Err e, w1)
        | (Crash c, w1) => (Crash c, w1)
        | (Hang, w1) => (Hang, w1)
        end
    end
  end.

(* while res.pfb.fmt == MoreInformation: ...   returns (pni, recv_data) *)
Fixpoint recv_loop (n fuel : nat) (ic : icfg) (tc : tcfg) (p : Z) (r : deppdu) (acc : list Z)
  (timeout : Z) (w : world) : res (Z * list Z) * world :=
  if negb (fmt r =? F_MORE) then (Ok (p, acc), w) else
  match n with
  | O => (Hang, w)
  | S n' =>
      match srr fuel ic tc p (i_dep ic F_ACK p []) 1 timeout w with
      | (Ok r0, w1) =>
          match after_rtox fuel ic tc p r0 timeout w1 with
          | (Ok r1, w2) =>
              if negb ((fmt r1 =? F_INF) || (fmt r1 =? F_MORE)) then (Err ProtocolError, w2)
              else if negb (pni r1 =? p) then (Err ProtocolError, w2)
              else recv_loop n' fuel ic tc ((p + 1) mod 4) r1 (acc ++ data r1) timeout w2
          | (Err e, w2) => (Err e, w2)
          | (Crash c, w2) => (Crash c, w2)
          | (Hang, w2) => (Hang, w2)
          end
      | (Err e, w1) => (Err e, w1)
      | (Crash c, w1) => (Crash c, w1)
      | (Hang, w1) => (Hang, w1)
      end
  end.

(* Initiator.exchange(send_data, timeout): returns (new pni, received data) *)
Definition ini_exchange (n fuel : nat) (ic : icfg) (tc : tcfg) (p : Z) (sd : list Z) (timeout : Z) (w : world)
  : res (Z * list Z) * world :=
  match send_loop n fuel ic tc p sd None timeout w with
  | (Ok (p1, r), w1) =>
      if negb ((fmt r =? F_INF) || (fmt r =? F_MORE)) then (Err ProtocolError, w1)
      else recv_loop n fuel ic tc p1 r (data r) timeout w1
  | (Err e, w1) => (Err e, w1)
  | (Crash c, w1) => (Crash c, w1)
  | (Hang, w1) => (Hang, w1)
  end.

(* ------------------------------------------------------------------ a conversation *)
Inductive ires := IOk (d : list Z) | IErr (e : err) | ICrash (c : crash) | IHang.

(* the initiator application: exchange every payload, stop at the first failure *)
Fixpoint ini_app (n fuel : nat) (ic : icfg) (tc : tcfg) (p : Z) (ps : list (list Z)) (timeout : Z) (w : world)
  : list ires * world :=
  match ps with
  | [] => ([], w)
  | x :: rest =>
      match ini_exchange n fuel ic tc p x timeout w with
      | (Ok (p1, d), w1) => let '(l, w2) := ini_app n fuel ic tc p1 rest timeout w1 in (IOk d :: l, w2)
      | (Err e, w1) => ([IErr e], w1)
      | (Crash c, w1) => ([ICrash c], w1)
      | (Hang, w1) => ([IHang], w1)
      end
  end.

(* Initiator.deactivate(release): one RLS_REQ / DSL_REQ, communication errors are swallowed *)
Definition ini_deactivate (ic : icfg) (tc : tcfg) (release : option bool) (w : world) : world :=
  match release with
  | None => w
  | Some b => snd (srr1 ic tc (if b then PRlsReq (ic_did ic) else PDslReq (ic_did ic)) 1 w)
  end.

Record obs := mkobs { o_frames : list logent; o_ini : list ires; o_tgt : list tres; o_rtx : list tres; o_act : bool }.

Definition conversation (n fuel : nat) (ic : icfg) (tc : tcfg) (script : list (fate * fate))
  (payloads : list (list Z)) (app : list (list Z * list Z)) (timeout : Z) (release : option bool) : obs :=
  let w0 := mkw (tgt_init app) script 0 [] in
  let '(ir, w1) := ini_app n fuel ic tc 0 payloads timeout w0 in
  let w2 := ini_deactivate ic tc release w1 in
  let t := tgt_close (w_t w2) in
  mkobs (rev (w_log w2)) ir (t_out t) (t_rtx t) (t_act t).

(* ---- activating the same protocol objects again (a new link after an earlier conversation) ----
   Initiator.activate sets self.pni = 0; Target.activate (repaired, fixes/c04-target-reactivate-pni.diff) sets
   self.pni = None, stores the new first command and the new parameters.  Nothing else of the protocol state
   survives: dep_res / send_data / recv_data are locals of exchange(). *)
Definition ini_activate (p_old : Z) : Z := 0.
Definition tgt_activate (t_old : tgt) (app : list (list Z * list Z)) : tgt := mktgt None TListen None app [] [] false.

(* a conversation on objects that were used before: old packet number p_old, old target state t_old *)
Definition conversation_after (p_old : Z) (t_old : tgt) (n fuel : nat) (ic : icfg) (tc : tcfg) (script : list (fate * fate))
  (payloads : list (list Z)) (app : list (list Z * list Z)) (timeout : Z) (release : option bool) : obs :=
  let w0 := mkw (tgt_activate t_old app) script 0 [] in
  let '(ir, w1) := ini_app n fuel ic tc (ini_activate p_old) payloads timeout w0 in
  let w2 := ini_deactivate ic tc release w1 in
  let t := tgt_close (w_t w2) in
  mkobs (rev (w_log w2)) ir (t_out t) (t_rtx t) (t_act t).

(* the two configurations after a fault-free activation (C19 proves these are what activate computes) *)
Definition lr_of (i : Z) : Z := if i =? 0 then 64 else if i =? 1 then 128 else if i =? 2 then 192 else 254.
Definition tdid_of (did : option Z) : option Z :=
  match did with Some d => if 0 <? d then Some d else None | None => None end.
Definition mk_icfg (b106 : bool) (lrt : Z) (did nad : option Z) : icfg :=
  mkicfg b106 (lr_of lrt - 3 - b2z (is_some did) - b2z (is_some nad)) did nad.
Definition mk_tcfg (b106 : bool) (lri : Z) (did : option Z) : tcfg :=
  mktcfg b106 (lr_of lri - 3 - b2z (is_some (tdid_of did))) (tdid_of did) None.
