(* Type2Tag.sector_select (tt2.py): the library's _current_sector against the sector the tag is really in.
   The memory models (Model/T2T.v) address the tag by absolute byte address; that is justified when every READ /
   WRITE is sent with _current_sector = the tag's sector = address >> 10.  Definitions only.

   A SECTOR SELECT sequence is C2h FFh (ACK expected) followed by the sector number (passively acknowledged: no
   answer within 1 ms).  Outcomes: *)
From Coq Require Import ZArith List Bool.
From NV Require Import Base.Result Model.TlvMem.
Open Scope Z_scope.

Inductive ss_outcome :=
| SsDone        (* packet 1 ACK, packet 2 passively acknowledged: the tag is in the new sector *)
| SsP1Nak       (* packet 1 answered NAK (no sector select support): INVALID_SECTOR_ERROR *)
| SsP1Err       (* packet 1 failed for all tries (timeout / transmission / protocol error) *)
| SsP2Answer    (* packet 2 answered (NAK: no such sector): INVALID_SECTOR_ERROR; the tag stays where it is *)
| SsP2Err.      (* packet 2 garbled (transmission / protocol error), re-raised; the tag stays where it is *)

(* sector_select(target) with library state lib and tag state tag: result, new library state, new tag state *)
Definition sector_select (lib tag target : Z) (o : ss_outcome) : res Z * Z * Z :=
  if target =? lib then (Ok lib, lib, tag)             (* no command is sent *)
  else match o with
       | SsDone => (Ok target, target, target)         (* self._current_sector = sector *)
       | _ => (tag_err, lib, tag)
       end.
(* page p of sector s *)
Definition abs_addr (sector page : Z) : Z := 1024 * sector + 4 * page.
