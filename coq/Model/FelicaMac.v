(* FeliCa Lite / Lite-S authentication and MAC protected access, as written in
   src/nfc/tag/tt3_sony.py (generate_mac, _authenticate, read_with_mac, write_with_mac, _protect,
   FelicaLiteS.authenticate/_protect), src/nfc/tag/tt3.py (send_cmd_recv_rsp,
   read/write_without_encryption, polling) and src/nfc/tag/__init__.py (Tag.authenticate/protect).
   Reader side over an abstract channel; tag side as a state machine holding a card key.
   Definitions only.

   Conventions: passwords, keys, challenges, blocks are byte lists.  The random challenge rc is an
   argument (os.urandom(16) in the code, always 16 bytes); the card key derived from a password is
   always 16 bytes (password[0:16] of a password of at least 16 bytes, or 16 zero bytes). *)
From Coq Require Import ZArith List Bool.
From NV Require Import Base.Result Base.Bytes Base.PyPrims Model.Des.
Import ListNotations.
Open Scope Z_scope.

Definition zeros (n : nat) : list Z := repeat 0 n.

(* key[7::-1] + key[15:7:-1] for a 16-byte string: both halves byte-reversed *)
Definition rev_halves (k : list Z) : list Z := rev (firstn 8 k) ++ rev (skipn 8 k).

(* ---- FelicaLite.generate_mac ------------------------------------------------------------- *)
Definition generate_mac (data key iv : list Z) (flip_key : bool) : res (list Z) :=
  if negb ((len data mod 8 =? 0) && (len key =? 16) && (len iv =? 8)) then Crash AssertErr else
  let key' := if flip_key then skipn 8 key ++ firstn 8 key else key in
  let txt := concat (map (@rev Z) (chunks8 data)) in
  (* encrypt(txt)[:-9:-1] : the last eight bytes in reverse order *)
  Ok (firstn 8 (rev (tdes_cbc_encrypt key' iv txt))).

(* sk = triple_des(key, CBC, 8 zero bytes).encrypt(rc) *)
Definition session_key (key rc : list Z) : list Z := tdes_cbc_encrypt key (zeros 8) rc.

(* password -> card key (ValueError for 0 < len < 16) *)
Definition felica_key (pw : list Z) : res (list Z) :=
  if (0 <? len pw) && (len pw <? 16) then Err ValueError else
  Ok (if len pw =? 0 then zeros 16 else firstn 16 pw).

(* DES ignores the least significant bit of every key byte *)
Definition key_equiv (k1 k2 : list Z) : Prop := map (fun b => b / 2) k1 = map (fun b => b / 2) k2.
Definition key_equivb (k1 k2 : list Z) : bool := list_eqb (map (fun b => b / 2) k1) (map (fun b => b / 2) k2).

(* ---- channel ------------------------------------------------------------------------------ *)
Inductive xres := XRsp (b : list Z) | XTimeout | XTransmission | XProtocol.

(* reader object state: _sk, _iv, _authenticated *)
Record rstate := mkR { r_sk : option (list Z); r_iv : option (list Z); r_auth : bool }.
Definition rstate0 : rstate := mkR None None false.

(* result of protect(): True / False / the tag answered the NFC Forum (12FCh) poll, so the NDEF
   attribute update of protect_from = 0 follows - that part belongs to C01..C03 and is not modelled *)
Inductive pres := PTrue | PFalse | PNdefPath.

Definition terr {A} (e : Z) : res A := Err (TagCommandError e).

Section Reader.
  Context {T : Type}.
  Variable xchg : T -> list Z -> T * xres.   (* clf.exchange: one command, one response or error *)
  Variable idm : list Z.                      (* tag.idm from activation *)

  Definition St : Type := (T * rstate)%type.
  Definition M (A : Type) : Type := St -> St * res A.
  Definition ret {A} (a : A) : M A := fun s => (s, Ok a).
  Definition lift {A} (r : res A) : M A := fun s => (s, r).
  Definition bindM {A B} (m : M A) (f : A -> M B) : M B :=
    fun s => let '(s', r) := m s in
             match r with
             | Ok a => f a s' | Err e => (s', Err e) | Crash c => (s', Crash c) | Hang => (s', Hang)
             end.
  Notation "'mdo' x <- m ; k" := (bindM m (fun x => k)) (at level 200, x pattern, m at level 100, k at level 200).
  Definition get_rs : M rstate := fun s => (s, Ok (snd s)).
  Definition set_auth (b : bool) : M unit :=
    fun s => ((fst s, mkR (r_sk (snd s)) (r_iv (snd s)) b), Ok tt).
  Definition set_session (sk iv : list Z) : M unit :=
    fun s => ((fst s, mkR (Some sk) (Some iv) (r_auth (snd s))), Ok tt).

  (* for retry in range(3): try: rsp = exchange(); break / except CommunicationError ... else: raise *)
  Fixpoint exchange_retry (n : nat) (t : T) (cmd : list Z) (last : res (list Z)) : T * res (list Z) :=
    match n with
    | O => (t, last)
    | S n' =>
        let '(t', r) := xchg t cmd in
        match r with
        | XRsp b => (t', Ok b)
        | XTimeout => exchange_retry n' t' cmd (terr 0)
        | XTransmission => exchange_retry n' t' cmd (terr (-1))
        | XProtocol => exchange_retry n' t' cmd (terr (-2))
        end
    end.

  (* Type3Tag.send_cmd_recv_rsp (check_status = True): checks on the response *)
  Definition parse_rsp (code : Z) (send_idm : bool) (rsp : list Z) : res (list Z) :=
    do b0 <- idx rsp 0;
    if negb (b0 =? len rsp) then terr 1 else
    do b1 <- idx rsp 1;
    if negb (b1 =? code + 1) then terr 2 else
    if send_idm && negb (list_eqb (slice rsp 2 10) idm) then terr 3 else
    if negb send_idm then Ok (drop 2 rsp) else
    do b10 <- idx rsp 10;
    if negb (b10 =? 0) then
      (if len rsp <? 12 then Crash StructErr else do b11 <- idx rsp 11; terr (256 * b10 + b11))
    else Ok (drop 12 rsp).

  Definition send_cmd_recv_rsp (code : Z) (data : list Z) (send_idm : bool) : M (list Z) :=
    fun s =>
      let idm' := if send_idm then idm else [] in
      let n := 2 + len idm' + len data in
      if 255 <? n then (s, Crash ValueErr) else
      let '(t', r) := exchange_retry 3 (fst s) (n :: code :: idm' ++ data) (Crash Unbound) in
      ((t', snd s), do rsp <- r; parse_rsp code send_idm rsp).

  (* BlockCode(n).pack() with access mode 0, service index 0 *)
  Definition block_code (n : Z) : res (list Z) :=
    if n <? 0 then Crash ValueErr else
    if n <? 256 then Ok [128; n] else
    if n <? 65536 then Ok [0; n mod 256; n / 256] else Crash StructErr.
  Fixpoint block_codes (l : list Z) : res (list Z) :=
    match l with
    | [] => Ok []
    | b :: r => do x <- block_code b; do y <- block_codes r; Ok (x ++ y)
    end.

  (* read_without_encryption([ServiceCode(0, 0b001011)], blocks) *)
  Definition read_blocks (blocks : list Z) : M (list Z) :=
    if 255 <? len blocks then lift (Crash ValueErr) else
    mdo bcs <- lift (block_codes blocks) ;
    mdo d <- send_cmd_recv_rsp 6 ([1; 11; 0; len blocks] ++ bcs) true ;
    if negb (len d =? 1 + 16 * len blocks) then lift (terr 4) else ret (drop 1 d).

  (* write_without_encryption([ServiceCode(0, 0b001001)], blocks, data) *)
  Definition write_blocks (blocks : list Z) (data : list Z) : M unit :=
    if 255 <? len blocks then lift (Crash ValueErr) else
    mdo bcs <- lift (block_codes blocks) ;
    mdo _ <- send_cmd_recv_rsp 8 ([1; 9; 0; len blocks] ++ bcs ++ data) true ;
    ret tt.

  Definition read_without_mac (blocks : list Z) : M (list Z) := read_blocks blocks.
  Definition write_without_mac (data : list Z) (block : Z) : M unit :=
    if negb (len data =? 16) then lift (Crash AssertErr) else write_blocks [block] data.

  (* FelicaLite._authenticate *)
  Definition lite_authenticate_inner (pw rc : list Z) : M bool :=
    mdo key <- lift (felica_key pw) ;
    mdo _ <- set_auth false ;
    mdo _ <- write_without_mac (rev_halves rc) 128 ;
    let sk := session_key key rc in
    mdo data <- read_without_mac [130; 129] ;
    mdo mac <- lift (generate_mac (pyslice data 0 (-16)) sk (firstn 8 rc) false) ;
    if list_eqb (pyslice data (-16) (-8)) mac
    then (mdo _ <- set_session sk (firstn 8 rc) ; mdo _ <- set_auth true ; ret true)
    else ret false.

  (* Tag.authenticate: self._authenticated = self._authenticate(password) *)
  Definition lite_authenticate (pw rc : list Z) : M bool :=
    mdo b <- lite_authenticate_inner pw rc ; mdo _ <- set_auth b ; ret b.

  (* FelicaLite.read_with_mac *)
  Definition read_with_mac (blocks : list Z) : M (option (list Z)) :=
    mdo st <- get_rs ;
    match r_sk st, r_iv st with
    | Some sk, Some iv =>
        mdo data <- read_blocks (blocks ++ [129]) ;
        let d := pyslice data 0 (-16) in
        mdo m <- lift (generate_mac d sk iv false) ;
        if list_eqb (pyslice data (-16) (-8)) m then ret (Some d) else ret None
    | _, _ => lift (Err RuntimeErr)
    end.

  (* FelicaLiteS.write_with_mac *)
  Definition write_with_mac (data : list Z) (block : Z) : M unit :=
    if negb (len data =? 16) then lift (Err ValueError) else
    mdo st <- get_rs ;
    match r_sk st, r_iv st with
    | Some sk, Some iv =>
        mdo w <- read_without_mac [144] ;
        let wcnt := slice w 0 3 in
        if (block <? 0) || (255 <? block) then lift (Crash ValueErr) else
        let d := wcnt ++ [0; block; 0; 145; 0] ++ data in
        mdo m <- lift (generate_mac d (skipn 8 sk ++ firstn 8 sk) iv false) ;
        write_blocks [block; 145] (slice d 8 24 ++ m ++ wcnt ++ zeros 5)
    | _, _ => lift (Err RuntimeErr)
    end.

  (* FelicaLiteS.authenticate.  repaired = false is the code as found (subscripts the None that
     read_with_mac returns on a MAC mismatch), repaired = true the code with
     fixes/c20-lites-auth-none.diff applied. *)
  Definition lites_authenticate (repaired : bool) (pw rc : list Z) : M bool :=
    mdo b <- lite_authenticate pw rc ;
    if b then
      mdo _ <- set_auth false ;
      mdo _ <- write_with_mac (1 :: zeros 15) 146 ;
      mdo r <- read_with_mac [146] ;
      match r with
      | None => if repaired then ret false else lift (Crash TypeErr)
      | Some d => mdo x <- lift (idx d 0) ;
                  if x =? 1 then (mdo _ <- set_auth true ; ret true) else ret false
      end
    else ret false.

  (* Type3Tag.NDEF probe caused by "self.ndef is not None" on a tag whose system code is not 12FCh:
     polling(0x12FC); a Type3TagCommandError means "no NDEF" *)
  Definition ndef_probe : M bool :=
    fun s => let '(s', r) := send_cmd_recv_rsp 0 [18; 252; 0; 0] false s in
             match r with
             | Ok d => (s', Ok (len d =? 16))
             | Err (TagCommandError _) => (s', Ok false)
             | Err e => (s', Err e) | Crash c => (s', Crash c) | Hang => (s', Hang)
             end.

  Definition le16 (v : Z) : list Z := [v mod 256; (v / 256) mod 256].
  Definition set_slice (l : list Z) (a : Z) (v : list Z) : list Z :=
    take a l ++ v ++ drop (a + len v) l.

  Definition pw_len_bad (pw : option (list Z)) : bool :=
    match pw with Some p => (0 <? len p) && (len p <? 16) | None => false end.
  Definition pw_key (p : list Z) : list Z := if len p =? 0 then zeros 16 else firstn 16 p.

  (* FelicaLite._protect (through Tag.protect) *)
  Definition lite_protect (pw : option (list Z)) (read_protect : bool) (protect_from : Z) : M pres :=
    if pw_len_bad pw then lift (Err ValueError) else
    if protect_from <? 0 then lift (Err ValueError) else
    if read_protect then ret PFalse else
    mdo mc <- read_without_mac [136] ;
    mdo mc2 <- lift (idx mc 2) ;
    if (match pw with Some _ => negb (mc2 =? 255) | None => false end) then ret PFalse else
    mdo _ <- (match pw with
              | Some p => write_without_mac (rev_halves (pw_key p)) 135
              | None => ret tt
              end) ;
    let mc1 := if protect_from <? 14
               then set_slice mc 0 (le16 (Z.lxor 32767 (2 ^ 14 - 2 ^ protect_from))) else mc in
    mdo nd <- (if protect_from =? 0 then ndef_probe else ret false) ;
    if nd then ret PNdefPath else
    mdo _ <- write_without_mac (set_slice mc1 2 [0]) 136 ;
    ret PTrue.

  (* the card key version block that replaces the one read: version + 1, clamped to FFFFh *)
  Definition lites_ckv_block (ckv : list Z) : list Z :=
    le16 (Z.min (nth 0 ckv 0 + 256 * nth 1 ckv 0 + 1) 65535) ++ zeros 14.

  (* FelicaLiteS._protect.  The password is a byte string here.  repaired = false: the code as
     found, which calls .encode("ascii") on the password slice and so raises AttributeError for
     bytes/bytearray; repaired = true: fixes/c20-lites-protect-bytes.diff applied *)
  Definition lites_protect (repaired : bool) (pw : option (list Z)) (read_protect : bool) (protect_from : Z)
             (rc : list Z) : M pres :=
    if pw_len_bad pw then lift (Err ValueError) else
    if protect_from <? 0 then lift (Err ValueError) else
    mdo mc <- read_without_mac [136] ;
    mdo st <- get_rs ;
    mdo mc2 <- lift (idx mc 2) ;
    mdo mc5 <- lift (idx mc 5) ;
    let mask := if protect_from <? 14 then le16 (2 ^ 14 - 2 ^ protect_from) else [] in
    mdo r <- (match pw with
              | Some p =>
                  if negb (mc2 =? 255) && (Z.land mc5 1 =? 0) then ret (mc, false) else
                  if negb (mc2 =? 255) && negb (r_auth st) then ret (mc, false) else
                  if negb repaired && negb (len p =? 0) then lift (Crash AttributeErr) else
                  let key := pw_key p in
                  mdo ckv <- read_without_mac [134] ;
                  mdo _ <- write_without_mac (lites_ckv_block ckv) 134 ;
                  mdo _ <- write_without_mac (rev_halves key) 135 ;
                  mdo a <- lites_authenticate repaired key rc ;
                  if negb a then ret (mc, false) else
                  ret (if read_protect && (protect_from <? 14) then set_slice mc 6 mask else mc, true)
              | None => ret (mc, true)
              end) ;
    let '(mc0, go) := r in
    if negb go then ret PFalse else
    let mc1 := if protect_from <? 14 then set_slice (set_slice mc0 8 mask) 10 mask else mc0 in
    mdo nd <- (if protect_from =? 0 then ndef_probe else ret false) ;
    if nd then ret PNdefPath else
    mdo _ <- write_without_mac (set_slice (set_slice mc1 2 [0]) 5 [1]) 136 ;
    ret PTrue.
End Reader.

(* ---- the tag side: a FeliCa Lite / Lite-S card holding a card key ------------------------- *)
(* memory: block number -> 16 bytes.  80h RC, 82h ID, 86h CKV, 87h CK, 88h MC, 90h WCNT. *)
Record ftag := mkFT {
  ft_lites : bool;
  ft_idm : list Z;
  ft_mem : Z -> list Z;
  ft_ext : bool          (* Lite-S: external authentication achieved for the current challenge *)
}.

Definition mem_set (m : Z -> list Z) (b : Z) (v : list Z) : Z -> list Z :=
  fun x => if x =? b then v else m x.

Definition ft_rc (tg : ftag) : list Z := rev_halves (ft_mem tg 128).
Definition ft_ck (tg : ftag) : list Z := rev_halves (ft_mem tg 135).
Definition ft_sk (tg : ftag) : list Z := session_key (ft_ck tg) (ft_rc tg).

Definition pad16 (l : list Z) : list Z := l ++ zeros (16 - length l).
Definition ft_mac (tg : ftag) (data : list Z) : list Z :=
  match generate_mac data (ft_sk tg) (firstn 8 (ft_rc tg)) false with Ok m => pad16 m | _ => zeros 16 end.

Definition is_user_block (b : Z) : bool := (0 <=? b) && (b <=? 14).
Definition block_exists (tg : ftag) (b : Z) : bool :=
  is_user_block b || ((128 <=? b) && (b <=? 136)) || (ft_lites tg && ((b =? 144) || (b =? 145) || (b =? 146))).
(* CK can never be read; MAC_A (91h) reading is not provided by this card model *)
Definition block_readable (tg : ftag) (b : Z) : bool :=
  block_exists tg b && negb (b =? 135) && negb (b =? 145).

(* the block list of a request: 2-byte elements (80h, n) or 3-byte elements (00h, lo, hi) *)
Fixpoint parse_block_list (n : nat) (l : list Z) : option (list Z * list Z) :=
  match n with
  | O => Some ([], l)
  | S n' =>
      match l with
      | 128 :: b :: r => match parse_block_list n' r with Some (bs, r') => Some (b :: bs, r') | None => None end
      | 0 :: lo :: hi :: r => match parse_block_list n' r with Some (bs, r') => Some (lo + 256 * hi :: bs, r') | None => None end
      | _ => None
      end
  end.

(* data of a read request, block by block; the MAC block (81h) is the MAC over everything that
   precedes it in the same response *)
Fixpoint read_data (tg : ftag) (blocks : list Z) (acc : list Z) : option (list Z) :=
  match blocks with
  | [] => Some acc
  | b :: r =>
      if b =? 129 then read_data tg r (acc ++ ft_mac tg acc) else
      if negb (block_readable tg b) then None else
      if b =? 146 then read_data tg r (acc ++ (if ft_ext tg then 1 else 0) :: zeros 15)
      else read_data tg r (acc ++ ft_mem tg b)
  end.

Definition status_rsp (code : Z) (idm : list Z) (s1 s2 : Z) (rest : list Z) : list Z :=
  let body := code :: idm ++ [s1; s2] ++ rest in (1 + len body) :: body.

Definition mc_sys_open (tg : ftag) : bool := nth 2 (ft_mem tg 136) 0 =? 255.
Definition user_writable (tg : ftag) (b : Z) : bool :=
  let mc := ft_mem tg 136 in Z.testbit (nth 0 mc 0 + 256 * nth 1 mc 0) b.

(* may block b be written without a MAC *)
Definition plain_writable (tg : ftag) (b : Z) : bool :=
  if is_user_block b then user_writable tg b else
  if b =? 128 then true else
  if (b =? 130) || (b =? 131) || (b =? 132) || (b =? 134) || (b =? 135) || (b =? 136) then mc_sys_open tg
  else false.
(* may block b be written with a MAC (Lite-S) *)
Definition mac_writable (tg : ftag) (b : Z) : bool :=
  if is_user_block b then user_writable tg b else
  if b =? 146 then true else
  if (b =? 134) || (b =? 135) then mc_sys_open tg || Z.testbit (nth 5 (ft_mem tg 136) 0) 0
  else false.

Definition wcnt_inc (w : list Z) : list Z :=
  let v := nth 0 w 0 + 256 * nth 1 w 0 + 65536 * nth 2 w 0 + 1 in
  [v mod 256; (v / 256) mod 256; (v / 65536) mod 256] ++ skipn 3 w.

Definition do_write (tg : ftag) (b : Z) (d : list Z) : ftag :=
  if b =? 128 then mkFT (ft_lites tg) (ft_idm tg) (mem_set (ft_mem tg) b d) false else
  if b =? 146 then mkFT (ft_lites tg) (ft_idm tg) (ft_mem tg) (nth 0 d 0 =? 1) else
  mkFT (ft_lites tg) (ft_idm tg) (mem_set (ft_mem tg) b d) (ft_ext tg).

Definition ftag_step (tg : ftag) (cmd : list Z) : ftag * option (list Z) :=
  match cmd with
  | n :: code :: rest =>
      if negb (n =? len cmd) then (tg, None) else
      if code =? 0 then
        (* polling: answers its own system code 88B4h and the wildcard, never 12FCh *)
        match rest with
        | [s1; s2; rq; ts] =>
            if ((s1 =? 136) || (s1 =? 255)) && ((s2 =? 180) || (s2 =? 255))
            then (tg, Some (18 :: 1 :: ft_idm tg ++ [0; (if ft_lites tg then 241 else 240); 255; 255; 255; 255; 255; 255]))
            else (tg, None)
        | _ => (tg, None)
        end
      else
      if negb (list_eqb (firstn 8 rest) (ft_idm tg)) then (tg, None) else
      let body := skipn 8 rest in
      if code =? 6 then
        match body with
        | 1 :: 11 :: 0 :: nb :: bl =>
            match parse_block_list (Z.to_nat nb) bl with
            | Some (blocks, []) =>
                if (nb <? 1) || (4 <? nb) then (tg, Some (status_rsp 7 (ft_idm tg) 255 162 [])) else
                match read_data tg blocks [] with
                | Some d => (tg, Some (status_rsp 7 (ft_idm tg) 0 0 (nb :: d)))
                | None => (tg, Some (status_rsp 7 (ft_idm tg) 1 168 []))
                end
            | _ => (tg, Some (status_rsp 7 (ft_idm tg) 255 161 []))
            end
        | _ => (tg, Some (status_rsp 7 (ft_idm tg) 255 161 []))
        end
      else if code =? 8 then
        match body with
        | 1 :: 9 :: 0 :: nb :: bl =>
            match parse_block_list (Z.to_nat nb) bl with
            | Some ([b], d) =>
                if negb (len d =? 16) then (tg, Some (status_rsp 9 (ft_idm tg) 255 162 [])) else
                if block_exists tg b && plain_writable tg b
                then (do_write tg b d, Some (status_rsp 9 (ft_idm tg) 0 0 []))
                else (tg, Some (status_rsp 9 (ft_idm tg) 1 168 []))
            | Some ([b; 145], d) =>
                if negb (len d =? 32) then (tg, Some (status_rsp 9 (ft_idm tg) 255 162 [])) else
                if negb (ft_lites tg && block_exists tg b && mac_writable tg b)
                then (tg, Some (status_rsp 9 (ft_idm tg) 1 168 [])) else
                let data := firstn 16 d in
                let maca := firstn 8 (skipn 16 d) in
                let wcnt := firstn 3 (skipn 24 d) in
                let w := ft_mem tg 144 in
                let sk := ft_sk tg in
                let expect := generate_mac (firstn 3 w ++ [0; b; 0; 145; 0] ++ data)
                                (skipn 8 sk ++ firstn 8 sk) (firstn 8 (ft_rc tg)) false in
                if list_eqb wcnt (firstn 3 w) && (match expect with Ok m => list_eqb maca m | _ => false end)
                then (let tg' := do_write tg b data in
                      mkFT (ft_lites tg') (ft_idm tg') (mem_set (ft_mem tg') 144 (wcnt_inc w)) (ft_ext tg'),
                      Some (status_rsp 9 (ft_idm tg) 0 0 []))
                else (tg, Some (status_rsp 9 (ft_idm tg) 2 178 []))
            | _ => (tg, Some (status_rsp 9 (ft_idm tg) 255 161 []))
            end
        | _ => (tg, Some (status_rsp 9 (ft_idm tg) 255 161 []))
        end
      else (tg, None)
  | _ => (tg, None)
  end.

(* the honest channel: the reader talks to the card directly *)
Definition honest (tg : ftag) (cmd : list Z) : ftag * xres :=
  match ftag_step tg cmd with
  | (tg', Some r) => (tg', XRsp r)
  | (tg', None) => (tg', XTimeout)
  end.

(* a blank card: all-zero memory except MC (all permissions open) and the identification block *)
Definition blank_mem (lites : bool) (id : list Z) : Z -> list Z :=
  fun b => if b =? 136 then [255; 255; 255; 1; 7; 0; 0; 0; 0; 0; 0; 0; 0; 0; 0; 0]
           else if b =? 130 then id
           else if (b =? 144) then (if lites then [0; 254; 255] ++ zeros 13 else zeros 16)
           else zeros 16.
Definition blank_tag (lites : bool) (idm id : list Z) : ftag := mkFT lites idm (blank_mem lites id) false.

(* ---- scripted channel (used by the correspondence run): responses as they arrived at the reader,
   commands logged in reverse order *)
Definition script : Type := (list xres * list (list Z))%type.
Definition scripted (t : script) (cmd : list Z) : script * xres :=
  match fst t with
  | [] => (([], cmd :: snd t), XTimeout)
  | r :: rest => ((rest, cmd :: snd t), r)
  end.
