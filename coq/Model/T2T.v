(* Executable model of nfc/tag/tt2.py: Type2TagMemoryReader, read_tlv, Type2Tag.NDEF._read_ndef_data,
   _write_ndef_data (three phases), Type2Tag._format, and of Tag.NDEF.octets (setter) in
   nfc/tag/__init__.py.  Definitions only.

   The memory reader loads 16 bytes per READ on demand; the model works on [view m], everything
   a READ can return (READ rolls over to page 0 at the end of memory), and treats an access
   beyond it as the Type2TagCommandError the real reader raises.  READ / SECTOR SELECT commands
   do not change the tag and are not part of the model's output. *)
From Coq Require Import ZArith List Bool Lia.
From NV Require Import Base.Result Base.Bytes Model.TlvMem.
Import ListNotations.
Open Scope Z_scope.

(* everything READ can deliver: the memory, completed to a multiple of 16 bytes by roll-over *)
Definition view (m : list Z) : list Z :=
  m ++ firstn ((16 - length m mod 16) mod 16)%nat m.

(* the if/elif chain on the TLV type in the loop of _read_ndef_data *)
Definition t2_dispatch (skip : ranges) (t l : Z) (v : list Z) : res tlv_action :=
  if t =? 0 then Ok (Next skip)
  else if t =? 1 then
    (if l =? 3 then do r <- ctl_range lock_byte_range 1048576 v; Ok (Next (r :: skip)) else Ok (Next skip))
  else if t =? 2 then
    (if l =? 3 then do r <- ctl_range rsvd_byte_range 1048576 v; Ok (Next (r :: skip)) else Ok (Next skip))
  else if t =? 3 then Ok Found
  else if t =? 254 then Ok Stop
  else Ok (Next skip).

(* the TLV walk of _read_ndef_data.  [inner] = we are inside "while offset in skip_bytes".
   Result: None (the method returns None / no NDEF TLV) or the NDEF TLV (offset, skip set,
   value, ghost high-water mark of the reads made for the TLVs before it).
   Every step advances [off]; when the fuel (> size of the readable memory) is used up the walk
   is beyond the readable memory, where the code can only stop or fail - both yield None. *)
Fixpoint t2_walk (fuel : nat) (em : list Z) (dend : Z) (skip : ranges) (off : Z) (inner : bool) (hw : Z)
  : res (option (Z * ranges * list Z * Z)) :=
  match fuel with
  | O => Ok None
  | S f =>
    if negb inner && (dend <=? off) then Ok None
    else if in_skip skip off then t2_walk f em dend skip (off + 1) true hw
    else
      match read_tlv em off skip with
      | Ok (t, l, v, e) =>
        match t2_dispatch skip t l v with
        | Ok (Next skip') =>
          t2_walk f em dend skip' (off + l + 1 + (if l <? 255 then 1 else 3)) false (Z.max hw e)
        | Ok Found => Ok (Some (off, skip, v, hw))
        | Ok Stop => Ok None
        | Err x => Err x | Crash c => Crash c | Hang => Hang
        end
      | Err _ => Ok None            (* except Type2TagCommandError: return None *)
      | Crash c => Crash c
      | Hang => Hang
      end
  end.

(* _read_capability_data + the TLV walk of _read_ndef_data on the readable image (the code up to the repair
   c08-16; [t2_reader] below adds the final test) *)
Definition t2_read (em : list Z) : res (option layout) :=
  match rd em 12, rd em 13, rd em 14, rd em 15 with
  | Ok b12, Ok b13, Ok b14, Ok b15 =>
    if negb (b12 =? 225) then Ok None
    else if negb (Z.shiftr b13 4 =? 1) then Ok None
    else
      let dend := b14 * 8 + 16 in
      do w <- t2_walk (S (length em)) em dend [] 16 false 16;
      match w with
      | None => Ok None
      | Some (off, skip, v, hw) =>
        Ok (Some {| l_off := off; l_skip := skip; l_cap := get_capacity dend off skip;
                    l_rd := Z.shiftr b15 4 =? 0; l_wr := Z.land b15 15 =? 0;
                    l_val := v; l_dend := dend; l_hw := hw |})
      end
  | _, _, _, _ => Ok None
  end.

(* _read_ndef_data as it is after the repair c08-16-tt2-ndef-tlv-exceeds-data-area: the TLV walk followed by
   the test that the NDEF TLV lies inside the data area *)
Definition t2_reader (em : list Z) : res (option layout) :=
  match t2_read em with
  | Ok (Some L) => if ndef_fits em L then Ok (Some L) else Ok None
  | r => r
  end.

Definition classify (r : res (option layout)) : fresh_t :=
  match r with
  | Ok None => NoNdef
  | Ok (Some L) => if l_rd L then Msg (l_val L) else NotReadable
  | Err e => Failed (Err e)
  | Crash c => Failed (Crash c)
  | Hang => Failed Hang
  end.
(* tag.ndef of a new tag object activated on memory m *)
Definition t2_fresh (m : list Z) : fresh_t := classify (t2_reader (view m)).

(* ---- _write_ndef_data (after the repairs c01-tt2-empty-message and c02-tt2-length-commit) ---- *)
Definition straddle (off : Z) : bool := negb (Z.shiftr (off + 3) 2 =? Z.shiftr (off + 1) 2).

Definition t2_phases (L : layout) (d : list Z) : list phase :=
  [ph_len0 L; ph_data L d] ++
  (if len d <? 255 then [ph_len_short L d]
   else if straddle (l_off L) then [ph_len_low L d; ph_len_ff L]
   else [fun c => do c' <- ph_len_low L d c; ph_len_ff L c']).

(* tag.ndef.octets = d on a tag with memory m: result and the WRITE commands executed *)
Definition t2_write (m d : list Z) : res unit * list write :=
  let em := view m in
  match t2_reader em with
  | Ok (Some L) =>
    if negb (l_wr L) then (Crash AttributeErr, [])       (* "tag ndef area is not writeable" *)
    else if l_cap L <? len d then (Err ValueError, [])   (* "data length exceeds tag capacity" *)
    else run_phases 4 (len m) em (t2_phases L d) []
  | Ok None => (Crash NoneAttr, [])                      (* tag.ndef is None *)
  | Err e => (Err e, []) | Crash c => (Crash c, []) | Hang => (Hang, [])
  end.

(* ---- several assignments tag.ndef.octets = d on the same tag object: the NDEF object keeps the layout it
        found when tag.ndef was first read, and its memory reader keeps (data_from_tag, data_in_cache).
        [faults]: the i-th attempt fails at its k-th command with the given fate (an attempt with fewer
        commands completes). ---- *)
Definition t2_attempt (m : list Z) (L : layout) (from cache d : list Z) (k : option nat) (f : fate)
  : res unit * (list Z * list Z * list Z) * list write :=
  if negb (l_wr L) then (Crash AttributeErr, (m, from, cache), [])
  else if l_cap L <? len d then (Err ValueError, (m, from, cache), [])
  else run_attempt 4 (len m) view m from cache (t2_phases L d) k f.
Fixpoint t2_attempts (L : layout) (d : list Z) (faults : list (nat * fate)) (st : list Z * list Z * list Z)
  : list Z * list Z * list Z :=
  match faults with
  | [] => st
  | (k, f) :: r =>
    let '(m, from, cache) := st in
    t2_attempts L d r (snd (fst (t2_attempt m L from cache d (Some k) f)))
  end.
(* state of tag and reader after the faulted attempts, starting with a fresh reader on memory m *)
Definition t2_after (m d : list Z) (faults : list (nat * fate)) : option (layout * (list Z * list Z * list Z)) :=
  match t2_reader (view m) with
  | Ok (Some L) => Some (L, t2_attempts L d faults (m, view m, view m))
  | _ => None
  end.
(* the next, undisturbed attempt *)
Definition t2_retry (m d : list Z) (faults : list (nat * fate)) : option (res unit * list Z * list write) :=
  match t2_after m d faults with
  | Some (L, (m1, from, cache)) =>
    let p := t2_attempt m1 L from cache d None Lost in Some (fst (fst p), m1, snd p)
  | None => None
  end.

(* ---- Type2Tag._format(version, wipe) (after the repair c03-tt2-format-skip-bytes);
        returns True (Some) / False (None) and the WRITE commands ---- *)
Fixpoint wipe_loop (skip : ranges) (a : Z) (n : nat) (w : Z) (c : list Z) : res (list Z) :=
  match n with
  | O => Ok c
  | S n' => if in_skip skip a then wipe_loop skip (a + 1) n' w c
            else do c' <- upd c a w; wipe_loop skip (a + 1) n' w c'
  end.
Definition ph_format (L : layout) (wipe : option Z) : phase := fun c =>
  do c1 <- upd c (l_off L + 1) 0;
  let a := l_off L + 2 in
  match term_pos (l_skip L) a (Z.to_nat (l_dend L - a)) with
  | Some t =>
    do c2 <- upd c1 t 254;
    match wipe with
    | Some w => wipe_loop (l_skip L) (t + 1) (Z.to_nat (l_dend L - (t + 1))) (Z.land w 255) c2
    | None => Ok c2
    end
  | None => Ok c1      (* no room for a terminator, nothing left to wipe *)
  end.
Definition t2_format (m : list Z) (wipe : option Z) : res bool * list write :=
  let em := view m in
  match t2_reader em with
  | Ok (Some L) =>
    if negb (l_wr L) then (Ok false, [])
    else let p := run_phases 4 (len m) em [ph_format L wipe] [] in
         (match fst p with Ok _ => Ok true | Err e => Err e | Crash c => Crash c | Hang => Hang end, snd p)
  | Ok None => (Ok false, [])
  | Err e => (Err e, []) | Crash c => (Crash c, []) | Hang => (Hang, [])
  end.

(* ---- well-formed layout (DESIGN.md appendix D), as a decidable predicate on the memory ---- *)
Definition wf_layoutb (m : list Z) : bool :=
  (Nat.eqb (length m mod 4) 0) && (16 <=? len m) &&
  match t2_reader (view m) with
  | Ok (Some L) =>
    l_rd L && l_wr L && (l_dend L <=? len m) && (l_hw L <=? l_off L) && (16 <=? l_off L) && (l_off L + 1 <? l_dend L)
    && negb (in_skip (l_skip L) (l_off L)) && negb (in_skip (l_skip L) (l_off L + 1))
    && ((l_cap L <? 255) || (negb (in_skip (l_skip L) (l_off L + 2)) && negb (in_skip (l_skip L) (l_off L + 3))))
  | _ => false
  end.
Definition wf_layout (m : list Z) : Prop := wf_layoutb m = true.

(* the layout found by the reader (for statements) *)
Definition t2_layout (m : list Z) : option layout :=
  match t2_reader (view m) with Ok (Some L) => Some L | _ => None end.


(* ---- observations used by the correspondence run and by the theorems ---- *)
(* memories after the first 0, 1, .., n commands of ws *)
Fixpoint cut_mems (m : list Z) (ws : list write) : list (list Z) :=
  m :: match ws with [] => [] | w :: r => cut_mems (apply1 m w) r end.
(* capacity reported by a fresh reader (None if there is no NDEF) *)
Definition t2_capacity (m : list Z) : option Z :=
  match t2_reader (view m) with Ok (Some L) => Some (l_cap L) | _ => None end.
Definition t2_write_obs (m d : list Z) :=
  let p := t2_write m d in
  let m' := apply_ws m (snd p) in
  (fst p, snd p, m', t2_fresh m', t2_capacity m').
Definition t2_cut_obs (m d : list Z) : list fresh_t :=
  map t2_fresh (cut_mems m (snd (t2_write m d))).
Definition t2_format_obs (m : list Z) (wipe : option Z) :=
  let p := t2_format m wipe in
  let m' := apply_ws m (snd p) in
  (fst p, snd p, m', t2_fresh m', t2_capacity m').
(* free bytes of the data area after the tag byte of the NDEF TLV (for capacity_sound) *)
Definition t2_free_after_tag (L : layout) : Z :=
  count_free (l_skip L) (l_off L + 1) (Z.to_nat (l_dend L - (l_off L + 1))).

(* ---- the length commit of _write_ndef_data before the repair c02-tt2-length-commit (for the
        refutation witness in Props/C02_tlv.v; an empty message is not modelled here) ---- *)
Definition t2_write_unrepaired (m d : list Z) : res unit * list write :=
  let em := view m in
  match t2_reader em with
  | Ok (Some L) =>
    if negb (l_wr L) then (Crash AttributeErr, [])
    else if l_cap L <? len d then (Err ValueError, [])
    else run_phases 4 (len m) em
           [ph_len0 L; ph_data L d; if len d <? 255 then ph_len_short L d else ph_len_long_unrepaired L d] []
  | _ => (Crash NoneAttr, [])
  end.
(* one failed attempt (fault at command k1), then the retry: reader state after the failure, and the fresh reader's
   view after every cut point of the retry *)
Definition t2_retry_obs (m d : list Z) (k1 : nat) (f : fate) :=
  match t2_after m d [(k1, f)] with
  | Some (L, (m1, from, cache)) =>
    let p := t2_attempt m1 L from cache d None Lost in
    Some (m1, from, cache, fst (fst p), snd p, map t2_fresh (cut_mems m1 (snd p)))
  | None => None
  end.
(* a second assignment with OTHER data d2 on the same tag object after an attempt with d1 that failed at command k1 *)
Definition t2_rewrite_obs (m d1 : list Z) (k1 : nat) (f : fate) (d2 : list Z) :=
  match t2_after m d1 [(k1, f)] with
  | Some (L, (m1, from, cache)) =>
    let p := t2_attempt m1 L from cache d2 None Lost in
    Some (m1, fst (fst p), snd p, map t2_fresh (cut_mems m1 (snd p)))
  | None => None
  end.
