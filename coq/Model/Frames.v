(* Host-link frames: PN53x Chipset.command (build + response validation), ACR122
   ccid_xfr_block/command, RC-S380 Frame (encode branch); and an independent
   validator written from the PN53x user manual frame format. *)
From Coq Require Import ZArith List Bool.
From NV Require Import Base.Result Base.Bytes Base.PyPrims.
Import ListNotations.
Open Scope Z_scope.

Definition SOF : list Z := [0; 0; 255].
Definition ACKF : list Z := [0; 0; 255; 0; 255; 0].

(* ---------------- PN53x: command frame construction ------------------------ *)
Definition pn53x_head (n : Z) : list Z :=            (* n = len(cmd_data) *)
  if n <? 254 then SOF ++ [n + 2; 254 - n]
  else let hi := (n + 2) / 256 in let lo := (n + 2) mod 256 in
       SOF ++ [255; 255; hi; lo; Z.land (256 - (hi + lo)) 255].
Definition pn53x_build (cmd : Z) (data : list Z) : list Z :=
  let body := [212; cmd] ++ data in
  pn53x_head (len data) ++ body ++ [Z.land (256 - sum body) 255; 0].

(* ---------------- PN53x: response validation (Chipset.command) ------------- *)
Definition starts_with (p l : list Z) : bool := list_eqb (firstn (length p) l) p.

(* frame[2:-2] and frame[:-1] *)
Definition strip2 (l : list Z) : list Z := removelast (removelast (tl (tl l))).
Definition but_last (l : list Z) : list Z := removelast l.

Definition byt (f : list Z) (k : nat) : Z := nth k f 0.

Definition pn53x_parse (cmd : Z) (frame : list Z) : res (list Z) :=
  if len frame <? 7 then Err IOErr else
  do body <-
    (if starts_with (SOF ++ [255; 255]) frame then
       if negb (Z.land (sum (firstn 3 (skipn 5 frame))) 255 =? 0) then Err IOErr   (* sum(frame[5:8]) *)
       else if negb (byt frame 5 * 256 + byt frame 6 =? len frame - 10) then Err IOErr
       else Ok (skipn 8 frame)
     else if starts_with SOF frame then
       if negb (Z.land (sum (firstn 2 (skipn 3 frame))) 255 =? 0) then Err IOErr   (* sum(frame[3:5]) *)
       else if negb (byt frame 3 =? len frame - 7) then Err IOErr
       else Ok (skipn 5 frame)
     else Err IOErr);
  if negb (Z.land (sum (but_last body)) 255 =? 0) then Err IOErr else
  do b0 <- idx body 0;
  if b0 =? 127 then Err (ChipsetError 127) else
  if negb (b0 =? 213) then Err IOErr else
  do b1 <- idx body 1;
  if negb (b1 =? cmd + 1) then Err IOErr else
  Ok (strip2 body).

(* ---------------- independent validator (PN532 UM, 6.2.1) ------------------ *)
(* normal:   00 00 FF LEN LCS [TFI PD0..PDn] DCS 00   LEN+LCS = 0 mod 256, LEN = |TFI..PDn|, sum+DCS = 0
   extended: 00 00 FF FF FF LENM LENL LCS [TFI ..] DCS 00
   The postamble byte value is not checked (it lies outside the checksummed part). *)
Definition host_frame_ok (f : list Z) : option (list Z) :=
  if (byt f 0 =? 0) && (byt f 1 =? 0) && (byt f 2 =? 255) then
    if (byt f 3 =? 255) && (byt f 4 =? 255) then
      let n := byt f 5 * 256 + byt f 6 in
      if ((byt f 5 + byt f 6 + byt f 7) mod 256 =? 0) && (len f =? 8 + n + 2) then
        let body := firstn (Z.to_nat n) (skipn 8 f) in
        let dcs := nth (Z.to_nat n) (skipn 8 f) 0 in
        if (sum body + dcs) mod 256 =? 0 then Some body else None
      else None
    else
      let n := byt f 3 in
      if ((byt f 3 + byt f 4) mod 256 =? 0) && (len f =? 5 + n + 2) then
        let body := firstn (Z.to_nat n) (skipn 5 f) in
        let dcs := nth (Z.to_nat n) (skipn 5 f) 0 in
        if (sum body + dcs) mod 256 =? 0 then Some body else None
      else None
  else None.

(* a response frame as the chip builds it *)
Definition pn53x_response (cmd : Z) (data : list Z) : list Z :=
  let body := [213; cmd + 1] ++ data in
  let n := len body in
  (if n <? 255 then SOF ++ [n; Z.land (256 - n) 255]
   else SOF ++ [255; 255; n / 256; n mod 256; Z.land (256 - (n / 256 + n mod 256)) 255])
  ++ body ++ [Z.land (256 - sum body) 255; 0].

(* ---------------- ACR122: CCID envelope + pseudo APDU ---------------------- *)
Definition le32 (n : Z) : list Z := [n mod 256; (n / 256) mod 256; (n / 65536) mod 256; (n / 16777216) mod 256].
Definition ccid_build (data : list Z) : list Z := [111] ++ le32 (len data) ++ [0; 0; 0; 0; 0] ++ data.
Definition acr122_build (cmd : Z) (data : list Z) : res (list Z) :=
  let frame := [212; cmd] ++ data in
  if len frame >? 255 then Crash ValueErr            (* bytearray([.., len(frame)]) *)
  else Ok (ccid_build ([255; 0; 0; 0; len frame] ++ frame)).
Definition ccid_parse (frame : list Z) : res (list Z) :=
  if len frame <? 10 then Err IOErr else
  if negb (byt frame 0 =? 128) then Err IOErr else
  if negb (len frame =? 10 + (byt frame 1 + 256 * byt frame 2 + 65536 * byt frame 3 + 16777216 * byt frame 4)) then Err IOErr else
  Ok (skipn 10 frame).
Definition last2 (l : list Z) : Z * Z := (last (removelast l) 0, last l 0).
Definition acr122_parse (cmd : Z) (rsp : list Z) : res (list Z) :=
  do frame <- ccid_parse rsp;
  if len frame <? 4 then Err IOErr else
  if negb ((byt frame 0 =? 213) && (byt frame 1 =? cmd + 1)) then Err IOErr else
  if negb ((fst (last2 frame) =? 144) && (snd (last2 frame) =? 0)) then Err IOErr else
  Ok (strip2 frame).
(* independent reading of the ACR122 envelopes: RDR_to_PC_DataBlock (80h, dwLength LE, 5 bytes)
   and the command PC_to_RDR_Escape 6Fh with pseudo APDU FF 00 00 00 Lc *)
Definition acr122_rsp_ok (f : list Z) : option (list Z) :=
  if (10 <=? len f) && (byt f 0 =? 128) &&
     (len f - 10 =? byt f 1 + 256 * byt f 2 + 65536 * byt f 3 + 16777216 * byt f 4)
  then Some (skipn 10 f) else None.
Definition acr122_cmd_ok (f : list Z) : option (list Z) :=
  if (15 <=? len f) && (byt f 0 =? 111) &&
     (len f - 10 =? byt f 1 + 256 * byt f 2 + 65536 * byt f 3 + 16777216 * byt f 4) &&
     (byt f 5 =? 0) && (byt f 6 =? 0) && (byt f 7 =? 0) && (byt f 8 =? 0) && (byt f 9 =? 0) &&
     (byt f 10 =? 255) && (byt f 11 =? 0) && (byt f 12 =? 0) && (byt f 13 =? 0) && (byt f 14 =? len f - 15)
  then Some (skipn 15 f) else None.

(* ---------------- RC-S380 command frame (Frame.__init__ encode branch) ----- *)
Definition rcs380_build (data : list Z) : list Z :=
  let n := len data in
  let l := [n mod 256; n / 256] in
  [0; 0; 255; 255; 255] ++ l ++ [(256 - sum l) mod 256] ++ data ++ [(256 - sum data) mod 256; 0].
(* independent reading: extended frame with little-endian length (RC-S380 command reference) *)
Definition rcs380_frame_ok (f : list Z) : option (list Z) :=
  if (byt f 0 =? 0) && (byt f 1 =? 0) && (byt f 2 =? 255) && (byt f 3 =? 255) && (byt f 4 =? 255) then
    let n := byt f 6 * 256 + byt f 5 in
    if ((byt f 5 + byt f 6 + byt f 7) mod 256 =? 0) && (len f =? 8 + n + 2) then
      let body := firstn (Z.to_nat n) (skipn 8 f) in
      let dcs := nth (Z.to_nat n) (skipn 8 f) 0 in
      if ((sum body + dcs) mod 256 =? 0) && (nth (S (Z.to_nat n)) (skipn 8 f) 1 =? 0) then Some body else None
    else None
  else None.
