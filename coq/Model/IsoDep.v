(* ISO-DEP (ISO/IEC 14443-4 half-duplex block protocol), reader side as implemented by
   nfc/tag/tt4.py (IsoDepInitiator.exchange, Type4Tag.send_apdu, Type4ATag/Type4BTag
   activation parameters), a card (PICC) written from the standard, and a scripted air.

   PCD: the body of IsoDepInitiator.exchange is a loop around self.clf.exchange(); it is
   modelled as a step machine whose control state [phase] names the clf.exchange call the
   code is about to make; [pcd_absorb] is everything the code does between the return (or
   exception) of that call and the next call / return / raise.

   Three booleans select between the code as pinned ("legacy") and the repaired code
   (fixes/c12-*.diff):
     fix_wtx_try   S(WTX) answered inside the try of the command block loop
     fix_wtx_chain S(WTX) honoured while the card is chaining its response
     fix_rack      retransmission after R(ACK) with the other block number is budgeted
   The theorems are about all three set; the legacy variants are kept executable for the
   refutation lemmas and so that the correspondence run can follow an unrepaired tree.

   Definitions only. *)
From Coq Require Import ZArith List Bool.
From NV Require Import Base.Result Base.Bytes.
Import ListNotations.
Open Scope Z_scope.

Definition bytes := list Z.

(* nfc.tag.TIMEOUT_ERROR, RECEIVE_ERROR, PROTOCOL_ERROR *)
Definition E_TIMEOUT : Z := 0.
Definition E_RECEIVE : Z := -1.
Definition E_PROTOCOL : Z := -2.

Record cfg := {
  miu : Z;            (* self.miu = fsc - 3 *)
  n_nak : Z;          (* self.n_retry_nak *)
  n_ack : Z;          (* self.n_retry_ack *)
  fix_wtx_try : bool;
  fix_wtx_chain : bool;
  fix_rack : bool }.

(* what self.clf.exchange() does: returns data or raises a CommunicationError subclass *)
Inductive aresult := ARx (d : bytes) | ATimeout | ATxErr | AProto.

Inductive phase :=
| PSend (off i : Z) (data : bytes)          (* for-i loop of the command block at [off]: exchange(data) inside try *)
| PWtx (off : Z) (data : bytes)             (* legacy: the while-WTX loop after the for-i loop, exchange(data) outside try *)
| PRecv (i : Z) (data rsp : bytes)          (* response chaining, for-i loop: exchange(data) inside try *)
| PDone (r : res bytes).                    (* return / raise *)

Record pcd := { pni : Z; ph : phase }.

Definition on_idx (d : bytes) (i : Z) (f : Z -> phase) : phase :=
  match idx d i with Ok b => f b | Err e => PDone (Err e) | Crash c => PDone (Crash c) | Hang => PDone Hang end.

Definition tagerr (e : Z) : phase := PDone (Err (TagCommandError e)).
(* inside the repaired WTX loops (HEAD, fixes/c08-03): if len(data) < 2: raise nfc.clf.ProtocolError, which the
   enclosing try turns into Type4TagCommandError(PROTOCOL_ERROR); otherwise data[1] is read (wtx_timeout) and the
   S(WTX) block is echoed: [if len d <? 2 then tagerr E_PROTOCOL else on_idx d 1 ..] in pcd_absorb.
   The pinned code (flags off) reads data[1] unguarded: [on_idx], IndexError. *)


(* more = len(command) - offset > self.miu ; pfb = pack('B', (0x02, 0x12)[more] | self.pni) *)
Definition more_at (k : cfg) (cmd : bytes) (off : Z) : bool := len cmd - off >? miu k.
Definition pfb_at (k : cfg) (cmd : bytes) (pn off : Z) : Z :=
  Z.lor (if more_at k cmd off then 18 else 2) pn.
(* pfb + command[offset:offset+self.miu] *)
Definition iblock (k : cfg) (cmd : bytes) (pn off : Z) : bytes :=
  pfb_at k cmd pn off :: slice cmd off (off + miu k).

Definition toggle (pn : Z) : Z := (pn + 1) mod 2.

(* entry of exchange(command) for command is not None *)
Definition pcd_start (k : cfg) (cmd : bytes) (pn : Z) : pcd :=
  {| pni := pn;
     ph := if miu k =? 0 then PDone (Crash RangeStep0)                       (* range(0, n, 0) *)
           else if (len cmd <=? 0) || (miu k <? 0) then PDone (Crash Unbound) (* no loop pass: data unbound at line 143 *)
           else PSend 0 1 (iblock k cmd pn 0) |}.

(* line 143: while bool(data[0] & 0b00010000) *)
Definition recv_check (pn b0 : Z) (rsp : bytes) : pcd :=
  {| pni := pn;
     ph := if negb (Z.land b0 16 =? 0) then PRecv 1 [Z.lor 162 pn] rsp else PDone (Ok rsp) |}.

(* lines 125-141, data = d, d[0] = b0 *)
Definition after_wtx (k : cfg) (cmd : bytes) (pn off : Z) (d : bytes) (b0 : Z) : pcd :=
  if negb (Z.land b0 1 =? pn) then {| pni := pn; ph := tagerr E_PROTOCOL |}
  else if more_at k cmd off then
    if Z.land b0 254 =? 162 then
      let pn' := toggle pn in
      {| pni := pn'; ph := PSend (off + miu k) 1 (iblock k cmd pn' (off + miu k)) |}
    else {| pni := pn; ph := tagerr E_PROTOCOL |}
  else
    if Z.land b0 238 =? 2 then recv_check (toggle pn) b0 (tl d)
    else {| pni := pn; ph := tagerr E_PROTOCOL |}.

Definition is_wtx (b0 : Z) : bool := Z.land b0 254 =? 242.
(* data[0] == 0xA2 | (~self.pni & 1) *)
Definition is_rack_other (pn b0 : Z) : bool := b0 =? Z.lor 162 (Z.land (Z.lnot pn) 1).

Definition send_error (k : cfg) (pn off i e : Z) : pcd :=
  {| pni := pn; ph := if i <=? n_nak k then PSend off (i + 1) [Z.lor 178 pn] else tagerr e |}.
Definition recv_error (k : cfg) (pn i e : Z) (rsp : bytes) : pcd :=
  {| pni := pn; ph := if i <=? n_ack k then PRecv (i + 1) [Z.lor 162 pn] rsp else tagerr e |}.

Definition with_ph (pn : Z) (f : phase) : pcd := {| pni := pn; ph := f |}.

Definition pcd_absorb (k : cfg) (cmd : bytes) (p : pcd) (a : aresult) : pcd :=
  let pn := pni p in
  match ph p with
  | PSend off i _ =>
      match a with
      | ARx d =>
          if len d =? 0 then send_error k pn off i E_RECEIVE
          else match idx d 0 with
          | Ok b0 =>
            let retransmit := is_rack_other pn b0 && (if fix_rack k then i <=? n_nak k + 1 else true) in
            if fix_wtx_try k then
              if is_wtx b0 then with_ph pn (if len d <? 2 then tagerr E_PROTOCOL else on_idx d 1 (fun _ => PSend off i d))
              else if retransmit then with_ph pn (PSend off (i + 1) (iblock k cmd pn off))
              else after_wtx k cmd pn off d b0
            else
              if retransmit then with_ph pn (PSend off (i + 1) (iblock k cmd pn off))
              else if is_wtx b0 then with_ph pn (on_idx d 1 (fun _ => PWtx off d))
              else after_wtx k cmd pn off d b0
          | _ => with_ph pn (PDone (Crash IndexErr))
          end
      | ATxErr => send_error k pn off i E_RECEIVE
      | ATimeout => send_error k pn off i E_TIMEOUT
      | AProto => with_ph pn (tagerr E_PROTOCOL)
      end
  | PWtx off _ =>
      match a with
      | ARx d =>
          match idx d 0 with
          | Ok b0 => if is_wtx b0 then with_ph pn (on_idx d 1 (fun _ => PWtx off d))
                     else after_wtx k cmd pn off d b0
          | _ => with_ph pn (PDone (Crash IndexErr))
          end
      | ATxErr => with_ph pn (PDone (Err TransmissionError))     (* raw nfc.clf errors escape *)
      | ATimeout => with_ph pn (PDone (Err TimeoutError))
      | AProto => with_ph pn (PDone (Err ProtocolError))
      end
  | PRecv i _ rsp =>
      match a with
      | ARx d =>
          if len d =? 0 then recv_error k pn i E_RECEIVE rsp
          else match idx d 0 with
          | Ok b0 =>
            if fix_wtx_chain k && is_wtx b0 then with_ph pn (if len d <? 2 then tagerr E_PROTOCOL else on_idx d 1 (fun _ => PRecv i d rsp))
            else if negb (Z.land b0 1 =? pn) then with_ph pn (tagerr E_PROTOCOL)
            else recv_check (toggle pn) b0 (rsp ++ tl d)
          | _ => with_ph pn (PDone (Crash IndexErr))
          end
      | ATxErr => recv_error k pn i E_RECEIVE rsp
      | ATimeout => recv_error k pn i E_TIMEOUT rsp
      | AProto => with_ph pn (tagerr E_PROTOCOL)
      end
  | PDone _ => p
  end.

(* the block handed to clf.exchange in each phase *)
Definition pcd_emit (p : pcd) : bytes :=
  match ph p with PSend _ _ d => d | PWtx _ d => d | PRecv _ d _ => d | PDone _ => [] end.

(* the timeout handed to clf.exchange together with block [d], as a multiple of self.fwt:
   n > 0: wtx_timeout = (data[1] & 0x3F) * self.fwt - exactly when the block is the echo of an S(WTX) request;
   0: the caller's timeout, by default self.fwt + self.delta_fwt *)
Definition blk_timeout (d : bytes) : Z :=
  match d with b0 :: b1 :: _ => if is_wtx b0 then Z.land b1 63 else 0 | _ => 0 end.

(* ------------------------------------------------------------------------------
   The card, from ISO/IEC 14443-4: block numbering rules C, D, E; block handling
   rules 2, 3, 9, 10, 11, 12, 13; no error recovery by the PICC (mute).  No CID, no NAD.
   [app n apdu] is the card application (n = APDUs executed before). *)
Record ccfg := { cfsc : Z;     (* largest block incl. 2 EDC bytes the card accepts *)
                 cmiu : Z }.   (* INF bytes per response block *)

Record picc := {
  bn : Z;                                   (* rule C: 1 after activation *)
  last : bytes;                             (* last block sent, [] = none *)
  rxbuf : bytes;                            (* INF of chained command blocks so far *)
  txrest : bytes;                           (* response bytes after the I-block sent/pending; non-empty = chaining *)
  pend : option (Z * list Z * bytes);       (* S(WTX) request outstanding: WTXM, further WTXMs, block to send then *)
  plan : list (list Z);                     (* per opportunity (rule 9): WTXM values to request first *)
  execs : list bytes }.                     (* executed APDUs, oldest first *)

Definition picc_init (pl : list (list Z)) : picc :=
  {| bn := 1; last := []; rxbuf := []; txrest := []; pend := None; plan := pl; execs := [] |}.

Definition set_plan (c : picc) (pl : list (list Z)) : picc :=
  {| bn := bn c; last := last c; rxbuf := rxbuf c; txrest := txrest c; pend := pend c; plan := pl; execs := execs c |}.

(* rule 9: send blk, or S(WTX) requests first *)
Definition picc_emit (c : picc) (blk : bytes) : picc * option bytes :=
  let ws := match plan c with [] => [] | w :: _ => w end in
  let pl := tl (plan c) in
  match ws with
  | [] => ({| bn := bn c; last := blk; rxbuf := rxbuf c; txrest := txrest c; pend := None; plan := pl; execs := execs c |},
           Some blk)
  | w :: ws' => ({| bn := bn c; last := [242; w]; rxbuf := rxbuf c; txrest := txrest c;
                    pend := Some (w, ws', blk); plan := pl; execs := execs c |}, Some [242; w])
  end.

(* next response I-block out of [data], for block number b *)
Definition next_iblock (kc : ccfg) (b : Z) (data : bytes) : bytes * bytes :=
  let chunk := take (cmiu kc) data in
  let rest := drop (cmiu kc) data in
  (Z.lor (Z.lor 2 (if len rest >? 0 then 16 else 0)) b :: chunk, rest).

Definition flip (b : Z) : Z := if b =? 0 then 1 else 0.

Section Picc.
Variable app : Z -> bytes -> bytes.

Definition picc_absorb (kc : ccfg) (c : picc) (blk : bytes) : picc * option bytes :=
  match blk with
  | [] => (c, None)
  | pcb :: inf =>
    if len blk + 2 >? cfsc kc then (c, None) else
    if Z.land pcb 238 =? 2 then                                   (* I-block, no CID/NAD *)
      let b := flip (bn c) in                                      (* rule D *)
      if negb (Z.land pcb 16 =? 0) then                            (* chaining: rule 2 *)
        picc_emit {| bn := b; last := last c; rxbuf := rxbuf c ++ inf; txrest := []; pend := None;
                     plan := plan c; execs := execs c |} [Z.lor 162 b]
      else
        let apdu := rxbuf c ++ inf in
        let resp := app (len (execs c)) apdu in
        let '(ib, rest) := next_iblock kc b resp in
        picc_emit {| bn := b; last := last c; rxbuf := []; txrest := rest; pend := None;
                     plan := plan c; execs := execs c ++ [apdu] |} ib   (* rule 10 *)
    else if Z.land pcb 238 =? 162 then                             (* R-block, no CID *)
      if negb (len inf =? 0) then (c, None) else
      if Z.land pcb 1 =? bn c then                                 (* rule 11 *)
        match last c with [] => (c, None) | _ => (c, Some (last c)) end
      else if negb (Z.land pcb 16 =? 0) then                       (* R(NAK): rule 12 *)
        match pend c with
        | Some _ => (c, None)
        | None => let r := [Z.lor 162 (bn c)] in
                  ({| bn := bn c; last := r; rxbuf := rxbuf c; txrest := txrest c; pend := None;
                      plan := plan c; execs := execs c |}, Some r)
        end
      else                                                         (* R(ACK): rules E, 13 *)
        match pend c, txrest c with
        | None, _ :: _ =>
            let b := flip (bn c) in
            let '(ib, rest) := next_iblock kc b (txrest c) in
            picc_emit {| bn := b; last := last c; rxbuf := rxbuf c; txrest := rest; pend := None;
                         plan := plan c; execs := execs c |} ib
        | _, _ => (c, None)
        end
    else if pcb =? 242 then                                        (* S(WTX) response: rule 3 *)
      match pend c, inf with
      | Some (w, ws, nxt), [x] =>
          if x =? w then
            match ws with
            | [] => ({| bn := bn c; last := nxt; rxbuf := rxbuf c; txrest := txrest c; pend := None;
                        plan := plan c; execs := execs c |}, Some nxt)
            | w2 :: ws' => ({| bn := bn c; last := [242; w2]; rxbuf := rxbuf c; txrest := txrest c;
                               pend := Some (w2, ws', nxt); plan := plan c; execs := execs c |}, Some [242; w2])
            end
          else (c, None)
      | _, _ => (c, None)
      end
    else (c, None)
  end.

(* ------------------------------------------------------------------------------
   The air: one (request fate, response fate) per exchanged block. *)
Inductive fate := FD | FL | FC.

Definition air (kc : ccfg) (c : picc) (blk : bytes) (ff : fate * fate) : picc * aresult :=
  match fst ff with
  | FD => let '(c', r) := picc_absorb kc c blk in
         match r with
         | None => (c', ATimeout)
         | Some rsp => match snd ff with FD => (c', ARx rsp) | FL => (c', ATimeout) | FC => (c', ATxErr) end
         end
  | _ => (c, ATimeout)            (* lost or corrupted on the way to the card: the card stays mute *)
  end.

Definition is_done (p : pcd) : bool := match ph p with PDone _ => true | _ => false end.

(* one clf.exchange call and what the code does with its outcome *)
Definition round (k : cfg) (kc : ccfg) (cmd : bytes) (st : pcd * picc) (ff : fate * fate) : pcd * picc :=
  let '(p, c) := st in
  if is_done p then st else
  let '(c', a) := air kc c (pcd_emit p) ff in (pcd_absorb k cmd p a, c').

Record outcome := { o_res : res bytes; o_pni : Z; o_card : picc; o_blocks : list bytes }.

(* past the end of the script everything is delivered; explicit fuel, Hang on exhaustion *)
Fixpoint run (fuel : nat) (k : cfg) (kc : ccfg) (cmd : bytes) (p : pcd) (c : picc)
             (sc : list (fate * fate)) (tr : list bytes) : outcome :=
  match ph p with
  | PDone r => {| o_res := r; o_pni := pni p; o_card := c; o_blocks := rev tr |}
  | _ =>
    match fuel with
    | O => {| o_res := Hang; o_pni := pni p; o_card := c; o_blocks := rev tr |}
    | S f =>
      let ff := match sc with [] => (FD, FD) | x :: _ => x end in
      let '(p', c') := round k kc cmd (p, c) ff in
      run f k kc cmd p' c' (tl sc) (pcd_emit p :: tr)
    end
  end.

(* IsoDepInitiator.exchange(command) against the card *)
Definition exchange (fuel : nat) (k : cfg) (kc : ccfg) (cmd : bytes) (pn : Z) (c : picc)
                    (sc : list (fate * fate)) : outcome :=
  run fuel k kc cmd (pcd_start k cmd pn) c sc [].

(* a session: APDUs one after the other on the same tag object and card;
   each with its own fault script and WTX plan *)
Fixpoint session (fuel : nat) (k : cfg) (kc : ccfg) (pn : Z) (c : picc)
                 (l : list (bytes * list (fate * fate) * list (list Z))) : list outcome :=
  match l with
  | [] => []
  | (cmd, sc, pl) :: l' =>
      let o := exchange fuel k kc cmd pn (set_plan c pl) sc in
      o :: session fuel k kc (o_pni o) (o_card o) l'
  end.
End Picc.

(* the reader against an arbitrary responder: the n-th clf.exchange call yields [s n] *)
Fixpoint run_stream (fuel : nat) (k : cfg) (cmd : bytes) (p : pcd) (s : nat -> aresult) (n : nat) : res bytes :=
  match ph p with
  | PDone r => r
  | _ => match fuel with
         | O => Hang
         | S f => run_stream f k cmd (pcd_absorb k cmd p (s n)) s (S n)
         end
  end.

(* ------------------------------------------------------------------------------
   The application used by the simulator and the extracted runner. *)
Definition byte_at (l : bytes) (i : nat) : Z := nth i l 0.
Definition demo_body (seed n : Z) (ln : Z) : bytes :=
  map (fun i => (seed + 31 * Z.of_nat i + 7 * n) mod 256) (seq 0 (Z.to_nat ln)).
Definition demo_app (n : Z) (apdu : bytes) : bytes :=
  let ln := if 4 <=? len apdu then (byte_at apdu 2 * 256 + byte_at apdu 3) mod 1024 else len apdu in
  let body := demo_body (sum apdu) n ln in
  if (1 <=? len apdu) && (byte_at apdu 0 =? 255) then body
  else if (2 <=? len apdu) && (byte_at apdu 1 =? 238) then body ++ [106; 130]
  else if (2 <=? len apdu) && (byte_at apdu 1 =? 108) then body ++ [108; 5]       (* wrong Le, 5 bytes available *)
  else body ++ [144; 0].

(* ------------------------------------------------------------------------------
   Type4Tag.send_apdu around transceive (short length fields: _extended_length_support
   is False for both tag classes). *)
Definition apdu_build (cla ins p1 p2 : Z) (data : bytes) (mrl : Z) : res bytes :=
  if (0 <? len data) && (255 <? len data) then Err ValueError
  else if negb (mrl =? 0) && (256 <? mrl) then Err ValueError
  else Ok ([cla; ins; p1; p2]
           ++ (if 0 <? len data then len data :: data else [])
           ++ (if 0 <? mrl then [if mrl =? 256 then 0 else mrl] else [])).

Definition last2 (l : bytes) : bytes := skipn (length l - 2) l.
Definition but_last2 (l : bytes) : bytes := firstn (length l - 2) l.
Definition apdu_finish (check_status : bool) (r : res bytes) : res bytes :=
  do a <- r;
  if len a <? 2 then Err (TagCommandError E_PROTOCOL)
  else if check_status then
    match last2 a with
    | [144; 0] => Ok (but_last2 a)
    | [s1; s2] => Err (TagCommandError (s1 * 256 + s2))
    | _ => Crash UnpackErr
    end
  else Ok a.

(* Type4Tag.send_apdu = build, transceive (= IsoDepInitiator.exchange), status handling *)
Definition send_apdu (app : Z -> bytes -> bytes) (fuel : nat) (k : cfg) (kc : ccfg)
    (cla ins p1 p2 : Z) (data : bytes) (mrl : Z) (check_status : bool)
    (pn : Z) (c : picc) (sc : list (fate * fate)) : outcome :=
  match apdu_build cla ins p1 p2 data mrl with
  | Ok a => let o := exchange app fuel k kc a pn c sc in
            {| o_res := apdu_finish check_status (o_res o); o_pni := o_pni o; o_card := o_card o;
               o_blocks := o_blocks o |}
  | Err e => {| o_res := Err e; o_pni := pn; o_card := c; o_blocks := [] |}
  | Crash x => {| o_res := Crash x; o_pni := pn; o_card := c; o_blocks := [] |}
  | Hang => {| o_res := Hang; o_pni := pn; o_card := c; o_blocks := [] |}
  end.

(* ------------------------------------------------------------------------------
   HEAD b65ae89 (fixes/c08-19-isodep-wtx-chaining-without-end.diff): exchange() keeps ONE counter n_extra for the
   whole exchange, incremented at every S(WTX) request accepted in one of the two (repaired) WTX loops and at every
   pass of the response chaining `while`; when it exceeds self.max_extra_blocks (65538) the exchange ends with
   Type4TagCommandError(PROTOCOL_ERROR).  [pcd_absorb] above is the reader without that counter; [pcd_absorb_x]
   threads it: [nx] = n_extra, [mx] = Some self.max_extra_blocks, or None for a tree before b65ae89 (the counter is
   then a ghost: it counts, nothing depends on it). *)
Definition MAX_EXTRA_BLOCKS : Z := 65538.
Record xpcd := { xp : pcd; nx : Z }.
Definition is_recv (p : pcd) : bool := match ph p with PRecv _ _ _ => true | _ => false end.
(* an S(WTX) block that carries its WTXM byte arrives inside a repaired WTX loop: n_extra += 1 *)
Definition wtx_event (k : cfg) (p : pcd) (a : aresult) : bool :=
  match a with
  | ARx (b0 :: _ :: _) =>
      is_wtx b0 && match ph p with PSend _ _ _ => fix_wtx_try k | PRecv _ _ _ => fix_wtx_chain k | _ => false end
  | _ => false
  end.
(* `while bool(data[0] & 0b00010000)` is entered or continued - exactly when the step ends in the chaining
   loop with the block number toggled (retries and S(WTX) echoes keep the block number): n_extra += 1 *)
Definition chain_event (p p' : pcd) : bool := is_recv p' && negb (pni p' =? pni p).
Definition over (mx : option Z) (n : Z) : bool := match mx with Some m => n >? m | None => false end.
Definition pcd_absorb_x (k : cfg) (mx : option Z) (cmd : bytes) (x : xpcd) (a : aresult) : xpcd :=
  let p := xp x in
  let p' := pcd_absorb k cmd p a in
  if wtx_event k p a then
    let n := nx x + 1 in                       (* raise nfc.clf.ProtocolError("WTX without end") inside the try *)
    {| xp := if over mx n then with_ph (pni p) (tagerr E_PROTOCOL) else p'; nx := n |}
  else if chain_event p p' then
    let n := nx x + 1 in                       (* raise Type4TagCommandError(PROTOCOL_ERROR), self.pni already toggled *)
    {| xp := if over mx n then with_ph (pni p') (tagerr E_PROTOCOL) else p'; nx := n |}
  else {| xp := p'; nx := nx x |}.

Section PiccX.
Variable app : Z -> bytes -> bytes.

Definition roundx (k : cfg) (mx : option Z) (kc : ccfg) (cmd : bytes) (st : xpcd * picc) (ff : fate * fate) : xpcd * picc :=
  let '(x, c) := st in
  if is_done (xp x) then st else
  let '(c', a) := air app kc c (pcd_emit (xp x)) ff in (pcd_absorb_x k mx cmd x a, c').

(* result and final value of n_extra *)
Fixpoint runx (fuel : nat) (k : cfg) (mx : option Z) (kc : ccfg) (cmd : bytes) (x : xpcd) (c : picc)
              (sc : list (fate * fate)) (tr : list bytes) : outcome * Z :=
  match ph (xp x) with
  | PDone r => ({| o_res := r; o_pni := pni (xp x); o_card := c; o_blocks := rev tr |}, nx x)
  | _ =>
    match fuel with
    | O => ({| o_res := Hang; o_pni := pni (xp x); o_card := c; o_blocks := rev tr |}, nx x)
    | S f =>
      let ff := match sc with [] => (FD, FD) | y :: _ => y end in
      let '(x', c') := roundx k mx kc cmd (x, c) ff in
      runx f k mx kc cmd x' c' (tl sc) (pcd_emit (xp x) :: tr)
    end
  end.

(* IsoDepInitiator.exchange(command) at HEAD: n_extra = 0 before the first block *)
Definition exchangex (fuel : nat) (k : cfg) (mx : option Z) (kc : ccfg) (cmd : bytes) (pn : Z) (c : picc)
                     (sc : list (fate * fate)) : outcome * Z :=
  runx fuel k mx kc cmd {| xp := pcd_start k cmd pn; nx := 0 |} c sc [].
End PiccX.

Fixpoint run_streamx (fuel : nat) (k : cfg) (mx : option Z) (cmd : bytes) (x : xpcd) (s : nat -> aresult) (n : nat) : res bytes :=
  match ph (xp x) with
  | PDone r => r
  | _ => match fuel with
         | O => Hang
         | S f => run_streamx f k mx cmd (pcd_absorb_x k mx cmd x (s n)) s (S n)
         end
  end.

Definition send_apdux (app : Z -> bytes -> bytes) (fuel : nat) (k : cfg) (mx : option Z) (kc : ccfg)
    (cla ins p1 p2 : Z) (data : bytes) (mrl : Z) (check_status : bool)
    (pn : Z) (c : picc) (sc : list (fate * fate)) : outcome :=
  match apdu_build cla ins p1 p2 data mrl with
  | Ok a => let o := fst (exchangex app fuel k mx kc a pn c sc) in
            {| o_res := apdu_finish check_status (o_res o); o_pni := o_pni o; o_card := o_card o;
               o_blocks := o_blocks o |}
  | Err e => {| o_res := Err e; o_pni := pn; o_card := c; o_blocks := [] |}
  | Crash y => {| o_res := Crash y; o_pni := pn; o_card := c; o_blocks := [] |}
  | Hang => {| o_res := Hang; o_pni := pn; o_card := c; o_blocks := [] |}
  end.

(* ------------------------------------------------------------------------------
   Type4ATag.__init__ / Type4BTag.__init__: FSC, FWT and retry budget. *)
Definition fsc_of (fsci : Z) : Z :=
  nth (Z.to_nat fsci) [16; 24; 32; 40; 48; 64; 96; 128; 256] 256.
(* min(int(1/fwt), 5) with fwt = 4096/13.56E6 * 2**fwti *)
Definition n_retry_of (fwti : Z) : Z := Z.min (13560000 / (4096 * 2 ^ fwti)) 5.

Record t4params := { a_cmd_tail : Z; a_fsc : Z; a_miu : Z; a_retry : Z; a_fwti : Z }.

Definition t4_params (fsci0 fwti0 max_send max_recv : Z) : t4params :=
  let fsci := if fsci0 >? 8 then 8 else fsci0 in
  let fwti := if fwti0 >? 14 then 4 else fwti0 in
  let fsc0 := fsc_of fsci in
  let fsc := if fsc0 >? max_send then max_send else fsc0 in
  {| a_cmd_tail := if max_recv <? 256 then 7 else 8;   (* FSDI: E0 70 / E0 80, ATTRIB param 2 07 / 08 *)
     a_fsc := fsc; a_miu := fsc - 3; a_retry := n_retry_of fwti; a_fwti := fwti |}.

Definition t4a_params (rats_res : bytes) (max_send max_recv : Z) : res t4params :=
  do b1 <- idx rats_res 1;
  do b3 <- idx rats_res 3;
  Ok (t4_params (Z.land b1 15) (Z.shiftr b3 4) max_send max_recv).

Definition t4b_params (sensb_res : bytes) (max_send max_recv : Z) : res t4params :=
  do b10 <- idx sensb_res 10;
  do b11 <- idx sensb_res 11;
  Ok (t4_params (Z.shiftr b10 4) (Z.shiftr b11 4) max_send max_recv).
