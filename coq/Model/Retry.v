(* C16 - the retry loops of the tag command layer, as they are in
     src/nfc/tag/tt1.py  Type1Tag.transceive          (for retry in range(3))
     src/nfc/tag/tt2.py  Type2Tag.transceive          (for retry in range(1 + retries), `not self.target` test)
     src/nfc/tag/tt3.py  Type3Tag.send_cmd_recv_rsp   (for retry in range(3))
   written as functions of a per-attempt fault script.  Definitions only.

     for retry in range(N):
         try:    data = self.clf.exchange(data, timeout); break
         except nfc.clf.CommunicationError as e: error = e
     else:
         if type(error) is nfc.clf.TimeoutError:      raise TypeNTagCommandError(TIMEOUT_ERROR)
         if type(error) is nfc.clf.TransmissionError: raise TypeNTagCommandError(RECEIVE_ERROR)
         if type(error) is nfc.clf.ProtocolError:     raise TypeNTagCommandError(PROTOCOL_ERROR)
         raise RuntimeError("unexpected " + repr(error))        # tt1, tt2; tt3 since the C16 repair

   `fixed3 = false` is Type 3 before the repair: the else-clause ends after the three tests and the
   code after the loop reads the unbound local `rsp` (UnboundLocalError).
   The ISO-DEP budgets of Type 4 are Model/IsoDep.v (property C12). *)
From Coq Require Import ZArith List Bool.
From NV Require Import Base.Result.
Import ListNotations.
Open Scope Z_scope.

(* class of the CommunicationError raised by clf.exchange *)
Inductive fault := FTimeout | FTransmission | FProtocol | FOther.

(* one attempt = one clf.exchange call.  A fault either hits the command (the tag never saw it:
   delivered = false) or the response (the tag executed the command: delivered = true). *)
Inductive attempt :=
| Answer (d : list Z)
| Fault (f : fault) (delivered : bool).

Inductive ttype := TT1 | TT2 | TT3.

Definition script := nat -> attempt.

Definition TIMEOUT_ERROR : Z := 0.
Definition RECEIVE_ERROR : Z := -1.
Definition PROTOCOL_ERROR : Z := -2.

(* the `type(error) is ...` chain *)
Definition errno_of (f : fault) : option Z :=
  match f with
  | FTimeout => Some TIMEOUT_ERROR
  | FTransmission => Some RECEIVE_ERROR
  | FProtocol => Some PROTOCOL_ERROR
  | FOther => None
  end.

(* what follows the three tests *)
Definition after_tests (ty : ttype) (fixed3 : bool) : res (list Z) :=
  match ty with
  | TT1 | TT2 => Err RuntimeErr
  | TT3 => if fixed3 then Err RuntimeErr else Crash Unbound
  end.

(* the else-clause of the for loop; `last = None` is `error = None` (a loop of zero iterations) *)
Definition exhausted (ty : ttype) (fixed3 : bool) (last : option fault) : res (list Z) :=
  match last with
  | Some f => match errno_of f with
              | Some e => Err (TagCommandError e)
              | None => after_tests ty fixed3
              end
  | None => after_tests ty fixed3
  end.

(* the for loop: n iterations left, next attempt is script position pos.
   result: the answer if one came, the number of attempts made, the last error *)
Fixpoint loop (n : nat) (s : script) (pos : nat) (used : nat) (last : option fault)
  : option (list Z) * nat * option fault :=
  match n with
  | O => (None, used, last)
  | S n' => match s pos with
            | Answer d => (Some d, S used, last)
            | Fault f _ => loop n' s (S pos) (S used) (Some f)
            end
  end.

(* range(3) / range(1 + retries); a negative range is empty *)
Definition budget_of (ty : ttype) (retries : Z) : nat :=
  match ty with
  | TT2 => Z.to_nat (1 + retries)
  | TT1 | TT3 => 3%nat
  end.

(* transceive / send_cmd_recv_rsp up to the end of the loop: result and attempts made.
   `present` is `self.target` of Type2Tag.transceive (false after a failed re-sense). *)
Definition transceive_n (ty : ttype) (fixed3 : bool) (n : nat) (present : bool) (s : script) (pos : nat)
  : res (list Z) * nat :=
  match ty, present with
  | TT2, false => (Err (TagCommandError TIMEOUT_ERROR), 0%nat)
  | _, _ =>
      match loop n s pos 0 None with
      | (Some d, k, _) => (Ok d, k)
      | (None, k, last) => (exhausted ty fixed3 last, k)
      end
  end.

Definition transceive (ty : ttype) (fixed3 : bool) (retries : Z) (present : bool) (s : script) (pos : nat) :=
  transceive_n ty fixed3 (budget_of ty retries) present s pos.

(* ------------------------------------------------------------------ what the tag sees *)
(* the attempts of one command that reached the tag, in order: true = answered *)
Fixpoint deliveries (k : nat) (s : script) (pos : nat) : list bool :=
  match k with
  | O => []
  | S k' => match s pos with
            | Answer _ => [true]
            | Fault _ true => false :: deliveries k' s (S pos)
            | Fault _ false => deliveries k' s (S pos)
            end
  end.

(* ------------------------------------------------------------------ command sequences *)
(* an operation as a sequence of commands (each with its loop budget), errors propagate:
   result, script position afterwards, wire = (command index, attempt) for every exchange made *)
Fixpoint attempts_of (k : nat) (s : script) (pos : nat) : list attempt :=
  match k with O => [] | S k' => s pos :: attempts_of k' s (S pos) end.

Fixpoint run_seq (ty : ttype) (fixed3 : bool) (budgets : list nat) (s : script) (pos : nat) (idx : nat)
  : res unit * list (nat * attempt) :=
  match budgets with
  | [] => (Ok tt, [])
  | n :: rest =>
      let '(r, k) := transceive_n ty fixed3 n true s pos in
      let w := map (fun a => (idx, a)) (attempts_of k s pos) in
      match r with
      | Ok _ => let '(r', w') := run_seq ty fixed3 rest s (pos + k) (S idx) in (r', w ++ w')
      | Err e => (Err e, w)
      | Crash c => (Crash c, w)
      | Hang => (Hang, w)
      end
  end.

(* ------------------------------------------------------------------ Type 4 presence check
   Type4Tag._is_present: self._dep.exchange(None) sends R(NAK) with ONE clf.exchange call, any
   CommunicationError means "not present" (tt4.py: _is_present, IsoDepInitiator.exchange with command None).
   No retry: the open finding of findings/C16.json. *)
Definition t4_is_present (s : script) (pos : nat) : bool * nat :=
  (match s pos with Answer _ => true | Fault _ _ => false end, 1%nat).

(* ------------------------------------------------------------------ interface of the extracted runner *)
Definition script_of (l : list attempt) : script := fun i => nth i l (Answer []).
Definition run_transceive (ty : ttype) (fixed3 : bool) (retries : Z) (present : bool) (l : list attempt)
  : res (list Z) * nat :=
  transceive ty fixed3 retries present (script_of l) 0.
Definition run_t4_is_present (l : list attempt) : bool * nat := t4_is_present (script_of l) 0.
