(* C05 - executable model of an ESTABLISHED pair of nfc.llcp.tco.DataLinkConnection objects,
   both directions at once, joined by two FIFO wires.  Definitions only.

   Endpoint functions (ghost-free, type [ep]) follow src/nfc/llcp/tco.py method by method:
     ep_send      DataLinkConnection.send(message, MSG_DONTWAIT)            tco.py:505-525
     ep_poll_recv DataLinkConnection.poll("recv", 0)                        tco.py:552-560
     ep_recv      DataLinkConnection.recv()                                 tco.py:527-550
     ep_poll_acks DataLinkConnection.poll("acks", 0)                        tco.py:566-573
     ep_setbusy   setsockopt(SO_RCVBSY, b)                                  tco.py:399-401
     ep_dequeue   DataLinkConnection.dequeue(miu_size, icv_size)            tco.py:678-720 (+ base 159-188)
     ep_sendack   DataLinkConnection.sendack()                              tco.py:722-730
     ep_enqueue   DataLinkConnection.enqueue(pdu) in state ESTABLISHED      tco.py:597-676 (+ base 148-157)
   The system ([sys], [step_full]) is the harness view: an op list tagged by side moves PDUs
   between endpoints over two FIFO wires; ghost history (accepted / returned messages and the
   true, un-wrapped counters SA, R, RA per direction) is computed from the *observable* results
   of the endpoint functions only - no endpoint decision reads a ghost (enforced by typing:
   the endpoint functions have no access to [ghost]).

   States other than ESTABLISHED are represented only as far as a frame reject leads there
   ([est] = false stands for SHUTDOWN after FRMR); CONNECT/CC set-up, DISC/DM tear-down and the
   blocking variants of send/recv are outside this model (see manifest level_note). *)
From Coq Require Import ZArith List Bool.
From NV Require Import Base.Result Base.Bytes.
Import ListNotations.
Open Scope Z_scope.

Definition msg := list Z.

Inductive pdu :=
| PI (ns nr : Z) (data : msg)                       (* Information; nr is a placeholder 0 until dequeue *)
| PRR (nr : Z)
| PRNR (nr : Z)
| PFRMR (flags ptype ns nr fvs fvr fvsa fvra : Z).  (* FrameReject.from_pdu *)

Record ep := {
  est : bool;          (* state.ESTABLISHED; false = SHUTDOWN (only reached through FRMR) *)
  vs : Z;              (* send_cnt  V(S)  *)
  vsa : Z;             (* send_ack  V(SA) *)
  vr : Z;              (* recv_cnt  V(R)  *)
  vra : Z;             (* recv_ack  V(RA) *)
  rwl : Z;             (* recv_win  RW(Local)  *)
  rbuf : Z;            (* recv_buf (bound of recv_queue in the base class enqueue) *)
  rwr : Z;             (* send_win  RW(Remote) *)
  smiu : Z;            (* send_miu *)
  rmiu : Z;            (* recv_miu *)
  confs : Z;           (* recv_confs *)
  acks : Z;            (* acks_recvd *)
  busy : bool;         (* mode.RECV_BUSY *)
  busy_sent : bool;    (* mode.RECV_BUSY_SENT *)
  send_busy : bool;    (* mode.SEND_BUSY *)
  sq : list pdu;       (* send_queue *)
  rq : list msg        (* recv_queue: data of the queued I PDUs (nothing else is ever appended in ESTABLISHED) *)
}.

Definition set_est (x : ep) (v : bool) : ep :=
  {| est := v; vs := vs x; vsa := vsa x; vr := vr x; vra := vra x; rwl := rwl x; rbuf := rbuf x; rwr := rwr x; smiu := smiu x; rmiu := rmiu x; confs := confs x; acks := acks x; busy := busy x; busy_sent := busy_sent x; send_busy := send_busy x; sq := sq x; rq := rq x |}.
Definition set_vs (x : ep) (v : Z) : ep :=
  {| est := est x; vs := v; vsa := vsa x; vr := vr x; vra := vra x; rwl := rwl x; rbuf := rbuf x; rwr := rwr x; smiu := smiu x; rmiu := rmiu x; confs := confs x; acks := acks x; busy := busy x; busy_sent := busy_sent x; send_busy := send_busy x; sq := sq x; rq := rq x |}.
Definition set_vsa (x : ep) (v : Z) : ep :=
  {| est := est x; vs := vs x; vsa := v; vr := vr x; vra := vra x; rwl := rwl x; rbuf := rbuf x; rwr := rwr x; smiu := smiu x; rmiu := rmiu x; confs := confs x; acks := acks x; busy := busy x; busy_sent := busy_sent x; send_busy := send_busy x; sq := sq x; rq := rq x |}.
Definition set_vr (x : ep) (v : Z) : ep :=
  {| est := est x; vs := vs x; vsa := vsa x; vr := v; vra := vra x; rwl := rwl x; rbuf := rbuf x; rwr := rwr x; smiu := smiu x; rmiu := rmiu x; confs := confs x; acks := acks x; busy := busy x; busy_sent := busy_sent x; send_busy := send_busy x; sq := sq x; rq := rq x |}.
Definition set_vra (x : ep) (v : Z) : ep :=
  {| est := est x; vs := vs x; vsa := vsa x; vr := vr x; vra := v; rwl := rwl x; rbuf := rbuf x; rwr := rwr x; smiu := smiu x; rmiu := rmiu x; confs := confs x; acks := acks x; busy := busy x; busy_sent := busy_sent x; send_busy := send_busy x; sq := sq x; rq := rq x |}.
Definition set_confs (x : ep) (v : Z) : ep :=
  {| est := est x; vs := vs x; vsa := vsa x; vr := vr x; vra := vra x; rwl := rwl x; rbuf := rbuf x; rwr := rwr x; smiu := smiu x; rmiu := rmiu x; confs := v; acks := acks x; busy := busy x; busy_sent := busy_sent x; send_busy := send_busy x; sq := sq x; rq := rq x |}.
Definition set_acks (x : ep) (v : Z) : ep :=
  {| est := est x; vs := vs x; vsa := vsa x; vr := vr x; vra := vra x; rwl := rwl x; rbuf := rbuf x; rwr := rwr x; smiu := smiu x; rmiu := rmiu x; confs := confs x; acks := v; busy := busy x; busy_sent := busy_sent x; send_busy := send_busy x; sq := sq x; rq := rq x |}.
Definition set_busy (x : ep) (v : bool) : ep :=
  {| est := est x; vs := vs x; vsa := vsa x; vr := vr x; vra := vra x; rwl := rwl x; rbuf := rbuf x; rwr := rwr x; smiu := smiu x; rmiu := rmiu x; confs := confs x; acks := acks x; busy := v; busy_sent := busy_sent x; send_busy := send_busy x; sq := sq x; rq := rq x |}.
Definition set_busy_sent (x : ep) (v : bool) : ep :=
  {| est := est x; vs := vs x; vsa := vsa x; vr := vr x; vra := vra x; rwl := rwl x; rbuf := rbuf x; rwr := rwr x; smiu := smiu x; rmiu := rmiu x; confs := confs x; acks := acks x; busy := busy x; busy_sent := v; send_busy := send_busy x; sq := sq x; rq := rq x |}.
Definition set_send_busy (x : ep) (v : bool) : ep :=
  {| est := est x; vs := vs x; vsa := vsa x; vr := vr x; vra := vra x; rwl := rwl x; rbuf := rbuf x; rwr := rwr x; smiu := smiu x; rmiu := rmiu x; confs := confs x; acks := acks x; busy := busy x; busy_sent := busy_sent x; send_busy := v; sq := sq x; rq := rq x |}.
Definition set_sq (x : ep) (v : list pdu) : ep :=
  {| est := est x; vs := vs x; vsa := vsa x; vr := vr x; vra := vra x; rwl := rwl x; rbuf := rbuf x; rwr := rwr x; smiu := smiu x; rmiu := rmiu x; confs := confs x; acks := acks x; busy := busy x; busy_sent := busy_sent x; send_busy := send_busy x; sq := v; rq := rq x |}.
Definition set_rq (x : ep) (v : list msg) : ep :=
  {| est := est x; vs := vs x; vsa := vsa x; vr := vr x; vra := vra x; rwl := rwl x; rbuf := rbuf x; rwr := rwr x; smiu := smiu x; rmiu := rmiu x; confs := confs x; acks := acks x; busy := busy x; busy_sent := busy_sent x; send_busy := send_busy x; sq := sq x; rq := v |}.

(* errno values (Linux) used by nfc.llcp.err.Error *)
Definition EWOULDBLOCK := 11.
Definition EMSGSIZE := 90.
Definition ENOTCONN := 107.
Definition ESHUTDOWN := 108.

(* send_window_slots / recv_window_slots (tco.py:495-503) *)
Definition send_window_slots (x : ep) : Z := (rwr x - vs x + vsa x) mod 16.
Definition recv_window_slots (x : ep) : Z := (rwl x - vr x + vra x) mod 16.

(* --- application side ------------------------------------------------------------------ *)

(* send(message, MSG_DONTWAIT) *)
Definition ep_send (x : ep) (m : msg) : ep * res bool :=
  if negb (est x) then (x, Err (LlcpError ENOTCONN))
  else if smiu x <? len m then (x, Err (LlcpError EMSGSIZE))
  else if send_window_slots x =? 0 then (x, Err (LlcpError EWOULDBLOCK))
  else (set_sq (set_vs x ((vs x + 1) mod 16)) (sq x ++ [PI (vs x) 0 m]), Ok true).

(* poll("recv", 0) *)
Definition ep_poll_recv (x : ep) : res bool :=
  if negb (est x) then Err (LlcpError ESHUTDOWN)
  else Ok (match rq x with [] => false | _ => true end).

(* recv(): blocks (Hang) on an empty queue - the single-threaded harness never calls it then *)
Definition ep_recv (x : ep) : ep * res msg :=
  if negb (est x) then (x, Err (LlcpError ENOTCONN))
  else match rq x with
       | [] => (x, Hang)
       | d :: q =>
           let x' := set_confs (set_rq x q) (confs x + 1) in
           if rwl x <? confs x + 1 then (x', Err RuntimeErr)      (* "recv_confs > recv_win" *)
           else (x', Ok d)
       end.

(* the non-blocking receive used by the harness: if poll("recv", 0) then recv() else None *)
Definition ep_recv_nb (x : ep) : ep * res (option msg) :=
  match ep_poll_recv x with
  | Ok true => let (x', r) := ep_recv x in
               (x', match r with Ok d => Ok (Some d) | Err e => Err e | Crash c => Crash c | Hang => Hang end)
  | Ok false => (x, Ok None)
  | Err e => (x, Err e)
  | Crash c => (x, Crash c)
  | Hang => (x, Hang)
  end.

(* poll("acks", 0) *)
Definition ep_poll_acks (x : ep) : ep * res bool :=
  if negb (est x) then (x, Err (LlcpError ESHUTDOWN))
  else if 0 <? acks x then (set_acks x (acks x - 1), Ok true) else (x, Ok false).

(* setsockopt(SO_RCVBSY, b) *)
Definition ep_setbusy (x : ep) (b : bool) : ep := set_busy x b.

(* --- link side --------------------------------------------------------------------------- *)

Definition ack_pdu (x : ep) (nr : Z) : pdu := if busy x then PRNR nr else PRR nr.

(* V(RA) := V(RA) + recv_confs mod 16; recv_confs := 0; return RR/RNR(V(RA)) *)
Definition ack_now (x : ep) : ep * option pdu :=
  let nr := (vra x + confs x) mod 16 in
  (set_confs (set_vra x nr) 0, Some (ack_pdu x nr)).

(* sendack(): voluntary acknowledgement *)
Definition ep_sendack (x : ep) : ep * option pdu :=
  if est x && negb (confs x =? 0) && negb (vr x =? vra x) then ack_now x else (x, None).

(* len(pdu) - pdu.header_size (+ icv_size for I) as computed by the base class dequeue *)
Definition pdu_info_size (p : pdu) (icv : Z) : Z :=
  match p with
  | PI _ _ d => len d + icv
  | PRR _ | PRNR _ => 0
  | PFRMR _ _ _ _ _ _ _ _ => 4
  end.

(* state.SHUTDOWN = True; close(): queues cleared *)
Definition shutdown (x : ep) : ep := set_rq (set_sq (set_est x false) []) [].

(* the else-branch of dequeue: nothing dequeued (empty queue or PDU re-queued) *)
Definition necessary_ack (x : ep) : ep * option pdu :=
  if est x && negb (confs x =? 0) && (recv_window_slots x =? 0) then ack_now x else (x, None).

Definition ep_dequeue (x : ep) (miu icv : Z) : ep * option pdu :=
  if est x && negb (Bool.eqb (busy_sent x) (busy x)) then
    (set_busy_sent x (busy x), Some (ack_pdu x (vra x)))
  else
    match sq x with
    | [] => necessary_ack x
    | p :: q =>
        if miu <? pdu_info_size p icv then necessary_ack x           (* re-queued at the front *)
        else match p with
             | PFRMR _ _ _ _ _ _ _ _ => (shutdown x, Some p)
             | PI ns nr d =>
                 if est x then
                   let x1 := set_sq x q in
                   let x2 := if negb (confs x =? 0) && negb (vr x =? vra x)
                             then set_confs (set_vra x1 ((vra x + confs x) mod 16)) 0   (* piggy-backed ack *)
                             else x1 in
                   (x2, Some (PI ns (vra x2) d))
                 else (set_sq x q, Some p)
             | _ => (set_sq x q, Some p)
             end
    end.

Inductive enq_result := EnqAccepted | EnqDiscarded | EnqRejected | EnqAck | EnqShutdown | EnqIgnored.

(* acks = N(R) - V(SA) mod 16; if acks: acks_recvd += acks; V(SA) := N(R) *)
Definition process_nr (x : ep) (nr : Z) : ep :=
  let a := (nr - vsa x) mod 16 in
  if a =? 0 then x else set_vsa (set_acks x (acks x + a)) nr.

Definition frmr_for (x : ep) (flags ns nr : Z) : pdu :=
  PFRMR flags 12 ns nr (vs x) (vr x) (vsa x) (vra x).

Definition ep_enqueue (x : ep) (p : pdu) : ep * enq_result :=
  if negb (est x) then (x, EnqIgnored)
  else match p with
       | PI ns nr d =>
           if rmiu x <? len d then (set_sq x [frmr_for x 4 ns nr], EnqRejected)             (* flags "I" *)
           else if negb (ns =? vr x) then (set_sq x [frmr_for x 1 ns nr], EnqRejected)      (* flags "S" *)
           else
             let x1 := process_nr x nr in
             let x2 := set_vr x1 ((vr x1 + 1) mod 16) in
             if len (rq x2) <? rbuf x2 then (set_rq x2 (rq x2 ++ [d]), EnqAccepted)
             else (x2, EnqDiscarded)                                                       (* base class: "discard" *)
       | PRR nr => (set_send_busy (process_nr x nr) false, EnqAck)
       | PRNR nr => (set_send_busy (process_nr x nr) true, EnqAck)
       | PFRMR _ _ _ _ _ _ _ _ => (shutdown x, EnqShutdown)
       end.

(* --- the system: two endpoints, two FIFO wires, ghost history per direction ---------------- *)

Inductive side := A | B.
Definition other (s : side) : side := match s with A => B | B => A end.

(* ghost of the direction X -> Y *)
Record ghost := {
  sent : list msg;     (* messages accepted by X.send, in order *)
  dlv : list msg;      (* messages returned by Y.recv, in order *)
  gSA : Z;             (* acknowledgements processed by X (sum of acks) *)
  gR : Z;              (* I PDUs taken by Y.enqueue (V(R) increments) *)
  gRA : Z;             (* receive confirmations put into acknowledgements by Y *)
  lost : bool;         (* an I PDU was discarded by the base class enqueue *)
  frmr : bool;         (* Y rejected an I PDU of X (FRMR) *)
  rterr : bool         (* Y.recv raised RuntimeError("recv_confs > recv_win") *)
}.

Definition g_sent (g : ghost) (m : msg) : ghost :=
  {| sent := sent g ++ [m]; dlv := dlv g; gSA := gSA g; gR := gR g; gRA := gRA g; lost := lost g; frmr := frmr g; rterr := rterr g |}.
Definition g_dlv (g : ghost) (m : msg) : ghost :=
  {| sent := sent g; dlv := dlv g ++ [m]; gSA := gSA g; gR := gR g; gRA := gRA g; lost := lost g; frmr := frmr g; rterr := rterr g |}.
Definition g_rterr (g : ghost) : ghost :=
  {| sent := sent g; dlv := dlv g; gSA := gSA g; gR := gR g; gRA := gRA g; lost := lost g; frmr := frmr g; rterr := true |}.
Definition g_acked (g : ghost) (n : Z) : ghost :=
  {| sent := sent g; dlv := dlv g; gSA := gSA g + n; gR := gR g; gRA := gRA g; lost := lost g; frmr := frmr g; rterr := rterr g |}.
Definition g_ra (g : ghost) (n : Z) : ghost :=
  {| sent := sent g; dlv := dlv g; gSA := gSA g; gR := gR g; gRA := gRA g + n; lost := lost g; frmr := frmr g; rterr := rterr g |}.
Definition g_enq (g : ghost) (r : enq_result) : ghost :=
  match r with
  | EnqAccepted =>
    {| sent := sent g; dlv := dlv g; gSA := gSA g; gR := gR g + 1; gRA := gRA g; lost := lost g; frmr := frmr g; rterr := rterr g |}
  | EnqDiscarded =>
    {| sent := sent g; dlv := dlv g; gSA := gSA g; gR := gR g + 1; gRA := gRA g; lost := true; frmr := frmr g; rterr := rterr g |}
  | EnqRejected =>
    {| sent := sent g; dlv := dlv g; gSA := gSA g; gR := gR g; gRA := gRA g; lost := lost g; frmr := true; rterr := rterr g |}
  | _ => g
  end.

Record sys := {
  epa : ep; epb : ep;
  wab : list pdu;      (* wire A -> B *)
  wba : list pdu;      (* wire B -> A *)
  gab : ghost;         (* direction A -> B *)
  gba : ghost          (* direction B -> A *)
}.

Definition get_ep (s : sys) (sd : side) : ep := match sd with A => epa s | B => epb s end.
Definition get_w (s : sys) (sd : side) : list pdu := match sd with A => wab s | B => wba s end.     (* outgoing wire of sd *)
Definition get_g (s : sys) (sd : side) : ghost := match sd with A => gab s | B => gba s end.       (* direction sd -> other *)
Definition set_ep (s : sys) (sd : side) (x : ep) : sys :=
  match sd with
  | A => {| epa := x; epb := epb s; wab := wab s; wba := wba s; gab := gab s; gba := gba s |}
  | B => {| epa := epa s; epb := x; wab := wab s; wba := wba s; gab := gab s; gba := gba s |}
  end.
Definition set_w (s : sys) (sd : side) (w : list pdu) : sys :=
  match sd with
  | A => {| epa := epa s; epb := epb s; wab := w; wba := wba s; gab := gab s; gba := gba s |}
  | B => {| epa := epa s; epb := epb s; wab := wab s; wba := w; gab := gab s; gba := gba s |}
  end.
Definition set_g (s : sys) (sd : side) (g : ghost) : sys :=
  match sd with
  | A => {| epa := epa s; epb := epb s; wab := wab s; wba := wba s; gab := g; gba := gba s |}
  | B => {| epa := epa s; epb := epb s; wab := wab s; wba := wba s; gab := gab s; gba := g |}
  end.

Inductive op :=
| Send (sd : side) (m : msg)          (* sd.send(m, MSG_DONTWAIT) *)
| Recv (sd : side)                    (* if sd.poll("recv", 0): sd.recv() *)
| SetBusy (sd : side) (b : bool)      (* sd.setsockopt(SO_RCVBSY, b) *)
| PollAcks (sd : side)                (* sd.poll("acks", 0) *)
| Deq (sd : side) (miu icv : Z)       (* p = sd.dequeue(miu, icv); if p: wire(sd -> other).append(p) *)
| Ack (sd : side)                     (* p = sd.sendack(); if p: wire(sd -> other).append(p) *)
| Deliver (sd : side).                (* if wire(other -> sd): sd.enqueue(wire.popleft()) *)

Inductive out :=
| OSend (r : res bool)
| ORecv (r : res (option msg))
| OUnit
| OPoll (r : res bool)
| OPdu (p : option pdu)
| ODeliver (d : option (pdu * enq_result)).

(* a PDU produced by sd goes onto its outgoing wire; the receive confirmations it acknowledges
   (decrease of sd.recv_confs) advance the ghost RA of the direction other -> sd *)
Definition emit (s : sys) (sd : side) (r : ep * option pdu) : sys * out :=
  let x := get_ep s sd in
  let (x', po) := r in
  match po with
  | None => (set_ep s sd x', OPdu None)
  | Some p =>
      let s1 := set_w (set_ep s sd x') sd (get_w s sd ++ [p]) in
      (set_g s1 (other sd) (g_ra (get_g s (other sd)) (confs x - confs x')), OPdu (Some p))
  end.

Definition step_full (s : sys) (o : op) : sys * out :=
  match o with
  | Send sd m =>
      let (x', r) := ep_send (get_ep s sd) m in
      (match r with
       | Ok _ => set_g (set_ep s sd x') sd (g_sent (get_g s sd) m)
       | _ => s
       end, OSend r)
  | Recv sd =>
      let (x', r) := ep_recv_nb (get_ep s sd) in
      let s1 := set_ep s sd x' in
      (match r with
       | Ok (Some d) => set_g s1 (other sd) (g_dlv (get_g s (other sd)) d)
       | Err RuntimeErr => set_g s1 (other sd) (g_rterr (get_g s (other sd)))
       | _ => s1
       end, ORecv r)
  | SetBusy sd b => (set_ep s sd (ep_setbusy (get_ep s sd) b), OUnit)
  | PollAcks sd => let (x', r) := ep_poll_acks (get_ep s sd) in (set_ep s sd x', OPoll r)
  | Deq sd miu icv => emit s sd (ep_dequeue (get_ep s sd) miu icv)
  | Ack sd => emit s sd (ep_sendack (get_ep s sd))
  | Deliver sd =>
      match get_w s (other sd) with
      | [] => (s, ODeliver None)
      | p :: w =>
          let x := get_ep s sd in
          let (x', r) := ep_enqueue x p in
          let s1 := set_w (set_ep s sd x') (other sd) w in
          let s2 := set_g s1 (other sd) (g_enq (get_g s (other sd)) r) in
          let s3 := set_g s2 sd (g_acked (get_g s sd) (acks x' - acks x)) in
          (s3, ODeliver (Some (p, r)))
      end
  end.

Definition step (s : sys) (o : op) : sys := fst (step_full s o).

(* what llc.collect() does for a single data link connection when aggregation is off (llc.py:592-615):
   dequeue(link MIU, icv_size=0), and sendack() only if that returned nothing *)
Definition collect1 (s : sys) (sd : side) (miu : Z) : sys * out :=
  let (s1, o) := step_full s (Deq sd miu 0) in
  match o with
  | OPdu None => step_full s1 (Ack sd)
  | _ => (s1, o)
  end.

(* configuration: RW(Local) and receive MIU of A and of B, as exchanged by CONNECT / CC *)
Record cfg := { rw_a : Z; miu_a : Z; rw_b : Z; miu_b : Z }.

Definition ep_init (rw_l miu_l rw_r miu_r : Z) : ep :=
  {| est := true; vs := 0; vsa := 0; vr := 0; vra := 0; rwl := rw_l; rbuf := rw_l; rwr := rw_r;
     smiu := miu_r; rmiu := miu_l; confs := 0; acks := 0; busy := false; busy_sent := false;
     send_busy := false; sq := []; rq := [] |}.
Definition g_init : ghost :=
  {| sent := []; dlv := []; gSA := 0; gR := 0; gRA := 0; lost := false; frmr := false; rterr := false |}.
Definition init (c : cfg) : sys :=
  {| epa := ep_init (rw_a c) (miu_a c) (rw_b c) (miu_b c);
     epb := ep_init (rw_b c) (miu_b c) (rw_a c) (miu_a c);
     wab := []; wba := []; gab := g_init; gba := g_init |}.

Definition run (c : cfg) (ops : list op) : sys := fold_left step ops (init c).

(* fault injection for the correspondence check only (not an [op]): an arbitrary PDU is put on the
   outgoing wire of sd, as a misbehaving peer / corrupted link would *)
Definition inject (s : sys) (sd : side) (p : pdu) : sys := set_w s sd (get_w s sd ++ [p]).
