(* C18 - executable model of ContactlessFrontend.connect / _rdwr_connect / _llcp_connect /
   _card_connect / sense / listen / exchange  (src/nfc/clf/__init__.py), definitions only.

   The model is a function of an ENVIRONMENT ORACLE: every answer the code obtains from outside
   (terminate(), the device driver, tag / llc / emulation activation, presence checks, the llc run
   loop, the card emulation loop, the value returned by each callback) is read from a stream that
   is consumed in call order.  A stream that is used up answers with a fixed default.  The result
   is the ordered event trace (callbacks, driver calls, oracle polls) and the return value.

   The model follows the code AFTER the repair fixes/c18-return-true-after-release.diff: the hold
   phase of an activation ends with   on-release(obj); return True   (the value returned by on-release
   is not used).  An exception that ends the hold phase (IOError / KeyboardInterrupt out of the
   presence check, llc.run or the command loop) leaves connect() through its except clauses
   WITHOUT on-release being called - that is what the code does and the documentation of on-release
   does not promise otherwise.
   Exceptions are values ([Raise e]); KeyboardInterrupt is not in Base.Result.err, hence the local
   exception type. *)
From Coq Require Import ZArith List Bool.
Import ListNotations.

(* ------------------------------------------------------------------ values *)
Inductive cbval := VTrue | VFalse | VNone | VZero | VStr | VObj.     (* True False None 0 'x' object() *)
Definition truthy (v : cbval) : bool := match v with VTrue | VStr | VObj => true | _ => false end.

Inductive pyexn := XIOError | XUnsupported | XKbd | XValueError | XTypeError | XAssertion.
Inductive out (A : Type) := Ret (a : A) | Raise (e : pyexn) | Hang.
Arguments Ret {A} a. Arguments Raise {A} e. Arguments Hang {A}.

Inductive blk := Rdwr | Llcp | Card.
Inductive drv := Tta | Ttb | Ttf | Dep.
Inductive depmac := MacTarget | MacInitiator.
(* identity of a target object handed out by the driver *)
Inductive tid :=
| RemoteT (call iter pos : nat) (p2p : bool)     (* found by sense call [call] in iteration [iter] for argument [pos] *)
| LocalT (n : nat).                              (* returned by the n-th driver listen call *)

Inductive ev :=
| EvStartup (b : blk) (user : bool)              (* user = false: the built-in default callback (not observable) *)
| EvDiscover (b : blk) (user : bool) (v : cbval)
| EvConnect (b : blk) (user : bool) (v : cbval)
| EvRelease (b : blk) (user : bool) (v : cbval)
| EvTerm (v : bool)
| EvMute | EvSense (d : drv) (pos : nat) | EvListen (d : drv)
| EvTagActivate (t : tid) | EvLlcActivate (m : depmac) | EvEmulate (t : tid)
| EvBeepOn | EvBeepOff | EvPresent | EvLlcRun | EvProcess | EvSendRsp
| EvCmdTo (t : tid) | EvRspTo (t : tid)
| EvRaise (e : pyexn).                             (* ghost: an exception starts to propagate here *)

(* ------------------------------------------------------------------ sense *)
(* what a RemoteTarget argument looks like to sense() *)
Inductive tspec :=
| TsA | TsB | TsF                 (* brty ends with A / B / F *)
| TsX                             (* unknown technology letter *)
| TsDep                           (* atr_req set, 16..64 byte *)
| TsDepShort | TsDepLong          (* atr_req set, < 16 / > 64 byte: ValueError *)
| TsBadSel                        (* type A with a sel_req that is not 4, 7 or 10 byte: ValueError *)
| TsNotRemote.                    (* not a RemoteTarget instance *)

Inductive dispatch := DCall (d : drv) | DValueError | DUnknownTech.
Definition dispatch_of (t : tspec) : dispatch :=
  match t with
  | TsA => DCall Tta | TsB => DCall Ttb | TsF => DCall Ttf | TsDep => DCall Dep
  | TsX => DUnknownTech
  | TsDepShort | TsDepLong | TsBadSel | TsNotRemote => DValueError
  end.
Definition is_remote (t : tspec) : bool := match t with TsNotRemote => false | _ => true end.

(* what one driver call sense_tta/ttb/ttf/dep does *)
Inductive souts :=
| SFound | SFoundP2P          (* a target; P2P: SEL_RES bit 6 / NFCID2 01FE *)
| SFoundBadSens               (* a target whose SENS_RES has the wrong length *)
| SNone | SUnsupported | SCommErr | SIOErr | SKbd.

Definition table := list (list souts).           (* per iteration, per argument position *)
Definition lookup (tb : table) (i j : nat) : souts := nth j (nth i tb []) SNone.

(* does the code accept this driver answer as a discovered target? *)
Definition accepted (d : drv) (o : souts) : option bool (* p2p flag *) :=
  match o with
  | SFound => Some false
  | SFoundP2P => Some true
  | SFoundBadSens => match d with Tta => None | _ => Some false end   (* only sense_tta validates *)
  | _ => None
  end.

Inductive scan_res := Continue | Found (t : tid) | Raised (e : pyexn).

(* the inner loop "for target in targets" of one iteration; [single] = (len(targets) == 1) *)
Fixpoint scan (single : bool) (call i : nat) (tb : table) (ts : list tspec) (j : nat) : scan_res * list ev :=
  match ts with
  | [] => (Continue, [])
  | t :: rest =>
    match dispatch_of t with
    | DValueError => (Raised XValueError, [EvRaise XValueError])
    | DUnknownTech =>
      if single then (Raised XUnsupported, [EvRaise XUnsupported]) else scan single call i tb rest (S j)
    | DCall d =>
      let o := lookup tb i j in
      match accepted d o with
      | Some p => (Found (RemoteT call i j p), [EvSense d j])
      | None =>
        match o with
        | SIOErr => (Raised XIOError, [EvSense d j; EvRaise XIOError])
        | SKbd => (Raised XKbd, [EvSense d j; EvRaise XKbd])
        | SUnsupported =>
          if single then (Raised XUnsupported, [EvSense d j; EvRaise XUnsupported])
          else let '(r, l) := scan single call i tb rest (S j) in (r, EvSense d j :: l)
        | _ => let '(r, l) := scan single call i tb rest (S j) in (r, EvSense d j :: l)
        end
      end
    end
  end.

(* the outer loop "for i in range(max(1, iterations))" *)
Fixpoint iterate (single nonempty : bool) (call : nat) (tb : table) (ts : list tspec) (n i : nat)
  : out (option tid) * list ev :=
  match n with
  | O => (Ret None, [])
  | S n' =>
    match scan single call i tb ts 0 with
    | (Found t, l) => (Ret (Some t), l)
    | (Raised e, l) => (Raise e, l)
    | (Continue, l) =>
      let '(r, l') := iterate single nonempty call tb ts n' (S i) in
      (r, l ++ (if nonempty then [EvMute] else []) ++ l')
    end
  end.

Definition niter (iters : Z) : nat := Z.to_nat (Z.max 1 iters).
Definition is_single (ts : list tspec) : bool := match ts with [_] => true | _ => false end.
Definition is_nonempty {A} (l : list A) : bool := match l with [] => false | _ => true end.

(* sense(targets.., iterations=iters): result, driver log, stored target afterwards.
   [dev] = a device is open; [stored] = self.target before the call *)
Definition sense (dev : bool) (call : nat) (ts : list tspec) (iters : Z) (tb : table) (stored : option tid)
  : out (option tid) * list ev * option tid :=
  if negb (forallb is_remote ts) then (Raise XValueError, [EvRaise XValueError], stored)
  else if negb dev then (Raise XIOError, [EvRaise XIOError], stored)
  else
    let '(r, l) := iterate (is_single ts) (is_nonempty ts) call tb ts (niter iters) 0 in
    (r, EvMute :: l, match r with Ret (Some t) => Some t | _ => None end).

(* ------------------------------------------------------------------ listen *)
Inductive lspec :=
| LsA | LsB | LsF            (* brty 106A.. / 106B.. / 212F,424F, no atr_res *)
| LsDep                      (* atr_res set *)
| LsBadBrty                  (* any other brty: ValueError *)
| LsNotLocal.                (* not a LocalTarget: AssertionError *)
Inductive louts := LFound | LFoundShortAtr | LNone | LUnsupported | LIOErr | LKbd.

Definition listen_drv (t : lspec) : option drv :=
  match t with LsA => Some Tta | LsB => Some Ttb | LsF => Some Ttf | LsDep => Some Dep | _ => None end.

(* listen(target, timeout); [n] = number of this driver listen call (identity of the result) *)
Definition listen (dev : bool) (n : nat) (t : lspec) (o : louts) (stored : option tid)
  : out (option tid) * list ev * option tid :=
  match t with
  | LsNotLocal => (Raise XAssertion, [EvRaise XAssertion], stored)
  | _ =>
    if negb dev then (Raise XIOError, [EvRaise XIOError], stored) else
    match listen_drv t with
    | None => (Raise XValueError, [EvMute; EvRaise XValueError], None)
    | Some d =>
      match o with
      | LFound => (Ret (Some (LocalT n)), [EvMute; EvListen d], Some (LocalT n))
      | LFoundShortAtr =>
        match d with
        | Dep => (Ret None, [EvMute; EvListen d], None)      (* listen_dep drops it *)
        | _ => (Ret (Some (LocalT n)), [EvMute; EvListen d], Some (LocalT n))
        end
      | LNone => (Ret None, [EvMute; EvListen d], None)
      | LUnsupported => (Raise XUnsupported, [EvMute; EvListen d; EvRaise XUnsupported], None)
      | LIOErr => (Raise XIOError, [EvMute; EvListen d; EvRaise XIOError], None)
      | LKbd => (Raise XKbd, [EvMute; EvListen d; EvRaise XKbd], None)
      end
    end
  end.
Definition listen_calls_driver (t : lspec) : bool := match listen_drv t with Some _ => true | None => false end.

(* ------------------------------------------------------------------ exchange *)
(* exchange(data, timeout): Some tt = data from the driver, None = "no target for data exchange" *)
Definition exchange (dev : bool) (stored : option tid) : out (option unit) * list ev :=
  if negb dev then (Raise XIOError, [EvRaise XIOError]) else
  match stored with
  | Some (RemoteT c i j p) => (Ret (Some tt), [EvCmdTo (RemoteT c i j p)])     (* send_cmd_recv_rsp *)
  | Some (LocalT n) => (Ret (Some tt), [EvRspTo (LocalT n)])                   (* send_rsp_recv_cmd *)
  | None => (Ret None, [])
  end.

(* ------------------------------------------------------------------ histories of sense/listen/exchange *)
Inductive op :=
| OpSense (ts : list tspec) (iters : Z) (tb : table)
| OpListen (t : lspec) (o : louts)
| OpExchange.

Inductive opres :=
| ResTarget (r : out (option tid)) (log : list ev) (stored : option tid)      (* sense / listen *)
| ResData (r : out (option unit)) (log : list ev) (stored : option tid).      (* exchange *)

Record hstate := { h_stored : option tid; h_nsense : nat; h_nlisten : nat }.

Definition step (dev : bool) (h : hstate) (o : op) : opres * hstate :=
  match o with
  | OpSense ts iters tb =>
    let '(r, l, s') := sense dev (h_nsense h) ts iters tb (h_stored h) in
    (ResTarget r l s', {| h_stored := s'; h_nsense := S (h_nsense h); h_nlisten := h_nlisten h |})
  | OpListen t lo =>
    let n := S (h_nlisten h) in
    let '(r, l, s') := listen dev n t lo (h_stored h) in
    let calls := match t with LsNotLocal => false | _ => dev && listen_calls_driver t end in
    (ResTarget r l s', {| h_stored := s'; h_nsense := h_nsense h; h_nlisten := if calls then n else h_nlisten h |})
  | OpExchange =>
    let '(r, l) := exchange dev (h_stored h) in
    (ResData r l (h_stored h), h)
  end.

Fixpoint run_history (dev : bool) (h : hstate) (ops : list op) : list opres :=
  match ops with
  | [] => []
  | o :: rest => let '(r, h') := step dev h o in r :: run_history dev h' rest
  end.
Definition h0 : hstate := {| h_stored := None; h_nsense := 0; h_nlisten := 0 |}.

(* ------------------------------------------------------------------ connect: options *)
Inductive rstart :=
| RsMissing                 (* no on-startup: the default returns the list unchanged *)
| RsSame                    (* returns the list it was given *)
| RsList (l : list tspec)   (* returns this list *)
| RsFalsy                   (* returns None / False / 0 / ... *)
| RsNonIter.                (* returns a true value that cannot be iterated: TypeError *)
Record rdwr_opts := {
  r_targets : option (list tspec);     (* 'targets' (brty strings), default 106A 106B 212F *)
  r_startup : rstart;
  r_discover : bool; r_connect : bool; r_release : bool;     (* is the callback supplied? *)
  r_iters : option Z;                  (* 'iterations', default 5 *)
  r_beep : option bool }.              (* 'beep-on-connect' truth value, default True *)

Inductive lstart := LstMissing | LstSame | LstOther.     (* on-startup: absent / returns llc / anything else *)
Inductive roleopt := RoleNone | RoleTarget | RoleInitiator | RoleOther.
Record llcp_opts := { l_startup : lstart; l_connect : bool; l_release : bool; l_role : roleopt }.

Inductive cstart := CstMissing | CstTarget (t : lspec) | CstOther.
Record card_opts := { c_startup : cstart; c_discover : bool; c_connect : bool; c_release : bool }.

Record options := {
  o_rdwr : option rdwr_opts; o_llcp : option llcp_opts; o_card : option card_opts;
  o_term : bool }.                      (* is 'terminate' supplied? (default: lambda: False) *)

(* ------------------------------------------------------------------ connect: environment oracle *)
Inductive aout := ATag | ANone | AIOErr | AKbd.              (* nfc.tag.activate *)
Inductive pout := PYes | PNo | PIOErr | PKbd.                (* tag.is_present *)
Inductive laout := LATrue | LAFalse | LAIOErr | LAKbd.       (* llc.activate *)
Inductive rout := RReturn | RIOErr | RKbd.                   (* how llc.run ends when terminate() stayed false *)
Inductive cout := CNext | CBroken | CCommErr | CIOErr | CKbd.  (* tag.send_response in the card loop *)

Record st := {
  s_term : list bool; s_termd : bool;        (* terminate() results; default when used up *)
  s_cbs : list cbval;                        (* return values of user callbacks in call order; default True *)
  s_sense : list table; s_ncall : nat;       (* one table per sense() call *)
  s_listen : list louts; s_nlisten : nat;
  s_tagact : list aout;
  s_present : list pout;
  s_llcact : list laout;
  s_llcrun : list (nat * rout);              (* number of terminate() polls, then how it ends *)
  s_emulate : list bool;
  s_card : list cout }.

Definition M (A : Type) := st -> A * list ev * st.
Definition ret {A} (a : A) : M A := fun s => (a, [], s).
Definition bind {A B} (m : M A) (f : A -> M B) : M B :=
  fun s => let '(a, l1, s1) := m s in let '(b, l2, s2) := f a s1 in (b, l1 ++ l2, s2).
Definition emit (e : ev) : M unit := fun s => (tt, [e], s).
Notation "'let*' x ':=' m 'in' k" := (bind m (fun x => k)) (at level 200, x name, m at level 100, k at level 200, right associativity).
Notation "m ;;; k" := (bind m (fun _ => k)) (at level 100, k at level 200, right associativity).

Definition hd_tl {A} (l : list A) (d : A) : A * list A := match l with [] => (d, []) | x :: r => (x, r) end.

Definition upd_term (s : st) (v : list bool) : st :=
  {| s_term := v; s_termd := s_termd s; s_cbs := s_cbs s; s_sense := s_sense s; s_ncall := s_ncall s;
     s_listen := s_listen s; s_nlisten := s_nlisten s; s_tagact := s_tagact s; s_present := s_present s;
     s_llcact := s_llcact s; s_llcrun := s_llcrun s; s_emulate := s_emulate s; s_card := s_card s |}.
Definition upd_cbs (s : st) (v : list cbval) : st :=
  {| s_term := s_term s; s_termd := s_termd s; s_cbs := v; s_sense := s_sense s; s_ncall := s_ncall s;
     s_listen := s_listen s; s_nlisten := s_nlisten s; s_tagact := s_tagact s; s_present := s_present s;
     s_llcact := s_llcact s; s_llcrun := s_llcrun s; s_emulate := s_emulate s; s_card := s_card s |}.
Definition upd_sense (s : st) (v : list table) : st :=
  {| s_term := s_term s; s_termd := s_termd s; s_cbs := s_cbs s; s_sense := v; s_ncall := S (s_ncall s);
     s_listen := s_listen s; s_nlisten := s_nlisten s; s_tagact := s_tagact s; s_present := s_present s;
     s_llcact := s_llcact s; s_llcrun := s_llcrun s; s_emulate := s_emulate s; s_card := s_card s |}.
Definition upd_listen (s : st) (v : list louts) : st :=
  {| s_term := s_term s; s_termd := s_termd s; s_cbs := s_cbs s; s_sense := s_sense s; s_ncall := s_ncall s;
     s_listen := v; s_nlisten := S (s_nlisten s); s_tagact := s_tagact s; s_present := s_present s;
     s_llcact := s_llcact s; s_llcrun := s_llcrun s; s_emulate := s_emulate s; s_card := s_card s |}.
Definition upd_tagact (s : st) (v : list aout) : st :=
  {| s_term := s_term s; s_termd := s_termd s; s_cbs := s_cbs s; s_sense := s_sense s; s_ncall := s_ncall s;
     s_listen := s_listen s; s_nlisten := s_nlisten s; s_tagact := v; s_present := s_present s;
     s_llcact := s_llcact s; s_llcrun := s_llcrun s; s_emulate := s_emulate s; s_card := s_card s |}.
Definition upd_present (s : st) (v : list pout) : st :=
  {| s_term := s_term s; s_termd := s_termd s; s_cbs := s_cbs s; s_sense := s_sense s; s_ncall := s_ncall s;
     s_listen := s_listen s; s_nlisten := s_nlisten s; s_tagact := s_tagact s; s_present := v;
     s_llcact := s_llcact s; s_llcrun := s_llcrun s; s_emulate := s_emulate s; s_card := s_card s |}.
Definition upd_llcact (s : st) (v : list laout) : st :=
  {| s_term := s_term s; s_termd := s_termd s; s_cbs := s_cbs s; s_sense := s_sense s; s_ncall := s_ncall s;
     s_listen := s_listen s; s_nlisten := s_nlisten s; s_tagact := s_tagact s; s_present := s_present s;
     s_llcact := v; s_llcrun := s_llcrun s; s_emulate := s_emulate s; s_card := s_card s |}.
Definition upd_llcrun (s : st) (v : list (nat * rout)) : st :=
  {| s_term := s_term s; s_termd := s_termd s; s_cbs := s_cbs s; s_sense := s_sense s; s_ncall := s_ncall s;
     s_listen := s_listen s; s_nlisten := s_nlisten s; s_tagact := s_tagact s; s_present := s_present s;
     s_llcact := s_llcact s; s_llcrun := v; s_emulate := s_emulate s; s_card := s_card s |}.
Definition upd_emulate (s : st) (v : list bool) : st :=
  {| s_term := s_term s; s_termd := s_termd s; s_cbs := s_cbs s; s_sense := s_sense s; s_ncall := s_ncall s;
     s_listen := s_listen s; s_nlisten := s_nlisten s; s_tagact := s_tagact s; s_present := s_present s;
     s_llcact := s_llcact s; s_llcrun := s_llcrun s; s_emulate := v; s_card := s_card s |}.
Definition upd_card (s : st) (v : list cout) : st :=
  {| s_term := s_term s; s_termd := s_termd s; s_cbs := s_cbs s; s_sense := s_sense s; s_ncall := s_ncall s;
     s_listen := s_listen s; s_nlisten := s_nlisten s; s_tagact := s_tagact s; s_present := s_present s;
     s_llcact := s_llcact s; s_llcrun := s_llcrun s; s_emulate := s_emulate s; s_card := v |}.

(* terminate(): without the option it is "lambda: False" and leaves no trace *)
Definition poll_term (has : bool) : M bool := fun s =>
  if has then let '(v, r) := hd_tl (s_term s) (s_termd s) in (v, [EvTerm v], upd_term s r)
  else (false, [], s).
(* value returned by a callback: the next oracle value when supplied by the user, else the default *)
Definition cb_value (user : bool) (dflt : cbval) : M cbval := fun s =>
  if user then let '(v, r) := hd_tl (s_cbs s) VTrue in (v, [], upd_cbs s r) else (dflt, [], s).
Definition pop_tagact : M aout := fun s => let '(v, r) := hd_tl (s_tagact s) ANone in (v, [], upd_tagact s r).
Definition pop_present : M pout := fun s => let '(v, r) := hd_tl (s_present s) PNo in (v, [], upd_present s r).
Definition pop_llcact : M laout := fun s => let '(v, r) := hd_tl (s_llcact s) LAFalse in (v, [], upd_llcact s r).
Definition pop_llcrun : M (nat * rout) := fun s => let '(v, r) := hd_tl (s_llcrun s) (O, RReturn) in (v, [], upd_llcrun s r).
Definition pop_emulate : M bool := fun s => let '(v, r) := hd_tl (s_emulate s) false in (v, [], upd_emulate s r).
Definition pop_card : M cout := fun s => let '(v, r) := hd_tl (s_card s) CBroken in (v, [], upd_card s r).

(* self.sense(...) / self.listen(...) inside connect (a device is open) *)
Definition do_sense (ts : list tspec) (iters : Z) : M (out (option tid)) := fun s =>
  let '(tb, r) := hd_tl (s_sense s) [] in
  let '(res, l, _) := sense true (s_ncall s) ts iters tb None in
  (res, l, upd_sense s r).
Definition do_listen (t : lspec) : M (out (option tid)) := fun s =>
  if listen_calls_driver t then
    let '(o, r) := hd_tl (s_listen s) LNone in
    let '(res, l, _) := listen true (S (s_nlisten s)) t o None in
    (res, l, upd_listen s r)
  else let '(res, l, _) := listen true (S (s_nlisten s)) t LNone None in (res, l, s).

(* return value of connect() *)
Inductive rv := RNone | RFalse | RTrue | RObj (b : blk).
(* result of one _xxx_connect *)
Inductive bres := BNone | BRet (v : rv) | BRaise (e : pyexn) | BHang.
(* how the guarded hold phase ended *)
Inductive hold := HoldDone | HoldRaise (e : pyexn) | HoldHang.

(* ------------------------------------------------------------------ _rdwr_connect *)
Record rdwr_run := { rr_targets : list tspec; rr_opts : rdwr_opts }.

(* while not terminate() and tag.is_present: time.sleep(0.1) *)
Fixpoint presence_loop (fuel : nat) (has_term : bool) : M hold :=
  match fuel with
  | O => ret HoldHang
  | S f =>
    let* t := poll_term has_term in
    if t then ret HoldDone else
    emit EvPresent ;;;
    let* p := pop_present in
    match p with
    | PYes => presence_loop f has_term
    | PNo => ret HoldDone
    | PIOErr => emit (EvRaise XIOError) ;;; ret (HoldRaise XIOError)
    | PKbd => emit (EvRaise XKbd) ;;; ret (HoldRaise XKbd)
    end
  end.

Definition opt_default {A} (o : option A) (d : A) : A := match o with Some a => a | None => d end.

Definition rdwr_connect (fuel : nat) (has_term : bool) (rr : rdwr_run) : M bres :=
  let o := rr_opts rr in
  let* r := do_sense (rr_targets rr) (opt_default (r_iters o) 5%Z) in
  match r with
  | Hang => ret BHang
  | Raise e => ret (BRaise e)
  | Ret None => ret BNone
  | Ret (Some t) =>
    let p2p := match t with RemoteT _ _ _ p => p | _ => false end in
    let* v := cb_value (r_discover o) (if p2p then VFalse else VTrue) in
    emit (EvDiscover Rdwr (r_discover o) v) ;;;
    if negb (truthy v) then ret BNone else
    emit (EvTagActivate t) ;;;
    let* a := pop_tagact in
    match a with
    | AIOErr => emit (EvRaise XIOError) ;;; ret (BRaise XIOError)
    | AKbd => emit (EvRaise XKbd) ;;; ret (BRaise XKbd)
    | ANone => ret BNone
    | ATag =>
      let* c := cb_value (r_connect o) VTrue in
      emit (EvConnect Rdwr (r_connect o) c) ;;;
      if negb (truthy c) then ret (BRet (RObj Rdwr)) else
      (if opt_default (r_beep o) true then emit EvBeepOn else ret tt) ;;;
      let* h := presence_loop fuel has_term in
      match h with
      | HoldHang => ret BHang
      | HoldDone =>
        emit EvBeepOff ;;;
        let* x := cb_value (r_release o) VTrue in
        emit (EvRelease Rdwr (r_release o) x) ;;;
        ret (BRet RTrue)
      | HoldRaise e => ret (BRaise e)      (* the exception leaves _rdwr_connect: no on-release *)
      end
    end
  end.

(* ------------------------------------------------------------------ _llcp_connect *)
(* the scripted llc.run: polls terminate() up to n times, returns when it is true *)
Fixpoint run_polls (n : nat) (has_term : bool) : M bool :=
  match n with
  | O => ret false
  | S n' => let* t := poll_term has_term in if t then ret true else run_polls n' has_term
  end.

Definition role_enabled (r : roleopt) (m : depmac) : bool :=
  match r, m with
  | RoleNone, _ => true
  | RoleTarget, MacTarget => true
  | RoleInitiator, MacInitiator => true
  | _, _ => false
  end.

(* one pass of "for role in ('target', 'initiator')"; None = go on with the next role *)
Definition llcp_role (has_term : bool) (o : llcp_opts) (m : depmac) : M (option bres) :=
  if negb (role_enabled (l_role o) m) then ret None else
  emit (EvLlcActivate m) ;;;
  let* a := pop_llcact in
  match a with
  | LAIOErr => emit (EvRaise XIOError) ;;; ret (Some (BRaise XIOError))
  | LAKbd => emit (EvRaise XKbd) ;;; ret (Some (BRaise XKbd))
  | LAFalse => ret None
  | LATrue =>
    let* c := cb_value (l_connect o) VTrue in
    emit (EvConnect Llcp (l_connect o) c) ;;;
    if negb (truthy c) then ret (Some (BRet (RObj Llcp))) else
    emit EvLlcRun ;;;
    let* pr := pop_llcrun in
    let* stopped := run_polls (fst pr) has_term in
    let fin := if stopped then RReturn else snd pr in
    match fin with
    | RReturn =>
      let* x := cb_value (l_release o) VTrue in
      emit (EvRelease Llcp (l_release o) x) ;;;
      ret (Some (BRet RTrue))
    | RIOErr => emit (EvRaise XIOError) ;;; ret (Some (BRaise XIOError))     (* no on-release *)
    | RKbd => emit (EvRaise XKbd) ;;; ret (Some (BRaise XKbd))
    end
  end.

Definition llcp_connect (has_term : bool) (o : llcp_opts) : M bres :=
  let* r1 := llcp_role has_term o MacTarget in
  match r1 with
  | Some b => ret b
  | None =>
    let* r2 := llcp_role has_term o MacInitiator in
    match r2 with Some b => ret b | None => ret BNone end
  end.

(* ------------------------------------------------------------------ _card_connect *)
Record card_run := { cr_target : lspec; cr_opts : card_opts }.

(* while not terminate(): try: cmd = send_response(rsp); rsp = process_command(cmd)
                          except BrokenLinkError: break   except CommunicationError: rsp = None *)
Fixpoint card_loop (fuel : nat) (has_term : bool) : M hold :=
  match fuel with
  | O => ret HoldHang
  | S f =>
    let* t := poll_term has_term in
    if t then ret HoldDone else
    emit EvSendRsp ;;;
    let* c := pop_card in
    match c with
    | CNext => emit EvProcess ;;; card_loop f has_term
    | CCommErr => card_loop f has_term
    | CBroken => ret HoldDone
    | CIOErr => emit (EvRaise XIOError) ;;; ret (HoldRaise XIOError)
    | CKbd => emit (EvRaise XKbd) ;;; ret (HoldRaise XKbd)
    end
  end.

Definition card_connect (fuel : nat) (has_term : bool) (cr : card_run) : M bres :=
  let o := cr_opts cr in
  let* r := do_listen (cr_target cr) in
  match r with
  | Hang => ret BHang
  | Raise e => ret (BRaise e)
  | Ret None => ret BNone
  | Ret (Some t) =>
    let* v := cb_value (c_discover o) VTrue in
    emit (EvDiscover Card (c_discover o) v) ;;;
    if negb (truthy v) then ret BNone else
    emit (EvEmulate t) ;;;
    let* e := pop_emulate in
    if negb e then ret BNone else
    let* c := cb_value (c_connect o) VTrue in
    emit (EvConnect Card (c_connect o) c) ;;;
    if negb (truthy c) then ret (BRet (RObj Card)) else
    emit EvProcess ;;;
    let* h := card_loop fuel has_term in
    match h with
    | HoldHang => ret BHang
    | HoldDone =>
      let* x := cb_value (c_release o) VTrue in
      emit (EvRelease Card (c_release o) x) ;;;
      ret (BRet RTrue)
    | HoldRaise ex => ret (BRaise ex)      (* no on-release *)
    end
  end.

(* ------------------------------------------------------------------ connect *)
(* the option blocks that are left after the on-startup functions *)
Record active := { a_rdwr : option rdwr_run; a_llcp : option llcp_opts; a_card : option card_run }.

Definition handle (e : pyexn) : out rv :=
  match e with
  | XIOError | XUnsupported | XKbd => Ret RFalse       (* the three except clauses of connect() *)
  | _ => Raise e
  end.

Definition run_block (m : option (M bres)) : M bres := match m with Some f => f | None => ret BNone end.

(* while not terminate(): rdwr, llcp, card in turn; "if bool(result) is True: return result" *)
Fixpoint main_loop (fuel inner : nat) (has_term : bool) (a : active) : M (out rv) :=
  match fuel with
  | O => ret Hang
  | S f =>
    let* t := poll_term has_term in
    if t then ret (Ret RNone) else
    let* r1 := run_block (option_map (rdwr_connect inner has_term) (a_rdwr a)) in
    match r1 with
    | BRet v => ret (Ret v) | BRaise e => ret (handle e) | BHang => ret Hang
    | BNone =>
      let* r2 := run_block (option_map (llcp_connect has_term) (a_llcp a)) in
      match r2 with
      | BRet v => ret (Ret v) | BRaise e => ret (handle e) | BHang => ret Hang
      | BNone =>
        let* r3 := run_block (option_map (card_connect inner has_term) (a_card a)) in
        match r3 with
        | BRet v => ret (Ret v) | BRaise e => ret (handle e) | BHang => ret Hang
        | BNone => main_loop f inner has_term a
        end
      end
    end
  end.

Definition default_targets : list tspec := [TsA; TsB; TsF].

(* option preparation: on-startup of llcp, then rdwr, then card *)
Definition startup_llcp (o : option llcp_opts) : M (option llcp_opts) :=
  match o with
  | None => ret None
  | Some lo =>
    match l_startup lo with
    | LstMissing => emit (EvStartup Llcp false) ;;; ret (Some lo)
    | LstSame => emit (EvStartup Llcp true) ;;; ret (Some lo)
    | LstOther => emit (EvStartup Llcp true) ;;; ret None
    end
  end.

Definition keep_targets (ro : rdwr_opts) (l : list tspec) : option rdwr_run :=
  if is_nonempty l && forallb is_remote l then Some {| rr_targets := l; rr_opts := ro |} else None.

Definition startup_rdwr (o : option rdwr_opts) : M (out (option rdwr_run)) :=
  match o with
  | None => ret (Ret None)
  | Some ro =>
    let given := opt_default (r_targets ro) default_targets in
    match r_startup ro with
    | RsMissing => emit (EvStartup Rdwr false) ;;; ret (Ret (keep_targets ro given))
    | RsSame => emit (EvStartup Rdwr true) ;;; ret (Ret (keep_targets ro given))
    | RsList l => emit (EvStartup Rdwr true) ;;; ret (Ret (keep_targets ro l))
    | RsFalsy => emit (EvStartup Rdwr true) ;;; ret (Ret None)
    | RsNonIter => emit (EvStartup Rdwr true) ;;; emit (EvRaise XTypeError) ;;; ret (Raise XTypeError)
    end
  end.

Definition startup_card (o : option card_opts) : M (option card_run) :=
  match o with
  | None => ret None
  | Some co =>
    match c_startup co with
    | CstMissing => emit (EvStartup Card false) ;;; ret None          (* default: lambda target: None *)
    | CstOther => emit (EvStartup Card true) ;;; ret None
    | CstTarget LsNotLocal => emit (EvStartup Card true) ;;; ret None
    | CstTarget t => emit (EvStartup Card true) ;;; ret (Some {| cr_target := t; cr_opts := co |})
    end
  end.

Definition no_options (a : active) : bool :=
  match a_rdwr a, a_llcp a, a_card a with None, None, None => true | _, _, _ => false end.

(* connect(options..) with a device open ([dev]) ; [fuel] bounds the main loop, [inner] each inner loop *)
Definition connect (dev : bool) (o : options) (fuel inner : nat) : M (out rv) :=
  if negb dev then emit (EvRaise XIOError) ;;; ret (Raise XIOError) else
  let* l := startup_llcp (o_llcp o) in
  let* r := startup_rdwr (o_rdwr o) in
  match r with
  | Raise e => ret (Raise e)
  | Hang => ret Hang
  | Ret rr =>
    let* c := startup_card (o_card o) in
    let a := {| a_rdwr := rr; a_llcp := l; a_card := c |} in
    if no_options a then ret (Ret RNone) else main_loop fuel inner (o_term o) a
  end.

Definition run_connect (dev : bool) (o : options) (fuel inner : nat) (s : st) : out rv * list ev :=
  let '(r, l, _) := connect dev o fuel inner s in (r, l).
