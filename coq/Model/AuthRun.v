(* Entry points of the extracted C20 model: operation scripts run by the reader models over the
   scripted channel, and command sequences run by the tag models.  Definitions only. *)
From Coq Require Import ZArith List Bool.
From NV Require Import Base.Result Base.Bytes Base.PyPrims Model.Des Model.FelicaMac Model.Ntag.
Import ListNotations.
Open Scope Z_scope.

(* ---- FeliCa Lite / Lite-S reader ---------------------------------------------------------- *)
Inductive fop :=
| OpAuth (pw rc : list Z)
| OpRead (blocks : list Z)
| OpWrite (data : list Z) (block : Z)
| OpProtect (pw : option (list Z)) (rp : bool) (pf : Z) (rc : list Z).

Inductive fobs :=
| ObBool (r : res bool) | ObData (r : res (option (list Z))) | ObUnit (r : res unit) | ObProt (r : res pres).

Definition run_fop (lites repaired : bool) (idm : list Z) (op : fop) (s : @St script) : @St script * fobs :=
  match op with
  | OpAuth pw rc =>
      let '(s', r) := (if lites then lites_authenticate scripted idm repaired pw rc
                       else lite_authenticate scripted idm pw rc) s in (s', ObBool r)
  | OpRead blocks => let '(s', r) := read_with_mac scripted idm blocks s in (s', ObData r)
  | OpWrite d b => let '(s', r) := write_with_mac scripted idm d b s in (s', ObUnit r)
  | OpProtect pw rp pf rc =>
      let '(s', r) := (if lites then lites_protect scripted idm repaired pw rp pf rc
                       else lite_protect scripted idm pw rp pf) s in (s', ObProt r)
  end.

Fixpoint run_fops (lites repaired : bool) (idm : list Z) (ops : list fop) (s : @St script) : @St script * list fobs :=
  match ops with
  | [] => (s, [])
  | op :: r => let '(s1, o) := run_fop lites repaired idm op s in
               let '(s2, os) := run_fops lites repaired idm r s1 in (s2, o :: os)
  end.

(* result: observations, final reader state, commands sent (in order) *)
Definition felica_run (lites repaired : bool) (idm : list Z) (rsps : list xres) (ops : list fop)
  : list fobs * rstate * list (list Z) :=
  let '((t, st), obs) := run_fops lites repaired idm ops ((rsps, []), rstate0) in
  (obs, st, rev (snd t)).

(* ---- FeliCa tag model ------------------------------------------------------------------------ *)
Fixpoint mem_init (m : Z -> list Z) (l : list (Z * list Z)) : Z -> list Z :=
  match l with [] => m | (b, v) :: r => mem_init (mem_set m b v) r end.

Fixpoint ftag_run (tg : ftag) (cmds : list (list Z)) : list (option (list Z)) :=
  match cmds with
  | [] => []
  | c :: r => let '(tg', o) := ftag_step tg c in o :: ftag_run tg' r
  end.

Definition ftag_session (lites : bool) (idm : list Z) (init : list (Z * list Z)) (cmds : list (list Z))
  : list (option (list Z)) :=
  ftag_run (mkFT lites idm (mem_init (blank_mem lites (zeros 16)) init) false) cmds.

(* ---- NTAG21x ----------------------------------------------------------------------------------- *)
Inductive nop := NAuth (pw : list Z) | NProtect (pw : list Z) (rp : bool) (pf : Z).

Definition run_nop (cfg : Z) (op : nop) (s : @NSt nscript) : @NSt nscript * res bool :=
  match op with
  | NAuth pw => ntag_authenticate nscripted pw s
  | NProtect pw rp pf => ntag_protect nscripted nscripted_sense cfg pw rp pf s
  end.

Fixpoint run_nops (cfg : Z) (ops : list nop) (s : @NSt nscript) : @NSt nscript * list (res bool) :=
  match ops with
  | [] => (s, [])
  | op :: r => let '(s1, o) := run_nop cfg op s in
               let '(s2, os) := run_nops cfg r s1 in (s2, o :: os)
  end.

Definition ntag_run (cfg : Z) (rsps : list xres) (senses : list bool) (ops : list nop)
  : list (res bool) * nstate * list (list Z) :=
  let '((t, st), obs) := run_nops cfg ops ((rsps, senses, []), nstate0) in
  (obs, st, rev (snd t)).

(* events seen by the tag: a command, or None = the reader re-senses (re-activates) the tag *)
Fixpoint ntag_tag_run (tg : ntag) (evs : list (option (list Z))) : list (option (list Z)) :=
  match evs with
  | [] => []
  | Some c :: r => let '(tg', o) := ntag_step tg c in o :: ntag_tag_run tg' r
  | None :: r => None :: ntag_tag_run (ntag_reselect tg) r
  end.

Definition ntag_session (cfg : Z) (init : list (Z * list Z)) (evs : list (option (list Z))) : list (option (list Z)) :=
  let m := mem_init (ntag_blank_mem cfg) init in ntag_tag_run (mkNT cfg m m false) evs.

(* plain functions for the DES / MAC kernels *)
Definition run_generate_mac := generate_mac.
Definition run_session_key := session_key.
