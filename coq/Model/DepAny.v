(* C07: the NFC-DEP exchange layer of src/nfc/dep.py against an ARBITRARY peer.

   Initiator.exchange / send_dep_req_recv_dep_res / request_attention / request_retransmission / send_req_recv_res and
   Target.exchange / send_dep_res_recv_dep_req / send_res_recv_req, driven by an arbitrary finite stream of peer answers
      ATimeout    clf.exchange raises TimeoutError (nothing heard within the time-out that was passed)
      ACorrupt d  a frame with a CRC / parity error arrives d time units after the call: clf.exchange raises TransmissionError
                  (if the time-out that was granted is shorter than d, or d <= 0, nothing is heard: TimeoutError)
      AFrame f    clf.exchange returns the byte string f - ANY bytes; decoded with Model/DepDecode.v decode_frame
   after which the peer is silent.  (Model/Dep.v of C04 models the same methods against a CONFORMANT peer behind a fault
   script, with its own PDU type; this file restates them over DepDecode's PDUs because every branch that a
   non-conformant answer can take matters here.  The tie to the source is the correspondence run of the check.)

   Time is explicit (integer units): the frontend advances the clock by `ctick` per exchange and by the time-out it was
   given when nothing is heard - what harness ScriptClf does - so that the deadline tests `min(rwt, deadline - now) <= 0`
   are part of the model.  `sent` records every frame handed to clf.exchange
   together with the time-out that was granted (so that a listen loop that forgets to shrink its time-out is a different machine).
   Loops that Python bounds only by the peer's behaviour take fuel (Hang when it runs out); Proofs/RobustDepX.v shows that
   fuel above the number of answers left is never used up.

   The model is of the repaired code (RTOX value validated before use, fixes c07-3, c07-8 and the c04 fixes); corig = true gives the
   unrepaired RTOX handling (res.data[0] before validation). *)
From Coq Require Import ZArith List Bool.
From NV Require Import Base.Result Base.Bytes Model.DepDecode.
Import ListNotations.
Open Scope Z_scope.

Inductive answer := ATimeout | ACorrupt (d : Z) | AFrame (f : list Z).

Record cfg := mkcfg { c106 : bool; cdid : option Z; cnad : option Z; cmiu : Z; crwt : Z; ctick : Z; corig : bool }.
Record st := mkst { now : Z; ans : list answer; sent : list (option (list Z) * Z) }.   (* sent: frame and granted time-out of every call *)
Record dpd := mkdpd { rfmt : Z; rpni : Z; rdid : option Z; rdata : list Z }.     (* the fields of a DEP PDU that are looked at *)

Definition M (A : Type) : Type := (res A * st)%type.

Definition optl (o : option Z) : list Z := match o with Some x => [x] | None => [] end.
Definition isome {A} (o : option A) : bool := match o with Some _ => true | None => false end.
Definition b2z (b : bool) : Z := if b then 1 else 0.
Definition nonempty {A} (l : list A) : bool := match l with [] => false | _ => true end.

(* DEP_REQ_RES.encode + encode_frame: struct.pack("B", len + 1) *)
Definition enc_dep (req : bool) (c : cfg) (did nad : option Z) (fmt pni : Z) (data : list Z) : res (list Z) :=
  let pfb := Z.lor (Z.lor (Z.lor (Z.shiftl fmt 4) (Z.shiftl (b2z (isome nad)) 3)) (Z.shiftl (b2z (isome did)) 2)) pni in
  let body := (if req then [212; 6] else [213; 7]) ++ [pfb] ++ optl did ++ optl nad ++ data in
  if 255 <? len body + 1 then Crash StructErr
  else Ok ((if c106 c then [240] else []) ++ [len body + 1] ++ body).

(* clf.exchange(frame, timeout) as the scripted frontend of the check implements it *)
Definition xchg (c : cfg) (s : st) (frame : option (list Z)) (t : Z) : M (list Z) :=
  let n1 := now s + ctick c in
  let snt := sent s ++ [(frame, t)] in
  let silent (r : list answer) : M (list Z) := (Err TimeoutError, mkst (n1 + Z.max t (ctick c)) r snt) in
  match ans s with
  | [] => silent []
  | ATimeout :: r => silent r
  | ACorrupt d :: r => if (0 <? d) && (d <=? t) then (Err TransmissionError, mkst (now s + d) r snt) else silent r
  | AFrame f :: r => (Ok f, mkst n1 r snt)
  end.

Definition tmo (s : st) (rwt deadline : Z) : Z := Z.min rwt (deadline - now s).

(* ---------------------------------------------------------------- Initiator *)
(* send_req_recv_res for a DEP_REQ: the response must be a DEP_RES *)
Definition i_srr (c : cfg) (s : st) (fmt pni : Z) (data : list Z) (t : Z) : M dpd :=
  match enc_dep true c (cdid c) (cnad c) fmt pni data with
  | Ok frame =>
      let (r, s') := xchg c s (Some frame) t in
      match r with
      | Ok rsp =>
          match decode_frame Ini (c106 c) rsp with
          | Ok (Some (DepPdu false f _ _ p d _ dt)) => (Ok (mkdpd f p d dt), s')
          | Ok (Some _) => (Err ProtocolError, s')                   (* invalid response for DEP-REQ *)
          | Ok None => (Crash AttributeErr, s')
          | Err e => (Err e, s')
          | Crash x => (Crash x, s')
          | Hang => (Hang, s')
          end
      | Err e => (Err e, s')
      | Crash x => (Crash x, s')
      | Hang => (Hang, s')
      end
  | Err e => (Err e, s)
  | Crash x => (Crash x, s)
  | Hang => (Hang, s)
  end.

(* request_attention(self, n_retry_atn, rwt, deadline) *)
Fixpoint i_attention (n : nat) (c : cfg) (s : st) (rwt deadline : Z) : M unit :=
  match n with
  | O => (Err ProtocolError, s)                                       (* unrecoverable error in attention request *)
  | S n' =>
      if tmo s rwt deadline <=? 0 then (Err TimeoutError, s) else
      let (r, s') := i_srr c s 8 0 [] (tmo s rwt deadline) in
      match r with
      | Ok res => if rfmt res =? 9 then (Err ProtocolError, s')
                  else if negb (rfmt res =? 8) then (Err ProtocolError, s') else (Ok tt, s')
      | Err _ => i_attention n' c s' rwt deadline                    (* except CommunicationError: continue *)
      | Crash x => (Crash x, s')
      | Hang => (Hang, s')
      end
  end.

(* request_retransmission(self, n_retry_nak, rwt, deadline, chained) *)
Fixpoint i_retrans (n : nat) (c : cfg) (s : st) (pni rwt deadline : Z) (chained : bool) : M dpd :=
  match n with
  | O => (Err ProtocolError, s)
  | S n' =>
      if tmo s rwt deadline <=? 0 then (Err TimeoutError, s) else
      let (r, s') := i_srr c s 5 pni [] (tmo s rwt deadline) in
      match r with
      | Ok res => if rfmt res =? 9 then (Err ProtocolError, s')
                  else if (rfmt res =? 0) || (rfmt res =? 1) || (chained && (rfmt res =? 4)) then (Ok res, s')
                  else (Err ProtocolError, s')
      | Err _ => i_retrans n' c s' pni rwt deadline chained
      | Crash x => (Crash x, s')
      | Hang => (Hang, s')
      end
  end.

(* the `while True:` loop of send_dep_req_recv_dep_res; self_pni is self.pni (the NAK carries it) *)
Fixpoint i_sdr_loop (fuel : nat) (c : cfg) (s : st) (self_pni fmt pni : Z) (data : list Z) (rwt deadline : Z) : M dpd :=
  match fuel with
  | O => (Hang, s)
  | S f =>
      if tmo s rwt deadline <=? 0 then (Err TimeoutError, s) else
      let (r, s1) := i_srr c s fmt pni data (tmo s rwt deadline) in
      match r with
      | Ok res => (Ok res, s1)
      | Err TimeoutError =>
          let (a, s2) := i_attention 2 c s1 rwt deadline in
          match a with
          | Ok _ => i_sdr_loop f c s2 self_pni fmt pni data rwt deadline
          | Err e => (Err e, s2)
          | Crash x => (Crash x, s2)
          | Hang => (Hang, s2)
          end
      | Err TransmissionError => i_retrans 2 c s1 self_pni rwt deadline (fmt =? 1)
      | Err e => (Err e, s1)
      | Crash x => (Crash x, s1)
      | Hang => (Hang, s1)
      end
  end.

Definition i_sdr (fuel : nat) (c : cfg) (s : st) (self_pni fmt pni : Z) (data : list Z) (rwt timeout : Z) : M dpd :=
  let (r, s') := i_sdr_loop fuel c s self_pni fmt pni data rwt (now s + timeout) in
  match r with
  | Ok res => if rfmt res =? 5 then (Err ProtocolError, s') else (Ok res, s')   (* NACK PDU from the target *)
  | _ => (r, s')
  end.

Definition rtox_of (c : cfg) (data : list Z) : res Z := if corig c then rtox_value_orig data else rtox_value data.

(* for i in range(3): req = RTOX(res.data, ..); rwt = res.data[0] * self.rwt; res = send..(req, rwt, timeout);
   if res.pfb.fmt != TimeoutExtension: break   else: raise TimeoutError *)
Fixpoint i_rtox_rounds (k : nat) (fuel : nat) (c : cfg) (s : st) (self_pni : Z) (res0 : dpd) (timeout : Z) : M dpd :=
  match k with
  | O => (Err TimeoutError, s)
  | S k' =>
      match rtox_of c (rdata res0) with
      | Ok v =>
          let (r, s') := i_sdr fuel c s self_pni 9 0 [v] (v * crwt c) timeout in
          match r with
          | Ok res1 => if rfmt res1 =? 9 then i_rtox_rounds k' fuel c s' self_pni res1 timeout else (Ok res1, s')
          | _ => (r, s')
          end
      | Err e => (Err e, s)
      | Crash x => (Crash x, s)
      | Hang => (Hang, s)
      end
  end.
Definition i_after_rtox (fuel : nat) (c : cfg) (s : st) (self_pni : Z) (res0 : dpd) (timeout : Z) : M dpd :=
  if rfmt res0 =? 9 then i_rtox_rounds 3 fuel c s self_pni res0 timeout else (Ok res0, s).

(* while send_data: ... *)
Fixpoint i_send_loop (fuel' fuel : nat) (c : cfg) (s : st) (pni : Z) (data : list Z) (timeout : Z) : M (dpd * Z) :=
  match fuel' with
  | O => (Hang, s)
  | S f =>
      let chunk := take (cmiu c) data in
      let rest := drop (cmiu c) data in
      let more := nonempty rest in
      let (r1, s1) := i_sdr fuel c s pni (if more then 1 else 0) pni chunk (crwt c) timeout in
      match r1 with
      | Ok res1 =>
          let (r2, s2) := i_after_rtox fuel c s1 pni res1 timeout in
          match r2 with
          | Ok res2 =>
              if (rfmt res2 =? 4) && negb more then (Err ProtocolError, s2)        (* unexpected ACK *)
              else if negb (rpni res2 =? pni) then (Err ProtocolError, s2)          (* wrong packet number *)
              else let pni' := Z.land (pni + 1) 3 in
                   if more then i_send_loop f fuel c s2 pni' rest timeout else (Ok (res2, pni'), s2)
          | Err e => (Err e, s2) | Crash x => (Crash x, s2) | Hang => (Hang, s2)
          end
      | Err e => (Err e, s1) | Crash x => (Crash x, s1) | Hang => (Hang, s1)
      end
  end.

(* while res.pfb.fmt == MoreInformation: ... *)
Fixpoint i_recv_loop (fuel' fuel : nat) (c : cfg) (s : st) (pni : Z) (res0 : dpd) (acc : list Z) (timeout : Z) : M (list Z * Z) :=
  if negb (rfmt res0 =? 1) then (Ok (acc, pni), s) else
  match fuel' with
  | O => (Hang, s)
  | S f =>
      let (r1, s1) := i_sdr fuel c s pni 4 pni [] (crwt c) timeout in
      match r1 with
      | Ok res1 =>
          let (r2, s2) := i_after_rtox fuel c s1 pni res1 timeout in
          match r2 with
          | Ok res2 =>
              if negb ((rfmt res2 =? 0) || (rfmt res2 =? 1)) then (Err ProtocolError, s2)   (* chaining not continued *)
              else if negb (rpni res2 =? pni) then (Err ProtocolError, s2)
              else i_recv_loop f fuel c s2 (Z.land (pni + 1) 3) res2 (acc ++ rdata res2) timeout
          | Err e => (Err e, s2) | Crash x => (Crash x, s2) | Hang => (Hang, s2)
          end
      | Err e => (Err e, s1) | Crash x => (Crash x, s1) | Hang => (Hang, s1)
      end
  end.

(* Initiator.exchange(send_data, timeout) -> (received data, self.pni afterwards) *)
Definition i_exchange (fuel : nat) (c : cfg) (s : st) (pni : Z) (send_data : list Z) (timeout : Z) : M (list Z * Z) :=
  match send_data with
  | [] => (Crash Unbound, s)                                           (* `res` is never assigned *)
  | _ =>
      let (r, s1) := i_send_loop fuel fuel c s pni send_data timeout in
      match r with
      | Ok (res1, pni1) =>
          if negb ((rfmt res1 =? 0) || (rfmt res1 =? 1)) then (Err ProtocolError, s1)      (* expected INF after sending *)
          else i_recv_loop fuel fuel c s1 pni1 res1 (rdata res1) timeout
      | Err e => (Err e, s1) | Crash x => (Crash x, s1) | Hang => (Hang, s1)
      end
  end.

(* ---------------------------------------------------------------- Target *)
(* what Target.send_res_recv_req returns: None, or the decoded request *)
Inductive treq :=
| TDep (d : dpd)                       (* DEP_REQ *)
| TDsl (did : option Z) | TRls (did : option Z)
| TOther (did : Z).                    (* ATR_REQ / PSL_REQ: only .did is looked at *)

Definition treq_did (q : treq) : option Z :=
  match q with TDep d => rdid d | TDsl x | TRls x => x | TOther x => Some x end.
Definition oeqb (a b : option Z) : bool :=
  match a, b with Some x, Some y => x =? y | None, None => true | _, _ => false end.

(* `if frame: req = self.decode_frame(frame)` *)
Definition t_decode (c : cfg) (rsp : list Z) (s' : st) : M (option treq) :=
  match rsp with
  | [] => (Ok None, s')
  | _ =>
      match decode_frame Tgt (c106 c) rsp with
      | Ok (Some (DepPdu true fm _ _ p d _ dt)) => (Ok (Some (TDep (mkdpd fm p d dt))), s')
      | Ok (Some (DslPdu true d)) => (Ok (Some (TDsl d)), s')
      | Ok (Some (RlsPdu true d)) => (Ok (Some (TRls d)), s')
      | Ok (Some (AtrReq _ d _ _ _ _)) => (Ok (Some (TOther d)), s')
      | Ok (Some (PslReq d _ _)) => (Ok (Some (TOther d)), s')
      | Ok (Some _) => (Crash AttributeErr, s')
      | Ok None => (Crash AttributeErr, s')
      | Err e => (Err e, s')
      | Crash x => (Crash x, s')
      | Hang => (Hang, s')
      end
  end.

(* send_res_recv_req(res, deadline): `frame` = the encoded response or None; the frontend is asked again after a
   TransmissionError (with frame = None); an empty frame is "nothing received" *)
Fixpoint t_listen (fuel : nat) (c : cfg) (s : st) (frame : option (list Z)) (deadline : Z) : M (option treq) :=
  match fuel with
  | O => (Hang, s)
  | S f =>
      let t := if now s <? deadline then deadline - now s else 0 in
      let (r, s') := xchg c s frame t in
      match r with
      | Err TransmissionError => t_listen f c s' None deadline
      | Ok rsp => t_decode c rsp s'
      | Err e => (Err e, s')
      | Crash x => (Crash x, s')
      | Hang => (Hang, s')
      end
  end.

(* inj = self.cmd: the command received during activation is used instead of asking the frontend (nothing is sent) *)
Definition t_send (fuel : nat) (c : cfg) (s : st) (inj : option (list Z)) (res : option (Z * Z * list Z)) (deadline : Z) : M (option treq) :=
  match inj with
  | Some f => t_decode c f s
  | None =>
      match res with
      | None => t_listen fuel c s None deadline
      | Some (fmt, pni, data) =>
          match enc_dep false c (cdid c) (cnad c) fmt pni data with
          | Ok frame => t_listen fuel c s (Some frame) deadline
          | Err e => (Err e, s) | Crash x => (Crash x, s) | Hang => (Hang, s)
          end
      end
  end.

(* a DSL_RES / RLS_RES frame: PDU_CODE + did *)
Definition enc_rel (c : cfg) (rls : bool) : list Z :=
  let body := [213; if rls then 11 else 9] ++ optl (cdid c) in
  (if c106 c then [240] else []) ++ [len body + 1] ++ body.

(* send_dep_res_recv_dep_req(dep_res, deadline): self_pni = self.pni (None before the first command);
   returns None (released / nothing received) or the DEP_REQ to act on *)
Fixpoint t_sdr (fuel' fuel : nat) (c : cfg) (s : st) (inj : option (list Z)) (self_pni : option Z) (dep_res res : option (Z * Z * list Z)) (deadline : Z)
  : M (option dpd) :=
  match fuel' with
  | O => (Hang, s)
  | S f =>
      let (r, s') := t_send fuel c s inj res deadline in
      match r with
      | Ok None => (Ok None, s')
      | Ok (Some q) =>
          if negb (oeqb (treq_did q) (cdid c)) then t_sdr f fuel c s' None self_pni dep_res None deadline
          else match q with
               | TDsl _ => let (r2, s2) := t_listen fuel c s' (Some (enc_rel c false)) 0 in
                           match r2 with Ok _ => (Ok None, s2) | Err e => (Err e, s2) | Crash x => (Crash x, s2) | Hang => (Hang, s2) end
               | TRls _ => let (r2, s2) := t_listen fuel c s' (Some (enc_rel c true)) 0 in
                           match r2 with Ok _ => (Ok None, s2) | Err e => (Err e, s2) | Crash x => (Crash x, s2) | Hang => (Hang, s2) end
               | TDep d =>
                   if rfmt d =? 8 then t_sdr f fuel c s' None self_pni dep_res (Some (8, 0, [])) deadline           (* ATN *)
                   else if rfmt d =? 5 then t_sdr f fuel c s' None self_pni dep_res dep_res deadline                 (* NAK *)
                   else if rfmt d =? 9 then
                     (match dep_res with
                      | Some (9, _, _) => (Ok (Some d), s')
                      | _ => t_sdr f fuel c s' None self_pni dep_res dep_res deadline
                      end)
                   else if oeqb (Some (rpni d)) self_pni then t_sdr f fuel c s' None self_pni dep_res dep_res deadline
                   else (Ok (Some d), s')
               | TOther _ => t_sdr f fuel c s' None self_pni dep_res None deadline
               end
      | Err e => (Err e, s') | Crash x => (Crash x, s') | Hang => (Hang, s')
      end
  end.

(* the chained-response loop of Target.exchange *)
Fixpoint t_send_loop (fuel' fuel : nat) (c : cfg) (s : st) (pni : Z) (data : list Z) (deadline : Z) : M (option (dpd * Z)) :=
  match fuel' with
  | O => (Hang, s)
  | S f =>
      let chunk := take (cmiu c) data in
      let more := cmiu c <? len data in
      let res := Some ((if more then 1 else 0), pni, chunk) in
      let (r, s1) := t_sdr fuel fuel c s None (Some pni) res res deadline in
      match r with
      | Ok None => (Ok None, s1)
      | Ok (Some req) =>
          if more && negb (rfmt req =? 4) then (Err ProtocolError, s1)                       (* expected ACK in chaining *)
          else let pni' := Z.land (pni + 1) 3 in
               if negb (rpni req =? pni') then (Err ProtocolError, s1)
               else let rest := drop (cmiu c) data in
                    if nonempty rest then t_send_loop f fuel c s1 pni' rest deadline else (Ok (Some (req, pni')), s1)
      | Err e => (Err e, s1) | Crash x => (Crash x, s1) | Hang => (Hang, s1)
      end
  end.

(* while req.pfb.fmt == MoreInformation: ... *)
Fixpoint t_recv_loop (fuel' fuel : nat) (c : cfg) (s : st) (pni : Z) (req : dpd) (acc : list Z) (deadline : Z) : M (option (list Z * Z)) :=
  if negb (rfmt req =? 1) then (Ok (Some (acc ++ rdata req, pni)), s) else
  match fuel' with
  | O => (Hang, s)
  | S f =>
      let res := Some (4, pni, []) in
      let (r, s1) := t_sdr fuel fuel c s None (Some pni) res res deadline in
      match r with
      | Ok None => (Ok None, s1)
      | Ok (Some req1) =>
          let pni' := Z.land (pni + 1) 3 in
          if negb (rpni req1 =? pni') then (Err ProtocolError, s1)
          else t_recv_loop f fuel c s1 pni' req1 (acc ++ rdata req) deadline
      | Err e => (Err e, s1) | Crash x => (Crash x, s1) | Hang => (Hang, s1)
      end
  end.

(* Target.exchange(send_data, timeout).  first = Some frame (self.cmd): the first call, the command received during activation is
   injected (send_data is None); otherwise send_data must not be empty (ValueError is the documented argument check) *)
Definition t_exchange (fuel : nat) (c : cfg) (s : st) (self_pni : option Z) (first : option (list Z)) (send_data : list Z) (timeout : Z)
  : M (option (list Z * Z)) :=
  let deadline := now s + timeout in
  match first with
  | Some cmd =>
    let (r, s1) := t_sdr fuel fuel c s (Some cmd) self_pni None None deadline in
    match r with
    | Ok None => (Ok None, s1)
    | Ok (Some req) => t_recv_loop fuel fuel c s1 0 req [] deadline
    | Err e => (Err e, s1) | Crash x => (Crash x, s1) | Hang => (Hang, s1)
    end
  | None =>
    match send_data, self_pni with
    | [], _ => (Err ValueError, s)
    | _, None => (Crash TypeErr, s)                                    (* self.pni is None before the first command *)
    | _, Some pni =>
        let (r, s1) := t_send_loop fuel fuel c s pni send_data deadline in
        match r with
        | Ok None => (Ok None, s1)
        | Ok (Some (req, pni1)) => t_recv_loop fuel fuel c s1 pni1 req [] deadline
        | Err e => (Err e, s1) | Crash x => (Crash x, s1) | Hang => (Hang, s1)
        end
    end
  end.

(* ---------------------------------------------------------------- Target._deactivate(data): the release phase *)
(* deadline = time.time() + 1.0 is fixed once; while time.time() < deadline: answer DEP requests (ATN with ATN, anything else
   with an information PDU carrying `data`), ignore what is not for this device, finish on DSL_REQ / RLS_REQ, on silence and
   on every CommunicationError.  grace = the 1.0 s in time units. *)
Fixpoint t_deact_loop (fuel' fuel : nat) (c : cfg) (s : st) (res : option (Z * Z * list Z)) (data : list Z) (deadline : Z) : M unit :=
  if negb (now s <? deadline) then (Ok tt, s) else
  match fuel' with
  | O => (Hang, s)
  | S f =>
      let (r, s') := t_send fuel c s None res deadline in
      match r with
      | Err _ => (Ok tt, s')                                          (* except nfc.clf.CommunicationError: return *)
      | Ok None => (Ok tt, s')
      | Ok (Some q) =>
          if oeqb (treq_did q) (cdid c) then
            match q with
            | TDsl _ | TRls _ =>
                let rls := match q with TRls _ => true | _ => false end in
                let (r2, s2) := t_listen fuel c s' (Some (enc_rel c rls)) 0 in
                match r2 with Crash x => (Crash x, s2) | Hang => (Hang, s2) | _ => (Ok tt, s2) end
            | TDep d =>
                if rfmt d =? 8 then t_deact_loop f fuel c s' (Some (8, 0, [])) data deadline
                else t_deact_loop f fuel c s' (Some (0, rpni d, data)) data deadline
            | TOther _ => t_deact_loop f fuel c s' None data deadline
            end
          else t_deact_loop f fuel c s' None data deadline
      | Crash x => (Crash x, s')
      | Hang => (Hang, s')
      end
  end.

Definition t_deactivate (fuel : nat) (c : cfg) (s : st) (data : list Z) (grace : Z) : M unit :=
  t_deact_loop fuel fuel c s None data (now s + grace).

(* the number of responses (frames, not mere listens) handed to the frontend *)
Definition nresp (s : st) : nat := length (filter (fun e => isome (fst e)) (sent s)).
