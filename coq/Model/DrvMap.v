(* C13 - hand model of the status -> exception maps of the contactless drivers
   (pn53x.py Chipset.chipset_error / in_communicate_thru / in_data_exchange / tg_* and
    Device.send_cmd_recv_rsp / send_rsp_recv_cmd; pn533/rcs956 register commands;
    rcs380.py CommunicationError / StatusError and Device.send_cmd_recv_rsp / send_rsp_recv_cmd;
    udp.py _recv_data), for the tree with the C13 repairs applied.  Definitions only. *)
From Coq Require Import ZArith List Bool.
Import ListNotations.
Open Scope Z_scope.

(* what can come out of ContactlessFrontend.exchange *)
Inductive exc :=
| XTimeout | XBrokenLink | XTransmission | XProtocol          (* nfc.clf.CommunicationError subclasses *)
| XIOError (errno : Z)                                        (* IOError / OSError *)
| XChipset (errno : Z)                                        (* pn53x.Chipset.Error        (driver internal) *)
| XRcsComm (status : Z)                                       (* rcs380.CommunicationError  (driver internal) *)
| XRcsStatus (status : Z)                                     (* rcs380.StatusError         (driver internal) *)
| XIndexError | XStructError | XTypeError | XValueError.      (* unintended Python exceptions *)

Inductive out :=
| OData            (* the exchange goes on / returns received data *)
| ONone            (* returns None *)
| ORaise (e : exc).

(* the documented outcomes (property C13) *)
Definition documented (e : exc) : bool :=
  match e with XTimeout | XBrokenLink | XTransmission | XProtocol | XIOError _ => true | _ => false end.
Definition allowed (o : out) : bool :=
  match o with OData | ONone => true | ORaise e => documented e end.

(* ------------------------------------------------------------------ PN53x family *)
(* host commands of an exchange, by the way their response payload is interpreted *)
Inductive pn_cmd :=
| InCommunicateThru | InDataExchange | TgGetInitiatorCommand | TgResponseToInitiator
| Reg533            (* PN533 ReadRegister / WriteRegister: first byte is a status *)
| WriteReg956       (* RC-S956 WriteRegister: all status bytes must be zero *)
| NoStatus.         (* PN531/PN532/RC-S956 ReadRegister, PN531/PN532 WriteRegister, RFConfiguration *)

Inductive chip := CGood | CErr (errno : Z).

Fixpoint zsum (l : list Z) : Z := match l with [] => 0 | x :: t => x + zsum t end.

(* chipset method applied to the payload that follows the response code *)
Definition chip_result (c : pn_cmd) (payload : list Z) : chip :=
  match c with
  | InCommunicateThru | TgGetInitiatorCommand | TgResponseToInitiator | Reg533 =>
      match payload with
      | [] => CErr 255                                   (* chipset_error of an empty response *)
      | st :: _ => if st =? 0 then CGood else CErr st
      end
  | InDataExchange =>
      match payload with
      | [] => CErr 255
      | st :: _ => if Z.land st 63 =? 0 then CGood else CErr (Z.land st 63)
      end
  | WriteReg956 => if zsum payload =? 0 then CGood else CErr 254
  | NoStatus => CGood
  end.

Inductive dir := Initiator | Target.      (* send_cmd_recv_rsp | send_rsp_recv_cmd *)

Definition ETIMEDOUT := 110.

(* except Chipset.Error handlers *)
Definition pn53x_error_map (d : dir) (errno : Z) : exc :=
  match d with
  | Initiator => if errno =? 1 then XTimeout else XTransmission
  | Target => if (errno =? 10) || (errno =? 41) || (errno =? 49) then XBrokenLink else XTransmission
  end.
(* except IOError handlers *)
Definition pn53x_ioerror_map (d : dir) (errno : Z) : exc :=
  if errno =? ETIMEDOUT then XTimeout else XIOError errno.

(* response payload of host command c during an exchange in direction d *)
Definition pn53x_status_outcome (d : dir) (c : pn_cmd) (payload : list Z) : out :=
  match chip_result c payload with
  | CGood => OData
  | CErr n => ORaise (pn53x_error_map d n)
  end.
(* application level error frame (TFI 7F) instead of a response *)
Definition pn53x_errframe_outcome (d : dir) : out := ORaise (pn53x_error_map d 127).

(* ReadRegister: fewer values than requested registers is chipset_error(None) = 0xFF (repair c13-8);
   the PN533 puts a status byte in front of the values *)
Definition readreg_result (with_status : bool) (nregs : Z) (payload : list Z) : chip :=
  if with_status then
    match payload with
    | [] => CErr 255
    | st :: vals => if st =? 0 then (if Z.of_nat (length vals) <? nregs then CErr 255 else CGood) else CErr st
    end
  else if Z.of_nat (length payload) <? nregs then CErr 255 else CGood.
Definition pn53x_readreg_outcome (d : dir) (with_status : bool) (nregs : Z) (payload : list Z) : out :=
  match readreg_result with_status nregs payload with
  | CGood => OData
  | CErr n => ORaise (pn53x_error_map d n)
  end.

(* Register VALUES reported during the register-programmed paths (repairs c13-10..12).
   read_register delivers exactly one value per requested register (c13-8, c13-10). *)

(* pn53x.Device._tt3_send_rsp_recv_cmd, one polling round: CIU_CommIRq, CIU_DivIRq, then CIU_FIFOLevel,
   then that many CIU_FIFOData values *)
Inductive poll := PollAgain | PollOut (o : out).
Definition tt3_poll (commirq divirq fifo_level : Z) (fifo : list Z) : poll :=
  if negb (Z.land divirq 1 =? 0) then PollOut (ORaise XBrokenLink)          (* external field switched off *)
  else if Z.land commirq 32 =? 0 then PollAgain                             (* RxIRq not set *)
  else if negb ((0 <? fifo_level) && (fifo_level <=? 64)) then PollOut (ORaise XTransmission)
  else match fifo with
       | [] => PollOut (ORaise XIndexError)
       | b :: _ => if b =? Z.of_nat (length fifo) then PollOut OData else PollOut (ORaise XTransmission)
       end.
Definition poll_allowed (p : poll) : bool := match p with PollAgain => true | PollOut o => allowed o end.

(* pn532/pn533 Device._tt1_send_cmd_recv_rsp, register path: CIU_FIFOLevel, then that many CIU_FIFOData values
   holding 9 bits per received byte; crc_ok: result of the CRC_B check on the decoded bytes *)
Definition tt1_decoded_count (level : Z) : Z := (8 * level) / 9.     (* len(range(0, 8*level - 8, 9)) *)
Definition tt1_fifo_outcome (level : Z) (crc_ok : bool) : out :=
  if level =? 0 then ORaise XTimeout
  else if 64 <? level then ORaise XTransmission
  else if tt1_decoded_count level <? 2 then ORaise XTransmission
  else if crc_ok then OData else ORaise XTransmission.

(* ------------------------------------------------------------------ RC-S380 *)
Definition le32 (b0 b1 b2 b3 : Z) : Z := b0 + 256 * b1 + 65536 * b2 + 16777216 * b3.

(* CommunicationError.__eq__(name): bool(errno & bit) (errno is never 0 when raised) *)
Definition has_bit (w m : Z) : bool := negb (Z.land w m =? 0).
Definition RECEIVE_TIMEOUT := 128.     (* 0x00000080 *)
Definition RF_OFF := 1024.             (* 0x00000400 *)

Definition rcs380_comm_map (d : dir) (w : Z) : exc :=
  match d with
  | Initiator => if has_bit w RECEIVE_TIMEOUT then XTimeout else XTransmission
  | Target => if has_bit w RF_OFF then XBrokenLink
              else if has_bit w RECEIVE_TIMEOUT then XTimeout else XTransmission
  end.

(* InCommRF / TgCommRF answered with the 32-bit communication status word w *)
Definition rcs380_status_outcome (d : dir) (w : Z) : out :=
  if w =? 0 then OData else ORaise (rcs380_comm_map d w).

(* the same from the four status bytes as the driver sees them *)
Definition rcs380_bytes_outcome (d : dir) (b0 b1 b2 b3 : Z) : out :=
  if (b0 =? 0) && (b1 =? 0) && (b2 =? 0) && (b3 =? 0) then OData
  else ORaise (rcs380_comm_map d (le32 b0 b1 b2 b3)).

(* InCommRF (initiator) / TgCommRF (target) answered with `payload` after the response code: the status
   word sits at offset 0 / 3; a payload too short to hold it is a PROTOCOL_ERROR (repair c13-9);
   no payload at all makes the driver return None *)
Definition PROTOCOL_ERROR := 1.
Definition rcs380_payload_outcome (d : dir) (payload : list Z) : out :=
  let off := match d with Initiator => 0%nat | Target => 3%nat end in
  match payload with
  | [] => ONone
  | _ => if Z.of_nat (length payload) <? Z.of_nat off + 4 then ORaise (rcs380_comm_map d PROTOCOL_ERROR)
         else match skipn off payload with
              | b0 :: b1 :: b2 :: b3 :: _ => rcs380_bytes_outcome d b0 b1 b2 b3
              | _ => ORaise XStructError
              end
  end.

(* InSetRF / InSetProtocol answered with status byte st (StatusError, translated by the repair) *)
Definition rcs380_setup_outcome (st : Z) : out :=
  if st =? 0 then OData else ORaise XTransmission.

(* ------------------------------------------------------------------ UDP *)
(* bytes.split(): maximal runs of non-whitespace *)
Definition is_space (b : Z) : bool :=
  (b =? 32) || (b =? 9) || (b =? 10) || (b =? 13) || (b =? 11) || (b =? 12).
Fixpoint split_ws (cur : list Z) (l : list Z) : list (list Z) :=
  match l with
  | [] => match cur with [] => [] | _ => [rev cur] end
  | b :: t => if is_space b then match cur with [] => split_ws [] t | _ => rev cur :: split_ws [] t end
              else split_ws (b :: cur) t
  end.
Definition is_hexdigit (b : Z) : bool :=
  ((48 <=? b) && (b <=? 57)) || ((65 <=? b) && (b <=? 70)) || ((97 <=? b) && (b <=? 102)).
Definition is_ascii (b : Z) : bool := b <? 128.
Definition starts_rfoff (d : list Z) : bool :=
  match d with 82 :: 70 :: 79 :: 70 :: 70 :: _ => true | _ => false end.
Definition even_len {A} (l : list A) : bool := Nat.even (length l).

Inductive udp_res := UBrokenLink | UTransmission | UFrame (brty payload : list Z).

(* one datagram as classified by udp.Device._recv_data (repaired) *)
Definition udp_classify (d : list Z) : udp_res :=
  if starts_rfoff d then UBrokenLink else
  match split_ws [] d with
  | [brty; payload] =>
      if forallb is_ascii brty && forallb is_hexdigit payload && even_len payload
      then UFrame brty payload else UTransmission
  | _ => UTransmission
  end.
Definition udp_outcome (d : list Z) : out :=
  match udp_classify d with
  | UBrokenLink => ORaise XBrokenLink
  | UTransmission => ORaise XTransmission
  | UFrame _ _ => OData
  end.
