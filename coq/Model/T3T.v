(* NFC Forum Type 3 Tag (src/nfc/tag/tt3.py): the 16-byte attribute block, Type3Tag.NDEF
   _read_attribute_data / _write_attribute_data / _read_ndef_data / _write_ndef_data, the
   Tag.NDEF.octets setter (src/nfc/tag/__init__.py), FeliCa command frames
   (read/write_without_encryption, BlockCode.pack, send_cmd_recv_rsp) and
   Type3TagEmulation.process_command serving an application memory array the way
   examples/tagtool.py does.  A passive tag (environment; the block-level reading of
   harness/sim/tag_t3t4.py SimT3Tag) is the second device the reader can talk to.

   _write_ndef_data is modelled with the repair fixes/c01-tt3-write-batch-frame-limit.diff
   (number of blocks per write command limited to what fits a FeliCa frame) and the C16 repair
   (command errors of the attribute read propagate out of the write); _read_ndef_data and
   send_cmd_recv_rsp with the C08 repairs fixes/c08-07..10 (short responses, Nbr = 0,
   Ln > capacity, at most 15 blocks per read command).
   Definitions only. *)
From Coq Require Import ZArith List Bool.
From NV Require Import Base.Result Base.Bytes Base.PyPrims Proofs.Chunks.
Import ListNotations.
Open Scope Z_scope.

(* ------------------------------------------------------------ attribute block *)
Record attrs := mkAttrs { a_ver : Z; a_nbr : Z; a_nbw : Z; a_nmaxb : Z; a_writef : Z; a_rwflag : Z; a_ln : Z }.
Definition bt (l : list Z) (k : nat) : Z := nth k l 0.

(* _read_attribute_data on the 16 bytes of block 0; None = checksum error *)
Definition attr_parse (d : list Z) : option attrs :=
  if sum (firstn 14 d) =? bt d 14 * 256 + bt d 15 then
    Some (mkAttrs (bt d 0) (bt d 1) (bt d 2) (bt d 3 * 256 + bt d 4) (bt d 9) (bt d 10)
                  (bt d 11 * 65536 + bt d 12 * 256 + bt d 13))
  else None.

(* _write_attribute_data: bytes 5..8 are written as zero; Ln is the low 3 bytes of pack('>I') *)
Definition attr_body (a : attrs) : list Z :=
  [a_ver a; a_nbr a; a_nbw a; a_nmaxb a / 256; a_nmaxb a mod 256; 0; 0; 0; 0; a_writef a; a_rwflag a;
   (a_ln a / 65536) mod 256; (a_ln a / 256) mod 256; a_ln a mod 256].
Definition attr_build (a : attrs) : list Z :=
  let b := attr_body a in b ++ [sum b / 256; sum b mod 256].
Definition set_writef (a : attrs) (w : Z) : attrs :=
  mkAttrs (a_ver a) (a_nbr a) (a_nbw a) (a_nmaxb a) w (a_rwflag a) (a_ln a).
Definition set_ln (a : attrs) (n : Z) : attrs :=
  mkAttrs (a_ver a) (a_nbr a) (a_nbw a) (a_nmaxb a) (a_writef a) (a_rwflag a) n.

(* ------------------------------------------------------------ command frames *)
(* BlockCode(n).pack(): 2-byte element below 256, else 3 bytes little endian *)
Definition blk_elem (bn : Z) : res (list Z) :=
  if bn <? 0 then Crash ValueErr else
  if bn <? 256 then Ok [128; bn] else
  if bn <? 65536 then Ok [0; bn mod 256; bn / 256] else Crash StructErr.
Fixpoint blk_elems (bl : list Z) : res (list Z) :=
  match bl with [] => Ok [] | b :: r => do e <- blk_elem b; do er <- blk_elems r; Ok (e ++ er) end.

(* send_cmd_recv_rsp: bytearray([2+len(idm)+len(cmd_data), cmd_code]) + idm + cmd_data *)
Definition t3_frame (code : Z) (idm body : list Z) : res (list Z) :=
  let n := 2 + len idm + len body in
  if n >? 255 then Crash ValueErr else Ok (n :: code :: idm ++ body).
(* service code list: one service, 000Bh for read / 0009h for write, little endian *)
Definition rd_frame (idm bl : list Z) : res (list Z) :=
  do es <- blk_elems bl;
  if len bl >? 255 then Crash ValueErr else t3_frame 6 idm ([1; 11; 0; len bl] ++ es).
Definition wr_frame (idm bl data : list Z) : res (list Z) :=
  do es <- blk_elems bl;
  if len bl >? 255 then Crash ValueErr else t3_frame 8 idm ([1; 9; 0; len bl] ++ es ++ data).

(* response checks of send_cmd_recv_rsp (send_idm, check_status); responses shorter than 2 / 12 bytes are
   RSP_LENGTH_ERROR (fixes/c08-07) *)
Definition t3_rsp (code : Z) (idm rsp : list Z) : res (list Z) :=
  if (len rsp <? 2) || negb (bt rsp 0 =? len rsp) then Err (TagCommandError 1) else
  if negb (bt rsp 1 =? code + 1) then Err (TagCommandError 2) else
  if negb (list_eqb (slice rsp 2 10) idm) then Err (TagCommandError 3) else
  if len rsp <? 12 then Err (TagCommandError 1) else
  if negb (bt rsp 10 =? 0) then Err (TagCommandError (bt rsp 10 * 256 + bt rsp 11))
  else Ok (drop 12 rsp).

(* ------------------------------------------------------------ reader / writer over a device *)
Inductive fresh := NoNdef | Ndef (readable writeable : bool) (capacity : Z) (data : list Z).

Section Reader.
Variable S : Type.
(* read_from_ndef_service and write_to_ndef_service with block list bl:
   Ok | Err (TagCommandError _) | Crash (raised while building the frame) *)
Variable dev_read : S -> list Z -> res (list Z) * S.
Variable dev_write : S -> list Z -> list Z -> res unit * S.

Definition read_attr (s : S) : res (option attrs) * S :=
  match dev_read s [0] with
  | (Ok d, s1) => (Ok (attr_parse d), s1)
  | (Err _, s1) => (Ok None, s1)
  | (Crash c, s1) => (Crash c, s1)
  | (Hang, s1) => (Hang, s1)
  end.

(* _read_attribute_data as called from _write_ndef_data: a command error propagates (it is no longer
   turned into None), a checksum error still yields None *)
Definition read_attr_w (s : S) : res (option attrs) * S :=
  match dev_read s [0] with
  | (Ok d, s1) => (Ok (attr_parse d), s1)
  | (Err e, s1) => (Err e, s1)
  | (Crash c, s1) => (Crash c, s1)
  | (Hang, s1) => (Hang, s1)
  end.

(* for i in range(1, last, nbr): data += read(range(i, min(i+nbr, last))) *)
Fixpoint rd_loop (fuel : nat) (s : S) (i last nbr : Z) (acc : list Z) : res (option (list Z)) * S :=
  if i <? last then
    match fuel with
    | O => (Hang, s)
    | Datatypes.S f =>
      match dev_read s (zrange i (Z.min (i + nbr) last)) with
      | (Ok d, s1) => rd_loop f s1 (i + nbr) last nbr (acc ++ d)
      | (Err _, s1) => (Ok None, s1)
      | (Crash c, s1) => (Crash c, s1)
      | (Hang, s1) => (Hang, s1)
      end
    end
  else (Ok (Some acc), s).

Definition attr_readable (a : attrs) : bool := (a_writef a =? 0) && (0 <? a_nbr a).
Definition attr_writeable (a : attrs) : bool := negb (a_rwflag a =? 0) && (0 <? a_nbw a).

(* _read_ndef_data (tag.sys = 12FCh) together with what Tag.ndef makes of it *)
Definition read_ndef (s : S) : res fresh * S :=
  match read_attr s with
  | (Ok None, s1) => (Ok NoNdef, s1)
  | (Ok (Some a), s1) =>
    if negb (a_ver a / 16 =? 1) then (Ok NoNdef, s1) else
    if a_nbr a =? 0 then (Ok NoNdef, s1) else                       (* fixes/c08-08 *)
    if a_ln a >? a_nmaxb a * 16 then (Ok NoNdef, s1) else           (* fixes/c08-09 *)
    let last := 1 + (a_ln a + 15) / 16 in
    match rd_loop (Z.to_nat last) s1 1 last (Z.min (a_nbr a) 15) [] with   (* fixes/c08-10: nbr = min(Nbr, 15) *)
    | (Ok None, s2) => (Ok NoNdef, s2)
    | (Ok (Some d), s2) =>
      (Ok (Ndef (attr_readable a) (attr_writeable a) (a_nmaxb a * 16) (take (a_ln a) d)), s2)
    | (Err e, s2) => (Err e, s2) | (Crash c, s2) => (Crash c, s2) | (Hang, s2) => (Hang, s2)
    end
  | (Err e, s1) => (Err e, s1) | (Crash c, s1) => (Crash c, s1) | (Hang, s1) => (Hang, s1)
  end.

(* the data block batches of _write_ndef_data: blocks i .. i+n-1 carry the next 16*n bytes *)
Fixpoint batches (fuel : nat) (i nbw : Z) (data : list Z) : list (list Z * list Z) :=
  match fuel with
  | O => []
  | Datatypes.S f =>
    match data with
    | [] => []
    | _ => let c := take (16 * nbw) data in
           (zrange i (i + len c / 16), c) :: batches f (i + nbw) nbw (drop (16 * nbw) data)
    end
  end.

Definition pad16 (data : list Z) : list Z := data ++ repeat 0 (Z.to_nat ((- len data) mod 16)).
(* repaired: nbw = min(attributes['nbw'], 13 if last_block_number <= 256 else 12) *)
Definition wr_batch (a : attrs) (n : Z) : Z :=
  Z.min (a_nbw a) (if 1 + (n + 15) / 16 <=? 256 then 13 else 12).

Definition plan_head (a : attrs) : list Z * list Z := ([0], attr_build (set_writef a 15)).
Definition plan_data (a : attrs) (data : list Z) : list (list Z * list Z) :=
  batches (length (pad16 data)) 1 (wr_batch a (len data)) (pad16 data).
Definition plan_tail (a : attrs) (data : list Z) : list Z * list Z :=
  ([0], attr_build (set_ln (set_writef a 0) (len data))).
Definition t3_plan (a : attrs) (data : list Z) : list (list Z * list Z) :=
  plan_head a :: plan_data a data ++ [plan_tail a data].

Fixpoint run_cmds (s : S) (cs : list (list Z * list Z)) : res unit * S :=
  match cs with
  | [] => (Ok tt, s)
  | (bl, d) :: r => match dev_write s bl d with (Ok _, s1) => run_cmds s1 r | (e, s1) => (e, s1) end
  end.

(* _write_ndef_data *)
Definition write_ndef (s : S) (data : list Z) : res unit * S :=
  match read_attr_w s with
  | (Ok None, s1) => (Crash TypeErr, s1)               (* checksum error: None['writef'] = 0x0F *)
  | (Ok (Some a), s1) =>
    if wr_batch a (len data) =? 0 then                  (* range(1, last, 0) after the first attribute write *)
      match run_cmds s1 [plan_head a] with (Ok _, s2) => (Crash RangeStep0, s2) | (e, s2) => (e, s2) end
    else run_cmds s1 (t3_plan a data)
  | (Err e, s1) => (Err e, s1) | (Crash c, s1) => (Crash c, s1) | (Hang, s1) => (Hang, s1)
  end.

(* tag.ndef.octets = data on an NDEF object obtained before *)
Definition set_octets (f : fresh) (s : S) (data : list Z) : res unit * S :=
  match f with
  | NoNdef => (Crash AttributeErr, s)                  (* tag.ndef is None *)
  | Ndef _ w cap _ =>
    if negb w then (Crash AttributeErr, s)              (* raise AttributeError("... not writeable") *)
    else if len data >? cap then (Err ValueError, s)
    else write_ndef s data
  end.
End Reader.

(* ------------------------------------------------------------ passive tag (environment) *)
Record ptag := mkPtag {
  p_mem : list Z;                    (* 16 bytes per block, block 0 first *)
  p_maxr : Z; p_maxw : Z;            (* blocks per read / write command the tag accepts *)
  p_rw : bool;                       (* service 0009h present *)
  p_budget : Z;                      (* power is cut after this many state-changing commands; < 0 = never *)
  p_log : list (list Z * list Z)     (* state-changing commands, latest first *)
}.
Definition p_idm : list Z := [1; 2; 3; 4; 5; 6; 7; 8].
Definition p_dead (t : ptag) : bool := p_budget t =? 0.
Definition nblocks (m : list Z) : Z := len m / 16.
Definition blk_ok (m : list Z) (b : Z) : bool := (0 <=? b) && (b <? nblocks m).
Definition blk_get (m : list Z) (b : Z) : list Z := slice m (16 * b) (16 * b + 16).
Fixpoint blks_put (m : list Z) (bl : list Z) (data : list Z) : list Z :=
  match bl with [] => m | b :: r => blks_put (splice m (16 * b) (take 16 data)) r (drop 16 data) end.

Definition p_read (t : ptag) (bl : list Z) : res (list Z) * ptag :=
  match rd_frame p_idm bl with
  | Ok _ =>
    if p_dead t then (Err (TagCommandError 0), t) else
    if (1 <=? len bl) && (len bl <=? p_maxr t) && forallb (blk_ok (p_mem t)) bl
    then (Ok (flat_map (blk_get (p_mem t)) bl), t) else (Err (TagCommandError 65535), t)
  | Err e => (Err e, t) | Crash c => (Crash c, t) | Hang => (Hang, t)
  end.
Definition p_write (t : ptag) (bl data : list Z) : res unit * ptag :=
  match wr_frame p_idm bl data with
  | Ok _ =>
    if p_dead t then (Err (TagCommandError 0), t) else
    if p_rw t && (1 <=? len bl) && (len bl <=? p_maxw t) && forallb (blk_ok (p_mem t)) bl && (len data =? 16 * len bl)
    then (Ok tt, mkPtag (blks_put (p_mem t) bl data) (p_maxr t) (p_maxw t) (p_rw t)
                        (if p_budget t <? 0 then p_budget t else p_budget t - 1) ((bl, data) :: p_log t))
    else (Err (TagCommandError 65535), t)
  | Err e => (Err e, t) | Crash c => (Crash c, t) | Hang => (Hang, t)
  end.

Definition pt_read_ndef := read_ndef ptag p_read.
Definition pt_write_ndef := write_ndef ptag p_read p_write.
Definition pt_set_octets := set_octets ptag p_read p_write.
Definition pt_fresh (m : list Z) (maxr maxw : Z) (rw : bool) : res fresh :=
  fst (pt_read_ndef (mkPtag m maxr maxw rw (-1) [])).

(* ------------------------------------------------------------ Type3TagEmulation *)
Definition e_idm : list Z := [3; 254; 1; 2; 3; 4; 5; 6].
Definition e_pmm : list Z := [255; 255; 255; 255; 255; 255; 255; 255].
Definition e_sys : list Z := [18; 252].

(* the application's services (examples/tagtool.py): 0009h (read, write), 000Bh (read, lambda: False) *)
Definition svc_known (sc : Z) : bool := (sc =? 9) || (sc =? 11).
Definition app_read (mem : list Z) (bn : Z) : option (list Z) :=
  if 16 * bn <? len mem then Some (slice mem (16 * bn) (16 * bn + 16)) else None.
Definition app_write (mem : list Z) (bn : Z) (d : list Z) : option (list Z) :=
  if 16 * bn <? len mem then Some (take (16 * bn) mem ++ d ++ drop (16 * bn + 16) mem) else None.

(* service list: n entries of 2 bytes; None = status FF A1 *)
Fixpoint parse_svcs (n : nat) (cd : list Z) (acc : list Z) : res (option (list Z * list Z)) :=
  match n with
  | O => Ok (Some (rev acc, cd))
  | Datatypes.S n' =>
    do c1 <- idx cd 1; do c0 <- idx cd 0;
    let sc := c1 * 256 + c0 in
    if svc_known sc then parse_svcs n' (drop 2 cd) (sc :: acc) else Ok None
  end.
(* block list: inl (entries (service code, block number), rest) | inr i = status (1 << i%8) A3 *)
Fixpoint parse_blks (n : nat) (i : Z) (svcs : list Z) (cd : list Z) (acc : list (Z * Z))
  : res (list (Z * Z) * list Z + Z) :=
  match n with
  | O => Ok (inl (rev acc, cd))
  | Datatypes.S n' =>
    match cd with
    | [] => Ok (inr i)
    | c0 :: _ =>
      match nth_error svcs (Z.to_nat (Z.land c0 15)) with
      | None => Ok (inr i)
      | Some sc =>
        if c0 >=? 128 then do bn <- idx cd 1; parse_blks n' (i + 1) svcs (drop 2 cd) ((sc, bn) :: acc)
        else do c2 <- idx cd 2; do c1 <- idx cd 1;
             parse_blks n' (i + 1) svcs (drop 3 cd) ((sc, c2 * 256 + c1) :: acc)
      end
    end
  end.
Definition pow2 (i : Z) : Z := 2 ^ (i mod 8).

Fixpoint emu_rd_blocks (mem : list Z) (i : Z) (bl : list (Z * Z)) (acc : list Z) : list Z :=
  match bl with
  | [] => [0; 0; len acc / 16] ++ acc
  | (_, bn) :: r => match app_read mem bn with None => [pow2 i; 162] | Some d => emu_rd_blocks mem (i + 1) r (acc ++ d) end
  end.
Definition emu_read (mem : list Z) (cd : list Z) : res (list Z) :=
  do n <- idx cd 0;
  do sv <- parse_svcs (Z.to_nat n) (drop 1 cd) [];
  match sv with
  | None => Ok [255; 161]
  | Some (svcs, cd1) =>
    do nb <- idx cd1 0;
    if nb >? 15 then Ok [255; 162] else
    do pb <- parse_blks (Z.to_nat nb) 0 svcs (drop 1 cd1) [];
    match pb with
    | inr i => Ok [pow2 i; 163]
    | inl (bl, _) => Ok (emu_rd_blocks mem 0 bl [])
    end
  end.

Fixpoint emu_wr_blocks (mem : list Z) (i : Z) (bl : list (Z * Z)) (data : list Z) : res (list Z) * list Z :=
  match bl with
  | [] => (Ok [0; 0], mem)
  | (sc, bn) :: r =>
    if sc =? 9 then
      match app_write mem bn (slice data (16 * i) (16 * i + 16)) with
      | None => (Ok [pow2 i; 162], mem)
      | Some mem1 => emu_wr_blocks mem1 (i + 1) r data
      end
    else (Crash TypeErr, mem)                           (* (lambda: False)(bn, data, wb, we) *)
  end.
Definition emu_write (mem : list Z) (cd : list Z) : res (list Z) * list Z :=
  match (do n <- idx cd 0;
         do sv <- parse_svcs (Z.to_nat n) (drop 1 cd) [];
         match sv with
         | None => Ok (inl [255; 161])
         | Some (svcs, cd1) =>
           do nb <- idx cd1 0;
           do pb <- parse_blks (Z.to_nat nb) 0 svcs (drop 1 cd1) [];
           match pb with
           | inr i => Ok (inl [pow2 i; 163])
           | inl (bl, rest) => if negb (len rest mod 16 =? 0) then Ok (inl [255; 162]) else Ok (inr (bl, rest))
           end
         end) with
  | Ok (inl st) => (Ok st, mem)
  | Ok (inr (bl, rest)) => emu_wr_blocks mem 0 bl rest
  | Err e => (Err e, mem) | Crash c => (Crash c, mem) | Hang => (Hang, mem)
  end.

Definition emu_wrap (code : Z) (r : res (list Z)) : res (option (list Z)) :=
  do rsp <- r;
  if 10 + len rsp >? 255 then Crash ValueErr else Ok (Some (10 + len rsp :: code :: e_idm ++ rsp)).

(* process_command(cmd) -> response frame | None, and the application memory afterwards *)
Definition emu_process (mem : list Z) (cmd : list Z) : res (option (list Z)) * list Z :=
  match idx cmd 0 with
  | Ok c0 =>
    if negb (len cmd =? c0) then (Ok None, mem) else
    if list_eqb (take 4 cmd) [6; 0; 255; 255] || list_eqb (take 4 cmd) ([6; 0] ++ e_sys) then
      match idx cmd 4 with
      | Ok rc => let rsp := if rc =? 1 then e_idm ++ e_pmm ++ e_sys else e_idm ++ e_pmm in
                 (Ok (Some (2 + len rsp :: 1 :: rsp)), mem)
      | Err e => (Err e, mem) | Crash c => (Crash c, mem) | Hang => (Hang, mem)
      end
    else if list_eqb (slice cmd 2 10) e_idm then
      let c1 := bt cmd 1 in
      if c1 =? 4 then (emu_wrap 5 (Ok [0]), mem)
      else if c1 =? 6 then (emu_wrap 7 (emu_read mem (drop 10 cmd)), mem)
      else if c1 =? 8 then let (r, mem1) := emu_write mem (drop 10 cmd) in (emu_wrap 9 r, mem1)
      else if c1 =? 12 then (emu_wrap 13 (Ok (1 :: e_sys)), mem)
      else (Ok None, mem)
    else (Ok None, mem)
  | Err e => (Err e, mem) | Crash c => (Crash c, mem) | Hang => (Hang, mem)
  end.

(* the reader talking to the emulation through frames; an exception inside the emulation is silence *)
Record emu := mkEmu { e_mem : list Z; e_budget : Z; e_log : list (list Z) (* frames of writes that took effect *) }.
Definition emu_xchg (s : emu) (cmd : list Z) : option (list Z) * emu :=
  if e_budget s =? 0 then (None, s) else
  let (r, mem1) := emu_process (e_mem s) cmd in
  let rsp := match r with Ok (Some x) => Some x | _ => None end in
  let wrote := (bt cmd 1 =? 8) &&
               (negb (list_eqb mem1 (e_mem s)) || match rsp with Some x => bt x 10 =? 0 | None => false end) in
  (rsp, if wrote then mkEmu mem1 (if e_budget s <? 0 then e_budget s else e_budget s - 1) (cmd :: e_log s)
        else mkEmu mem1 (e_budget s) (e_log s)).
(* for retry in range(3): clf.exchange ... TimeoutError -> Type3TagCommandError(TIMEOUT_ERROR) *)
Definition emu_xchg3 (s : emu) (cmd : list Z) : option (list Z) * emu :=
  match emu_xchg s cmd with
  | (Some r, s1) => (Some r, s1)
  | (None, s1) => match emu_xchg s1 cmd with
                  | (Some r, s2) => (Some r, s2)
                  | (None, s2) => emu_xchg s2 cmd
                  end
  end.
Definition e_read (s : emu) (bl : list Z) : res (list Z) * emu :=
  match rd_frame e_idm bl with
  | Ok f =>
    match emu_xchg3 s f with
    | (None, s1) => (Err (TagCommandError 0), s1)
    | (Some rsp, s1) =>
      (do d <- t3_rsp 6 e_idm rsp;
       if negb (len d =? 1 + 16 * len bl) then Err (TagCommandError 4) else Ok (drop 1 d), s1)
    end
  | Err e => (Err e, s) | Crash c => (Crash c, s) | Hang => (Hang, s)
  end.
Definition e_write (s : emu) (bl data : list Z) : res unit * emu :=
  match wr_frame e_idm bl data with
  | Ok f =>
    match emu_xchg3 s f with
    | (None, s1) => (Err (TagCommandError 0), s1)
    | (Some rsp, s1) => (do _ <- t3_rsp 8 e_idm rsp; Ok tt, s1)
    end
  | Err e => (Err e, s) | Crash c => (Crash c, s) | Hang => (Hang, s)
  end.
Definition em_read_ndef := read_ndef emu e_read.
Definition em_write_ndef := write_ndef emu e_read e_write.
Definition em_set_octets := set_octets emu e_read e_write.
Definition em_fresh (m : list Z) : res fresh := fst (em_read_ndef (mkEmu m (-1) [])).
