(* Who verifies CRC_A on a Type A target of the PN53x family (pn53x.Device.sense_tta / send_cmd_recv_rsp /
   _tt2_send_cmd_recv_rsp).  The chip checks and strips CRC_A while RxCRCEn (CIU_RxMode bit 7) is set; sense_tta
   clears the bit for targets that may answer with a 4-bit ACK/NAK, and then the driver has to check it itself.
   Executable definitions only. *)
From Coq Require Import ZArith List Bool.
From NV Require Import Base.Result Base.Bytes Base.PyPrims Model.Crc.
Import ListNotations.
Open Scope Z_scope.

Definition chip_crc_off (sel_res : list Z) : bool := Z.land (pyidx sel_res 0) 96 =? 0.
Definition rxmode_off (rxmode : Z) : Z := Z.land rxmode 127.
Definition sw_crc_path (sel_res : list Z) : bool := Z.land (pyidx sel_res 0) 96 =? 0.

(* _tt2_send_cmd_recv_rsp after in_communicate_thru *)
Definition tt2_rsp (data : list Z) : res (list Z) :=
  if len data >? 2 then
    do ok <- check_crc_a data;
    if ok then Ok (pyslice data 0 (-2)) else Err TransmissionError
  else Ok data.

(* the chip's receiver (PN532 UM, CIU_RxMode.RxCRCEn): an RF frame with a CRC error is reported as error 02h, which
   send_cmd_recv_rsp maps to TransmissionError; a good frame is handed over without its CRC; with the bit cleared the
   frame is handed over as received *)
Definition chip_rx (rxmode : Z) (rf : list Z) : res (list Z) :=
  if Z.testbit rxmode 7 then
    do ok <- check_crc_a rf;
    if ok then Ok (pyslice rf 0 (-2)) else Err TransmissionError
  else Ok rf.

(* the response path of one exchange with a target found by sense_tta (sens_res set, no atr_res, no rid_res);
   rxmode0 is CIU_RxMode as InListPassiveTarget left it *)
Definition type_a_rsp (sel_res : list Z) (rxmode0 : Z) (rf : list Z) : res (list Z) :=
  let rxmode := if chip_crc_off sel_res then rxmode_off rxmode0 else rxmode0 in
  do d <- chip_rx rxmode rf;
  if sw_crc_path sel_res then tt2_rsp d else Ok d.
